(* C11/Properties.v — property theorems only.  Each is closed by [exact lemma] and
   followed by [Print Assumptions].
   Vocabulary (C11/Model.v): [raw_file] = the records of a symbol file per kind in file
   order; [symbolize p rf mbase instr] = parse (SymbolParser::finish …) then
   SymbolFile::fill_symbol for a module loaded at [mbase]; the result holds the arguments
   of set_function / set_source_file / add_inline_frame; [frame_inlines] = StackFrame.inlines
   after fill_source_line_info.  [wf_file] states only what the parser's integer types
   guarantee (u64 addresses, u32 sizes/depths) plus "fewer than 2^32-1 INLINE ranges per FUNC". *)
From Coq Require Import Lia Sorting.Permutation.
From RM Require Import C08.Model C08.Proofs C11.Model C11.Proofs1 C11.Proofs2 C11.Proofs3 C11.Proofs4 C11.Proofs5 C11.Proofs6 C11.Proofs7.
From RM Require C09.Model C09.Grammar C09.Driver C11.Text C11.Text2 C11.Text3 C11.Driver C11.Enc.
From RM Require Import C11.Proofs8 C11.Proofs9 C11.Proofs10.
From RM Require Gen.C11Sym C11.Tie.
From RM Require C11.Prims Gen.C11Src C11.SrcTie.
From RM Require C12.Model C11.Session C11.Proofs11.
Open Scope Z_scope.

(* Parsing and symbolication never panic (overflow in `address + module.base_address()`,
   slice indexing, the unwraps of the range-map builders, the u32 depth counter) and the
   depth loop ends within fuel = number of inlinees — in debug and release builds. *)
Theorem c11_total : forall p rf mbase instr,
  wf_file rf -> 0 <= mbase -> instr < two64 ->
  exists o, symbolize p rf mbase instr = Ret o.
Proof. exact total. Qed.
Print Assumptions c11_total.

(* The reported function is a FUNC record of the file whose range contains the address
   (parameter size: the FUNC's or that of a STACK WIN record covering the address), or a
   PUBLIC at or below the address; function_base <= instruction; nothing below the module. *)
Theorem c11_func_sound : forall p rf mbase instr,
  wf_file rf -> 0 <= mbase -> instr < two64 ->
  exists o, symbolize p rf mbase instr = Ret o /\
    (instr < mbase -> o = empty_out) /\
    forall name base ps, o_func o = Some (name, base, ps) ->
      mbase <= instr /\ base <= instr /\
      ((exists fr, In fr (rf_funcs rf) /\ func_covers fr (instr - mbase) = true /\
          name = fr_name fr /\ base = fr_addr fr + mbase /\
          (ps = fr_psize fr \/
           exists w, In w (rf_win_fd rf ++ rf_win_fpo rf) /\ win_covers w (instr - mbase) = true /\ ps = w_psize w))
       \/ (exists pb, In pb (rf_publics rf) /\ p_addr pb <= instr - mbase /\ name = p_name pb /\
             base = p_addr pb + mbase /\ ps = p_psize pb /\ o_src o = None /\ o_inl o = [])).
Proof. exact func_sound. Qed.
Print Assumptions c11_func_sound.

(* PUBLIC fallback, exactly as the code decides it.  When the FUNC table has no range
   containing the address: the candidate is the greatest PUBLIC (by address, then name,
   then parameter size) whose address is <= addr; it is suppressed iff some entry of the
   FUNC table starts at or after the PUBLIC and at or before addr ([cut_by_func]); every
   table entry is a FUNC record of the file with a non-empty representable range, filed
   under its own address.  Differences from the property text: (1) "FUNC" means an entry
   of the range table — FUNC records that are empty, end past 2^64-1 or were dropped
   because they overlap an earlier-sorted different FUNC do not cut a PUBLIC off;
   (2) a FUNC at the same address as the PUBLIC cuts it off.  For non-overlapping files
   (c11_equals_linear_scan) every valid FUNC record is in the table. *)
Theorem c11_public_rule : forall p rf mbase instr,
  wf_file rf -> 0 <= mbase -> mbase <= instr < two64 ->
  exists st o, build_symtab rf = Ret st /\ symbolize p rf mbase instr = Ret o /\
    (forall r f, In (r, f) (st_funcs st) ->
       exists fr, In fr (rf_funcs rf) /\ f = fin_func true fr /\ fn_addr f = fst r /\
                  mk_range (fr_addr fr) (fr_size fr) <> None) /\
    (rm_get (st_funcs st) (instr - mbase) = None ->
       ((forall q, In q (rf_publics rf) -> instr - mbase < p_addr q) /\ o = empty_out) \/
       (exists pb, In pb (rf_publics rf) /\ p_addr pb <= instr - mbase /\
          (forall q, In q (rf_publics rf) -> p_addr q <= instr - mbase -> pub_lt pb q = false) /\
          ((cut_by_func st pb (instr - mbase) /\ o = empty_out) \/
           (~ cut_by_func st pb (instr - mbase) /\
            o = mk_out (Some (p_name pb, p_addr pb + mbase, p_psize pb)) None [])))).
Proof. exact public_rule. Qed.
Print Assumptions c11_public_rule.

(* source_line_base <= instruction; the line is that of a depth-0 INLINE record of the
   function covering the address (its call site), or — when the lookup finds none — of
   a line record covering it. *)
Theorem c11_line_sound : forall p rf mbase instr,
  wf_file rf -> 0 <= mbase -> instr < two64 ->
  exists o, symbolize p rf mbase instr = Ret o /\
    forall file line base, o_src o = Some (file, line, base) ->
      base <= instr /\
      exists fr, In fr (rf_funcs rf) /\ func_covers fr (instr - mbase) = true /\
        ((exists e0, In e0 (fr_inls fr) /\ inl_covers 0 (instr - mbase) e0 = true /\
                     assoc_last (i_cfile e0) (rf_files rf) = Some file /\ line = i_cline e0 /\
                     base = i_addr e0 + mbase) \/
         (giad_pure (fn_inls (fin_func true fr)) 0 (instr - mbase) = None /\
          exists l, In l (fr_lines fr) /\ line_covers l (instr - mbase) = true /\
                    assoc_last (l_file l) (rf_files rf) = Some file /\ line = l_line l /\
                    base = l_addr l + mbase)).
Proof. exact line_sound. Qed.
Print Assumptions c11_line_sound.

(* The inline frames come from a chain of INLINE records of the function: the k-th has
   depth k and covers the address; the chain ends at the first depth at which the lookup
   finds nothing; it is no longer than the number of INLINE ranges (so the loop stays
   within its fuel); frame k is named by inlinee k and located at the call site recorded
   by inlinee k+1, the last one at the innermost covering line record ([frames_spec]);
   the stack frame lists them reversed, innermost first. *)
Theorem c11_inline_chain : forall p rf mbase instr,
  wf_file rf -> 0 <= mbase -> instr < two64 ->
  exists st o, build_symtab rf = Ret st /\ symbolize p rf mbase instr = Ret o /\
    frame_inlines o = rev (o_inl o) /\
    (o_inl o <> [] ->
     exists fr chain, In fr (rf_funcs rf) /\ func_covers fr (instr - mbase) = true /\
       (forall k e, nth_error chain k = Some e ->
          In e (fr_inls fr) /\ inl_covers (Z.of_nat k) (instr - mbase) e = true) /\
       giad_pure (fn_inls (fin_func true fr)) (Z.of_nat (length chain)) (instr - mbase) = None /\
       (length chain <= length (fr_inls fr))%nat /\
       (forall l, rm_get (fn_lines (fin_func true fr)) (instr - mbase) = Some l ->
          In l (fr_lines fr) /\ line_covers l (instr - mbase) = true) /\
       o_inl o = frames_spec st chain (rm_get (fn_lines (fin_func true fr)) (instr - mbase))).
Proof. exact inline_chain. Qed.
Print Assumptions c11_inline_chain.

(* [frames_spec] spelled out when every origin has a name: one frame per inlinee, frame k =
   (name of inlinee k, call site of inlinee k+1 | innermost line for the last). *)
Theorem c11_inline_frames_named : forall st chain inner,
  (forall e, In e chain -> assoc_last (i_origin e) (st_origins st) <> None) ->
  length (frames_spec st chain inner) = length chain /\
  forall k e, nth_error chain k = Some e ->
    exists nm, assoc_last (i_origin e) (st_origins st) = Some nm /\
      nth_error (frames_spec st chain inner) k =
      Some (match nth_error chain (S k) with
            | Some e' => (nm, assoc_last (i_cfile e') (st_files st), Some (i_cline e'))
            | None => (nm, fst (inner_loc st inner), snd (inner_loc st inner))
            end).
Proof. exact frames_spec_named. Qed.
Print Assumptions c11_inline_frames_named.

(* get_inlinee_at_depth is sound for every inlinee vector, sorted or not. *)
Theorem c11_inlinee_lookup_sound : forall inls depth addr,
  exists r, get_inlinee_at_depth inls depth addr = Ret r /\
    forall e, r = Some e ->
      In e inls /\ i_depth e = depth /\ i_addr e <= addr /\ addr < i_addr e + i_size e /\
      i_addr e + i_size e < two64.
Proof.
  exact (fun inls depth addr => ex_intro _ (giad_pure inls depth addr)
           (conj (giad_ret inls depth addr) (giad_sound inls depth addr))).
Qed.
Print Assumptions c11_inlinee_lookup_sound.

(* For files whose records do not overlap ([non_overlapping]: FUNC ranges pairwise, line ranges
   of a FUNC pairwise, INLINE ranges of one depth of a FUNC pairwise; [a, a+size) with empty
   records occupying nothing) the result equals plain linear scans [find] over the records:
   the FUNC ([ref_func]), its covering line record ([ref_line]), the covering INLINE record at
   depth 0,1,2,… ([ref_chain]), assembled by [ref_fill_func]; without a covering FUNC the
   greatest PUBLIC at or below the address, cut off exactly when a non-empty representable
   FUNC record starts between it and the address.  The parameter size is [ref_psize]: that
   of the STACK WIN frame-data record covering the address, else of the fpo record, else the
   FUNC's ([non_overlapping] includes the records of each STACK WIN table: with disjoint
   records insert_win_stack_info repairs nothing, [win_collect_disjoint]). *)
Theorem c11_equals_linear_scan : forall p rf mbase instr,
  wf_file rf -> non_overlapping rf -> 0 <= mbase -> mbase <= instr < two64 ->
  exists o, symbolize p rf mbase instr = Ret o /\
    match ref_func rf (instr - mbase) with
    | Some fr => o = ref_fill_func rf (ref_psize rf fr (instr - mbase)) mbase (instr - mbase) fr
    | None =>
        ((forall q, In q (rf_publics rf) -> instr - mbase < p_addr q) /\ o = empty_out) \/
        (exists pb, In pb (rf_publics rf) /\ p_addr pb <= instr - mbase /\
           (forall q, In q (rf_publics rf) -> p_addr q <= instr - mbase -> pub_lt pb q = false) /\
           let cut := exists fr, In fr (rf_funcs rf) /\ mk_range (fr_addr fr) (fr_size fr) <> None /\
                                 p_addr pb <= fr_addr fr <= instr - mbase in
           ((cut /\ o = empty_out) \/
            (~ cut /\ o = mk_out (Some (p_name pb, p_addr pb + mbase, p_psize pb)) None [])))
    end.
Proof. exact equals_linear_scan. Qed.
Print Assumptions c11_equals_linear_scan.

(* the three lookups separately: binary searches = linear scans on non-overlapping records *)
Theorem c11_lookups_linear :
  (forall rf x, Forall wf_fraw (rf_funcs rf) -> pairwise func_dj (rf_funcs rf) ->
     rm_get (into_rangemap_safe_p func_eqb (fin_list true (rf_funcs rf))) x =
     option_map (fin_func true) (ref_func rf x)) /\
  (forall ls x, Forall wf_line ls -> pairwise line_dj ls ->
     rm_get (lines_tbl ls) x = find (fun l => line_covers l x) ls) /\
  (forall fr d x, pairwise inl_dj (fr_inls fr) ->
     get_inlinee_at_depth (fn_inls (fin_func true fr)) d x = Ret (ref_inl fr d x)) /\
  (forall ws x, Forall wf_win ws -> pairwise win_dj ws ->
     exists wl, win_collect [] ws = Ret wl /\
       rm_get (into_rangemap_safe_p win_eqb wl) x = find (fun w => win_covers w x) ws).
Proof.
  exact (conj funcs_linear (conj lines_linear (conj
           (fun fr d x H => eq_trans (giad_ret _ d x) (f_equal Ret (inls_linear fr d x H)))
           (fun ws x Hw Hd => ex_intro _ (win_list ws)
              (conj (win_collect_disjoint ws [] (fun _ _ _ _ (F : False) => match F with end) Hd)
                    (win_linear ws x Hw Hd)))))).
Qed.
Print Assumptions c11_lookups_linear.

(* From text (C09's byte-level parser model: [recog_pst] per line, [finish]).  For the lines of
   any symbol text the recogniser accepts and any name map injective on the text's FUNC names:
   the FUNC table of SymbolParser::finish — ranges, Functions, their line tables and sorted
   inlinee vectors — is, name for name, the FUNC table of C11's [build_symtab] over the FUNC
   blocks collected from the text, so the FUNC lookup of fill_symbol on the parsed text returns a
   FUNC block of the text covering the address, finished as in C11 (to which c11_line_sound,
   c11_inline_chain, c11_lookups_linear apply).  _partial: the PUBLIC list, the STACK WIN tables
   and the FILE / INLINE_ORIGIN maps of [finish] are tied to C11's tables by the correspondence
   runs of C09 and C11 only; [wf_text_funcs] (the integer ranges hex_str::<u64>, hex_str::<u32>
   and decimal_u32 guarantee) is a hypothesis, not derived from the recogniser. *)
Theorem c11_from_text_partial : forall nm (lines : list Grammar.rle) q t,
  RM.C09.Model.fold_recog Grammar.rle Grammar.pst Grammar.recog_pst Grammar.lineno_pst Grammar.init_pst lines = inl q ->
  Grammar.finish q = Ret t -> Text.wf_text_funcs nm q -> Text.names_injective nm q ->
  map (Text.GF nm) (Grammar.t_funcs t) =
    into_rangemap_safe_p func_eqb (fin_list true (map (Text.raw_of_func nm) (Text.funcs_of_pst q))) /\
  forall x sf, rm_get (Grammar.t_funcs t) x = Some sf ->
    exists fr, In fr (Text.funcs_of_pst q) /\ func_covers (Text.raw_of_func nm fr) x = true /\
               Text.func_of_sfunc nm sf = fin_func true (Text.raw_of_func nm fr) /\
               0 <= Grammar.fr_addr fr <= x.
Proof. exact Text.from_text_funcs. Qed.
Print Assumptions c11_from_text_partial.

(* Symbolizer level (walk_stack -> fill_source_line_info -> Symbolizer::fill_symbol): for a module
   list (C08's [build_indexed] table over the modules' memory_range()) with per-module symbol
   tables, the frame is SymbolFile::fill_symbol of the module found by C08's lookup, at that
   module's base, with the inlines reversed; the module found contains the instruction (C08's
   lookup soundness), hence base <= instruction; the index is always valid; a module without
   symbols is attached with nothing filled in. *)
Theorem c11_module_lookup_compose : forall p (mods : list module) instr,
  Forall wf_module mods ->
  exists tbl, mod_table mods = Ret tbl /\
    match rm_get tbl instr with
    | None => frame_of p tbl mods instr = Ret None
    | Some idx =>
        exists b sz ost r, 0 <= idx /\ nth_error mods (Z.to_nat idx) = Some (b, sz, ost) /\
          mk_range b sz = Some r /\ contains r instr = true /\ b <= instr /\
          frame_of p tbl mods instr =
            match ost with
            | Some st => do o <- fill_symbol p st b instr;
                         Ret (Some (idx, mk_out (o_func o) (o_src o) (rev (o_inl o))))
            | None => Ret (Some (idx, empty_out))
            end
    end.
Proof. exact module_lookup_compose. Qed.
Print Assumptions c11_module_lookup_compose.

(* ... and when every module's table was parsed from a (well-formed) file it never panics:
   the frame is the pure result [fill_pure] (the function all other theorems describe). *)
Theorem c11_module_frame_total : forall p (mods : list module) instr,
  Forall wf_module mods -> Forall module_parsed mods -> instr < two64 ->
  exists tbl, mod_table mods = Ret tbl /\
    frame_of p tbl mods instr =
      Ret (match rm_get tbl instr with
           | None => None
           | Some idx =>
               match nth_error mods (Z.to_nat idx) with
               | Some (b, _, Some st) =>
                   let o := fill_pure st b instr in Some (idx, mk_out (o_func o) (o_src o) (rev (o_inl o)))
               | _ => Some (idx, empty_out)
               end
           end).
Proof. exact module_frame_total. Qed.
Print Assumptions c11_module_frame_total.

(* From text, whole table.  For the lines of any symbol text the recogniser of C09/Grammar.v accepts,
   [t] = SymbolParser::finish of the parser state, a name map [nm] and a tag map [tg] satisfying
   [enc_ok] (nm injective on the FUNC names and order-preserving on the PUBLIC names of the text; tg
   a function of the STACK WIN fields other than address/size/parameter size that separates the
   records of the text; the integer fields in the range their recognisers guarantee): the table
   [symtab_of_table t] (FILE / INLINE_ORIGIN maps, sorted PUBLIC list, FUNC table, both STACK WIN
   tables of [finish]) is related by [st_rel] to the records collected from the text, and
   fill_symbol on it IS [symbolize] on those records — so every theorem above is a theorem about
   the text.  ([c11_table_interface] is the general form: any table related to the records.) *)
Theorem c11_from_text : forall nm tg (lines : list Grammar.rle) q t,
  RM.C09.Model.fold_recog Grammar.rle Grammar.pst Grammar.recog_pst Grammar.lineno_pst Grammar.init_pst lines = inl q ->
  Grammar.finish q = Ret t -> Text2.enc_ok nm tg q ->
  st_rel true (Text2.raw_of_pst nm tg q) (Text2.symtab_of_table nm tg t) /\
  forall p mbase instr, 0 <= mbase -> instr < two64 ->
    fill_symbol p (Text2.symtab_of_table nm tg t) mbase instr = symbolize p (Text2.raw_of_pst nm tg q) mbase instr.
Proof. exact Text2.from_text. Qed.
Print Assumptions c11_from_text.

(* The integer ranges [wf_file] asks for are what C09's number recognisers deliver (hex_str::<u64>
   = 16 hex digits, hex_str::<u32> = 8, decimal_u32).  (That every record the parser state
   collects was built from these recognisers is not proved: [eo_wf] stays a hypothesis of
   c11_from_text.) *)
Theorem c11_number_recognisers_in_range :
  (forall s v s', Grammar.hex_str 16%nat s = Some (v, s') -> 0 <= v < two64) /\
  (forall s v s', Grammar.hex_str 8%nat s = Some (v, s') -> 0 <= v < two32) /\
  (forall s v s', Grammar.decimal_u32 s = Some (v, s') -> 0 <= v < two32).
Proof. exact (conj Text2.hex64_range (conj Text2.hex32_range Text2.decimal_u32_range)). Qed.
Print Assumptions c11_number_recognisers_in_range.

Theorem c11_table_interface : forall p rf st mbase instr,
  wf_file rf -> st_rel true rf st -> 0 <= mbase -> instr < two64 ->
  fill_symbol p st mbase instr = symbolize p rf mbase instr.
Proof. exact table_interface. Qed.
Print Assumptions c11_table_interface.

(* ---- round 4 ---- *)

(* Tie to the source.  translate/c11_symbolize.py re-reads SymbolFile::fill_symbol, find_nearest_public,
   Function::{memory_range, get_outermost_sourceloc, get_innermost_sourceloc, get_inlinee_at_depth},
   finish_item, insert_win_stack_info, StackInfoWin::memory_range, the merge step of the parser-local
   into_rangemap_safe (C08's [merge_step]), the field order of Inlinee / PublicSymbol, Symbolizer::fill_symbol /
   get_symbol_at_address and fill_source_line_info on every run; the statement structure must match its templates (else it aborts) and
   the comparison operators, operands, constants, STACK WIN table order, lookup keys, start depth and stopping
   arm of the depth loop, .rev() / .reverse() are translated into the functions of Gen/C11Sym.v.  Those are the
   model all theorems of this file speak about. *)
Theorem c11_source_tie :
  (forall p st mbase instr, C11Sym.g_fill_symbol p st mbase instr = fill_symbol p st mbase instr) /\
  (forall inls depth addr, C11Sym.g_get_inlinee_at_depth inls depth addr = get_inlinee_at_depth inls depth addr) /\
  (forall f addr, C11Sym.g_get_outermost_sourceloc f addr = get_outermost_sourceloc f addr) /\
  (forall p fuel inls addr depth, C11Sym.g_inline_loop p fuel inls addr depth = inline_loop p fuel inls addr depth) /\
  C11Sym.g_depth_start = 1 /\
  (forall pubs addr, C11Sym.g_find_nearest_public pubs addr = find_nearest_public pubs addr) /\
  (forall funcs addr, C11Sym.g_prev_func funcs addr = prev_func funcs addr) /\
  (forall st f addr, C11Sym.g_param_size st f addr = param_size st f addr) /\
  (forall base size, C11Sym.g_func_range base size = mk_range base size) /\
  (forall ls, C11Sym.g_line_entries ls = line_entries ls) /\
  (forall l, filter C11Sym.g_inl_keep l = keep_inls true l) /\
  (forall e, C11Sym.g_inl_key e = inl_key e) /\ (forall q, C11Sym.g_pub_key q = pub_key q) /\
  (forall acc w, C11Sym.g_win_insert acc w = win_insert acc w) /\
  (forall V (eqb : V -> V -> bool) acc rv, C11Sym.g_merge_step eqb acc rv = merge_step eqb acc rv) /\
  (forall a, C11Sym.g_gsaa_instr a = a) /\ C11Sym.g_gsaa_base = 0 /\ (forall i, C11Sym.g_module_key i = i) /\
  (forall o, C11Sym.g_frame_inlines (o_inl o) = frame_inlines o).
Proof. exact Tie.source_tie. Qed.
Print Assumptions c11_source_tie.

(* Cost of the inline-depth enumeration.  [fill_symbol_n] is fill_symbol with a counter of
   get_inlinee_at_depth calls (dropping the counter gives fill_symbol back: 4th conjunct) and [extra] more
   fuel than the model gives the loop.  For every file, address, module base and both profiles the count is
   the same for every [extra] (the loop stops by itself: `None => break`), it is 0 when no FUNC of the table
   covers the address and otherwise 1 + the length of the inline chain found, at most the number of INLINE
   ranges of the reported FUNC + 1.  (Each lookup is one binary search.)  A loop bound read from the file
   (seeded C03-3: `1..=max_depth`) cannot satisfy this; c11_symbolize.py pins `for depth in 1..` / `None => break`. *)
Theorem c11_inline_lookups_bounded : forall p rf mbase instr,
  wf_file rf -> 0 <= mbase -> instr < two64 ->
  exists st o n, build_symtab rf = Ret st /\ symbolize p rf mbase instr = Ret o /\
    (forall extra, fill_symbol_n p extra st mbase instr = Ret (o, n)) /\
    (forall extra, fill_symbol p st mbase instr = do x <- fill_symbol_n p extra st mbase instr; Ret (fst x)) /\
    ((instr < mbase \/ rm_get (st_funcs st) (instr - mbase) = None) -> n = 0%nat) /\
    (forall f, mbase <= instr -> rm_get (st_funcs st) (instr - mbase) = Some f ->
       n = S (length (inl_chain f (instr - mbase))) /\
       exists fr, In fr (rf_funcs rf) /\ func_covers fr (instr - mbase) = true /\ f = fin_func true fr /\
                  (n <= length (fr_inls fr) + 1)%nat).
Proof. exact inline_lookups_bounded. Qed.
Print Assumptions c11_inline_lookups_bounded.

(* Completeness for ALL files (overlapping or not): a FUNC record that covers the address and whose range
   intersects the range of no other FUNC record of the file is the function reported — the overlap
   resolution of the table builder cannot lose it and no PUBLIC can win over it. *)
Theorem c11_isolated_func_found : forall p rf mbase instr l1 fr l2,
  wf_file rf -> 0 <= mbase -> mbase <= instr < two64 ->
  rf_funcs rf = l1 ++ fr :: l2 -> func_covers fr (instr - mbase) = true -> func_isolated fr (l1 ++ l2) ->
  exists st o, build_symtab rf = Ret st /\ symbolize p rf mbase instr = Ret o /\
    rm_get (st_funcs st) (instr - mbase) = Some (fin_func true fr) /\
    o = fill_func st mbase (instr - mbase) (fin_func true fr) /\
    o_func o = Some (fr_name fr, fr_addr fr + mbase, param_size st (fin_func true fr) (instr - mbase)).
Proof. exact isolated_func_found. Qed.
Print Assumptions c11_isolated_func_found.

(* Module list, completeness: a module (any base < 2^64, any size, also one ending at 2^64-1) that contains
   the instruction and intersects no other module of the list (modules whose range is empty or not
   representable occupy nothing) is the module the frame is attributed to, and the frame is
   SymbolFile::fill_symbol at that module's base with the inlines reversed.  With c11_module_lookup_compose
   (soundness for every list, overlapping or not) this is the multi-module layer. *)
Theorem c11_module_isolated_found : forall p (m1 : list module) b sz ost (m2 : list module) instr r,
  Forall wf_module (m1 ++ (b, sz, ost) :: m2) ->
  mk_range b sz = Some r -> contains r instr = true ->
  (forall m r', In m (m1 ++ m2) -> mk_range (fst (fst m)) (snd (fst m)) = Some r' -> intersects r r' = false) ->
  exists tbl, mod_table (m1 ++ (b, sz, ost) :: m2) = Ret tbl /\
    rm_get tbl instr = Some (Z.of_nat (length m1)) /\ b <= instr /\
    frame_of p tbl (m1 ++ (b, sz, ost) :: m2) instr =
      match ost with
      | Some st => do o <- fill_symbol p st b instr;
                   Ret (Some (Z.of_nat (length m1), mk_out (o_func o) (o_src o) (rev (o_inl o))))
      | None => Ret (Some (Z.of_nat (length m1), empty_out))
      end.
Proof. exact isolated_module_found. Qed.
Print Assumptions c11_module_isolated_found.

Ltac wf_tac :=
  unfold wf_file, wf_fraw, wf_line, wf_inl, wf_pub, wf_win, u64, u32, two64, two32;
  repeat (first [apply Forall_nil | apply Forall_cons | split]); cbn; try lia.

(* ---- round 5 ---- *)

(* The records SymbolParser holds are in range, whatever the text.  After ANY sequence of lines —
   each either recognised by parse_more's line logic ([recog_pst]) or dropped by the over-long-line
   recovery ([bump_pst]) — every FUNC block (open or finished) has a u64 address, a u32 size, line
   records and INLINE ranges with u64 addresses / u32 sizes / u32 depths, and at most as many INLINE
   ranges as the text had bytes so far (each range costs its INLINE line at least two bytes); PUBLIC
   addresses are u64; STACK WIN records have u64 addresses and u32 sizes.  This is the invariant that
   discharges [eo_wf] (the hypothesis left in c11_from_text). *)
Theorem c11_parser_records_in_range : forall (ds : list (bool * Grammar.rle)) q,
  RM.C09.Model.replay Grammar.rle Grammar.pst Grammar.recog_pst Grammar.bump_pst Grammar.lineno_pst
                      Grammar.init_pst ds = inl q ->
  Text3.pst_rng (RM.C09.Model.size Grammar.rle Grammar.cllen (map snd ds)) q.
Proof. exact Text3.replay_rng0. Qed.
Print Assumptions c11_parser_records_in_range.

(* Every byte string that parses.  [bytes] is any byte string shorter than 2^32-1 bytes, split at
   '\n' as SymbolFile::parse sees it; [drive_c … sch] is C09's model of the whole parse loop (circular
   buffer, any read schedule [sch], over-long lines dropped); if it ends Ok with parser state [q] then
   SymbolParser::finish returns a table [t] (no panic), the records of the text are [wf_file], and
   fill_symbol on the parsed table IS [symbolize] on the records of the text — so every theorem of
   this file is a theorem about the bytes.  [enc_names_ok] asks only that the two encodings fit (names as
   integers injectively / monotonically on the names of the text, a tag for the STACK WIN fields that only take
   part in ==): any such pair will do, and c11_encodings_exist / c11_from_bytes_closed below show one always exists. *)
Theorem c11_from_bytes : forall nm tg (bytes : list Z) (sch : list Z) q s,
  RM.C09.Driver.drive_c (map Grammar.to_rle (fst (Grammar.split_bytes bytes [])))
                        (Z.of_nat (length (snd (Grammar.split_bytes bytes [])))) sch
    = Ret (RM.C09.Model.ROk q, s) ->
  Z.of_nat (length bytes) < two32 - 1 -> Text3.enc_names_ok nm tg q ->
  exists t, Grammar.finish q = Ret t /\
    wf_file (Text2.raw_of_pst nm tg q) /\
    st_rel true (Text2.raw_of_pst nm tg q) (Text2.symtab_of_table nm tg t) /\
    forall p mbase instr, 0 <= mbase -> instr < two64 ->
      fill_symbol p (Text2.symtab_of_table nm tg t) mbase instr = symbolize p (Text2.raw_of_pst nm tg q) mbase instr.
Proof. exact Text3.from_bytes. Qed.
Print Assumptions c11_from_bytes.

(* … and the encodings exist: no hypothesis besides the length of the text.  For every parser state reachable by
   recognised / dropped lines, [Enc.nm_of q] (the rank of a name among the FUNC and PUBLIC names of the text, in
   String order) and [Enc.tg_of q] (the position of a STACK WIN record's payload among the payloads of the text) meet
   [enc_names_ok].  Ingredients: [rle_compare] on run-length-encoded strings with positive counts is the lexicographic
   order of the decoded byte strings (a strict total order), decoding is injective on normal forms, and every name
   the parser stores is a normal form (it comes out of rle_norm: invariant [pst_nn] of recog_pst / bump_pst). *)
Theorem c11_encodings_exist : forall (ds : list (bool * Grammar.rle)) q,
  RM.C09.Model.replay Grammar.rle Grammar.pst Grammar.recog_pst Grammar.bump_pst Grammar.lineno_pst
                      Grammar.init_pst ds = inl q ->
  Text3.enc_names_ok (Enc.nm_of q) (Enc.tg_of q) q.
Proof. exact Enc.replay_encodings. Qed.
Print Assumptions c11_encodings_exist.

(* c11_from_bytes, closed: EVERY byte string shorter than 2^32-1 bytes that the parse loop accepts (any read
   schedule).  With the encodings of c11_encodings_exist: finish returns a table, the records of the text are
   [wf_file], and fill_symbol on the parsed table is [symbolize] on the records of the text, at every address,
   module base and profile — so c11_total, c11_func_sound, c11_public_rule, c11_line_sound, c11_inline_chain(_exact),
   c11_equals_linear_scan … hold of the text with no side condition on it. *)
Theorem c11_from_bytes_closed : forall (bytes : list Z) (sch : list Z) q s,
  RM.C09.Driver.drive_c (map Grammar.to_rle (fst (Grammar.split_bytes bytes [])))
                        (Z.of_nat (length (snd (Grammar.split_bytes bytes [])))) sch
    = Ret (RM.C09.Model.ROk q, s) ->
  Z.of_nat (length bytes) < two32 - 1 ->
  let nm := Enc.nm_of q in let tg := Enc.tg_of q in
  Text3.enc_names_ok nm tg q /\
  exists t, Grammar.finish q = Ret t /\
    wf_file (Text2.raw_of_pst nm tg q) /\
    st_rel true (Text2.raw_of_pst nm tg q) (Text2.symtab_of_table nm tg t) /\
    forall p mbase instr, 0 <= mbase -> instr < two64 ->
      fill_symbol p (Text2.symtab_of_table nm tg t) mbase instr = symbolize p (Text2.raw_of_pst nm tg q) mbase instr.
Proof. exact Enc.from_bytes_closed. Qed.
Print Assumptions c11_from_bytes_closed.

(* The same for run-length-encoded lines (a 1 MiB line of one byte is one pair), any tail. *)
Theorem c11_from_parse : forall nm tg (lines : list Grammar.rle) (tail : Z) (sch : list Z) q s,
  RM.C09.Driver.drive_c lines tail sch = Ret (RM.C09.Model.ROk q, s) ->
  RM.C09.Model.size Grammar.rle Grammar.cllen lines < two32 - 1 -> Text3.enc_names_ok nm tg q ->
  exists t, Grammar.finish q = Ret t /\
    wf_file (Text2.raw_of_pst nm tg q) /\
    st_rel true (Text2.raw_of_pst nm tg q) (Text2.symtab_of_table nm tg t) /\
    forall p mbase instr, 0 <= mbase -> instr < two64 ->
      fill_symbol p (Text2.symtab_of_table nm tg t) mbase instr = symbolize p (Text2.raw_of_pst nm tg q) mbase instr.
Proof. exact Text3.from_parse. Qed.
Print Assumptions c11_from_parse.

(* What the text front-end of the correspondence driver computes ([Driver.table_of_text], extracted and run on the
   same .sym text the real parser reads): for ANY list of decisions (line recognised / line dropped as over-long)
   that C09's recogniser accepts, total length < 2^32-1, it returns a table, and symbolication on it IS [symbolize]
   on the records of the text.  The OCaml glue checks exactly this equality on every generated file (answers from the
   text = answers from the records), with nm = the number inside the rendered name and tg = the prologue size. *)
Theorem c11_text_driver_correct : forall nm tg (ds : list (bool * Grammar.rle)) q,
  RM.C09.Model.replay Grammar.rle Grammar.pst Grammar.recog_pst Grammar.bump_pst Grammar.lineno_pst
                      Grammar.init_pst ds = inl q ->
  RM.C09.Model.size Grammar.rle Grammar.cllen (map snd ds) < two32 - 1 -> Text3.enc_names_ok nm tg q ->
  exists st, RM.C11.Driver.table_of_text nm tg ds = Ret (Some st) /\
    wf_file (Text2.raw_of_pst nm tg q) /\ st_rel true (Text2.raw_of_pst nm tg q) st /\
    forall p mbase instr, 0 <= mbase -> instr < two64 ->
      fill_symbol p st mbase instr = symbolize p (Text2.raw_of_pst nm tg q) mbase instr.
Proof. exact Text3.text_driver_correct. Qed.
Print Assumptions c11_text_driver_correct.

(* The first clause of the property, stated of the bytes: fill_symbol on the table parsed from the
   bytes never panics, reports nothing below the module, and a reported function is a FUNC block of
   the text whose range contains the address (parameter size: its own or that of a STACK WIN record of
   the text covering the address), or a PUBLIC of the text at or below the address; base <= instruction. *)
Theorem c11_bytes_func_sound : forall nm tg (bytes : list Z) (sch : list Z) q s,
  RM.C09.Driver.drive_c (map Grammar.to_rle (fst (Grammar.split_bytes bytes [])))
                        (Z.of_nat (length (snd (Grammar.split_bytes bytes [])))) sch
    = Ret (RM.C09.Model.ROk q, s) ->
  Z.of_nat (length bytes) < two32 - 1 -> Text3.enc_names_ok nm tg q ->
  exists t, Grammar.finish q = Ret t /\
  forall p mbase instr, 0 <= mbase -> instr < two64 ->
  exists o, fill_symbol p (Text2.symtab_of_table nm tg t) mbase instr = Ret o /\
    (instr < mbase -> o = empty_out) /\
    forall name base psz, o_func o = Some (name, base, psz) ->
      mbase <= instr /\ base <= instr /\
      ((exists fr, In fr (Text.funcs_of_pst q) /\ func_covers (Text.raw_of_func nm fr) (instr - mbase) = true /\
          name = nm (Grammar.fr_name fr) /\ base = Grammar.fr_addr fr + mbase /\
          (psz = Grammar.fr_psize fr \/
           exists w, In w (rev (Grammar.p_win_fd (Grammar.close_cur q)) ++ rev (Grammar.p_win_fpo (Grammar.close_cur q))) /\
                     win_covers (Text2.Gw tg w) (instr - mbase) = true /\ psz = Grammar.wi_params w))
       \/ (exists pb, In pb (Grammar.p_publics (Grammar.close_cur q)) /\ Grammar.pb_addr pb <= instr - mbase /\
             name = nm (Grammar.pb_name pb) /\ base = Grammar.pb_addr pb + mbase /\ psz = Grammar.pb_psize pb /\
             o_src o = None /\ o_inl o = [])).
Proof. exact Text3.bytes_func_sound. Qed.
Print Assumptions c11_bytes_func_sound.

(* The last clause of the property, stated of the bytes: when the records of the text do not overlap,
   fill_symbol on the table parsed from the bytes equals the linear scans over the records of the text
   (c11_equals_linear_scan composed with c11_from_bytes). *)
Theorem c11_bytes_equals_linear_scan : forall nm tg (bytes : list Z) (sch : list Z) q s,
  RM.C09.Driver.drive_c (map Grammar.to_rle (fst (Grammar.split_bytes bytes [])))
                        (Z.of_nat (length (snd (Grammar.split_bytes bytes [])))) sch
    = Ret (RM.C09.Model.ROk q, s) ->
  Z.of_nat (length bytes) < two32 - 1 -> Text3.enc_names_ok nm tg q ->
  let rf := Text2.raw_of_pst nm tg q in
  non_overlapping rf ->
  exists t, Grammar.finish q = Ret t /\
  forall p mbase instr, 0 <= mbase -> mbase <= instr < two64 ->
  exists o, fill_symbol p (Text2.symtab_of_table nm tg t) mbase instr = Ret o /\
    match ref_func rf (instr - mbase) with
    | Some fr => o = ref_fill_func rf (ref_psize rf fr (instr - mbase)) mbase (instr - mbase) fr
    | None =>
        ((forall pq, In pq (rf_publics rf) -> instr - mbase < p_addr pq) /\ o = empty_out) \/
        (exists pb, In pb (rf_publics rf) /\ p_addr pb <= instr - mbase /\
           (forall pq, In pq (rf_publics rf) -> p_addr pq <= instr - mbase -> pub_lt pb pq = false) /\
           let cut := exists fr, In fr (rf_funcs rf) /\ mk_range (fr_addr fr) (fr_size fr) <> None /\
                                 p_addr pb <= fr_addr fr <= instr - mbase in
           ((cut /\ o = empty_out) \/
            (~ cut /\ o = mk_out (Some (p_name pb, p_addr pb + mbase, p_psize pb)) None [])))
    end.
Proof. exact Text3.bytes_equals_linear_scan. Qed.
Print Assumptions c11_bytes_equals_linear_scan.

(* Symbolizer level from bytes: a module whose SymbolFile was parsed from such a byte string meets
   [module_parsed], the hypothesis of c11_module_frame_total — so walk_stack -> fill_source_line_info ->
   Symbolizer::fill_symbol over a module list whose symbol files were all parsed from bytes never
   panics and yields the pure result for the module C08's lookup finds, inlines reversed. *)
Theorem c11_symbolizer_from_bytes : forall nm tg (bytes : list Z) (sch : list Z) q s,
  RM.C09.Driver.drive_c (map Grammar.to_rle (fst (Grammar.split_bytes bytes [])))
                        (Z.of_nat (length (snd (Grammar.split_bytes bytes [])))) sch
    = Ret (RM.C09.Model.ROk q, s) ->
  Z.of_nat (length bytes) < two32 - 1 -> Text3.enc_names_ok nm tg q ->
  exists t, Grammar.finish q = Ret t /\ forall b sz, module_parsed (b, sz, Some (Text2.symtab_of_table nm tg t)).
Proof. exact Text3.bytes_module_parsed. Qed.
Print Assumptions c11_symbolizer_from_bytes.

(* Front-end G, Symbolizer::get_symbol_at_address(debug_file, debug_id, address) ([Driver.symbol_at]: the module of a
   (&str, DebugId) pair has base 0; only the name is returned): on any table parsed from the records it never panics
   and the name is that of a FUNC record covering the address or of a PUBLIC at or below it. *)
Theorem c11_symbol_at_sound : forall p rf st address,
  wf_file rf -> st_rel true rf st -> 0 <= address < two64 ->
  exists r, RM.C11.Driver.symbol_at p st address = Ret r /\
    forall n, r = Some n ->
      (exists fr, In fr (rf_funcs rf) /\ func_covers fr address = true /\ n = fr_name fr) \/
      (exists pb, In pb (rf_publics rf) /\ p_addr pb <= address /\ n = p_name pb).
Proof. exact Text3.symbol_at_sound. Qed.
Print Assumptions c11_symbol_at_sound.

(* get_inlinee_at_depth, exactly, for EVERY FUNC block — overlapping INLINE ranges, duplicate
   (depth, address) keys, records in any order.  [kept fr] = the INLINE ranges of the block with
   non-zero size (finish_item's retain); [nearest l d x c]: c is the greatest record of l, in the
   derived order of Inlinee (depth, address, size, call_file, call_line, origin_id), among those whose
   (depth, address) is <= (d, x) — or None when there is none.  Such a c always exists, is unique, and
   the lookup on the finished Function answers [giad_check d x c]: c if it has depth d and
   x < c.address + c.size (representable), else None.  Neither the binary search nor the order of
   the records in the file appears in the statement.  (DESIGN.md planned a set of admissible
   answers for duplicate keys; the answer is in fact unique.) *)
Theorem c11_inlinee_lookup_exact : forall fr d x,
  (exists c, nearest (kept fr) d x c) /\
  (forall c c', nearest (kept fr) d x c -> nearest (kept fr) d x c' -> c = c') /\
  forall c, nearest (kept fr) d x c ->
    get_inlinee_at_depth (fn_inls (fin_func true fr)) d x = Ret (giad_check d x c).
Proof. exact inlinee_lookup_exact_all. Qed.
Print Assumptions c11_inlinee_lookup_exact.

(* The inline frames, with the chain given declaratively, for ALL files (overlapping INLINE ranges and
   duplicate keys included).  When fill_symbol emits inline frames they are [frames_spec] of a chain whose
   element k, for every k up to and including the lookup that ends the depth loop (k = length chain, where
   the answer is None), is [giad_check k addr] of THE greatest kept record of the FUNC block at or below
   (k, addr) in Inlinee's derived order: the record itself when it has depth k and covers addr, else the
   chain ends.  This replaces the "what the lookup finds" of c11_inline_chain by a description in terms of
   the records of the file alone. *)
Theorem c11_inline_chain_exact : forall p rf mbase instr,
  wf_file rf -> 0 <= mbase -> instr < two64 ->
  exists st o, build_symtab rf = Ret st /\ symbolize p rf mbase instr = Ret o /\
    (o_inl o <> [] ->
     exists fr chain, In fr (rf_funcs rf) /\ func_covers fr (instr - mbase) = true /\
       (forall k c, (k <= length chain)%nat -> nearest (kept fr) (Z.of_nat k) (instr - mbase) c ->
                    nth_error chain k = giad_check (Z.of_nat k) (instr - mbase) c) /\
       o_inl o = frames_spec st chain (rm_get (fn_lines (fin_func true fr)) (instr - mbase))).
Proof. exact inline_chain_exact. Qed.
Print Assumptions c11_inline_chain_exact.

(* Duplicate (depth, address) keys: among the non-empty INLINE ranges of the block with the same depth
   and address as the answer, the answer has the greatest (size, call_file, call_line, origin_id). *)
Theorem c11_inlinee_duplicates : forall fr d x e e',
  get_inlinee_at_depth (fn_inls (fin_func true fr)) d x = Ret (Some e) ->
  In e' (fr_inls fr) -> 0 < i_size e' -> i_depth e' = i_depth e -> i_addr e' = i_addr e ->
  lex_lt [i_size e; i_cfile e; i_cline e; i_origin e] [i_size e'; i_cfile e'; i_cline e'; i_origin e'] = false.
Proof. exact inlinee_lookup_duplicates. Qed.
Print Assumptions c11_inlinee_duplicates.

(* The order of the INLINE records inside a FUNC block (and of the ranges inside one INLINE record) is
   irrelevant: two files that differ only by permuting the INLINE ranges of their FUNC blocks parse to
   the same Function values (the derived order is total, so the sorted vector is unique) and give the
   same symbolication — parse outcome included — at every address, module base and profile. *)
Theorem c11_inline_order_irrelevant : forall p rf rf' mbase instr,
  rf_files rf = rf_files rf' -> rf_origins rf = rf_origins rf' -> rf_publics rf = rf_publics rf' ->
  rf_win_fd rf = rf_win_fd rf' -> rf_win_fpo rf = rf_win_fpo rf' ->
  Forall2 same_up_to_inline_order (rf_funcs rf) (rf_funcs rf') ->
  symbolize p rf mbase instr = symbolize p rf' mbase instr.
Proof. exact symbolize_inline_order. Qed.
Print Assumptions c11_inline_order_irrelevant.

(* ---- F-C11a: before the fix, an INLINE range of size zero hid the enclosing range *)
Definition f11a_witness : raw_file :=
  mk_raw [(1, 1)] [(1, 11); (2, 12)] []
         [mk_fraw 2 8 4 5 [] [mk_inl 0 2 6 1 20 1; mk_inl 0 4 0 1 21 2]] [] [].
Theorem c11_zero_size_inline_unfixed_refuted :
  wf_file f11a_witness /\
  inl_covers 0 4 (mk_inl 0 2 6 1 20 1) = true /\
  symbolize_gen false Debug f11a_witness 0 4 = Ret (mk_out (Some (5, 2, 4)) None []) /\
  symbolize Debug f11a_witness 0 4 = Ret (mk_out (Some (5, 2, 4)) (Some (1, 20, 2)) [(11, None, None)]).
Proof.
  split; [unfold f11a_witness; cbn [rf_funcs rf_publics rf_win_fd rf_win_fpo]; wf_tac|].
  split; [|split]; vm_compute; reflexivity.
Qed.
Print Assumptions c11_zero_size_inline_unfixed_refuted.

(* ---- non-vacuity *)
Definition nv_file : raw_file :=
  mk_raw [(1, 7); (2, 8)] [(1, 21); (2, 22); (3, 23)]
         [mk_pub 8 3 0; mk_pub 100 9 4; mk_pub 100 8 0]
         [mk_fraw 16 32 4 5
            [mk_line 16 16 1 10; mk_line 32 16 2 11; mk_line 40 0 1 99]
            [mk_inl 1 20 4 2 71 2; mk_inl 0 16 16 1 70 1; mk_inl 2 21 2 1 72 3; mk_inl 0 40 0 1 73 1];
          mk_fraw 60 0 0 6 [] []]
         [mk_win 16 32 12 0; mk_win 24 24 16 1] [mk_win 20 4 20 0].
Example c11_nonvacuous_wf : wf_file nv_file.
Proof. unfold nv_file; cbn [rf_funcs rf_publics rf_win_fd rf_win_fpo]; wf_tac. Qed.
Definition nv_file2 : raw_file :=
  mk_raw [(1, 7)] [(1, 21); (2, 22)] [mk_pub 8 3 0; mk_pub 90 9 4]
         [mk_fraw 16 32 4 5 [mk_line 16 16 1 10; mk_line 32 16 1 11; mk_line 40 0 1 99]
            [mk_inl 1 20 4 1 71 2; mk_inl 0 16 16 1 70 1; mk_inl 0 40 0 1 73 1; mk_inl 0 36 4 1 74 2];
          mk_fraw 60 0 0 6 [] []; mk_fraw 64 8 0 7 [] []] [mk_win 16 8 12 0; mk_win 40 0 1 0] [mk_win 20 8 20 0; mk_win 28 4 24 1].
Example c11_nonvacuous_nonoverlap :
  wf_file nv_file2 /\ non_overlapping nv_file2 /\
  ref_func nv_file2 21 = Some (mk_fraw 16 32 4 5 [mk_line 16 16 1 10; mk_line 32 16 1 11; mk_line 40 0 1 99]
            [mk_inl 1 20 4 1 71 2; mk_inl 0 16 16 1 70 1; mk_inl 0 40 0 1 73 1; mk_inl 0 36 4 1 74 2]) /\
  symbolize Debug nv_file2 4096 (4096 + 21) =
    Ret (mk_out (Some (5, 4112, 12)) (Some (7, 70, 4112)) [(21, Some 7, Some 71); (22, Some 7, Some 10)]) /\
  symbolize Debug nv_file2 4096 (4096 + 25) = Ret (mk_out (Some (5, 4112, 20)) (Some (7, 70, 4112)) [(21, Some 7, Some 10)]) /\
  symbolize Debug nv_file2 4096 (4096 + 95) = Ret (mk_out (Some (9, 4186, 4)) None []) /\
  symbolize Debug nv_file2 4096 (4096 + 80) = Ret empty_out.
Proof.
  split; [unfold nv_file2; cbn [rf_funcs rf_publics rf_win_fd rf_win_fpo]; wf_tac|].
  split; [|repeat split; vm_compute; reflexivity].
  unfold non_overlapping, nv_file2, func_dj, line_dj, inl_dj, win_dj, occ_disjoint; cbn.
  repeat (first [apply Forall_nil | apply Forall_cons | split]); cbn; try lia; try (right; lia).
Qed.
Example c11_nonvacuous_run :
  symbolize Debug nv_file 18446744073709550000 (18446744073709550000 + 21) =
    Ret (mk_out (Some (5, 18446744073709550016, 12)) (Some (7, 70, 18446744073709550016))
                [(21, Some 8, Some 71); (22, Some 7, Some 72); (23, Some 7, Some 10)]) /\
  frame_inlines (mk_out None None [(21, Some 8, Some 71); (22, Some 7, Some 72); (23, Some 7, Some 10)]) =
    [(23, Some 7, Some 10); (22, Some 7, Some 72); (21, Some 8, Some 71)] /\
  symbolize Release nv_file 4096 (4096 + 104) = Ret (mk_out (Some (9, 4196, 4)) None []) /\
  symbolize Debug nv_file 4096 (4096 + 50) = Ret empty_out.
Proof. repeat split; vm_compute; reflexivity. Qed.

(* text: "FUNC 10 8 0 f" / "10 4 7 1" / "INLINE 0 3 1 2 10 4" / "FUNC m 20 8 0 g"; names by first byte *)
Definition nv_text : list Grammar.rle :=
  map (map (fun b => (b, 1)))
      [[70;85;78;67;32;49;48;32;56;32;48;32;102];
       [49;48;32;52;32;55;32;49];
       [73;78;76;73;78;69;32;48;32;51;32;49;32;50;32;49;48;32;52];
       [70;85;78;67;32;109;32;50;48;32;56;32;48;32;103]].
Definition nv_nm (s : Grammar.rle) : Z := match s with (b, _) :: _ => b | [] => 0 end.
Example c11_nonvacuous_from_text :
  exists q t,
    RM.C09.Model.fold_recog Grammar.rle Grammar.pst Grammar.recog_pst Grammar.lineno_pst Grammar.init_pst nv_text = inl q /\
    Grammar.finish q = Ret t /\ Text.wf_text_funcs nv_nm q /\ Text.names_injective nv_nm q /\
    map fst (Grammar.t_funcs t) = [(16, 23); (32, 39)] /\
    option_map (fun sf => (Grammar.sf_lines sf, Grammar.sf_inls sf)) (rm_get (Grammar.t_funcs t) 17) =
      Some ([((16, 19), mk_line 16 4 1 7)], [mk_inl 0 16 4 1 3 2]).
Proof.
  eexists. eexists. split; [vm_compute; reflexivity|]. split; [vm_compute; reflexivity|].
  split; [|split; [|split; vm_compute; reflexivity]].
  - unfold Text.wf_text_funcs. cbn. wf_tac.
  - unfold Text.names_injective. cbn. intros a b [<-|[<-|[]]] [<-|[<-|[]]]; cbn; intros H; try reflexivity; discriminate.
Qed.

(* text: FILE 1 x / PUBLIC 8 0 a / FUNC 10 8 0 f / 10 4 7 1 / INLINE_ORIGIN 2 o / INLINE 0 3 1 2 10 4 / PUBLIC m 30 0 b *)
Definition nv_text2 : list Grammar.rle :=
  map (map (fun b => (b, 1)))
      [[70;73;76;69;32;49;32;120];
       [80;85;66;76;73;67;32;56;32;48;32;97];
       [70;85;78;67;32;49;48;32;56;32;48;32;102];
       [49;48;32;52;32;55;32;49];
       [73;78;76;73;78;69;95;79;82;73;71;73;78;32;50;32;111];
       [73;78;76;73;78;69;32;48;32;51;32;49;32;50;32;49;48;32;52];
       [80;85;66;76;73;67;32;109;32;51;48;32;48;32;98]].
Definition nv_tg (w : Grammar.win_info) : Z := Grammar.wi_prolog w.
Example c11_nonvacuous_from_text_whole :
  exists q t,
    RM.C09.Model.fold_recog Grammar.rle Grammar.pst Grammar.recog_pst Grammar.lineno_pst Grammar.init_pst nv_text2 = inl q /\
    Grammar.finish q = Ret t /\ Text2.enc_ok nv_nm nv_tg q /\
    fill_symbol Debug (Text2.symtab_of_table nv_nm nv_tg t) 4096 (4096 + 17) =
      Ret (mk_out (Some (102, 4112, 0)) (Some (120, 3, 4112)) [(111, Some 120, Some 7)]) /\
    fill_symbol Debug (Text2.symtab_of_table nv_nm nv_tg t) 4096 (4096 + 50) =
      Ret (mk_out (Some (98, 4144, 0)) None []).
Proof.
  eexists. eexists. split; [vm_compute; reflexivity|]. split; [vm_compute; reflexivity|].
  split; [|split; vm_compute; reflexivity].
  constructor.
  - unfold Text2.raw_of_pst. cbn. wf_tac.
  - unfold Text.names_injective. cbn. intros a b [<-|[]] [<-|[]] _. reflexivity.
  - cbn. intros a b [<-|[<-|[]]] [<-|[<-|[]]]; vm_compute; reflexivity.
  - intros w sz. reflexivity.
  - cbn. intros a b (w0 & [] & _).
  - cbn. intros a b (w0 & [] & _).
Qed.

(* round 5: the bytes of nv_text2 (lines joined by '\n') through the whole parse loop with reads of 3 and 5
   bytes: Ok, shorter than 2^32-1, the encodings fit — the hypotheses of c11_from_bytes are met *)
Definition nv_bytes : list Z :=
  Grammar.join_bytes
      [[70;73;76;69;32;49;32;120];
       [80;85;66;76;73;67;32;56;32;48;32;97];
       [70;85;78;67;32;49;48;32;56;32;48;32;102];
       [49;48;32;52;32;55;32;49];
       [73;78;76;73;78;69;95;79;82;73;71;73;78;32;50;32;111];
       [73;78;76;73;78;69;32;48;32;51;32;49;32;50;32;49;48;32;52;32;49;54;32;50];
       [80;85;66;76;73;67;32;109;32;51;48;32;48;32;98]] [].
Example c11_nonvacuous_from_bytes :
  exists q s,
    RM.C09.Driver.drive_c (map Grammar.to_rle (fst (Grammar.split_bytes nv_bytes [])))
                          (Z.of_nat (length (snd (Grammar.split_bytes nv_bytes [])))) [3; 5]
      = Ret (RM.C09.Model.ROk q, s) /\
    Z.of_nat (length nv_bytes) < two32 - 1 /\ Text3.enc_names_ok nv_nm nv_tg q /\
    Text3.pst_rng 104 q /\
    map (fun f => length (Grammar.fr_inls f)) (Text.funcs_of_pst q) = [2%nat] /\
    non_overlapping (Text2.raw_of_pst nv_nm nv_tg q) /\
    map (Enc.nm_of q) (Enc.names_of q) = [2; 1; 0].
Proof.
  eexists. eexists. split; [vm_compute; reflexivity|]. split; [vm_compute; reflexivity|].
  split; [|split; [|split; [vm_compute; reflexivity|split; [|vm_compute; reflexivity]]]].
  - constructor.
    + unfold Text.names_injective. cbn. intros a b [<-|[]] [<-|[]] _. reflexivity.
    + cbn. intros a b [<-|[<-|[]]] [<-|[<-|[]]]; vm_compute; reflexivity.
    + intros w sz. reflexivity.
    + cbn. intros a b (w0 & [] & _).
    + cbn. intros a b (w0 & [] & _).
  - apply (Text3.pst_rng_mono (0 + RM.C09.Model.size Grammar.rle Grammar.cllen
                                     (map Grammar.to_rle (fst (Grammar.split_bytes nv_bytes []))))).
    + vm_compute. discriminate.
    + apply (Text3.fold_recog_rng _ 0 Grammar.init_pst); [lia|exact Text3.init_pst_rng|vm_compute; reflexivity].
  - unfold non_overlapping, func_dj, line_dj, inl_dj, win_dj, occ_disjoint; cbn.
    repeat (first [apply Forall_nil | apply Forall_cons | split]); cbn; try lia; try (right; lia).
Qed.

(* round 5: a FUNC block with three INLINE ranges sharing (depth 0, address 16) — sizes 4, 8, 8, call lines
   30, 10, 20 — plus an empty one: the greatest in the derived order, (0, 16, 8, 1, 20, 2), is [nearest] at
   address 17 and is what the lookup returns; at 30 it is still nearest but does not cover: None *)
Definition nv_dup : func_raw :=
  mk_fraw 16 16 0 5 [] [mk_inl 0 16 8 1 20 2; mk_inl 0 16 4 1 30 2; mk_inl 0 16 0 1 99 2; mk_inl 0 16 8 1 10 2].
Example c11_nonvacuous_duplicates :
  nearest (kept nv_dup) 0 17 (Some (mk_inl 0 16 8 1 20 2)) /\
  get_inlinee_at_depth (fn_inls (fin_func true nv_dup)) 0 17 = Ret (Some (mk_inl 0 16 8 1 20 2)) /\
  nearest (kept nv_dup) 0 30 (Some (mk_inl 0 16 8 1 20 2)) /\
  get_inlinee_at_depth (fn_inls (fin_func true nv_dup)) 0 30 = Ret None /\
  same_up_to_inline_order nv_dup (mk_fraw 16 16 0 5 [] (rev (fr_inls nv_dup))).
Proof.
  assert (N : forall x, 16 <= x -> nearest (kept nv_dup) 0 x (Some (mk_inl 0 16 8 1 20 2))).
  { intros x Hx. cbn. split; [auto|]. split; [unfold key_le; cbn; lia|].
    intros e [<-|[<-|[<-|[]]]] _; vm_compute; reflexivity. }
  split; [apply N; lia|]. split; [vm_compute; reflexivity|]. split; [apply N; lia|]. split; [vm_compute; reflexivity|].
  unfold same_up_to_inline_order. cbn. repeat split. apply (Permutation_rev (fr_inls nv_dup)).
Qed.

(* round 5: decisions with a dropped line: "FUNC 10 8 0 f" recognised, a 200000-byte line dropped by the recovery,
   "10 4 7 1" recognised as a line record of the FUNC block that is still open; the hypotheses of
   c11_parser_records_in_range / c11_encodings_exist / c11_text_driver_correct are met and the text driver answers *)
Definition nv_ds : list (bool * Grammar.rle) :=
  [(false, map (fun b => (b, 1)) [70;85;78;67;32;49;48;32;56;32;48;32;102]);
   (true, [(97, 200000)]);
   (false, map (fun b => (b, 1)) [49;48;32;52;32;55;32;49])].
Example c11_nonvacuous_replay :
  exists q st,
    RM.C09.Model.replay Grammar.rle Grammar.pst Grammar.recog_pst Grammar.bump_pst Grammar.lineno_pst
                        Grammar.init_pst nv_ds = inl q /\
    RM.C09.Model.size Grammar.rle Grammar.cllen (map snd nv_ds) = 200024 /\
    Grammar.p_lines q = 3 /\
    RM.C11.Driver.table_of_text (Enc.nm_of q) (Enc.tg_of q) nv_ds = Ret (Some st) /\
    fill_symbol Release st 4096 (4096 + 17) = Ret (mk_out (Some (0, 4112, 0)) None []).
Proof.
  eexists. eexists. split; [vm_compute; reflexivity|]. split; [vm_compute; reflexivity|].
  split; [vm_compute; reflexivity|]. split; [vm_compute; reflexivity|vm_compute; reflexivity].
Qed.

(* round 4: three lookups (depths 0, 1 and the failing depth 2) at address 21 of nv_file2, with any extra fuel;
   the first FUNC of nv_file2 is isolated; a module ending at 2^64-1 between two others is found *)
Example c11_nonvacuous_lookups :
  (do st <- build_symtab nv_file2; fill_symbol_n Debug 7 st 4096 (4096 + 21)) =
    Ret (mk_out (Some (5, 4112, 12)) (Some (7, 70, 4112)) [(21, Some 7, Some 71); (22, Some 7, Some 10)], 3%nat) /\
  (do st <- build_symtab nv_file2; fill_symbol_n Debug 0 st 4096 (4096 + 45)) = Ret (mk_out (Some (5, 4112, 4)) (Some (7, 11, 4128)) [], 1%nat) /\
  (do st <- build_symtab nv_file2; fill_symbol_n Debug 0 st 4096 (4096 + 95)) = Ret (mk_out (Some (9, 4186, 4)) None [], 0%nat).
Proof. repeat split; vm_compute; reflexivity. Qed.
Example c11_nonvacuous_isolated :
  exists fr l2, rf_funcs nv_file2 = [] ++ fr :: l2 /\ func_covers fr 21 = true /\ func_isolated fr ([] ++ l2).
Proof.
  eexists. eexists. split; [reflexivity|]. split; [vm_compute; reflexivity|].
  intros fr' r r' Hin Hr Hr'. cbn in Hin. destruct Hin as [<-|[<-|[]]]; vm_compute in Hr, Hr'; try discriminate.
  inversion Hr; inversion Hr'; subst. reflexivity.
Qed.
Example c11_nonvacuous_module_top :
  let mods : list module := [(0, 4096, None); (18446744073709551515, 100, None); (18446744073709551000, 100, None)] in
  Forall wf_module mods /\
  (exists tbl, mod_table mods = Ret tbl /\ rm_get tbl 18446744073709551614 = Some 1 /\
     frame_of Debug tbl mods 18446744073709551614 = Ret (Some (1, empty_out)) /\
     rm_get tbl 18446744073709551615 = None).
Proof.
  split.
  - unfold wf_module, u64, two64. repeat (first [apply Forall_nil | apply Forall_cons | split]); cbn; lia.
  - eexists. split; [vm_compute; reflexivity|]. repeat split; vm_compute; reflexivity.
Qed.

(* ------------------------------------------------------------------------------------------------------------
   Round 5, second pass: the lookup functions are COMPILED from the Rust source (translate/c11_compile.py ->
   Gen/C11Src.v, vocabulary C11/Prims.v) — not a template with holes: the bodies of Function::get_inlinee_at_depth,
   get_outermost_sourceloc, get_innermost_sourceloc, SymbolFile::find_nearest_public and SymbolFile::fill_symbol
   (with its `for depth in 1..` loop as a generated Fixpoint over fuel, the FrameSymbolizer callbacks as updates
   of a sym_out, `return` / `?` / `break` as early exits, u64 `+` / `-` as chk_add / chk_sub, `v[i]` and
   `index - 1` as panic sites) are parsed and translated statement by statement. *)

(* every compiled function equals the hand-written model for ALL arguments (results and panics alike); for
   fill_symbol: whenever the fuel covers the INLINE ranges of the function found and the model does not run out of
   its own fuel.  The compiled `instr - mbase` (a u64 subtraction the model writes as plain `-`) cannot trap; neither can
   the `- 1` of the two memory_range functions, nor the `start <= end` assertion of Range::new (for non-negative fields).
   First conjunct: minidump-unwind's fill_source_line_info with Symbolizer::fill_symbol inside (module lookup, the module
   attached before and whether or not symbols are found, the cached symbol file's fill_symbol at the module's base, the
   reversal), run on a fresh StackFrame = [frame_of], the function of c11_module_lookup_compose / c11_symbolizer_cached_frame.
   Second conjunct: insert_win_stack_info (the overlap repair of STACK WIN records, with its `last_mut()` borrow, the `as u32`
   truncation and the `unwrap`) = the model's win_insert on the reversed vector: the guarded u64 subtraction cannot trap.
   Third conjunct: the Line::Function arm of SymbolParser::finish_item (parser side), compiled with its closures: pushing
   onto self.functions what [finish_func] returns; after the `size > 0` filter the closure's `l.size as u64 - 1` cannot trap. *)
Theorem c11_compiled_source_tie :
  (forall p fuel tbl mods instr, instr < two64 ->
     (forall idx b sz st, rm_get tbl instr = Some idx -> nth_error mods (Z.to_nat idx) = Some (b, sz, Some st) ->
        0 <= b /\ SrcTie.fuel_covers st fuel /\ fill_symbol p st b instr <> OutOfFuel) ->
     C11Src.src_fill_source_line_info p fuel (Prims.mk_sframe instr None empty_out) (tbl, mods) =
     do r <- frame_of p tbl mods instr;
     Ret (match r with
          | None => Prims.mk_sframe instr None empty_out
          | Some (idx, o) => Prims.mk_sframe instr (Some idx) o
          end)) /\
  (forall p v w, u64 (w_addr w) -> 0 <= w_size w -> Forall (fun e : range * win_rec => 0 <= w_addr (snd e)) v ->
     C11Src.src_insert_win_stack_info p v w = do acc <- win_insert (rev v) w; Ret (rev acc)) /\
  (forall p acc cur lines inls, u64 (fn_addr cur) -> u32 (fn_size cur) -> Forall wf_line lines ->
     C11Src.src_finish_function p acc cur lines inls =
     do r <- finish_func (mk_fraw (fn_addr cur) (fn_size cur) (fn_psize cur) (fn_name cur) lines inls);
     Ret (acc ++ match r with Some e => [e] | None => [] end)) /\
  (forall p f, 0 <= fn_addr f -> 0 <= fn_size f ->
     C11Src.src_func_memory_range p f = Ret (mk_range (fn_addr f) (fn_size f))) /\
  (forall p w, 0 <= w_addr w -> 0 <= w_size w -> C11Src.src_win_memory_range p w = Ret (win_range w)) /\
  (forall p f depth addr, C11Src.src_get_inlinee_at_depth p f depth addr =
     do r <- get_inlinee_at_depth (fn_inls f) depth addr; Ret (option_map SrcTie.giad_tuple r)) /\
  (forall p f addr, C11Src.src_get_outermost_sourceloc p f addr =
     do r <- get_outermost_sourceloc f addr; Ret (option_map SrcTie.outer_tuple r)) /\
  (forall p f addr, C11Src.src_get_innermost_sourceloc p f addr =
     Ret (option_map (fun l => (l_file l, l_line l, l_addr l)) (rm_get (fn_lines f) addr))) /\
  (forall p st addr, C11Src.src_find_nearest_public p st addr = Ret (find_nearest_public (st_publics st) addr)) /\
  (forall p st addr f fuel depth frame org, C11Src.src_fill_symbol_loop p fuel st addr f depth frame org =
     do chain <- inline_loop p fuel (fn_inls f) addr depth;
     Ret (SrcTie.add_frames frame (SrcTie.emit_calls st org chain), SrcTie.last_org org chain)) /\
  (forall p fuel st mbase instr, 0 <= mbase -> instr < two64 ->
     (forall f, rm_get (st_funcs st) (instr - mbase) = Some f -> (length (fn_inls f) <= fuel)%nat) ->
     fill_symbol p st mbase instr <> OutOfFuel ->
     C11Src.src_fill_symbol p fuel st mbase instr = fill_symbol p st mbase instr).
Proof. exact SrcTie.compiled_source_tie. Qed.
Print Assumptions c11_compiled_source_tie.

(* hence, for every well-formed file: the function compiled from the source of SymbolFile::fill_symbol, run on the
   parsed table with any fuel that covers the table's FUNCs, IS [symbolize] (so c11_func_sound, c11_public_rule,
   c11_line_sound, c11_inline_chain, c11_equals_linear_scan ... are theorems about the compiled source), and it
   returns: no overflow trap, no index panic, the loop ends.  Prims.src_fuel st is such a fuel. *)
Theorem c11_compiled_fill_symbol : forall p fuel rf st mbase instr,
  wf_file rf -> 0 <= mbase -> instr < two64 ->
  build_symtab rf = Ret st -> SrcTie.fuel_covers st fuel ->
  C11Src.src_fill_symbol p fuel st mbase instr = symbolize p rf mbase instr /\
  exists o, C11Src.src_fill_symbol p fuel st mbase instr = Ret o.
Proof. exact SrcTie.src_symbolize. Qed.
Print Assumptions c11_compiled_fill_symbol.

(* the parse side: building the table with the compiled finish_item arm (Driver.table_of_src, the table the
   correspondence run prints) is build_symtab, for every well-formed file and both profiles: no trap in the compiled
   closure's `size - 1`, no failing Range::new *)
Theorem c11_compiled_build_symtab : forall p rf, wf_file rf -> Driver.table_of_src p rf = build_symtab rf.
Proof. exact SrcTie.src_build_symtab. Qed.
Print Assumptions c11_compiled_build_symtab.

(* the Symbolizer level, compiled: for every module list whose symbol tables were parsed from well-formed files and every
   fuel covering them, the compiled fill_source_line_info (module lookup, Symbolizer::fill_symbol, SymbolFile::fill_symbol,
   reversal) on a fresh StackFrame returns — no panic at any of its sites — and the frame is the pure result that
   c11_module_frame_total gives for [frame_of]: the module found attached, fill_pure at that module's base, inlines reversed *)
Theorem c11_compiled_frame_total : forall p fuel (mods : list module) instr,
  Forall wf_module mods -> Forall module_parsed mods -> instr < two64 ->
  (forall b sz st, In (b, sz, Some st) mods -> SrcTie.fuel_covers st fuel) ->
  exists tbl, mod_table mods = Ret tbl /\
    C11Src.src_fill_source_line_info p fuel (Prims.mk_sframe instr None empty_out) (tbl, mods) =
      Ret (match rm_get tbl instr with
           | None => Prims.mk_sframe instr None empty_out
           | Some idx =>
               match nth_error mods (Z.to_nat idx) with
               | Some (b, _, Some st) =>
                   let o := fill_pure st b instr in
                   Prims.mk_sframe instr (Some idx) (mk_out (o_func o) (o_src o) (rev (o_inl o)))
               | _ => Prims.mk_sframe instr (Some idx) empty_out
               end
           end).
Proof. exact SrcTie.src_frame_total. Qed.
Print Assumptions c11_compiled_frame_total.

Theorem c11_compiled_driver_fuel : forall st, SrcTie.fuel_covers st (Prims.src_fuel st).
Proof. exact SrcTie.src_fuel_covers. Qed.
Print Assumptions c11_compiled_driver_fuel.

(* the compiled function on nv_file2: two inline frames at 21 (lookups at depth 1 and 2: fuel 2 is needed and
   fuel 1 is not enough — the fuel hypothesis is not idle), a line without inlines at 45, the PUBLIC fallback at 95 *)
Example c11_nonvacuous_compiled :
  exists st, build_symtab nv_file2 = Ret st /\ SrcTie.fuel_covers st 3 /\ Prims.src_fuel st = 3%nat /\
    C11Src.src_fill_symbol Debug 3 st 4096 (4096 + 21) =
      Ret (mk_out (Some (5, 4112, 12)) (Some (7, 70, 4112)) [(21, Some 7, Some 71); (22, Some 7, Some 10)]) /\
    C11Src.src_fill_symbol Debug 2 st 4096 (4096 + 21) = C11Src.src_fill_symbol Debug 3 st 4096 (4096 + 21) /\
    C11Src.src_fill_symbol Debug 1 st 4096 (4096 + 21) = OutOfFuel /\
    C11Src.src_fill_symbol Release 3 st 4096 (4096 + 45) = Ret (mk_out (Some (5, 4112, 4)) (Some (7, 11, 4128)) []) /\
    C11Src.src_fill_symbol Release 3 st 4096 (4096 + 95) = Ret (mk_out (Some (9, 4186, 4)) None []) /\
    C11Src.src_fill_symbol Release 3 st 4096 4095 = Ret empty_out.
Proof.
  eexists. split; [vm_compute; reflexivity|]. split.
  - intros r f Hin. cbn in Hin. repeat (destruct Hin as [E|Hin]; [inversion E; subst; cbn; lia|]). destruct Hin.
  - repeat split; vm_compute; reflexivity.
Qed.

(* ------------------------------------------------------------------------------------------------------------
   Round 5, second pass: the Symbolizer level composed with C12's model of the symbol cache (C11/Session.v).
   A session = one Symbolizer, a module list whose modules the supplier knows (SymOk st), does not know
   (SymMissing -> Err(NotFound)) or has an unparseable file for (SymCorrupt -> Err(ParseError)), and a sequential
   client issuing one lookup per frame (C12's configuration with one task, key = position in the module list). *)

(* C12's theorems at the session.  The schedule [session_sched] finishes it; in ANY schedule that finishes, the client
   holds one result per lookup, in order, each the supplier's single answer for that module (so a module without symbols
   or with a corrupt file never yields a table, and a module with symbols always yields its own); pending_stats:
   requested = processed = number of distinct modules looked up; every module looked up was fetched exactly once. *)
Theorem c11_symbolizer_session : forall (mods : list Session.smodule) (keys : list nat),
  let c := Session.session_cfg mods keys in
  C12.Model.all_done c (Session.session_end mods keys) = true /\
  forall sched, C12.Model.all_done c (C12.Model.run c sched) = true ->
    map fst (C12.Model.results (C12.Model.sh (C12.Model.run c sched)) 0%nat) = keys /\
    (forall i k o, C12.Model.task_result (C12.Model.run c sched) 0%nat i = Some (k, o) ->
       nth_error keys i = Some k /\ o = C12.Model.outc c k) /\
    C12.Model.requested (C12.Model.run c sched) = length (nodup Nat.eq_dec keys) /\
    C12.Model.processed (C12.Model.run c sched) = length (nodup Nat.eq_dec keys) /\
    (forall k, In k keys -> C12.Model.supplier_calls (C12.Model.run c sched) k = 1%nat).
Proof. exact Proofs11.session_theorem. Qed.
Print Assumptions c11_symbolizer_session.

(* composition with C11's module-level model: in EVERY schedule (finished or not), if the cache has answered the lookup
   of the module that C08's table finds for instruction q, then Symbolizer::fill_symbol with that answer (Ok: the
   module's SymbolFile::fill_symbol at the module's own base; Err: frame untouched) followed by the reversal of the
   inlines is [frame_of] — the function c11_module_lookup_compose / c11_module_isolated_found / c11_module_frame_total
   speak about.  The result depends on the module's file alone, not on which lookup fetched it or on the interleaving. *)
Theorem c11_symbolizer_cached_frame : forall p (mods : list Session.smodule) tbl keys q idx m sched i o,
  rm_get tbl q = Some idx -> nth_error mods (Z.to_nat idx) = Some m ->
  C12.Model.task_result (C12.Model.run (Session.session_cfg mods keys) sched) 0%nat i = Some (Z.to_nat idx, o) ->
  frame_of p tbl (map Session.to_module mods) q = do r <- Session.fill_cached p m o q; Ret (Some (idx, r)).
Proof. exact Proofs11.session_frame. Qed.
Print Assumptions c11_symbolizer_cached_frame.

(* three modules: symbols / unknown to the supplier / corrupt file; six frames, the first module looked up three times *)
Example c11_nonvacuous_session :
  exists st tbl,
    build_symtab nv_file2 = Ret st /\
    let mods : list Session.smodule :=
      [(4096, 200, Session.SymOk st); (8192, 100, Session.SymMissing); (12288, 100, Session.SymCorrupt)] in
    mod_table (map Session.to_module mods) = Ret tbl /\
    Session.session_keys tbl [4117; 8200; 4141; 12290; 5000; 4191] = [0; 1; 0; 2; 0]%nat /\
    Session.session_stats mods [0; 1; 0; 2; 0]%nat =
      (3%nat, 3%nat, [Some (true, false); Some (false, false); Some (true, true)]) /\
    C12.Model.results (C12.Model.sh (Session.session_end mods [0; 1; 0; 2; 0]%nat)) 0%nat =
      [(0, C12.Model.OOk); (1, C12.Model.ONotFound); (0, C12.Model.OOk); (2, C12.Model.OParse); (0, C12.Model.OOk)]%nat /\
    frame_of Debug tbl (map Session.to_module mods) 4117 =
      Ret (Some (0, mk_out (Some (5, 4112, 12)) (Some (7, 70, 4112)) [(22, Some 7, Some 10); (21, Some 7, Some 71)])) /\
    frame_of Debug tbl (map Session.to_module mods) 12290 = Ret (Some (2, empty_out)).
Proof.
  eexists. eexists. split; [vm_compute; reflexivity|]. cbv zeta. split; [vm_compute; reflexivity|].
  repeat split; vm_compute; reflexivity.
Qed.

(* the compiled fill_source_line_info on the modules of c11_nonvacuous_session: a frame in the module with symbols (inlines
   reversed, module 0 attached), one in the module whose symbol file is corrupt (module 2 attached, nothing else), one in
   no module (frame untouched) *)
Example c11_nonvacuous_compiled_frames :
  exists st tbl,
    build_symtab nv_file2 = Ret st /\
    let mods : list module := [(4096, 200, Some st); (8192, 100, None); (12288, 100, None)] in
    mod_table mods = Ret tbl /\
    C11Src.src_fill_source_line_info Debug 3 (Prims.mk_sframe 4117 None empty_out) (tbl, mods) =
      Ret (Prims.mk_sframe 4117 (Some 0)
             (mk_out (Some (5, 4112, 12)) (Some (7, 70, 4112)) [(22, Some 7, Some 10); (21, Some 7, Some 71)])) /\
    C11Src.src_fill_source_line_info Debug 3 (Prims.mk_sframe 12290 None empty_out) (tbl, mods) =
      Ret (Prims.mk_sframe 12290 (Some 2) empty_out) /\
    C11Src.src_fill_source_line_info Debug 3 (Prims.mk_sframe 5000 None empty_out) (tbl, mods) =
      Ret (Prims.mk_sframe 5000 None empty_out).
Proof.
  eexists. eexists. split; [vm_compute; reflexivity|]. cbv zeta. split; [vm_compute; reflexivity|].
  repeat split; vm_compute; reflexivity.
Qed.

(* the second symbol file of the correspondence run (module flag 3) *)
Example c11_nonvacuous_alt_table : wf_file Driver.alt_file /\ build_symtab Driver.alt_file = Ret Driver.alt_table.
Proof. split; [unfold Driver.alt_file; cbn [rf_funcs rf_publics rf_win_fd rf_win_fpo]; wf_tac|vm_compute; reflexivity]. Qed.
