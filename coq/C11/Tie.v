(* C11/Tie.v — the functions translate/c11_symbolize.py regenerates from the Rust source on every run
   (Gen/C11Sym.v, the g_ functions) are the hand-written model (C11/Model.v).  Each lemma is an obligation that an edit
   of a comparison operator, an operand, a constant, the table order, the lookup keys or the loop bounds in
   fill_symbol / find_nearest_public / get_inlinee_at_depth / get_outermost_sourceloc / memory_range /
   finish_item / fill_source_line_info breaks. *)
From Coq Require Import Lia.
From RM Require Import C08.Model C11.Model Gen.C11Sym.
Open Scope Z_scope.

Lemma g_inl_key_eq e : g_inl_key e = inl_key e.
Proof. reflexivity. Qed.
Lemma g_pub_key_eq q : g_pub_key q = pub_key q.
Proof. reflexivity. Qed.
Lemma g_func_range_eq base size : g_func_range base size = mk_range base size.
Proof. reflexivity. Qed.

Lemma g_giad_candidate_eq inls depth addr : g_giad_candidate inls depth addr = giad_candidate inls depth addr.
Proof.
  unfold g_giad_candidate, giad_candidate.
  destruct (bsearch_by _ inls) as [i|[|i]]; try reflexivity.
  cbn [Nat.eqb]. rewrite Nat.sub_succ, Nat.sub_0_r. reflexivity.
Qed.
Lemma g_giad_check_eq depth addr c : g_giad_check depth addr c = giad_check depth addr c.
Proof. reflexivity. Qed.
Lemma g_giad_tuple_eq e : g_giad_tuple e = (i_cfile e, i_cline e, i_addr e, i_origin e).
Proof. reflexivity. Qed.
Lemma g_get_inlinee_at_depth_eq inls depth addr :
  g_get_inlinee_at_depth inls depth addr = get_inlinee_at_depth inls depth addr.
Proof. unfold g_get_inlinee_at_depth, get_inlinee_at_depth. rewrite g_giad_candidate_eq. reflexivity. Qed.

Lemma g_get_outermost_sourceloc_eq f addr : g_get_outermost_sourceloc f addr = get_outermost_sourceloc f addr.
Proof.
  unfold g_get_outermost_sourceloc, get_outermost_sourceloc. rewrite g_get_inlinee_at_depth_eq.
  destruct (get_inlinee_at_depth (fn_inls f) 0 addr) as [[e|]| | |]; reflexivity.
Qed.
Lemma g_get_innermost_line_eq f addr : g_get_innermost_line f addr = rm_get (fn_lines f) addr.
Proof. reflexivity. Qed.

Lemma g_depth_start_eq : g_depth_start = 1.
Proof. reflexivity. Qed.
Lemma g_inline_loop_eq p fuel : forall inls addr depth,
  g_inline_loop p fuel inls addr depth = inline_loop p fuel inls addr depth.
Proof.
  induction fuel as [|fuel IH]; intros; [reflexivity|].
  cbn [g_inline_loop inline_loop]. rewrite g_get_inlinee_at_depth_eq.
  destruct (get_inlinee_at_depth inls depth addr) as [[e|]| | |]; cbn [obind]; try reflexivity.
  destruct (chk_add p 32 PANIC_DEPTH depth 1); cbn [obind]; try reflexivity.
  rewrite IH. reflexivity.
Qed.

Lemma g_inner_line_eq line : g_inner_line line = if line =? 0 then None else Some line.
Proof. unfold g_inner_line. destruct (line =? 0); reflexivity. Qed.
Lemma g_emit_frames_eq st chain : forall org inner, g_emit_frames st org chain inner = emit_frames st org chain inner.
Proof.
  induction chain as [|e t IH]; intros org inner.
  - cbn [g_emit_frames emit_frames]. destruct (assoc_last org (st_origins st)); [|reflexivity].
    destruct inner as [l|]; [|reflexivity]. cbn. rewrite g_inner_line_eq. reflexivity.
  - cbn [g_emit_frames emit_frames]. cbn. rewrite IH. reflexivity.
Qed.

Lemma g_find_nearest_public_eq pubs addr : g_find_nearest_public pubs addr = find_nearest_public pubs addr.
Proof. reflexivity. Qed.
Lemma g_prev_func_eq funcs addr : g_prev_func funcs addr = prev_func funcs addr.
Proof.
  unfold g_prev_func, prev_func. destruct (bsearch_by _ funcs) as [i|[|i]]; try reflexivity.
  cbn [Nat.ltb Nat.leb]. rewrite Nat.sub_succ, Nat.sub_0_r. reflexivity.
Qed.
Lemma g_param_size_eq st f addr : g_param_size st f addr = param_size st f addr.
Proof. reflexivity. Qed.

Lemma g_fill_symbol_eq p st mbase instr : g_fill_symbol p st mbase instr = fill_symbol p st mbase instr.
Proof.
  unfold g_fill_symbol, fill_symbol. destruct (instr <? mbase); [reflexivity|]. cbv zeta.
  destruct (rm_get (st_funcs st) (instr - mbase)) as [f|].
  - destruct (chk_add p 64 PANIC_ADD (fn_addr f) mbase); cbn [obind]; try reflexivity.
    rewrite g_get_outermost_sourceloc_eq, g_param_size_eq.
    destruct (get_outermost_sourceloc f (instr - mbase)) as [[[[[fid line] a0] [e0|]]|]| | |]; cbn [obind]; try reflexivity.
    destruct (match assoc_last fid (st_files st) with Some _ => _ | None => _ end); cbn [obind]; try reflexivity.
    rewrite g_inline_loop_eq, g_depth_start_eq.
    destruct (inline_loop p _ _ _ 1); cbn [obind]; try reflexivity.
    rewrite g_emit_frames_eq. reflexivity.
  - rewrite g_find_nearest_public_eq, g_prev_func_eq.
    destruct (find_nearest_public (st_publics st) (instr - mbase)) as [pb|]; [|reflexivity].
    destruct (prev_func (st_funcs st) (instr - mbase)) as [[r f]|]; reflexivity.
Qed.

Lemma g_line_entries_eq ls : g_line_entries ls = line_entries ls.
Proof.
  unfold g_line_entries, line_entries.
  assert (E : forall l, g_line_keep l = (0 <? l_size l)) by (intros; apply Z.gtb_ltb).
  rewrite (filter_ext _ _ E). reflexivity.
Qed.
Lemma g_keep_inls_eq l : filter g_inl_keep l = keep_inls true l.
Proof. unfold keep_inls. apply filter_ext. intros e. apply Z.gtb_ltb. Qed.

Lemma g_win_range_eq w : g_win_range w = win_range w.
Proof. reflexivity. Qed.
Lemma g_win_insert_eq acc w : g_win_insert acc w = win_insert acc w.
Proof. reflexivity. Qed.
Lemma g_merge_step_eq {V} (eqb : V -> V -> bool) acc rv : g_merge_step eqb acc rv = merge_step eqb acc rv.
Proof. reflexivity. Qed.

Lemma g_front_ends_eq :
  (forall a, g_gsaa_instr a = a) /\ g_gsaa_base = 0 /\ (forall i, g_module_key i = i) /\
  (forall o, g_frame_inlines (o_inl o) = frame_inlines o).
Proof. repeat split. Qed.

(* all of it: parse-side pieces and the lookup *)
Lemma source_tie :
  (forall p st mbase instr, g_fill_symbol p st mbase instr = fill_symbol p st mbase instr) /\
  (forall inls depth addr, g_get_inlinee_at_depth inls depth addr = get_inlinee_at_depth inls depth addr) /\
  (forall f addr, g_get_outermost_sourceloc f addr = get_outermost_sourceloc f addr) /\
  (forall p fuel inls addr depth, g_inline_loop p fuel inls addr depth = inline_loop p fuel inls addr depth) /\
  g_depth_start = 1 /\
  (forall pubs addr, g_find_nearest_public pubs addr = find_nearest_public pubs addr) /\
  (forall funcs addr, g_prev_func funcs addr = prev_func funcs addr) /\
  (forall st f addr, g_param_size st f addr = param_size st f addr) /\
  (forall base size, g_func_range base size = mk_range base size) /\
  (forall ls, g_line_entries ls = line_entries ls) /\
  (forall l, filter g_inl_keep l = keep_inls true l) /\
  (forall e, g_inl_key e = inl_key e) /\ (forall q, g_pub_key q = pub_key q) /\
  (forall acc w, g_win_insert acc w = win_insert acc w) /\
  (forall V (eqb : V -> V -> bool) acc rv, g_merge_step eqb acc rv = merge_step eqb acc rv) /\
  (forall a, g_gsaa_instr a = a) /\ g_gsaa_base = 0 /\ (forall i, g_module_key i = i) /\
  (forall o, g_frame_inlines (o_inl o) = frame_inlines o).
Proof.
  split; [exact g_fill_symbol_eq|]. split; [exact g_get_inlinee_at_depth_eq|].
  split; [exact g_get_outermost_sourceloc_eq|]. split; [exact g_inline_loop_eq|].
  split; [exact g_depth_start_eq|]. split; [exact g_find_nearest_public_eq|].
  split; [exact g_prev_func_eq|]. split; [exact g_param_size_eq|]. split; [exact g_func_range_eq|].
  split; [exact g_line_entries_eq|]. split; [exact g_keep_inls_eq|]. split; [exact g_inl_key_eq|].
  split; [exact g_pub_key_eq|]. split; [exact g_win_insert_eq|]. split; [exact @g_merge_step_eq|]. exact g_front_ends_eq.
Qed.
