(* C11/Text.v — from symbol text to the tables of C11.
   C09/Grammar.v models the parser byte by byte: [recog_pst] (one line of parse_more),
   [finish] (SymbolParser::finish) producing a [table] whose names are strings ([rle]).
   C11's model works on records whose names are integers.  This file relates the two:
   mapping names through any [nm : rle -> Z] that is injective on the FUNC names of the file,
   the FUNC table of [finish q] — ranges, Function values with their line tables and sorted
   inlinees — is exactly the FUNC table C11's [build_symtab] builds from the collected records. *)
From Coq Require Import Lia Sorting.Sorted Sorting.Permutation.
From RM Require C09.Model.
From RM Require Import C08.Model C08.Proofs C09.Grammar C11.Model C11.Proofs1 C11.Proofs2.
Open Scope Z_scope.

(* ------------------------------------------------------------------ builders commute with a
   value map that preserves == on the values in scope *)
Section MapCommute.
Context {V W : Type} (eqv : V -> V -> bool) (eqw : W -> W -> bool) (g : V -> W) (P : V -> Prop).
Hypothesis agree : forall a b, P a -> P b -> eqw (g a) (g b) = eqv a b.

Definition GM (e : range * V) : range * W := (fst e, g (snd e)).
Definition inP (l : list (range * V)) : Prop := Forall (fun e => P (snd e)) l.

Lemma insert_map x l :
  insert_stable range_lt (GM x) (map GM l) = map GM (insert_stable range_lt x l).
Proof.
  induction l as [|a t IH]; cbn [insert_stable map]; [reflexivity|].
  cbn [GM fst]. destruct (range_lt (fst a) (fst x)); cbn [map]; [rewrite <- IH|]; reflexivity.
Qed.

Lemma sort_map l : sort_stable range_lt (map GM l) = map GM (sort_stable range_lt l).
Proof.
  unfold sort_stable. induction l as [|a t IH]; cbn [map fold_right]; [reflexivity|].
  rewrite IH. apply insert_map.
Qed.

Lemma merge_step_map acc rv : inP acc -> P (snd rv) ->
  merge_step eqw (map GM acc) (GM rv) = map GM (merge_step eqv acc rv) /\ inP (merge_step eqv acc rv).
Proof.
  intros Hacc Hrv. destruct acc as [|[lr lv] acc']; cbn [map merge_step].
  - split; [reflexivity|constructor; [exact Hrv|constructor]].
  - destruct rv as [r v]. cbn [GM fst snd] in *. inversion Hacc as [|? ? Hl Hrest]; subst. cbn [snd] in Hl.
    rewrite (agree v lv Hrv Hl).
    destruct ((fst r <=? snd lr) && negb (eqv v lv)); [split; [reflexivity|exact Hacc]|].
    destruct ((fst r <=? sat_add 64 (snd lr) 1) && eqv v lv).
    + split; [reflexivity|constructor; assumption].
    + split; [reflexivity|constructor; [exact Hrv|exact Hacc]].
Qed.

Lemma fold_merge_map l : forall acc, inP acc -> inP l ->
  fold_left (merge_step eqw) (map GM l) (map GM acc) = map GM (fold_left (merge_step eqv) l acc).
Proof.
  induction l as [|rv t IH]; intros acc Hacc Hl; cbn [map fold_left]; [reflexivity|].
  inversion Hl; subst. destruct (merge_step_map acc rv Hacc) as [E Hin]; [assumption|].
  rewrite E. apply IH; assumption.
Qed.

Lemma irs_map l : inP l ->
  into_rangemap_safe_p eqw (map GM l) = map GM (into_rangemap_safe_p eqv l).
Proof.
  intros Hl. unfold into_rangemap_safe_p, merge_sorted. rewrite sort_map.
  change (@nil (range * W)) with (map GM []).
  rewrite fold_merge_map; [rewrite map_rev; reflexivity|constructor|].
  unfold inP in *. eapply Permutation_Forall; [apply sort_perm|exact Hl].
Qed.
End MapCommute.

(* ------------------------------------------------------------------ C09 records -> C11 records *)
Section Names.
Variable nm : rle -> Z.

(* C09 keeps the sub-records of an open FUNC latest first *)
Definition raw_of_func (fr : Grammar.func_raw) : Model.func_raw :=
  mk_fraw (Grammar.fr_addr fr) (Grammar.fr_size fr) (Grammar.fr_psize fr) (nm (Grammar.fr_name fr))
          (rev (Grammar.fr_lines fr)) (rev (Grammar.fr_inls fr)).
Definition func_of_sfunc (f : sfunc) : func :=
  mk_func (sf_addr f) (sf_size f) (sf_psize f) (nm (sf_name f)) (sf_lines f) (sf_inls f).
Definition GF : range * sfunc -> range * func := GM func_of_sfunc.

(* the FUNC blocks handed to finish_item, in file order, by the state after the last line *)
Definition funcs_of_pst (q : pst) : list Grammar.func_raw := rev (p_funcs (close_cur q)).

Lemma finish_func_agree fr : Forall wf_line (rev (Grammar.fr_lines fr)) ->
  Grammar.finish_func fr = Ret (match fin_pure true (raw_of_func fr) with
                                | Some (r, f) => Some (r, mk_sf (Grammar.fr_addr fr) (Grammar.fr_size fr)
                                                           (Grammar.fr_psize fr) (Grammar.fr_name fr)
                                                           (fn_lines f) (fn_inls f))
                                | None => None
                                end).
Proof.
  intros Hwf. unfold Grammar.finish_func.
  rewrite (build_total line_eqb) by (apply line_entries_wf; exact Hwf). cbn [obind].
  unfold fin_pure, raw_of_func. cbn [Model.fr_addr Model.fr_size].
  destruct (mk_range (Grammar.fr_addr fr) (Grammar.fr_size fr)); reflexivity.
Qed.

Lemma finish_funcs_agree l : Forall (fun fr => Forall wf_line (rev (Grammar.fr_lines fr))) l ->
  exists fl, Grammar.finish_funcs l = Ret fl /\ map GF fl = fin_list true (map raw_of_func l) /\
             Forall (fun e => exists fr, In fr l /\ sf_name (snd e) = Grammar.fr_name fr) fl.
Proof.
  induction 1 as [|fr t Hfr Ht IH]; cbn [Grammar.finish_funcs map fin_list].
  - exists []. repeat split; constructor.
  - destruct IH as (fl & E & M & N). rewrite (finish_func_agree fr Hfr), E. cbn [obind].
    assert (N' : Forall (fun e => exists fr0, In fr0 (fr :: t) /\ sf_name (snd e) = Grammar.fr_name fr0) fl).
    { eapply Forall_impl; [|exact N]. intros e (fr0 & A & B). exists fr0. split; [right; exact A|exact B]. }
    destruct (fin_pure true (raw_of_func fr)) as [[r f]|] eqn:Ep.
    + eexists. split; [reflexivity|]. split.
      * cbn [map]. f_equal; [|exact M]. unfold GF, GM, func_of_sfunc. cbn.
        unfold fin_pure in Ep. destruct (mk_range _ _); [|discriminate]. inversion Ep; subst. reflexivity.
      * constructor; [|exact N']. exists fr. split; [left; reflexivity|reflexivity].
    + exists fl. auto.
Qed.

(* == on finished Functions, under the name map *)
Lemma rle_eqb_eq a : forall b, rle_eqb a b = true <-> a = b.
Proof.
  induction a as [|[x c] a IH]; intros [|[y d] b]; cbn [rle_eqb]; try (split; congruence).
  rewrite !andb_true_iff, !Z.eqb_eq, IH. split; [intros [[-> ->] ->]; reflexivity|intros E; inversion E; auto].
Qed.

Lemma func_eqb_agree (names : list rle) :
  (forall a b, In a names -> In b names -> nm a = nm b -> a = b) ->
  forall a b, In (sf_name a) names -> In (sf_name b) names ->
    func_eqb (func_of_sfunc a) (func_of_sfunc b) = sfunc_eqb a b.
Proof.
  intros Hinj a b Ha Hb. unfold func_eqb, sfunc_eqb, func_of_sfunc.
  cbn [fn_addr fn_size fn_psize fn_name fn_lines fn_inls].
  assert (E : (nm (sf_name a) =? nm (sf_name b)) = rle_eqb (sf_name a) (sf_name b)).
  { destruct (rle_eqb (sf_name a) (sf_name b)) eqn:Er.
    - apply rle_eqb_eq in Er. rewrite Er. apply Z.eqb_refl.
    - apply Z.eqb_neq. intros Hn. apply Hinj in Hn; [|assumption|assumption].
      apply rle_eqb_eq in Hn. congruence. }
  rewrite E. reflexivity.
Qed.

(* ---- the FUNC table of the parsed text is C11's FUNC table *)
Definition wf_text_funcs (q : pst) : Prop := Forall wf_fraw (map raw_of_func (funcs_of_pst q)).
Definition names_injective (q : pst) : Prop :=
  forall a b, In a (map Grammar.fr_name (funcs_of_pst q)) -> In b (map Grammar.fr_name (funcs_of_pst q)) ->
              nm a = nm b -> a = b.

Lemma obind_ret {A B} (x : outcome A) (f : A -> outcome B) b :
  obind x f = Ret b -> exists a, x = Ret a /\ f a = Ret b.
Proof. destruct x; cbn; try discriminate. intros H. eauto. Qed.

Lemma funcs_from_text q t :
  wf_text_funcs q -> names_injective q -> finish q = Ret t ->
  map GF (t_funcs t) =
  into_rangemap_safe_p func_eqb (fin_list true (map raw_of_func (funcs_of_pst q))).
Proof.
  intros Hwf Hinj Hfin. unfold finish in Hfin.
  apply obind_ret in Hfin. destruct Hfin as (fl & Efl & Hfin).
  apply obind_ret in Hfin. destruct Hfin as (funcs & Efuncs & Hfin).
  apply obind_ret in Hfin. destruct Hfin as (cfis & _ & Hfin).
  apply obind_ret in Hfin. destruct Hfin as (wfd & _ & Hfin).
  apply obind_ret in Hfin. destruct Hfin as (tfd & _ & Hfin).
  apply obind_ret in Hfin. destruct Hfin as (wfpo & _ & Hfin).
  apply obind_ret in Hfin. destruct Hfin as (tfpo & _ & Hfin).
  inversion Hfin; subst t. cbn [t_funcs].
  fold (funcs_of_pst q) in Efl.
  destruct (finish_funcs_agree (funcs_of_pst q)) as (fl' & E' & M & N).
  { unfold wf_text_funcs in Hwf. rewrite Forall_map in Hwf. eapply Forall_impl; [|exact Hwf].
    intros fr (_ & _ & Hl & _). exact Hl. }
  rewrite Efl in E'. inversion E'; subst fl'.
  assert (Hwr : wf_ranges fl).
  { pose proof (fin_list_wf true _ Hwf) as H. rewrite <- M in H. unfold wf_ranges in *.
    rewrite Forall_map in H. exact H. }
  rewrite (build_total_p sfunc_eqb) in Efuncs by exact Hwr. inversion Efuncs; subst funcs.
  rewrite <- M. symmetry. unfold GF.
  apply (irs_map sfunc_eqb func_eqb func_of_sfunc
           (fun sf => In (sf_name sf) (map Grammar.fr_name (funcs_of_pst q)))).
  - intros a b Ha Hb. apply (func_eqb_agree _ Hinj); assumption.
  - unfold inP. eapply Forall_impl; [|exact N]. intros e (fr & A & B). rewrite B. apply in_map. exact A.
Qed.
End Names.

(* ------------------------------------------------------------------ lookups in a mapped table *)
Section GetMap.
Context {V W : Type} (g : V -> W).
Lemma bsearch_map fuel : forall (l : list (range * V)) x base size,
  bsearch_loop fuel (map (GM g) l) x base size = bsearch_loop fuel l x base size.
Proof.
  induction fuel as [|f IH]; intros l x base size; cbn [bsearch_loop]; [reflexivity|].
  destruct (Nat.leb size 1); [reflexivity|]. rewrite nth_error_map.
  destruct (nth_error l (base + Nat.div2 size)) as [[r v]|]; cbn [option_map GM fst snd]; rewrite IH; reflexivity.
Qed.
Lemma rm_get_map (l : list (range * V)) x : rm_get (map (GM g) l) x = option_map g (rm_get l x).
Proof.
  unfold rm_get. destruct l as [|e0 t]; [reflexivity|]. rewrite map_length. cbn [map].
  change (GM g e0 :: map (GM g) t) with (map (GM g) (e0 :: t)). rewrite bsearch_map, nth_error_map.
  destruct (nth_error (e0 :: t) _) as [[r v]|]; cbn [option_map GM fst snd]; [|reflexivity].
  destruct (range_cmp_pt r x); reflexivity.
Qed.
End GetMap.

(* The FUNC lookup that fill_symbol performs on the table parsed from the text finds a FUNC
   block of the text that covers the address, finished exactly as C11's model finishes it. *)
Lemma from_text_funcs nm (lines : list rle) q t :
  RM.C09.Model.fold_recog rle pst recog_pst lineno_pst init_pst lines = inl q ->
  finish q = Ret t -> wf_text_funcs nm q -> names_injective nm q ->
  map (GF nm) (t_funcs t) =
    into_rangemap_safe_p func_eqb (fin_list true (map (raw_of_func nm) (funcs_of_pst q))) /\
  forall x sf, rm_get (t_funcs t) x = Some sf ->
    exists fr, In fr (funcs_of_pst q) /\ func_covers (raw_of_func nm fr) x = true /\
               func_of_sfunc nm sf = fin_func true (raw_of_func nm fr) /\
               0 <= Grammar.fr_addr fr <= x.
Proof.
  intros _ Hfin Hwf Hinj. pose proof (funcs_from_text nm q t Hwf Hinj Hfin) as E. split; [exact E|].
  intros x sf Hg.
  assert (Hg' : rm_get (map (GF nm) (t_funcs t)) x = Some (func_of_sfunc nm sf)).
  { unfold GF. rewrite rm_get_map, Hg. reflexivity. }
  rewrite E in Hg'. apply func_lookup in Hg'; [|exact Hwf].
  destruct Hg' as (fr' & Hin & Hc & Hf & Ha). apply in_map_iff in Hin. destruct Hin as (fr & <- & Hin).
  exists fr. auto.
Qed.
