(* C11/Proofs5.v — the statements of Properties.v, end to end (parse + symbolicate). *)
From Coq Require Import Lia Sorting.Sorted Sorting.Permutation.
From RM Require Import C08.Model C08.Proofs C11.Model C11.Proofs1 C11.Proofs2 C11.Proofs3 C11.Proofs4.
Open Scope Z_scope.

Lemma total p rf mbase instr :
  wf_file rf -> 0 <= mbase -> instr < two64 ->
  exists o, symbolize p rf mbase instr = Ret o.
Proof.
  intros Hwf Hmb Hin. destruct (symbolize_cases true p rf mbase instr Hwf Hmb Hin) as (st & o & _ & _ & Hs & _).
  exists o. exact Hs.
Qed.

Lemma func_sound p rf mbase instr :
  wf_file rf -> 0 <= mbase -> instr < two64 ->
  exists o, symbolize p rf mbase instr = Ret o /\
    (instr < mbase -> o = empty_out) /\
    forall name base ps, o_func o = Some (name, base, ps) ->
      mbase <= instr /\ base <= instr /\
      ((exists fr, In fr (rf_funcs rf) /\ func_covers fr (instr - mbase) = true /\
          name = fr_name fr /\ base = fr_addr fr + mbase /\
          (ps = fr_psize fr \/
           exists w, In w (rf_win_fd rf ++ rf_win_fpo rf) /\ win_covers w (instr - mbase) = true /\ ps = w_psize w))
       \/ (exists pb, In pb (rf_publics rf) /\ p_addr pb <= instr - mbase /\ name = p_name pb /\
             base = p_addr pb + mbase /\ ps = p_psize pb /\ o_src o = None /\ o_inl o = [])).
Proof.
  intros Hwf Hmb Hin. destruct (symbolize_cases true p rf mbase instr Hwf Hmb Hin) as (st & o & Hrel & _ & Hs & Hc).
  exists o. split; [exact Hs|]. destruct Hc as [[Hlt ->]|[(Hge & fr & Hfr & Hcov & Ha & _ & ->)|(Hge & Hg & ->)]].
  - split; [auto|]. intros name base ps H. discriminate.
  - split; [lia|]. intros name base ps H.
    destruct (fill_func_spec true rf st mbase (instr - mbase) fr Hwf Hrel Hfr Hmb Ha) as ((ps' & Ef & Hps) & _ & _).
    rewrite Ef in H. inversion H; subst. split; [assumption|]. split; [lia|]. left. exists fr. auto.
  - split; [lia|]. intros name base ps H.
    destruct (fill_public_spec true rf st mbase (instr - mbase) Hwf Hrel Hg) as [[_ E]|(pb & Hpb & Hle & _ & [[_ E]|[_ E]])];
      rewrite E in H; try discriminate.
    cbn [o_func] in H. inversion H; subst. split; [assumption|]. split; [lia|]. right. exists pb.
    rewrite E. cbn [o_src o_inl]. auto 10.
Qed.

Lemma public_rule p rf mbase instr :
  wf_file rf -> 0 <= mbase -> mbase <= instr < two64 ->
  exists st o, build_symtab rf = Ret st /\ symbolize p rf mbase instr = Ret o /\
    (forall r f, In (r, f) (st_funcs st) ->
       exists fr, In fr (rf_funcs rf) /\ f = fin_func true fr /\ fn_addr f = fst r /\
                  mk_range (fr_addr fr) (fr_size fr) <> None) /\
    (rm_get (st_funcs st) (instr - mbase) = None ->
       ((forall q, In q (rf_publics rf) -> instr - mbase < p_addr q) /\ o = empty_out) \/
       (exists pb, In pb (rf_publics rf) /\ p_addr pb <= instr - mbase /\
          (forall q, In q (rf_publics rf) -> p_addr q <= instr - mbase -> pub_lt pb q = false) /\
          ((cut_by_func st pb (instr - mbase) /\ o = empty_out) \/
           (~ cut_by_func st pb (instr - mbase) /\
            o = mk_out (Some (p_name pb, p_addr pb + mbase, p_psize pb)) None [])))).
Proof.
  intros Hwf Hmb [Hge Hin]. destruct (symbolize_cases true p rf mbase instr Hwf Hmb Hin) as (st & o & Hrel & Hb & Hs & Hc).
  exists st, o. split; [exact Hb|]. split; [exact Hs|]. split.
  - intros r f Hrf. rewrite (sr_funcs _ _ _ Hrel) in Hrf. apply table_entry in Hrf. exact Hrf.
  - intros Hg. destruct Hc as [[Hlt _]|[(_ & fr & _ & _ & _ & Hg' & _)|(_ & _ & ->)]]; [lia|congruence|].
    apply (fill_public_spec true rf st mbase (instr - mbase) Hwf Hrel Hg).
Qed.

Lemma line_sound p rf mbase instr :
  wf_file rf -> 0 <= mbase -> instr < two64 ->
  exists o, symbolize p rf mbase instr = Ret o /\
    forall file line base, o_src o = Some (file, line, base) ->
      base <= instr /\
      exists fr, In fr (rf_funcs rf) /\ func_covers fr (instr - mbase) = true /\
        ((exists e0, In e0 (fr_inls fr) /\ inl_covers 0 (instr - mbase) e0 = true /\
                     assoc_last (i_cfile e0) (rf_files rf) = Some file /\ line = i_cline e0 /\
                     base = i_addr e0 + mbase) \/
         (giad_pure (fn_inls (fin_func true fr)) 0 (instr - mbase) = None /\
          exists l, In l (fr_lines fr) /\ line_covers l (instr - mbase) = true /\
                    assoc_last (l_file l) (rf_files rf) = Some file /\ line = l_line l /\
                    base = l_addr l + mbase)).
Proof.
  intros Hwf Hmb Hin. destruct (symbolize_cases true p rf mbase instr Hwf Hmb Hin) as (st & o & Hrel & _ & Hs & Hc).
  exists o. split; [exact Hs|]. intros file line base H.
  destruct Hc as [[Hlt ->]|[(Hge & fr & Hfr & Hcov & Ha & _ & ->)|(Hge & Hg & ->)]].
  - discriminate.
  - destruct (fill_func_spec true rf st mbase (instr - mbase) fr Hwf Hrel Hfr Hmb Ha) as (_ & Hsrc & _).
    destruct (Hsrc _ _ _ H) as [Hb Hd]. split; [lia|]. exists fr. auto.
  - rewrite (proj1 (fill_public_shape st mbase (instr - mbase))) in H. discriminate.
Qed.

Lemma inline_chain p rf mbase instr :
  wf_file rf -> 0 <= mbase -> instr < two64 ->
  exists st o, build_symtab rf = Ret st /\ symbolize p rf mbase instr = Ret o /\
    frame_inlines o = rev (o_inl o) /\
    (o_inl o <> [] ->
     exists fr chain, In fr (rf_funcs rf) /\ func_covers fr (instr - mbase) = true /\
       (forall k e, nth_error chain k = Some e ->
          In e (fr_inls fr) /\ inl_covers (Z.of_nat k) (instr - mbase) e = true) /\
       giad_pure (fn_inls (fin_func true fr)) (Z.of_nat (length chain)) (instr - mbase) = None /\
       (length chain <= length (fr_inls fr))%nat /\
       (forall l, rm_get (fn_lines (fin_func true fr)) (instr - mbase) = Some l ->
          In l (fr_lines fr) /\ line_covers l (instr - mbase) = true) /\
       o_inl o = frames_spec st chain (rm_get (fn_lines (fin_func true fr)) (instr - mbase))).
Proof.
  intros Hwf Hmb Hin. destruct (symbolize_cases true p rf mbase instr Hwf Hmb Hin) as (st & o & Hrel & Hb & Hs & Hc).
  exists st, o. split; [exact Hb|]. split; [exact Hs|]. split; [reflexivity|]. intros Hne.
  destruct Hc as [[Hlt ->]|[(Hge & fr & Hfr & Hcov & Ha & _ & ->)|(Hge & Hg & ->)]].
  - exfalso. apply Hne. reflexivity.
  - destruct (fill_func_spec true rf st mbase (instr - mbase) fr Hwf Hrel Hfr Hmb Ha) as (_ & _ & Hinl).
    exists fr, (inl_chain (fin_func true fr) (instr - mbase)).
    destruct (inl_chain_spec (fin_func true fr) (instr - mbase)) as (C1 & C2 & C3).
    split; [assumption|]. split; [assumption|]. split.
    { intros k e Hk. destruct (C1 k e Hk) as [A B]. split; [eapply fin_inls_in; eassumption|assumption]. }
    split; [assumption|]. split.
    { cbn [fin_func fn_inls] in C3. rewrite sort_by_length in C3.
      pose proof (keep_inls_length true (fr_inls fr)). lia. }
    split; [|exact Hinl].
    intros l Hl. cbn [fin_func fn_lines] in Hl. destruct Hwf as (Hwff & _).
    rewrite Forall_forall in Hwff. destruct (Hwff _ Hfr) as (_ & _ & Hlw & _).
    apply lines_lookup in Hl; [tauto|assumption].
  - exfalso. apply Hne. apply (proj2 (fill_public_shape st mbase (instr - mbase))).
Qed.
