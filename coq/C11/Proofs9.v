(* C11/Proofs9.v — round 4:
   (a) the number of get_inlinee_at_depth calls one symbolication makes (instrumented copy of
       fill_symbol, proved to be fill_symbol with a counter) is 0 without a covering FUNC and
       otherwise 1 + the length of the inline chain found <= number of INLINE ranges of that FUNC + 1,
       whatever fuel at or above the model's is given to the depth loop;
   (b) for ALL files: a FUNC record that covers the address and intersects no other FUNC record is
       the one reported (the overlap resolution of the table builder cannot lose it);
   (c) module list: a module that contains the instruction and intersects no other module is the
       one the frame is attributed to. *)
From Coq Require Import Lia Sorting.Sorted Sorting.Permutation.
From RM Require Import C08.Model C08.Proofs C11.Model C11.Proofs1 C11.Proofs2 C11.Proofs3 C11.Proofs6 C11.Proofs7.
Open Scope Z_scope.

(* ------------------------------------------------------------------ (a) lookup count *)
Fixpoint inline_loop_n (p : profile) (fuel : nat) (inls : list inl_rec) (addr depth : Z)
  : outcome (list inl_rec * nat) :=
  match fuel with
  | O => OutOfFuel
  | S fuel' =>
      do r <- get_inlinee_at_depth inls depth addr;
      match r with
      | None => Ret ([], 1%nat)
      | Some e =>
          do depth' <- chk_add p 32 PANIC_DEPTH depth 1;
          do rest <- inline_loop_n p fuel' inls addr depth';
          Ret (e :: fst rest, S (snd rest))
      end
  end.

(* fill_symbol with a counter of get_inlinee_at_depth calls; [extra] = fuel beyond the model's *)
Definition fill_symbol_n (p : profile) (extra : nat) (st : symtab) (mbase instr : Z) : outcome (sym_out * nat) :=
  if instr <? mbase then Ret (empty_out, 0%nat)
  else
    let addr := instr - mbase in
    match rm_get (st_funcs st) addr with
    | Some f =>
        do fbase <- chk_add p 64 PANIC_ADD (fn_addr f) mbase;
        let fo := Some (fn_name f, fbase, param_size st f addr) in
        do outer <- get_outermost_sourceloc f addr;      (* one call, depth 0 *)
        match outer with
        | None => Ret (mk_out fo None [], 1%nat)
        | Some (fid, line, a, org) =>
            do src <- match assoc_last fid (st_files st) with
                      | Some fname => do b <- chk_add p 64 PANIC_ADD a mbase; Ret (Some (fname, line, b))
                      | None => Ret None
                      end;
            match org with
            | None => Ret (mk_out fo src [], 1%nat)
            | Some e0 =>
                do cn <- inline_loop_n p (extra + length (fn_inls f)) (fn_inls f) addr 1;
                Ret (mk_out fo src (emit_frames st (i_origin e0) (fst cn) (rm_get (fn_lines f) addr)), S (snd cn))
            end
        end
    | None =>
        match find_nearest_public (st_publics st) addr with
        | None => Ret (empty_out, 0%nat)
        | Some pb =>
            let cut := match prev_func (st_funcs st) addr with
                       | Some (_, f) => p_addr pb <=? fn_addr f
                       | None => false
                       end in
            if cut then Ret (empty_out, 0%nat)
            else do b <- chk_add p 64 PANIC_ADD (p_addr pb) mbase;
                 Ret (mk_out (Some (p_name pb, b, p_psize pb)) None [], 0%nat)
        end
    end.

(* the instrumentation is faithful: dropping the counter gives the model's loop / fill_symbol *)
Lemma inline_loop_n_fst p fuel : forall inls addr depth,
  inline_loop p fuel inls addr depth = do x <- inline_loop_n p fuel inls addr depth; Ret (fst x).
Proof.
  induction fuel as [|f IH]; intros; [reflexivity|]. cbn [inline_loop inline_loop_n].
  destruct (get_inlinee_at_depth inls depth addr) as [[e|]| | |]; cbn [obind]; try reflexivity.
  destruct (chk_add p 32 PANIC_DEPTH depth 1) as [d'| | |]; cbn [obind]; try reflexivity.
  rewrite IH. destruct (inline_loop_n p f inls addr d'); reflexivity.
Qed.

Lemma fill_symbol_n_fst p st mbase instr :
  fill_symbol p st mbase instr = do x <- fill_symbol_n p 0 st mbase instr; Ret (fst x).
Proof.
  unfold fill_symbol, fill_symbol_n. destruct (instr <? mbase); [reflexivity|]. cbv zeta.
  destruct (rm_get (st_funcs st) (instr - mbase)) as [f|].
  - destruct (chk_add p 64 PANIC_ADD (fn_addr f) mbase); cbn [obind]; try reflexivity.
    destruct (get_outermost_sourceloc f (instr - mbase)) as [[[[[fid line] a0] [e0|]]|]| | |]; cbn [obind]; try reflexivity.
    + destruct (match assoc_last fid (st_files st) with Some _ => _ | None => _ end); cbn [obind]; try reflexivity.
      cbn [Nat.add]. rewrite inline_loop_n_fst.
      destruct (inline_loop_n p _ _ _ 1); reflexivity.
    + destruct (match assoc_last fid (st_files st) with Some _ => _ | None => _ end); reflexivity.
  - destruct (find_nearest_public (st_publics st) (instr - mbase)) as [pb|]; [|reflexivity].
    destruct (match prev_func (st_funcs st) (instr - mbase) with Some _ => _ | None => _ end); [reflexivity|].
    destruct (chk_add p 64 PANIC_ADD (p_addr pb) mbase); reflexivity.
Qed.

(* the loop makes exactly (chain length + 1) lookups, for every fuel that lets it stop by itself *)
Lemma inline_loop_n_ret p fuel : forall inls addr depth,
  0 <= depth -> depth + Z.of_nat (length (chain_from fuel inls addr depth)) < two32 ->
  (length (chain_from fuel inls addr depth) < fuel)%nat ->
  inline_loop_n p fuel inls addr depth =
    Ret (chain_from fuel inls addr depth, S (length (chain_from fuel inls addr depth))).
Proof.
  induction fuel as [|f IH]; intros inls addr depth Hd Hb Hl; [cbn in Hl; lia|].
  cbn [inline_loop_n chain_from] in *. rewrite giad_ret. cbn [obind].
  destruct (giad_pure inls depth addr) as [e0|]; [|reflexivity].
  cbn [length] in Hl, Hb.
  unfold chk_add, chk. replace (2 ^ 32) with two32 by reflexivity.
  destruct ((0 <=? depth + 1) && (depth + 1 <? two32)) eqn:E.
  - cbn [obind]. rewrite IH; [reflexivity|lia|lia|lia].
  - apply andb_false_iff in E. lia.
Qed.

(* the count, as a pure function of the table *)
Definition lookups_pure (st : symtab) (mbase instr : Z) : nat :=
  if instr <? mbase then 0%nat
  else match rm_get (st_funcs st) (instr - mbase) with
       | Some f => S (length (inl_chain f (instr - mbase)))
       | None => 0%nat
       end.

Lemma inl_chain_le f addr : (length (inl_chain f addr) <= length (fn_inls f))%nat.
Proof.
  unfold inl_chain. destruct (giad_pure (fn_inls f) 0 addr) as [e0|] eqn:E0; [|cbn; lia].
  pose proof (chain_short _ _ _ E0). cbn [length]. lia.
Qed.

Lemma fill_n_ret fixed p extra rf st mbase instr :
  wf_file rf -> st_rel fixed rf st -> 0 <= mbase -> instr < two64 ->
  fill_symbol_n p extra st mbase instr = Ret (fill_pure st mbase instr, lookups_pure st mbase instr).
Proof.
  intros Hwf Hrel Hmb Hin. unfold fill_symbol_n, fill_pure, lookups_pure, fill_func, fill_public.
  destruct (instr <? mbase) eqn:Elt; [reflexivity|]. apply Z.ltb_ge in Elt.
  set (addr := instr - mbase). destruct Hwf as (Hwff & Hwfp & _).
  destruct (rm_get (st_funcs st) addr) as [f|] eqn:Ef.
  - rewrite (sr_funcs _ _ _ Hrel) in Ef. apply func_lookup in Ef; [|assumption].
    destruct Ef as (fr & Hfr & Hcov & -> & Ha). rewrite Forall_forall in Hwff. specialize (Hwff _ Hfr).
    destruct (fin_inls_wf fixed fr Hwff) as [Hiw Hil].
    rewrite chk_add_ok by (cbn [fin_func fn_addr]; unfold addr in *; lia). cbn [obind].
    unfold get_outermost_sourceloc, inl_chain. rewrite giad_ret. cbn [obind].
    destruct (giad_pure (fn_inls (fin_func fixed fr)) 0 addr) as [e0|] eqn:E0.
    + cbn [obind]. pose proof (giad_sound _ _ _ _ E0) as (He0in & _ & He0a & _).
      rewrite Forall_forall in Hiw. destruct (Hiw _ He0in) as (_ & [A1 A2] & _).
      pose proof (chain_short _ _ _ E0) as Hshort.
      set (inls := fn_inls (fin_func fixed fr)) in *.
      assert (Hge : chain_from (extra + length inls) inls addr 1 = chain_from (length inls) inls addr 1)
        by (apply chain_from_ge; [exact Hshort|lia]).
      unfold src_of. rewrite inline_loop_n_ret; [|lia| |].
      * rewrite Hge. cbn [fst snd length].
        destruct (assoc_last (i_cfile e0) (st_files st)); cbn [obind];
          [rewrite chk_add_ok by (unfold addr in *; lia); cbn [obind]|]; reflexivity.
      * rewrite Hge. unfold two32 in *. lia.
      * rewrite Hge. lia.
    + destruct (rm_get (fn_lines (fin_func fixed fr)) addr) as [l|] eqn:El; cbn [obind]; [|reflexivity].
      cbn [fin_func fn_lines] in El. destruct Hwff as (_ & _ & Hlw & _).
      apply lines_lookup in El; [|assumption]. destruct El as (_ & _ & Hla).
      unfold src_of. destruct (assoc_last (l_file l) (st_files st)); cbn [obind];
        [rewrite chk_add_ok by (unfold addr in *; lia); cbn [obind]|]; reflexivity.
  - destruct (find_nearest_public (st_publics st) addr) as [pb|] eqn:Epb; [|reflexivity].
    fold (public_cut st pb addr). destruct (public_cut st pb addr); [reflexivity|].
    unfold find_nearest_public in Epb. apply find_some_rev in Epb. destruct Epb as [Hpin Hle].
    rewrite (sr_pubs _ _ _ Hrel) in Hpin. apply sort_by_in in Hpin.
    rewrite Forall_forall in Hwfp. specialize (Hwfp _ Hpin). unfold wf_pub, u64 in Hwfp.
    rewrite chk_add_ok by (unfold addr in *; lia). reflexivity.
Qed.

Lemma inline_lookups_bounded p rf mbase instr :
  wf_file rf -> 0 <= mbase -> instr < two64 ->
  exists st o n, build_symtab rf = Ret st /\ symbolize p rf mbase instr = Ret o /\
    (forall extra, fill_symbol_n p extra st mbase instr = Ret (o, n)) /\
    (forall extra, fill_symbol p st mbase instr = do x <- fill_symbol_n p extra st mbase instr; Ret (fst x)) /\
    ((instr < mbase \/ rm_get (st_funcs st) (instr - mbase) = None) -> n = 0%nat) /\
    (forall f, mbase <= instr -> rm_get (st_funcs st) (instr - mbase) = Some f ->
       n = S (length (inl_chain f (instr - mbase))) /\
       exists fr, In fr (rf_funcs rf) /\ func_covers fr (instr - mbase) = true /\ f = fin_func true fr /\
                  (n <= length (fr_inls fr) + 1)%nat).
Proof.
  intros Hwf Hmb Hin. destruct (symbolize_ret true p rf mbase instr Hwf Hmb Hin) as (st & Hrel & Hb & Hs).
  exists st, (fill_pure st mbase instr), (lookups_pure st mbase instr).
  split; [exact Hb|]. split; [exact Hs|].
  split; [intros extra; eapply fill_n_ret; eassumption|].
  split.
  { intros extra. rewrite (fill_n_ret true p extra rf st mbase instr Hwf Hrel Hmb Hin). cbn [obind fst].
    eapply fill_ret; eassumption. }
  split.
  - unfold lookups_pure. intros [H|H].
    + apply Z.ltb_lt in H. rewrite H. reflexivity.
    + destruct (instr <? mbase); [reflexivity|]. rewrite H. reflexivity.
  - intros f Hge Hf. unfold lookups_pure. replace (instr <? mbase) with false by (symmetry; apply Z.ltb_ge; lia).
    rewrite Hf. split; [reflexivity|].
    rewrite (sr_funcs _ _ _ Hrel) in Hf. destruct Hwf as (Hwff & _).
    apply func_lookup in Hf; [|assumption]. destruct Hf as (fr & Hfr & Hcov & -> & _).
    exists fr. split; [assumption|]. split; [assumption|]. split; [reflexivity|].
    pose proof (inl_chain_le (fin_func true fr) (instr - mbase)) as H1.
    cbn [fin_func fn_inls] in H1. rewrite sort_by_length in H1.
    pose proof (keep_inls_length true (fr_inls fr)). lia.
Qed.

(* ------------------------------------------------------------------ (b) isolated FUNC *)
Definition func_isolated (fr : func_raw) (others : list func_raw) : Prop :=
  forall fr' r r', In fr' others -> mk_range (fr_addr fr) (fr_size fr) = Some r ->
    mk_range (fr_addr fr') (fr_size fr') = Some r' -> intersects r r' = false.

Lemma fill_func_ofunc st mbase addr f :
  o_func (fill_func st mbase addr f) = Some (fn_name f, fn_addr f + mbase, param_size st f addr).
Proof.
  unfold fill_func. destruct (inl_chain f addr); [|reflexivity].
  destruct (rm_get (fn_lines f) addr); reflexivity.
Qed.

Lemma isolated_func_found p rf mbase instr l1 fr l2 :
  wf_file rf -> 0 <= mbase -> mbase <= instr < two64 ->
  rf_funcs rf = l1 ++ fr :: l2 -> func_covers fr (instr - mbase) = true -> func_isolated fr (l1 ++ l2) ->
  exists st o, build_symtab rf = Ret st /\ symbolize p rf mbase instr = Ret o /\
    rm_get (st_funcs st) (instr - mbase) = Some (fin_func true fr) /\
    o = fill_func st mbase (instr - mbase) (fin_func true fr) /\
    o_func o = Some (fr_name fr, fr_addr fr + mbase, param_size st (fin_func true fr) (instr - mbase)).
Proof.
  intros Hwf Hmb [Hge Hin] Hsplit Hcov Hiso.
  destruct (symbolize_ret true p rf mbase instr Hwf Hmb Hin) as (st & Hrel & Hb & Hs).
  assert (Hg : rm_get (st_funcs st) (instr - mbase) = Some (fin_func true fr)).
  { rewrite (sr_funcs _ _ _ Hrel), Hsplit. destruct Hwf as (Hwff & _). rewrite Hsplit in Hwff.
    unfold func_covers in Hcov. destruct (mk_range (fr_addr fr) (fr_size fr)) as [r|] eqn:Er; [|discriminate].
    rewrite fin_list_app. rewrite (fin_list_cons_some true fr l2 r Er).
    apply (isolated_complete_p func_eqb func_eqb_eq); [| |assumption].
    - pose proof (fin_list_wf true _ Hwff) as H. rewrite fin_list_app in H.
      rewrite (fin_list_cons_some true fr l2 r Er) in H. exact H.
    - intros r' v' Hin'. rewrite <- fin_list_app in Hin'. apply fin_list_in in Hin'.
      destruct Hin' as (fr' & Hfr' & Hp). unfold fin_pure in Hp.
      destruct (mk_range (fr_addr fr') (fr_size fr')) as [r1|] eqn:Er'; [|discriminate]. inversion Hp; subst.
      eapply Hiso; eauto. }
  exists st, (fill_pure st mbase instr). split; [exact Hb|]. split; [exact Hs|]. split; [exact Hg|].
  unfold fill_pure. replace (instr <? mbase) with false by (symmetry; apply Z.ltb_ge; lia). rewrite Hg.
  split; [reflexivity|]. rewrite fill_func_ofunc. reflexivity.
Qed.

(* ------------------------------------------------------------------ (c) isolated module *)
Lemma enumerate_from_app {A} (a b : list A) : forall k,
  enumerate_from k (a ++ b) = enumerate_from k a ++ enumerate_from (k + Z.of_nat (length a)) b.
Proof.
  induction a as [|x t IH]; intros k; cbn [app enumerate_from length].
  - rewrite Z.add_0_r. reflexivity.
  - rewrite IH. do 3 f_equal. lia.
Qed.

Lemma isolated_module_found p (m1 : list module) b sz ost (m2 : list module) instr r :
  Forall wf_module (m1 ++ (b, sz, ost) :: m2) ->
  mk_range b sz = Some r -> contains r instr = true ->
  (forall m r', In m (m1 ++ m2) -> mk_range (fst (fst m)) (snd (fst m)) = Some r' -> intersects r r' = false) ->
  exists tbl, mod_table (m1 ++ (b, sz, ost) :: m2) = Ret tbl /\
    rm_get tbl instr = Some (Z.of_nat (length m1)) /\ b <= instr /\
    frame_of p tbl (m1 ++ (b, sz, ost) :: m2) instr =
      match ost with
      | Some st => do o <- fill_symbol p st b instr;
                   Ret (Some (Z.of_nat (length m1), mk_out (o_func o) (o_src o) (rev (o_inl o))))
      | None => Ret (Some (Z.of_nat (length m1), empty_out))
      end.
Proof.
  intros Hwf Hr Hc Hiso. pose proof (mod_ranges_wf _ Hwf) as Hw.
  unfold mod_table, build_indexed. rewrite (build_total Z.eqb) by exact Hw.
  eexists. split; [reflexivity|].
  assert (Hg : rm_get (into_rangemap_safe Z.eqb
             (enumerate_from 0 (map (fun m : module => mk_range (fst (fst m)) (snd (fst m))) (m1 ++ (b, sz, ost) :: m2)))) instr
           = Some (Z.of_nat (length m1))).
  { revert Hw. rewrite map_app. cbn [map fst snd]. rewrite Hr. rewrite enumerate_from_app. cbn [enumerate_from].
    rewrite map_length, Z.add_0_l. intros Hw.
    apply (isolated_complete Z.eqb Z.eqb_eq); [exact Hw| |exact Hc].
    intros r' v' Hin'. apply in_app_or in Hin'.
    assert (Hm : exists m, In m (m1 ++ m2) /\ mk_range (fst (fst m)) (snd (fst m)) = Some r').
    { destruct Hin' as [Hin'|Hin']; apply enumerate_in in Hin'; destruct Hin' as [_ Hn];
        apply nth_error_In in Hn; apply in_map_iff in Hn; destruct Hn as (m & E & Hm);
        exists m; (split; [apply in_or_app; auto|exact E]). }
    destruct Hm as (m & Hm & E). eapply Hiso; eassumption. }
  split; [exact Hg|]. split.
  { apply mk_range_some in Hr. destruct Hr as (_ & -> & _). unfold contains in Hc. cbn [fst snd] in Hc. lia. }
  unfold frame_of. rewrite Hg. rewrite Nat2Z.id. rewrite nth_error_app2 by lia. rewrite Nat.sub_diag. cbn [nth_error].
  destruct ost; reflexivity.
Qed.
