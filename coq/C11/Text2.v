(* C11/Text2.v — the rest of the text -> table composition: PUBLIC list, STACK WIN tables,
   FILE / INLINE_ORIGIN maps, and the assembled statement. *)
From Coq Require Import Lia Sorting.Sorted Sorting.Permutation.
From RM Require C09.Model.
From RM Require Import C08.Model C08.Proofs C09.Grammar C11.Model C11.Proofs1 C11.Proofs2 C11.Proofs8 C11.Text.
Open Scope Z_scope.

(* ------------------------------------------------------------------ sorting under a key map *)
Section SortKey.
Context {A B : Type} (lt : A -> A -> bool) (lt' : B -> B -> bool) (f : A -> B).
Definition FK (e : A * unit) : B * unit := (f (fst e), snd e).

Lemma insert_key_map x l :
  (forall y, In y l -> lt' (f (fst y)) (f (fst x)) = lt (fst y) (fst x)) ->
  insert_stable lt' (FK x) (map FK l) = map FK (insert_stable lt x l).
Proof.
  induction l as [|y t IH]; intros H; cbn [insert_stable map]; [reflexivity|].
  cbn [FK fst]. rewrite (H y (or_introl eq_refl)).
  destruct (lt (fst y) (fst x)); cbn [map]; [|reflexivity].
  f_equal. apply IH. intros z Hz. apply H. right. exact Hz.
Qed.

Lemma sort_key_map l :
  (forall a b, In a l -> In b l -> lt' (f (fst a)) (f (fst b)) = lt (fst a) (fst b)) ->
  sort_stable lt' (map FK l) = map FK (sort_stable lt l).
Proof.
  unfold sort_stable. induction l as [|x t IH]; intros H; cbn [map fold_right]; [reflexivity|].
  rewrite IH by (intros a b Ha Hb; apply H; right; assumption).
  apply insert_key_map. intros y Hy. apply H; [right|left; reflexivity].
  eapply Permutation_in; [symmetry; apply (sort_perm lt)|exact Hy].
Qed.

Lemma sort_by_map l :
  (forall a b, In a l -> In b l -> lt' (f a) (f b) = lt a b) ->
  sort_by lt' (map f l) = map f (sort_by lt l).
Proof.
  intros H. unfold sort_by. rewrite map_map.
  rewrite (map_ext (fun x => (f x, tt)) (fun x => FK (x, tt))) by reflexivity.
  rewrite <- (map_map (fun e => (e, tt)) FK). rewrite sort_key_map.
  - rewrite !map_map. reflexivity.
  - intros a b Ha Hb. apply in_map_iff in Ha, Hb. destruct Ha as (a0 & <- & Ha), Hb as (b0 & <- & Hb).
    cbn [fst]. apply H; assumption.
Qed.
End SortKey.

(* ------------------------------------------------------------------ HashMap renderings *)
Lemma assoc_last_app k a : forall b,
  assoc_last k (a ++ b) = match assoc_last k b with Some v => Some v | None => assoc_last k a end.
Proof.
  induction a as [|[k' v] t IH]; intros b; cbn [app assoc_last]; [destruct (assoc_last k b); reflexivity|].
  rewrite IH. destruct (assoc_last k b); [reflexivity|]. reflexivity.
Qed.

Fixpoint assoc_first (k : Z) (l : list (Z * rle)) : option rle :=
  match l with [] => None | (k', v) :: t => if k' =? k then Some v else assoc_first k t end.

(* generic last-wins lookup on string-valued logs *)
Fixpoint alast (k : Z) (l : list (Z * rle)) : option rle :=
  match l with
  | [] => None
  | (k', v) :: t => match alast k t with Some v' => Some v' | None => if k' =? k then Some v else None end
  end.
Lemma assoc_last_nm (g : rle -> Z) k l :
  assoc_last k (map (fun kv : Z * rle => (fst kv, g (snd kv))) l) = option_map g (alast k l).
Proof.
  induction l as [|[k' v] t IH]; cbn [map assoc_last alast fst snd]; [reflexivity|].
  rewrite IH. destruct (alast k t); cbn [option_map]; [reflexivity|]. destruct (k' =? k); reflexivity.
Qed.
Lemma alast_app k a : forall b,
  alast k (a ++ b) = match alast k b with Some v => Some v | None => alast k a end.
Proof.
  induction a as [|[k' v] t IH]; intros b; cbn [app alast]; [destruct (alast k b); reflexivity|].
  rewrite IH. destruct (alast k b); reflexivity.
Qed.
Lemma alast_rev k l : alast k (rev l) = assoc_first k l.
Proof.
  induction l as [|[k' v] t IH]; cbn [rev assoc_first]; [reflexivity|].
  rewrite alast_app. cbn [alast]. destruct (k' =? k); [reflexivity|exact IH].
Qed.

Definition keys_sorted (m : list (Z * rle)) : Prop := StronglySorted (fun a b => fst a < fst b) m.
Lemma alast_none k m : (forall e, In e m -> fst e <> k) -> alast k m = None.
Proof.
  induction m as [|[k' v] t IH]; intros H; cbn [alast]; [reflexivity|].
  rewrite IH by (intros e He; apply H; right; exact He).
  destruct (k' =? k) eqn:E; [|reflexivity]. apply Z.eqb_eq in E. exfalso. apply (H (k', v)); [left; reflexivity|exact E].
Qed.

Lemma map_insert_spec k v m : keys_sorted m ->
  keys_sorted (map_insert k v m) /\
  (forall e, In e (map_insert k v m) -> e = (k, v) \/ In e m) /\
  forall k', alast k' (map_insert k v m) = if k =? k' then Some v else alast k' m.
Proof.
  induction m as [|[k0 v0] t IH]; intros Hs; cbn [map_insert].
  - split; [repeat constructor|]. split; [intros e [<-|[]]; auto|]. intros k'. cbn [alast]. reflexivity.
  - inversion Hs as [|? ? Ht Hall]; subst. rewrite Forall_forall in Hall.
    destruct (k <? k0) eqn:E1; [|destruct (k =? k0) eqn:E2].
    + apply Z.ltb_lt in E1. split; [|split].
      * constructor; [exact Hs|]. constructor; [exact E1|]. rewrite Forall_forall. intros e He.
        specialize (Hall e He). cbn [fst] in *. lia.
      * intros e [<-|He]; auto.
      * intros k'. cbn [alast]. destruct (alast k' t) eqn:Ea; [|].
        -- destruct (k =? k') eqn:Ek; [|reflexivity]. apply Z.eqb_eq in Ek. subst k'.
           rewrite alast_none in Ea; [discriminate|]. intros e He. specialize (Hall e He). cbn [fst] in *. lia.
        -- destruct (k0 =? k') eqn:E0; destruct (k =? k') eqn:Ek; try reflexivity.
           apply Z.eqb_eq in E0, Ek. lia.
    + apply Z.eqb_eq in E2. subst k0. split; [|split].
      * constructor; [exact Ht|]. rewrite Forall_forall. exact Hall.
      * intros e [<-|He]; [auto|right; right; exact He].
      * intros k'. cbn [alast]. destruct (alast k' t) eqn:Ea.
        -- destruct (k =? k') eqn:Ek; [|reflexivity]. apply Z.eqb_eq in Ek. subst k'.
           rewrite alast_none in Ea; [discriminate|]. intros e He. specialize (Hall e He). cbn [fst] in *. lia.
        -- destruct (k =? k'); reflexivity.
    + apply Z.ltb_ge in E1. apply Z.eqb_neq in E2. destruct (IH Ht) as (I1 & I2 & I3). split; [|split].
      * constructor; [exact I1|]. rewrite Forall_forall. intros e He. apply I2 in He.
        destruct He as [->|He]; [cbn [fst]; lia|exact (Hall e He)].
      * intros e [<-|He]; [right; left; reflexivity|]. apply I2 in He. destruct He; auto. right. right. assumption.
      * intros k'. cbn [alast]. rewrite I3. destruct (k =? k') eqn:Ek; [reflexivity|]. reflexivity.
Qed.

Lemma map_of_log_spec log : keys_sorted (map_of_log log) /\ forall k, alast k (map_of_log log) = assoc_first k log.
Proof.
  unfold map_of_log. induction log as [|[k v] t IH]; cbn [fold_right assoc_first fst snd].
  - split; [constructor|reflexivity].
  - destruct IH as [I1 I2]. destruct (map_insert_spec k v _ I1) as (J1 & _ & J3).
    split; [exact J1|]. intros k'. rewrite J3, I2. reflexivity.
Qed.

Definition nmv (g : rle -> Z) (kv : Z * rle) : Z * Z := (fst kv, g (snd kv)).
Lemma maps_agree g (log : list (Z * rle)) k :
  assoc_last k (map (nmv g) (map_of_log log)) = assoc_last k (map (nmv g) (rev log)).
Proof.
  unfold nmv. rewrite !assoc_last_nm, alast_rev. rewrite (proj2 (map_of_log_spec log)). reflexivity.
Qed.

(* ------------------------------------------------------------------ PUBLIC order *)
Lemma pub_lt_agree (nm : rle -> Z) (a b : pub_sym) :
  rle_compare (pb_name a) (pb_name b) = (nm (pb_name a) ?= nm (pb_name b)) ->
  Model.pub_lt (mk_pub (pb_addr a) (nm (pb_name a)) (pb_psize a))
               (mk_pub (pb_addr b) (nm (pb_name b)) (pb_psize b)) = Grammar.pub_lt a b.
Proof.
  intros Hc. unfold Model.pub_lt, pub_key, Grammar.pub_lt. cbn [p_addr p_name p_psize lex_lt]. rewrite Hc.
  destruct (Z.compare_spec (pb_addr a) (pb_addr b)) as [E|L|G]; cbn [cmp_lt].
  - rewrite E, Z.ltb_irrefl, Z.eqb_refl. cbn [orb andb].
    destruct (Z.compare_spec (nm (pb_name a)) (nm (pb_name b))) as [E2|L2|G2]; cbn [cmp_lt].
    + rewrite E2, Z.ltb_irrefl, Z.eqb_refl. cbn [orb andb]. rewrite andb_false_r, orb_false_r. reflexivity.
    + rewrite (proj2 (Z.ltb_lt _ _) L2). reflexivity.
    + rewrite (proj2 (Z.ltb_ge _ _)) by lia. rewrite (proj2 (Z.eqb_neq _ _)) by lia. reflexivity.
  - rewrite (proj2 (Z.ltb_lt _ _) L). reflexivity.
  - rewrite (proj2 (Z.ltb_ge _ _)) by lia. rewrite (proj2 (Z.eqb_neq _ _)) by lia. reflexivity.
Qed.

(* ------------------------------------------------------------------ STACK WIN records *)
Section Win.
Variable tg : win_info -> Z.
Hypothesis tg_size : forall w sz, tg (wi_set_size w sz) = tg w.

Definition Gw (w : win_info) : win_rec := mk_win (wi_addr w) (wi_size w) (wi_params w) (tg w).
Definition GW : range * win_info -> range * win_rec := GM Gw.

(* [a] is a record of [ws], possibly with its size repaired *)
Definition in_scope (ws : list win_info) (a : win_info) : Prop :=
  exists w0, In w0 ws /\ (a = w0 \/ exists sz, a = wi_set_size w0 sz).

Lemma win_insert_map ws acc w acc' :
  Forall (fun e => in_scope ws (snd e)) acc -> In w ws ->
  Grammar.win_insert acc w = Ret acc' ->
  Model.win_insert (map GW acc) (Gw w) = Ret (map GW acc') /\ Forall (fun e => in_scope ws (snd e)) acc'.
Proof.
  intros Hacc Hw. unfold Grammar.win_insert, Model.win_insert.
  change (win_range (Gw w)) with (wi_range w).
  assert (Hnew : in_scope ws w) by (exists w; auto).
  destruct (wi_range w) as [mr|]; [|intros H; inversion H; subst; auto].
  destruct acc as [|[lr lw] acc0]; [intros H; inversion H; subst; split; [reflexivity|repeat constructor; exact Hnew]|].
  cbn [map GW GM fst snd]. inversion Hacc as [|? ? Hl Hrest]; subst. cbn [snd] in Hl.
  destruct (intersects lr mr); [|intros H; inversion H; subst; split; [reflexivity|constructor; assumption]].
  change (w_addr (Gw w)) with (wi_addr w). change (w_addr (Gw lw)) with (wi_addr lw).
  destruct (wi_addr w >? wi_addr lw).
  - unfold win_range, wi_range, Gw. cbn [w_addr w_size w_psize w_tag wi_addr wi_size wi_set_size].
    destruct (mk_range (wi_addr lw) (wrap32 (wi_addr w - wi_addr lw))) as [lr'|]; [|discriminate].
    intros H; inversion H; subst. split.
    + cbn [map GW GM fst snd]. unfold Gw.
      rewrite <- (tg_size lw (wrap32 (wi_addr w - wi_addr lw))) at 1. reflexivity.
    + constructor; [exact Hnew|]. constructor; [|exact Hrest]. cbn [snd].
      destruct Hl as (w0 & H0 & [->|[sz ->]]); exists w0; split; try assumption; right; eexists; reflexivity.
  - destruct (negb (range_eqb lr mr)); intros H; inversion H; subst; split; try reflexivity; try assumption.
    constructor; assumption.
Qed.

Lemma win_collect_map ws : forall l acc wl,
  incl l ws -> Forall (fun e => in_scope ws (snd e)) acc ->
  Grammar.win_collect acc l = Ret wl ->
  Model.win_collect (map GW acc) (map Gw l) = Ret (map GW wl) /\ Forall (fun e => in_scope ws (snd e)) wl.
Proof.
  induction l as [|w t IH]; intros acc wl Hincl Hacc; cbn [Grammar.win_collect Model.win_collect map].
  - intros H; inversion H; subst. rewrite map_rev. split; [reflexivity|apply Forall_rev; exact Hacc].
  - intros H. apply obind_ret in H. destruct H as (acc' & E & H).
    destruct (win_insert_map ws acc w acc' Hacc (Hincl w (or_introl eq_refl)) E) as [E' Hacc'].
    rewrite E'. cbn [obind]. apply IH; [intros a Ha; apply Hincl; right; exact Ha|exact Hacc'|exact H].
Qed.
End Win.

(* ------------------------------------------------------------------ the whole table *)
Section Assemble.
Variables (nm : rle -> Z) (tg : win_info -> Z).

Definition Gp (p : pub_sym) : pub_rec := mk_pub (pb_addr p) (nm (pb_name p)) (pb_psize p).

(* the records the parser state holds after the last line, in file order, names through [nm],
   the STACK WIN fields other than address / size / parameter size through [tg] *)
Definition raw_of_pst (q : pst) : raw_file :=
  let p := close_cur q in
  mk_raw (map (nmv nm) (rev (p_files p))) (map (nmv nm) (rev (p_origins p)))
         (map Gp (rev (p_publics p))) (map (raw_of_func nm) (rev (p_funcs p)))
         (map (Gw tg) (rev (p_win_fd p))) (map (Gw tg) (rev (p_win_fpo p))).

(* the SymbolFile that SymbolParser::finish returns, as a C11 table *)
Definition symtab_of_table (t : table) : symtab :=
  mk_symtab (map (nmv nm) (t_files t)) (map (nmv nm) (t_origins t)) (map Gp (t_publics t))
            (map (GF nm) (t_funcs t)) (map (GW tg) (t_win_fd t)) (map (GW tg) (t_win_fpo t)).

Record enc_ok (q : pst) : Prop := mk_enc_ok {
  eo_wf : wf_file (raw_of_pst q);
  eo_names : names_injective nm q;
  eo_pub : forall a b, In a (p_publics (close_cur q)) -> In b (p_publics (close_cur q)) ->
             rle_compare (pb_name a) (pb_name b) = (nm (pb_name a) ?= nm (pb_name b));
  eo_tgsize : forall w sz, tg (wi_set_size w sz) = tg w;
  eo_tg_fd : forall a b, in_scope (rev (p_win_fd (close_cur q))) a -> in_scope (rev (p_win_fd (close_cur q))) b ->
               win_eqb (Gw tg a) (Gw tg b) = wi_eqb a b;
  eo_tg_fpo : forall a b, in_scope (rev (p_win_fpo (close_cur q))) a -> in_scope (rev (p_win_fpo (close_cur q))) b ->
                win_eqb (Gw tg a) (Gw tg b) = wi_eqb a b
}.

Lemma win_table_rel ws wfd tfd :
  (forall w sz, tg (wi_set_size w sz) = tg w) ->
  (forall a b, in_scope ws a -> in_scope ws b -> win_eqb (Gw tg a) (Gw tg b) = wi_eqb a b) ->
  Forall wf_win (map (Gw tg) ws) ->
  Grammar.win_collect [] ws = Ret wfd -> build_p wi_eqb wfd = Ret tfd ->
  exists wl, Model.win_collect [] (map (Gw tg) ws) = Ret wl /\ Forall (win_prov (map (Gw tg) ws)) wl /\
             map (GW tg) tfd = into_rangemap_safe_p win_eqb wl.
Proof.
  intros Hsz Hag Hwf Ec Eb.
  destruct (win_collect_map tg Hsz ws ws [] wfd (incl_refl _) (Forall_nil _) Ec) as [Em Hsc].
  cbn [map] in Em.
  destruct (win_collect_ok (map (Gw tg) ws) (map (Gw tg) ws) [] (incl_refl _) Hwf (Forall_nil _)) as (wl & E & Hp).
  rewrite Em in E. inversion E; subst wl. exists (map (GW tg) wfd). split; [exact Em|]. split; [exact Hp|].
  assert (Hwr : wf_ranges wfd).
  { pose proof (win_prov_wf _ _ Hp) as H. unfold wf_ranges in *. rewrite Forall_map in H. exact H. }
  rewrite (build_total_p wi_eqb) in Eb by exact Hwr. inversion Eb; subst tfd.
  symmetry. unfold GW. apply (irs_map wi_eqb win_eqb (Gw tg) (in_scope ws)); [exact Hag|exact Hsc].
Qed.

Lemma table_rel q t : enc_ok q -> finish q = Ret t -> st_rel true (raw_of_pst q) (symtab_of_table t).
Proof.
  intros He Hfin. pose proof Hfin as Hfin0. unfold finish in Hfin.
  apply obind_ret in Hfin. destruct Hfin as (fl & Efl & Hfin).
  apply obind_ret in Hfin. destruct Hfin as (funcs & Efuncs & Hfin).
  apply obind_ret in Hfin. destruct Hfin as (cfis & _ & Hfin).
  apply obind_ret in Hfin. destruct Hfin as (wfd & Ewfd & Hfin).
  apply obind_ret in Hfin. destruct Hfin as (tfd & Etfd & Hfin).
  apply obind_ret in Hfin. destruct Hfin as (wfpo & Ewfpo & Hfin).
  apply obind_ret in Hfin. destruct Hfin as (tfpo & Etfpo & Hfin).
  inversion Hfin as [Ht]. clear Hfin. subst t.
  destruct (eo_wf q He) as (Hwf1 & Hwf2 & Hwf3 & Hwf4).
  unfold raw_of_pst in *. cbn [rf_funcs rf_publics rf_win_fd rf_win_fpo] in *.
  constructor; unfold symtab_of_table;
    cbn [st_files st_origins st_publics st_funcs st_win_fd st_win_fpo rf_files rf_origins rf_publics rf_funcs rf_win_fd rf_win_fpo
         t_files t_origins t_publics t_funcs t_win_fd t_win_fpo].
  - intros k. apply maps_agree.
  - intros k. apply maps_agree.
  - symmetry. apply sort_by_map. intros a b Ha Hb. apply pub_lt_agree.
    apply (eo_pub q He); rewrite in_rev; assumption.
  - apply (funcs_from_text nm q _ Hwf1 (eo_names q He) Hfin0).
  - apply (win_table_rel _ wfd tfd (eo_tgsize q He) (eo_tg_fd q He) Hwf3 Ewfd Etfd).
  - apply (win_table_rel _ wfpo tfpo (eo_tgsize q He) (eo_tg_fpo q He) Hwf4 Ewfpo Etfpo).
Qed.

(* fill_symbol on the table parsed from the text = [symbolize] on the records of the text *)
Lemma from_text (lines : list rle) q t :
  RM.C09.Model.fold_recog rle pst recog_pst lineno_pst init_pst lines = inl q ->
  finish q = Ret t -> enc_ok q ->
  st_rel true (raw_of_pst q) (symtab_of_table t) /\
  forall p mbase instr, 0 <= mbase -> instr < two64 ->
    fill_symbol p (symtab_of_table t) mbase instr = symbolize p (raw_of_pst q) mbase instr.
Proof.
  intros _ Hfin He. pose proof (table_rel q t He Hfin) as R. split; [exact R|].
  intros p mbase instr Hmb Hi. apply table_interface; [exact (eo_wf q He)|exact R|exact Hmb|exact Hi].
Qed.
End Assemble.

(* ------------------------------------------------------------------ number recognisers stay in range *)
Lemma digits_bound (val : Z -> option Z) (base : Z) :
  (forall b d, val b = Some d -> 0 <= d < base) -> 1 < base ->
  forall n s acc k v k' s', 0 <= acc -> digits val base n s acc k = (v, k', s') ->
    0 <= v < (acc + 1) * base ^ Z.of_nat n.
Proof.
  intros Hval Hb. induction n as [|n IH]; intros s acc k v k' s' Hacc; cbn [digits].
  - intros H; inversion H; subst. cbn. lia.
  - assert (Hp : 1 <= base ^ Z.of_nat n) by (pose proof (Z.pow_pos_nonneg base (Z.of_nat n)); lia).
    replace (Z.of_nat (S n)) with (Z.of_nat n + 1) by lia. rewrite Z.pow_add_r, Z.pow_1_r by lia.
    destruct (uncons s) as [[b s1]|]; [|intros H; inversion H; subst; nia].
    destruct (val b) as [d|] eqn:Ed; [|intros H; inversion H; subst; nia].
    intros H. apply Hval in Ed. apply IH in H; [|nia]. nia.
Qed.

Lemma hexval_range b d : hexval b = Some d -> 0 <= d < 16.
Proof.
  unfold hexval. destruct ((48 <=? b) && (b <=? 57)) eqn:E1; [intros H; inversion H; lia|].
  destruct ((97 <=? b) && (b <=? 102)) eqn:E2; [intros H; inversion H; lia|].
  destruct ((65 <=? b) && (b <=? 70)) eqn:E3; [intros H; inversion H; lia|discriminate].
Qed.

Lemma hex_str_range n s v s' : hex_str n s = Some (v, s') -> 0 <= v < 16 ^ Z.of_nat n.
Proof.
  unfold hex_str. destruct (digits hexval 16 n s 0 0) as [[v0 k0] s0] eqn:E.
  destruct (k0 =? 0); [discriminate|]. intros H; inversion H; subst.
  apply (digits_bound hexval 16 hexval_range) in E; lia.
Qed.

(* hex_str::<u64> (16 digits) and hex_str::<u32> (8 digits), decimal_u32 *)
Lemma hex64_range s v s' : hex_str 16%nat s = Some (v, s') -> 0 <= v < two64.
Proof. intros H. apply hex_str_range in H. exact H. Qed.
Lemma hex32_range s v s' : hex_str 8%nat s = Some (v, s') -> 0 <= v < two32.
Proof. intros H. apply hex_str_range in H. exact H. Qed.
Lemma decimal_u32_range s v s' : decimal_u32 s = Some (v, s') -> 0 <= v < two32.
Proof.
  unfold decimal_u32. destruct (digits decval 10 10%nat s 0 0) as [[v0 k0] s0] eqn:E.
  destruct (k0 =? 0); [discriminate|]. destruct (U32MAX <? v0) eqn:Eu; [discriminate|].
  intros H; inversion H; subst. apply Z.ltb_ge in Eu. unfold U32MAX, two32 in *.
  apply (digits_bound decval 10) in E; [lia| |lia|lia].
  intros b d. unfold decval. destruct ((48 <=? b) && (b <=? 57)) eqn:E1; [intros H0; inversion H0; lia|discriminate].
Qed.
