(* C11/Proofs6.v — for files whose records do not overlap, the lookups equal linear scans. *)
From Coq Require Import Lia Sorting.Sorted Sorting.Permutation.
From RM Require Import C08.Model C08.Proofs C11.Model C11.Proofs1 C11.Proofs2 C11.Proofs3 C11.Proofs4 C11.Proofs5.
Open Scope Z_scope.

Fixpoint pairwise {A} (R : A -> A -> Prop) (l : list A) : Prop :=
  match l with [] => True | x :: t => Forall (R x) t /\ pairwise R t end.

(* the addresses a record of size s at a occupies: [a, a+s); nothing when s = 0 *)
Definition occ_disjoint (a1 s1 a2 s2 : Z) : Prop := s1 = 0 \/ s2 = 0 \/ a1 + s1 <= a2 \/ a2 + s2 <= a1.
Definition func_dj (a b : func_raw) : Prop := occ_disjoint (fr_addr a) (fr_size a) (fr_addr b) (fr_size b).
Definition line_dj (a b : line_rec) : Prop := occ_disjoint (l_addr a) (l_size a) (l_addr b) (l_size b).
Definition inl_dj (a b : inl_rec) : Prop :=
  i_depth a <> i_depth b \/ occ_disjoint (i_addr a) (i_size a) (i_addr b) (i_size b).
Definition win_dj (a b : win_rec) : Prop := occ_disjoint (w_addr a) (w_size a) (w_addr b) (w_size b).
Definition non_overlapping (rf : raw_file) : Prop :=
  pairwise func_dj (rf_funcs rf) /\
  Forall (fun fr => pairwise line_dj (fr_lines fr) /\ pairwise inl_dj (fr_inls fr)) (rf_funcs rf) /\
  pairwise win_dj (rf_win_fd rf) /\ pairwise win_dj (rf_win_fpo rf).

Lemma occ_sym a1 s1 a2 s2 : occ_disjoint a1 s1 a2 s2 -> occ_disjoint a2 s2 a1 s1.
Proof. unfold occ_disjoint. tauto. Qed.

Lemma pairwise_split {A} (R : A -> A -> Prop) a x b :
  (forall u v, R u v -> R v u) -> pairwise R (a ++ x :: b) -> forall y, In y (a ++ b) -> R x y.
Proof.
  intros Hsym. induction a as [|h t IH]; cbn [app pairwise].
  - intros [H _] y Hy. rewrite Forall_forall in H. auto.
  - intros [H1 H2] y [<-|Hy].
    + apply Hsym. rewrite Forall_forall in H1. apply H1. apply in_or_app. right. left. reflexivity.
    + apply IH; assumption.
Qed.

Lemma pairwise_in {A} (R : A -> A -> Prop) l :
  (forall u v, R u v -> R v u) -> pairwise R l -> forall a b, In a l -> In b l -> a = b \/ R a b.
Proof.
  intros Hsym. induction l as [|h t IH]; cbn [pairwise]; [intros _ a b []|].
  intros [H1 H2] a b [<-|Ha] [<-|Hb]; rewrite Forall_forall in H1; auto.
Qed.

(* ---- reference lookups: plain linear scans over the records of the file *)
Definition ref_func (rf : raw_file) (x : Z) : option func_raw := find (fun fr => func_covers fr x) (rf_funcs rf).
Definition ref_line (fr : func_raw) (x : Z) : option line_rec := find (fun l => line_covers l x) (fr_lines fr).
Definition ref_inl (fr : func_raw) (d x : Z) : option inl_rec := find (inl_covers d x) (fr_inls fr).
Fixpoint ref_chain (fuel : nat) (fr : func_raw) (x d : Z) : list inl_rec :=
  match fuel with
  | O => []
  | S f => match ref_inl fr d x with None => [] | Some e => e :: ref_chain f fr x (d + 1) end
  end.
Definition ref_inl_chain (fr : func_raw) (x : Z) : list inl_rec := ref_chain (S (length (fr_inls fr))) fr x 0.

(* ---- FUNC table *)
Lemma fin_list_cons_some fixed fr b r : mk_range (fr_addr fr) (fr_size fr) = Some r ->
  fin_list fixed (fr :: b) = (r, fin_func fixed fr) :: fin_list fixed b.
Proof. intros E. cbn [fin_list]. unfold fin_pure. rewrite E. reflexivity. Qed.

Lemma funcs_linear rf x : Forall wf_fraw (rf_funcs rf) -> pairwise func_dj (rf_funcs rf) ->
  rm_get (into_rangemap_safe_p func_eqb (fin_list true (rf_funcs rf))) x =
  option_map (fin_func true) (ref_func rf x).
Proof.
  intros Hwf Hdj. unfold ref_func. destruct (find (fun fr => func_covers fr x) (rf_funcs rf)) as [fr|] eqn:Ef.
  - apply find_some in Ef. destruct Ef as [Hin Hc]. cbn [option_map].
    apply in_split in Hin. destruct Hin as (a & b & Hab). rewrite Hab in *.
    unfold func_covers in Hc. destruct (mk_range (fr_addr fr) (fr_size fr)) as [r|] eqn:Er; [|discriminate].
    rewrite fin_list_app. rewrite (fin_list_cons_some true fr b r Er).
    apply (isolated_complete_p func_eqb func_eqb_eq); [| |assumption].
    + pose proof (fin_list_wf true _ Hwf) as H. rewrite fin_list_app in H.
      rewrite (fin_list_cons_some true fr b r Er) in H. exact H.
    + intros r' v' Hin'. rewrite <- fin_list_app in Hin'. apply fin_list_in in Hin'.
      destruct Hin' as (fr' & Hfr' & Hp). unfold fin_pure in Hp.
      destruct (mk_range (fr_addr fr') (fr_size fr')) as [r1|] eqn:Er'; [|discriminate]. inversion Hp; subst.
      pose proof (pairwise_split func_dj a fr b (fun u v H => occ_sym _ _ _ _ H) Hdj fr' Hfr') as Hd.
      apply mk_range_some in Er, Er'. destruct Er as (S1 & -> & _), Er' as (S2 & -> & _).
      unfold func_dj, occ_disjoint in Hd. unfold intersects. cbn [fst snd].
      apply andb_false_iff. destruct Hd as [Hd|[Hd|[Hd|Hd]]]; try contradiction; [right|left]; lia.
  - cbn [option_map]. destruct (rm_get _ x) as [f|] eqn:Eg; [|reflexivity]. exfalso.
    apply func_lookup in Eg; [|assumption]. destruct Eg as (fr & Hin & Hc & _).
    eapply find_none in Ef; [|exact Hin]. cbn in Ef. congruence.
Qed.

(* ---- STACK WIN tables: with disjoint records insert_win_stack_info repairs nothing *)
Fixpoint win_list (ws : list win_rec) : list (range * win_rec) :=
  match ws with
  | [] => []
  | w :: t => match win_range w with Some r => (r, w) :: win_list t | None => win_list t end
  end.

Lemma win_dj_intersects w w' r r' : win_range w = Some r -> win_range w' = Some r' -> win_dj w w' ->
  intersects r r' = false.
Proof.
  unfold win_range. intros E E' Hd. apply mk_range_some in E, E'.
  destruct E as (S1 & -> & _), E' as (S2 & -> & _). unfold win_dj, occ_disjoint in Hd.
  unfold intersects. cbn [fst snd]. apply andb_false_iff.
  destruct Hd as [Hd|[Hd|[Hd|Hd]]]; try contradiction; [right|left]; lia.
Qed.

Lemma win_collect_disjoint ws : forall acc,
  (forall lr lw w mr, In (lr, lw) acc -> In w ws -> win_range w = Some mr -> intersects lr mr = false) ->
  pairwise win_dj ws -> win_collect acc ws = Ret (rev acc ++ win_list ws).
Proof.
  induction ws as [|w t IH]; intros acc Hacc Hdj; cbn [win_collect win_list].
  - rewrite app_nil_r. reflexivity.
  - destruct Hdj as [Hd1 Hd2]. unfold win_insert. destruct (win_range w) as [mr|] eqn:Er.
    + assert (Hstep : (match acc with
                       | [] => Ret [(mr, w)]
                       | (lr, lw) :: acc' =>
                           if intersects lr mr then
                             if w_addr w >? w_addr lw then
                               match win_range (mk_win (w_addr lw) (wrap32 (w_addr w - w_addr lw)) (w_psize lw) (w_tag lw)) with
                               | Some lr' => Ret ((mr, w) :: (lr', mk_win (w_addr lw) (wrap32 (w_addr w - w_addr lw)) (w_psize lw) (w_tag lw)) :: acc')
                               | None => Panic PANIC_WIN_UNWRAP
                               end
                             else if negb (range_eqb lr mr) then Ret acc else Ret ((mr, w) :: acc)
                           else Ret ((mr, w) :: acc)
                       end) = Ret ((mr, w) :: acc)).
      { destruct acc as [|[lr lw] acc']; [reflexivity|].
        rewrite (Hacc lr lw w mr); [reflexivity|left; reflexivity|left; reflexivity|exact Er]. }
      rewrite Hstep. cbn [obind]. rewrite IH; [cbn [rev]; rewrite <- app_assoc; reflexivity| |exact Hd2].
      intros lr lw w' mr' [Hin|Hin] Hw' Er'.
      * inversion Hin; subst. rewrite Forall_forall in Hd1. eapply win_dj_intersects; eauto.
      * eapply Hacc; [exact Hin|right; exact Hw'|exact Er'].
    + cbn [obind]. apply IH; [|exact Hd2]. intros lr lw w' mr' Hin Hw' Er'.
      eapply Hacc; [exact Hin|right; exact Hw'|exact Er'].
Qed.

Lemma win_list_in ws r w : In (r, w) (win_list ws) <-> In w ws /\ win_range w = Some r.
Proof.
  induction ws as [|w0 t IH]; cbn [win_list In]; [tauto|].
  destruct (win_range w0) as [r0|] eqn:E; cbn [In]; rewrite IH; split.
  - intros [H|[H1 H2]]; [inversion H; subst; auto|auto].
  - intros [[->|H1] H2]; [left; congruence|right; auto].
  - intros [H1 H2]; auto.
  - intros [[->|H1] H2]; [congruence|auto].
Qed.
Lemma win_list_app a b : win_list (a ++ b) = win_list a ++ win_list b.
Proof.
  induction a as [|w t IH]; cbn [win_list app]; [reflexivity|].
  destruct (win_range w); [cbn [app]; f_equal|]; exact IH.
Qed.
Lemma win_list_wf ws : Forall wf_win ws -> wf_ranges (win_list ws).
Proof.
  intros H. unfold wf_ranges. rewrite Forall_forall. intros [r w] Hin. apply win_list_in in Hin.
  destruct Hin as [Hin Hr]. rewrite Forall_forall in H. destruct (H _ Hin) as [[A _] [B _]]. cbn [fst].
  unfold win_range in Hr. eapply mk_range_wf; [| |exact Hr]; lia.
Qed.

Lemma win_linear ws x : Forall wf_win ws -> pairwise win_dj ws ->
  rm_get (into_rangemap_safe_p win_eqb (win_list ws)) x = find (fun w => win_covers w x) ws.
Proof.
  intros Hwf Hdj. destruct (find (fun w => win_covers w x) ws) as [w|] eqn:Ef.
  - apply find_some in Ef. destruct Ef as [Hin Hc].
    apply in_split in Hin. destruct Hin as (a & b & Hab). subst ws.
    unfold win_covers in Hc. destruct (win_range w) as [r|] eqn:Er; [|discriminate].
    assert (He : win_list (w :: b) = (r, w) :: win_list b) by (cbn [win_list]; rewrite Er; reflexivity).
    rewrite win_list_app, He. apply (isolated_complete_p win_eqb win_eqb_eq); [| |assumption].
    + pose proof (win_list_wf _ Hwf) as H. rewrite win_list_app, He in H. exact H.
    + intros r' w' Hin'. rewrite <- win_list_app in Hin'. apply win_list_in in Hin'. destruct Hin' as [Hw' Er'].
      pose proof (pairwise_split win_dj a w b (fun u v H => occ_sym _ _ _ _ H) Hdj w' Hw') as Hd.
      eapply win_dj_intersects; eauto.
  - destruct (rm_get _ x) as [w|] eqn:Eg; [|reflexivity]. exfalso.
    apply (lookup_sound_p win_eqb win_eqb_eq) in Eg; [|apply win_list_wf; assumption].
    destruct Eg as [r [Hin Hc]]. apply win_list_in in Hin. destruct Hin as [Hin Hr].
    eapply find_none in Ef; [|exact Hin]. unfold win_covers in Ef. rewrite Hr in Ef. congruence.
Qed.

Definition ref_psize (rf : raw_file) (fr : func_raw) (x : Z) : Z :=
  match find (fun w => win_covers w x) (rf_win_fd rf) with
  | Some w => w_psize w
  | None => match find (fun w => win_covers w x) (rf_win_fpo rf) with
            | Some w => w_psize w
            | None => fr_psize fr
            end
  end.

Lemma psize_linear rf st fr x : wf_file rf -> st_rel true rf st ->
  pairwise win_dj (rf_win_fd rf) -> pairwise win_dj (rf_win_fpo rf) ->
  param_size st (fin_func true fr) x = ref_psize rf fr x.
Proof.
  intros (_ & _ & Hw1 & Hw2) Hrel Hd1 Hd2. unfold param_size, ref_psize.
  destruct (sr_fd _ _ _ Hrel) as (wl1 & C1 & _ & E1). destruct (sr_fpo _ _ _ Hrel) as (wl2 & C2 & _ & E2).
  rewrite win_collect_disjoint in C1, C2; try assumption; try (intros ? ? ? ? []).
  cbn [rev app] in C1, C2. inversion C1; inversion C2; subst wl1 wl2.
  rewrite E1, E2, !win_linear by assumption. reflexivity.
Qed.

(* ---- line tables *)
Lemma line_entries_app a b : line_entries (a ++ b) = line_entries a ++ line_entries b.
Proof. unfold line_entries. rewrite filter_app, map_app. reflexivity. Qed.

Lemma lines_linear ls x : Forall wf_line ls -> pairwise line_dj ls ->
  rm_get (lines_tbl ls) x = find (fun l => line_covers l x) ls.
Proof.
  intros Hwf Hdj. destruct (find (fun l => line_covers l x) ls) as [l|] eqn:Ef.
  - apply find_some in Ef. destruct Ef as [Hin Hc].
    apply in_split in Hin. destruct Hin as (a & b & Hab). subst ls.
    unfold line_covers in Hc. apply andb_true_iff in Hc. destruct Hc as [Hs Hc].
    destruct (mk_range_line (l_addr l) (l_size l)) as [r|] eqn:Er; [|discriminate].
    unfold lines_tbl. rewrite line_entries_app.
    assert (He : line_entries (l :: b) = (Some r, l) :: line_entries b).
    { unfold line_entries. cbn [filter]. rewrite Hs. cbn [map]. rewrite Er. reflexivity. }
    rewrite He. apply (isolated_complete line_eqb line_eqb_eq); [| |assumption].
    + pose proof (line_entries_wf _ Hwf) as H. rewrite line_entries_app, He in H. exact H.
    + intros r' v' Hin'. rewrite <- line_entries_app in Hin'. unfold line_entries in Hin'.
      apply in_map_iff in Hin'. destruct Hin' as (l' & Heq & Hl'). inversion Heq; subst v'.
      apply filter_In in Hl'. destruct Hl' as [Hl' Hs'].
      pose proof (pairwise_split line_dj a l b (fun u v H => occ_sym _ _ _ _ H) Hdj l' Hl') as Hd.
      unfold mk_range_line, checked_add in Er, H0.
      destruct (l_addr l + (l_size l - 1) <? 2 ^ 64); [|discriminate].
      destruct (l_addr l' + (l_size l' - 1) <? 2 ^ 64); [|discriminate].
      inversion Er; inversion H0; subst. unfold line_dj, occ_disjoint in Hd. unfold intersects. cbn [fst snd].
      apply andb_false_iff. destruct Hd as [Hd|[Hd|[Hd|Hd]]]; [lia|lia|right; lia|left; lia].
  - destruct (rm_get (lines_tbl ls) x) as [l|] eqn:Eg; [|reflexivity]. exfalso.
    apply lines_lookup in Eg; [|assumption]. destruct Eg as (Hin & Hc & _).
    eapply find_none in Ef; [|exact Hin]. cbn in Ef. congruence.
Qed.

(* ---- inlinees *)
Lemma inl_lt_key2 a b : inl_lt b a = false ->
  i_depth a < i_depth b \/ (i_depth a = i_depth b /\ i_addr a <= i_addr b).
Proof.
  unfold inl_lt, inl_key. cbn [lex_lt]. intros H.
  apply orb_false_iff in H. destruct H as [H1 H2]. apply Z.ltb_ge in H1.
  destruct (Z.eq_dec (i_depth b) (i_depth a)) as [E|E]; [|lia].
  right. split; [lia|]. rewrite E, Z.eqb_refl in H2. cbn [andb] in H2.
  apply orb_false_iff in H2. destruct H2 as [H2 _]. apply Z.ltb_ge in H2. exact H2.
Qed.

Lemma giad_complete inls d x e :
  sorted_by inl_lt inls -> Forall (fun a => 0 < i_size a) inls ->
  (forall a b, In a inls -> In b inls -> a = b \/ inl_dj a b) ->
  In e inls -> inl_covers d x e = true -> giad_pure inls d x = Some e.
Proof.
  intros Hs Hnz Hdj Hin Hc. unfold inl_covers in Hc.
  apply andb_true_iff in Hc. destruct Hc as [Hc C4]. apply andb_true_iff in Hc. destruct Hc as [Hc C3].
  apply andb_true_iff in Hc. destruct Hc as [C1 C2].
  apply Z.eqb_eq in C1. apply Z.leb_le in C2. apply Z.ltb_lt in C3, C4.
  assert (Hcheck : giad_check d x (Some e) = Some e).
  { cbn [giad_check]. rewrite (proj2 (Z.eqb_eq _ _) C1). cbn [negb]. unfold checked_add.
    rewrite <- two64_val. rewrite (proj2 (Z.ltb_lt _ _) C4), (proj2 (Z.ltb_lt _ _) C3). reflexivity. }
  assert (Hm : mono (giad_cmp d x) inls).
  { intros i j a b Hij Hi Hj Hg. specialize (Hs i j a b Hij Hi Hj). apply inl_lt_key2 in Hs.
    unfold giad_cmp in *. apply cmp_pair_greater in Hg.
    destruct (cmp_pair (i_depth b) (i_addr b) d x) eqn:Eb; [| |reflexivity]; exfalso.
    - assert (Hn : cmp_pair (i_depth b) (i_addr b) d x <> OGreater) by congruence.
      apply cmp_pair_not_greater in Hn. lia.
    - assert (Hn : cmp_pair (i_depth b) (i_addr b) d x <> OGreater) by congruence.
      apply cmp_pair_not_greater in Hn. lia. }
  assert (Hne : giad_cmp d x e <> OGreater).
  { unfold giad_cmp. intros Hg. apply cmp_pair_greater in Hg. lia. }
  unfold giad_pure. pose proof (bs_cand_last (giad_cmp d x) inls Hm) as H.
  destruct (bs_cand (giad_cmp d x) inls) as [c|]; [|exfalso; apply Hne; apply H; exact Hin].
  destruct H as (i & Hi & Hng & Hlast).
  apply In_nth_error in Hin. destruct Hin as [k Hk].
  destruct (Nat.lt_trichotomy k i) as [Hlt|[->|Hgt]].
  - specialize (Hs k i e c Hlt Hk Hi). apply inl_lt_key2 in Hs.
    unfold giad_cmp in Hng. apply cmp_pair_not_greater in Hng.
    assert (Hce : c = e).
    { destruct (Hdj c e) as [E|[E|E]]; [eapply nth_error_In; eassumption|eapply nth_error_In; eassumption|exact E| |].
      - exfalso. lia.
      - exfalso. rewrite Forall_forall in Hnz.
        pose proof (Hnz c (nth_error_In _ _ Hi)). pose proof (Hnz e (nth_error_In _ _ Hk)).
        unfold occ_disjoint in E. lia. }
    rewrite Hce. exact Hcheck.
  - rewrite Hi in Hk. inversion Hk; subst. exact Hcheck.
  - exfalso. apply Hne. exact (Hlast k e Hk Hgt).
Qed.

Lemma inl_dj_sym u v : inl_dj u v -> inl_dj v u.
Proof. unfold inl_dj. intros [H|H]; [left; congruence|right; apply occ_sym; exact H]. Qed.

Lemma inls_linear fr d x : pairwise inl_dj (fr_inls fr) ->
  giad_pure (fn_inls (fin_func true fr)) d x = ref_inl fr d x.
Proof.
  intros Hdj. unfold ref_inl. cbn [fin_func fn_inls keep_inls].
  destruct (find (inl_covers d x) (fr_inls fr)) as [e|] eqn:Ef.
  - apply find_some in Ef. destruct Ef as [Hin Hc]. apply giad_complete.
    + apply sort_by_sorted; [apply inl_lt_asym|apply inl_lt_negtrans].
    + rewrite Forall_forall. intros a Ha. apply sort_by_in in Ha. apply filter_In in Ha. lia.
    + intros a b Ha Hb. apply sort_by_in in Ha, Hb. apply filter_In in Ha, Hb.
      apply (pairwise_in inl_dj (fr_inls fr) inl_dj_sym Hdj); tauto.
    + apply sort_by_in. apply filter_In. split; [assumption|].
      unfold inl_covers in Hc. apply andb_true_iff in Hc. destruct Hc as [Hc _].
      apply andb_true_iff in Hc. destruct Hc as [Hc C3]. apply andb_true_iff in Hc. destruct Hc as [_ C2]. lia.
    + assumption.
  - destruct (giad_pure _ d x) as [e|] eqn:Eg; [|reflexivity]. exfalso.
    apply giad_covers in Eg. destruct Eg as (Hin & Hc & _).
    apply sort_by_in in Hin. apply filter_In in Hin. destruct Hin as [Hin _].
    eapply find_none in Ef; [|exact Hin]. congruence.
Qed.

Lemma chain_linear fr x : pairwise inl_dj (fr_inls fr) -> forall fuel d,
  chain_from fuel (fn_inls (fin_func true fr)) x d = ref_chain fuel fr x d.
Proof.
  intros Hdj. induction fuel as [|f IH]; intros d; cbn [chain_from ref_chain]; [reflexivity|].
  rewrite inls_linear by assumption. destruct (ref_inl fr d x); [rewrite IH|]; reflexivity.
Qed.

Lemma chain_from_ge inls x d n : (length (chain_from n inls x d) < n)%nat ->
  forall m, (n <= m)%nat -> chain_from m inls x d = chain_from n inls x d.
Proof.
  intros Hl m Hm. induction Hm as [|m Hm IH]; [reflexivity|].
  rewrite chain_from_more; [exact IH|]. rewrite IH. lia.
Qed.

Lemma inl_chain_linear fr x : pairwise inl_dj (fr_inls fr) ->
  inl_chain (fin_func true fr) x = ref_inl_chain fr x.
Proof.
  intros Hdj. unfold inl_chain, ref_inl_chain. cbn [ref_chain].
  rewrite inls_linear by assumption. destruct (ref_inl fr 0 x) as [e0|] eqn:E0; [|reflexivity].
  f_equal. rewrite <- chain_linear by assumption. cbn [Z.add]. symmetry.
  apply chain_from_ge.
  - apply (chain_short _ _ e0). rewrite inls_linear by assumption. exact E0.
  - cbn [fin_func fn_inls]. rewrite sort_by_length. apply keep_inls_length.
Qed.

(* ---- the reference result of the FUNC branch, from the records alone *)
Definition st0 (rf : raw_file) : symtab := mk_symtab (rf_files rf) (rf_origins rf) [] [] [] [].

Definition ref_fill_func (rf : raw_file) (ps mbase addr : Z) (fr : func_raw) : sym_out :=
  let fo := Some (fr_name fr, fr_addr fr + mbase, ps) in
  match ref_inl_chain fr addr with
  | e0 :: chain =>
      mk_out fo (src_of (st0 rf) mbase (i_cfile e0) (i_cline e0) (i_addr e0))
             (frames_spec (st0 rf) (e0 :: chain) (ref_line fr addr))
  | [] =>
      match ref_line fr addr with
      | Some l => mk_out fo (src_of (st0 rf) mbase (l_file l) (l_line l) (l_addr l)) []
      | None => mk_out fo None []
      end
  end.

Lemma frames_spec_ext st st' chain inner :
  (forall k, assoc_last k (st_files st) = assoc_last k (st_files st')) ->
  (forall k, assoc_last k (st_origins st) = assoc_last k (st_origins st')) ->
  frames_spec st chain inner = frames_spec st' chain inner.
Proof.
  intros Hf Ho. induction chain as [|e t IH]; cbn [frames_spec]; [reflexivity|].
  unfold inner_loc. rewrite Ho, IH. destruct t as [|e' t']; [destruct inner|]; rewrite ?Hf; reflexivity.
Qed.

Lemma fill_func_linear rf st mbase addr fr :
  wf_fraw fr -> st_rel true rf st ->
  pairwise line_dj (fr_lines fr) -> pairwise inl_dj (fr_inls fr) ->
  fill_func st mbase addr (fin_func true fr) =
  ref_fill_func rf (param_size st (fin_func true fr) addr) mbase addr fr.
Proof.
  intros Hwf Hrel Hl Hi. unfold fill_func, ref_fill_func.
  rewrite inl_chain_linear by assumption.
  assert (Hline : rm_get (fn_lines (fin_func true fr)) addr = ref_line fr addr).
  { cbn [fin_func fn_lines]. destruct Hwf as (_ & _ & Hlw & _). apply lines_linear; assumption. }
  rewrite Hline. cbn [fin_func fn_name fn_addr].
  assert (Hsrc : forall a b c, src_of st mbase a b c = src_of (st0 rf) mbase a b c).
  { intros a b c. unfold src_of. cbn [st0 st_files]. rewrite (sr_files _ _ _ Hrel). reflexivity. }
  destruct (ref_inl_chain fr addr) as [|e0 chain].
  - destruct (ref_line fr addr); [rewrite Hsrc|]; reflexivity.
  - rewrite Hsrc. f_equal. rewrite emit_is_spec. apply frames_spec_ext; cbn [st0 st_files st_origins];
      [intros k; apply (sr_files _ _ _ Hrel)|intros k; apply (sr_origins _ _ _ Hrel)].
Qed.

(* a PUBLIC is cut off exactly by a non-empty representable FUNC record between it and addr *)
Lemma cut_linear rf st pb addr :
  wf_file rf -> st_rel true rf st -> pairwise func_dj (rf_funcs rf) ->
  cut_by_func st pb addr <->
  exists fr, In fr (rf_funcs rf) /\ mk_range (fr_addr fr) (fr_size fr) <> None /\
             p_addr pb <= fr_addr fr <= addr.
Proof.
  intros Hwf Hrel Hdj. split.
  - intros (r & f & Hin & Hs & Hle). rewrite (sr_funcs _ _ _ Hrel) in Hin. apply table_entry in Hin.
    destruct Hin as (fr & Hfr & -> & _ & Hv). exists fr. cbn [fin_func fn_addr] in Hle. auto.
  - intros (fr & Hfr & Hv & Hle). destruct Hwf as (Hwff & _).
    destruct (mk_range (fr_addr fr) (fr_size fr)) as [r0|] eqn:Er; [|congruence].
    assert (Hc : func_covers fr (fr_addr fr) = true).
    { unfold func_covers. rewrite Er. apply mk_range_some in Er. destruct Er as (S1 & -> & _).
      rewrite Forall_forall in Hwff. destruct (Hwff _ Hfr) as (_ & [S2 _] & _).
      unfold contains. cbn [fst snd]. lia. }
    pose proof (funcs_linear rf (fr_addr fr) Hwff Hdj) as Hg. unfold ref_func in Hg.
    destruct (find (fun fr0 => func_covers fr0 (fr_addr fr)) (rf_funcs rf)) as [fr'|] eqn:Ef;
      [|eapply find_none in Ef; [|exact Hfr]; cbn in Ef; congruence].
    cbn [option_map] in Hg. rewrite <- (sr_funcs _ _ _ Hrel) in Hg.
    pose proof Hg as Hg'. apply rm_get_in in Hg'. destruct Hg' as (r & Hin & Hcr).
    pose proof Hin as Hin'. rewrite (sr_funcs _ _ _ Hrel) in Hin'. apply table_entry in Hin'.
    destruct Hin' as (fr2 & _ & E2 & Hs & _).
    (* fr' covers fr_addr fr and so does fr: by disjointness they have the same address *)
    apply find_some in Ef. destruct Ef as [Hfr' Hc'].
    assert (Ha : fr_addr fr' = fr_addr fr).
    { destruct (pairwise_in func_dj (rf_funcs rf) (fun u v H => occ_sym _ _ _ _ H) Hdj fr' fr Hfr' Hfr) as [->|Hd]; [reflexivity|].
      exfalso. unfold func_covers in Hc', Hc. rewrite Er in Hc.
      destruct (mk_range (fr_addr fr') (fr_size fr')) as [r1|] eqn:Er'; [|discriminate].
      apply mk_range_some in Er, Er'. destruct Er as (S1 & -> & _), Er' as (S2 & -> & _).
      unfold contains in Hc, Hc'. cbn [fst snd] in Hc, Hc'. unfold func_dj, occ_disjoint in Hd. lia. }
    exists r, (fin_func true fr'). split; [assumption|]. split; [assumption|].
    cbn [fin_func fn_addr]. lia.
Qed.

(* ---- end to end *)
Lemma equals_linear_scan p rf mbase instr :
  wf_file rf -> non_overlapping rf -> 0 <= mbase -> mbase <= instr < two64 ->
  exists o, symbolize p rf mbase instr = Ret o /\
    match ref_func rf (instr - mbase) with
    | Some fr => o = ref_fill_func rf (ref_psize rf fr (instr - mbase)) mbase (instr - mbase) fr
    | None =>
        ((forall q, In q (rf_publics rf) -> instr - mbase < p_addr q) /\ o = empty_out) \/
        (exists pb, In pb (rf_publics rf) /\ p_addr pb <= instr - mbase /\
           (forall q, In q (rf_publics rf) -> p_addr q <= instr - mbase -> pub_lt pb q = false) /\
           let cut := exists fr, In fr (rf_funcs rf) /\ mk_range (fr_addr fr) (fr_size fr) <> None /\
                                 p_addr pb <= fr_addr fr <= instr - mbase in
           ((cut /\ o = empty_out) \/
            (~ cut /\ o = mk_out (Some (p_name pb, p_addr pb + mbase, p_psize pb)) None [])))
    end.
Proof.
  intros Hwf (Hdf & Hdr & Hdw1 & Hdw2) Hmb [Hge Hin].
  destruct (symbolize_cases true p rf mbase instr Hwf Hmb Hin) as (st & o & Hrel & _ & Hs & Hc).
  exists o. split; [exact Hs|]. pose proof Hwf as (Hwff & _).
  pose proof (funcs_linear rf (instr - mbase) Hwff Hdf) as Hlin. rewrite <- (sr_funcs _ _ _ Hrel) in Hlin.
  destruct Hc as [[Hlt _]|[(_ & fr & Hfr & _ & _ & Hg & ->)|(_ & Hg & ->)]]; [lia| |].
  - rewrite Hg in Hlin. destruct (ref_func rf (instr - mbase)) as [fr'|] eqn:Er; [|discriminate].
    cbn [option_map] in Hlin. unfold ref_func in Er. apply find_some in Er. destruct Er as [Hfr' _].
    rewrite Forall_forall in Hdr, Hwff. destruct (Hdr _ Hfr') as [Hl Hi].
    assert (Heq : fin_func true fr = fin_func true fr') by (injection Hlin; intros; congruence).
    rewrite Heq. rewrite <- (psize_linear rf st fr' (instr - mbase) Hwf Hrel Hdw1 Hdw2).
    apply fill_func_linear; auto.
  - rewrite Hg in Hlin. destruct (ref_func rf (instr - mbase)); [discriminate|].
    destruct (fill_public_spec true rf st mbase (instr - mbase) Hwf Hrel Hg) as [H|(pb & A & B & C & D)]; [left; exact H|].
    right. exists pb. split; [assumption|]. split; [assumption|]. split; [assumption|].
    cbv zeta. rewrite <- (cut_linear rf st pb (instr - mbase) Hwf Hrel Hdf). exact D.
Qed.
