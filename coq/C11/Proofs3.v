(* C11/Proofs3.v — what fill_symbol reports: function, source line, inline chain. *)
From Coq Require Import Lia Sorting.Sorted Sorting.Permutation.
From RM Require Import C08.Model C08.Proofs C11.Model C11.Proofs1 C11.Proofs2.
Open Scope Z_scope.

Lemma giad_covers inls depth addr e : giad_pure inls depth addr = Some e ->
  In e inls /\ inl_covers depth addr e = true /\ 0 <= 0.
Proof.
  intros H. apply giad_sound in H. destruct H as (A & B & C & D & E).
  split; [assumption|]. split; [|lia]. unfold inl_covers.
  repeat (apply andb_true_iff; split); lia.
Qed.

Lemma fin_inls_in fixed fr e : In e (fn_inls (fin_func fixed fr)) -> In e (fr_inls fr).
Proof. cbn [fin_func fn_inls]. intros H. apply sort_by_in in H. eapply keep_inls_in; eassumption. Qed.

(* ---- the chain of inlinees found at depth 0, 1, 2, … *)
Lemma inl_chain_spec f addr :
  let chain := inl_chain f addr in
  (forall k e, nth_error chain k = Some e ->
               In e (fn_inls f) /\ inl_covers (Z.of_nat k) addr e = true) /\
  giad_pure (fn_inls f) (Z.of_nat (length chain)) addr = None /\
  (length chain <= length (fn_inls f))%nat.
Proof.
  unfold inl_chain. destruct (giad_pure (fn_inls f) 0 addr) as [e0|] eqn:E0.
  - pose proof (chain_short _ _ _ E0) as Hs.
    split; [|split].
    + intros [|k] e; cbn [nth_error].
      * intros H; inversion H; subst. apply giad_covers in E0. tauto.
      * intros H. apply chain_from_spec in H. apply giad_covers in H.
        replace (1 + Z.of_nat k) with (Z.of_nat (S k)) in H by lia. tauto.
    + cbn [length]. pose proof (chain_from_stops _ _ _ 1 Hs) as Hn.
      replace (Z.of_nat (S (length (chain_from (length (fn_inls f)) (fn_inls f) addr 1))))
        with (1 + Z.of_nat (length (chain_from (length (fn_inls f)) (fn_inls f) addr 1))) by lia.
      exact Hn.
    + cbn [length]. lia.
  - split; [intros [|k] e; discriminate|]. split; [exact E0|cbn; lia].
Qed.

(* ---- the frames, stated on the whole chain: frame k is named by inlinee k and located
   at the call site recorded by inlinee k+1 (the innermost line for the last one) *)
Definition inner_loc (st : symtab) (inner : option line_rec) : option Z * option Z :=
  match inner with
  | Some l => (assoc_last (l_file l) (st_files st), if l_line l =? 0 then None else Some (l_line l))
  | None => (None, None)
  end.
Fixpoint frames_spec (st : symtab) (chain : list inl_rec) (inner : option line_rec) : list iframe :=
  match chain with
  | [] => []
  | e :: t =>
      let loc := match t with
                 | e' :: _ => (assoc_last (i_cfile e') (st_files st), Some (i_cline e'))
                 | [] => inner_loc st inner
                 end in
      (match assoc_last (i_origin e) (st_origins st) with
       | Some nm => [(nm, fst loc, snd loc)]
       | None => []
       end) ++ frames_spec st t inner
  end.

Lemma emit_is_spec st e0 chain inner :
  emit_frames st (i_origin e0) chain inner = frames_spec st (e0 :: chain) inner.
Proof.
  revert e0. induction chain as [|e t IH]; intros e0.
  - cbn [emit_frames frames_spec inner_loc]. rewrite app_nil_r.
    destruct (assoc_last (i_origin e0) (st_origins st)); [|reflexivity].
    destruct inner; reflexivity.
  - cbn [emit_frames]. rewrite IH. reflexivity.
Qed.

(* when every origin has a name nothing is skipped: one frame per inlinee *)
Lemma frames_spec_named st chain inner :
  (forall e, In e chain -> assoc_last (i_origin e) (st_origins st) <> None) ->
  length (frames_spec st chain inner) = length chain /\
  forall k e, nth_error chain k = Some e ->
    exists nm, assoc_last (i_origin e) (st_origins st) = Some nm /\
      nth_error (frames_spec st chain inner) k =
      Some (match nth_error chain (S k) with
            | Some e' => (nm, assoc_last (i_cfile e') (st_files st), Some (i_cline e'))
            | None => (nm, fst (inner_loc st inner), snd (inner_loc st inner))
            end).
Proof.
  induction chain as [|e t IH]; intros Hn; [split; [reflexivity|intros [|k] e; discriminate]|].
  destruct IH as [IH1 IH2]; [intros a Ha; apply Hn; right; exact Ha|].
  cbn [frames_spec]. destruct (assoc_last (i_origin e) (st_origins st)) as [nm|] eqn:En;
    [|exfalso; apply (Hn e); [left; reflexivity|exact En]].
  cbn [app length]. split; [f_equal; exact IH1|].
  intros [|k] a; cbn [nth_error].
  - intros H; inversion H; subst a. exists nm. split; [exact En|]. destruct t; reflexivity.
  - intros H. apply IH2 in H. exact H.
Qed.

(* ---- the FUNC branch *)
Lemma fill_func_spec fixed rf st mbase addr fr :
  wf_file rf -> st_rel fixed rf st -> In fr (rf_funcs rf) -> 0 <= mbase -> 0 <= fr_addr fr <= addr ->
  let f := fin_func fixed fr in
  let o := fill_func st mbase addr f in
  (* function *)
  (exists ps, o_func o = Some (fr_name fr, fr_addr fr + mbase, ps) /\
     (ps = fr_psize fr \/
      exists w, In w (rf_win_fd rf ++ rf_win_fpo rf) /\ win_covers w addr = true /\ ps = w_psize w)) /\
  (* source line *)
  (forall file line base, o_src o = Some (file, line, base) ->
     base <= addr + mbase /\
     ((exists e0, In e0 (fr_inls fr) /\ inl_covers 0 addr e0 = true /\
                  assoc_last (i_cfile e0) (rf_files rf) = Some file /\ line = i_cline e0 /\
                  base = i_addr e0 + mbase) \/
      (giad_pure (fn_inls f) 0 addr = None /\
       exists l, In l (fr_lines fr) /\ line_covers l addr = true /\
                 assoc_last (l_file l) (rf_files rf) = Some file /\ line = l_line l /\
                 base = l_addr l + mbase))) /\
  (* inline frames *)
  o_inl o = frames_spec st (inl_chain f addr) (rm_get (fn_lines f) addr).
Proof.
  intros Hwf Hrel Hfr Hmb Ha f o. subst o. unfold fill_func.
  destruct Hwf as (Hwff & _). rewrite Forall_forall in Hwff. specialize (Hwff _ Hfr).
  split; [|split].
  - exists (param_size st f addr).
    split; [destruct (inl_chain f addr); [destruct (rm_get (fn_lines f) addr)|]; reflexivity|].
    unfold param_size. destruct (sr_fd _ _ _ Hrel) as [wl1 [_ [P1 E1]]]. destruct (sr_fpo _ _ _ Hrel) as [wl2 [_ [P2 E2]]].
    destruct (rm_get (st_win_fd st) addr) as [w|] eqn:G1.
    + rewrite E1 in G1. eapply win_lookup in G1; [|eassumption]. destruct G1 as (w0 & A & B & C).
      right. exists w0. split; [apply in_or_app; left; assumption|]. split; [assumption|assumption].
    + destruct (rm_get (st_win_fpo st) addr) as [w|] eqn:G2; [|left; reflexivity].
      rewrite E2 in G2. eapply win_lookup in G2; [|eassumption]. destruct G2 as (w0 & A & B & C).
      right. exists w0. split; [apply in_or_app; right; assumption|]. split; [assumption|assumption].
  - intros file line base. unfold inl_chain.
    destruct (giad_pure (fn_inls f) 0 addr) as [e0|] eqn:E0.
    + cbn [o_src]. unfold src_of. rewrite (sr_files _ _ _ Hrel).
      destruct (assoc_last (i_cfile e0) (rf_files rf)) as [fname|] eqn:Efn; [|discriminate].
      intros H; inversion H; subst. pose proof (giad_sound _ _ _ _ E0) as (_ & _ & Hle & _).
      apply giad_covers in E0. destruct E0 as (Hin & Hc & _).
      split; [lia|]. left. exists e0. split; [apply (fin_inls_in fixed); exact Hin|]. auto.
    + destruct (rm_get (fn_lines f) addr) as [l|] eqn:El; cbn [o_src]; [|discriminate].
      unfold src_of. rewrite (sr_files _ _ _ Hrel).
      destruct (assoc_last (l_file l) (rf_files rf)) as [fname|] eqn:Efn; [|discriminate].
      intros H; inversion H; subst. subst f. cbn [fin_func fn_lines] in El.
      destruct Hwff as (_ & _ & Hlw & _). apply lines_lookup in El; [|assumption].
      destruct El as (Hin & Hc & Hla). split; [lia|]. right. split; [reflexivity|].
      exists l. auto.
  - unfold inl_chain. destruct (giad_pure (fn_inls f) 0 addr) as [e0|] eqn:E0.
    + cbn [o_inl]. apply emit_is_spec.
    + destruct (rm_get (fn_lines f) addr); reflexivity.
Qed.

(* ---- end to end: the three cases of a symbolication *)
Lemma symbolize_cases fixed p rf mbase instr :
  wf_file rf -> 0 <= mbase -> instr < two64 ->
  exists st o, st_rel fixed rf st /\ build_symtab_gen fixed rf = Ret st /\
    symbolize_gen fixed p rf mbase instr = Ret o /\
    ((instr < mbase /\ o = empty_out) \/
     (mbase <= instr /\ exists fr, In fr (rf_funcs rf) /\ func_covers fr (instr - mbase) = true /\
        0 <= fr_addr fr <= instr - mbase /\
        rm_get (st_funcs st) (instr - mbase) = Some (fin_func fixed fr) /\
        o = fill_func st mbase (instr - mbase) (fin_func fixed fr)) \/
     (mbase <= instr /\ rm_get (st_funcs st) (instr - mbase) = None /\
        o = fill_public st mbase (instr - mbase))).
Proof.
  intros Hwf Hmb Hin. destruct (symbolize_ret fixed p rf mbase instr Hwf Hmb Hin) as (st & Hrel & Hb & Hs).
  exists st, (fill_pure st mbase instr). split; [assumption|]. split; [assumption|]. split; [assumption|].
  unfold fill_pure. destruct (instr <? mbase) eqn:Elt.
  - left. apply Z.ltb_lt in Elt. auto.
  - apply Z.ltb_ge in Elt. right.
    destruct (rm_get (st_funcs st) (instr - mbase)) as [f|] eqn:Ef.
    + left. split; [assumption|]. pose proof Ef as Ef'. rewrite (sr_funcs _ _ _ Hrel) in Ef'.
      destruct Hwf as (Hwff & _). apply func_lookup in Ef'; [|assumption].
      destruct Ef' as (fr & A & B & -> & C). exists fr. auto.
    + right. auto.
Qed.

Lemma fill_public_shape st mbase addr :
  o_src (fill_public st mbase addr) = None /\ o_inl (fill_public st mbase addr) = [].
Proof.
  unfold fill_public. destruct (find_nearest_public (st_publics st) addr) as [pb|]; [|split; reflexivity].
  destruct (public_cut st pb addr); split; reflexivity.
Qed.
