(* C11/Proofs4.v — the PUBLIC fallback: nearest PUBLIC, previous-FUNC check. *)
From Coq Require Import Lia Sorting.Sorted Sorting.Permutation.
From RM Require Import C08.Model C08.Proofs C11.Model C11.Proofs1 C11.Proofs2 C11.Proofs3.
Open Scope Z_scope.

(* ---- the start of every table range is the start of an input range with that value *)
Section Starts.
Context {V : Type} (eqb : V -> V -> bool).
Definition start_from (inp : list (range * V)) (e : range * V) : Prop :=
  exists r0, In (r0, snd e) inp /\ fst (fst e) = fst r0.

Lemma merge_step_starts inp acc rv :
  Forall (start_from inp) acc -> In rv inp -> Forall (start_from inp) (merge_step eqb acc rv).
Proof.
  intros Hacc Hin. assert (Hrv : start_from inp rv) by (exists (fst rv); destruct rv; cbn; auto).
  destruct acc as [|[lr lv] acc']; cbn [merge_step]; [constructor; [exact Hrv|constructor]|].
  destruct rv as [r v].
  destruct ((fst r <=? snd lr) && negb (eqb v lv)); [assumption|].
  destruct ((fst r <=? sat_add 64 (snd lr) 1) && eqb v lv); [|constructor; assumption].
  inversion Hacc as [|? ? H1 H2]; subst. constructor; [|assumption].
  destruct H1 as [r0 [A B]]. exists r0. cbn [fst snd] in *. auto.
Qed.

Lemma fold_merge_starts inp l : forall acc,
  Forall (start_from inp) acc -> incl l inp -> Forall (start_from inp) (fold_left (merge_step eqb) l acc).
Proof.
  induction l as [|rv t IH]; intros acc Hacc Hincl; cbn [fold_left]; [assumption|].
  apply IH; [apply merge_step_starts; [assumption|apply Hincl; left; reflexivity]|].
  intros a Ha. apply Hincl. right. exact Ha.
Qed.

Lemma merge_sorted_starts l : Forall (start_from l) (merge_sorted eqb l).
Proof. unfold merge_sorted. apply Forall_rev. apply fold_merge_starts; [constructor|apply incl_refl]. Qed.
End Starts.

(* every entry of the FUNC table is a FUNC record of the file, keyed by its own address *)
Lemma table_entry fixed fl r f :
  In (r, f) (into_rangemap_safe_p func_eqb (fin_list fixed fl)) ->
  exists fr, In fr fl /\ f = fin_func fixed fr /\ fn_addr f = fst r /\
             mk_range (fr_addr fr) (fr_size fr) <> None.
Proof.
  intros Hin. unfold into_rangemap_safe_p in Hin.
  pose proof (merge_sorted_starts func_eqb (sort_stable range_lt (fin_list fixed fl))) as Hs.
  rewrite Forall_forall in Hs. destruct (Hs _ Hin) as [r0 [A B]]. cbn [fst snd] in *.
  eapply Permutation_in in A; [|symmetry; apply sort_perm].
  apply fin_list_in in A. destruct A as [fr [Hfr Hp]]. exists fr. split; [assumption|].
  unfold fin_pure in Hp. destruct (mk_range (fr_addr fr) (fr_size fr)) as [r1|] eqn:E; [|discriminate].
  inversion Hp; subst. split; [reflexivity|]. split; [|discriminate].
  apply mk_range_some in E. destruct E as (_ & -> & _). cbn [fin_func fn_addr fst]. rewrite B. reflexivity.
Qed.

(* ---- find_nearest_public *)
Lemma find_app {A} (f : A -> bool) u v :
  find f (u ++ v) = match find f u with Some x => Some x | None => find f v end.
Proof. induction u as [|a t IH]; cbn [find app]; [reflexivity|]. destruct (f a); [reflexivity|exact IH]. Qed.

Lemma find_rev_last {A} (f : A -> bool) l x : find f (rev l) = Some x ->
  exists l1 l2, l = l1 ++ x :: l2 /\ f x = true /\ Forall (fun y => f y = false) l2.
Proof.
  induction l as [|a t IH]; cbn [rev]; [discriminate|]. rewrite find_app.
  destruct (find f (rev t)) as [y|] eqn:E.
  - intros H; inversion H; subst y. destruct (IH eq_refl) as (l1 & l2 & A1 & A2 & A3).
    exists (a :: l1), l2. subst t. auto.
  - cbn [find]. destruct (f a) eqn:Ea; [|discriminate]. intros H; inversion H; subst x.
    exists [], t. split; [reflexivity|]. split; [assumption|]. rewrite Forall_forall. intros y Hy.
    eapply find_none in E; [exact E|]. rewrite <- in_rev. exact Hy.
Qed.

Lemma ss_map {A B} (g : A -> B) (R : B -> B -> Prop) l :
  StronglySorted (fun a b => R (g a) (g b)) l -> StronglySorted R (map g l).
Proof.
  induction 1 as [|x t Ht IH Hall]; cbn [map]; constructor; [assumption|].
  rewrite Forall_forall in *. intros y Hy. apply in_map_iff in Hy. destruct Hy as [z [<- Hz]]. auto.
Qed.

Lemma sort_by_ss {A} (lt : A -> A -> bool) l :
  (forall a b, lt a b = true -> lt b a = false) ->
  (forall a b c, lt b a = false -> lt c b = false -> lt c a = false) ->
  StronglySorted (fun a b => lt b a = false) (sort_by lt l).
Proof.
  intros Has Hnt. unfold sort_by. apply ss_map.
  exact (sort_sorted (V := unit) lt Has Hnt (map (fun e => (e, tt)) l)).
Qed.

Lemma ss_app_left {A} (R : A -> A -> Prop) l1 x l2 :
  StronglySorted R (l1 ++ x :: l2) -> Forall (fun q => R q x) l1.
Proof.
  induction l1 as [|a t IH]; cbn [app]; intros H; [constructor|].
  inversion H as [|? ? Ht Hall]; subst. constructor; [|auto].
  rewrite Forall_forall in Hall. apply Hall. apply in_or_app. right. left. reflexivity.
Qed.

Lemma lex_lt_irrefl a : lex_lt a a = false.
Proof.
  destruct (lex_lt a a) eqn:E; [|reflexivity]. pose proof (lex_lt_asym _ _ E). congruence.
Qed.

Lemma nearest_public_spec pubs addr :
  match find_nearest_public (sort_by pub_lt pubs) addr with
  | Some pb => In pb pubs /\ p_addr pb <= addr /\
               forall q, In q pubs -> p_addr q <= addr -> pub_lt pb q = false
  | None => forall q, In q pubs -> addr < p_addr q
  end.
Proof.
  unfold find_nearest_public.
  destruct (find (fun p => p_addr p <=? addr) (rev (sort_by pub_lt pubs))) as [pb|] eqn:E.
  - apply find_rev_last in E. destruct E as (l1 & l2 & Hl & Hf & Hall).
    assert (Hin : In pb pubs).
    { apply (sort_by_in pub_lt). rewrite Hl. apply in_or_app. right. left. reflexivity. }
    split; [assumption|]. split; [lia|]. intros q Hq Hqa.
    apply (sort_by_in pub_lt) in Hq. rewrite Hl in Hq. apply in_app_or in Hq.
    pose proof (sort_by_ss pub_lt pubs pub_lt_asym pub_lt_negtrans) as Hs. rewrite Hl in Hs.
    destruct Hq as [Hq|[Hq|Hq]].
    + apply ss_app_left in Hs. rewrite Forall_forall in Hs. exact (Hs _ Hq).
    + subst q. apply lex_lt_irrefl.
    + rewrite Forall_forall in Hall. apply Hall in Hq. lia.
  - intros q Hq. apply (sort_by_in pub_lt) in Hq. rewrite in_rev in Hq.
    eapply find_none in E; [|exact Hq]. cbn in E. lia.
Qed.

(* ---- prev_func on a sorted table in which no range contains the address *)
Definition pf_cmp (addr : Z) (e : range * func) : ordering := cmp_z (fst (fst e)) addr.

Lemma cmp_z_greater a b : cmp_z a b = OGreater <-> b < a.
Proof.
  unfold cmp_z. destruct (a <? b) eqn:E1.
  - apply Z.ltb_lt in E1. split; [discriminate|lia].
  - apply Z.ltb_ge in E1. destruct (b <? a) eqn:E2.
    + apply Z.ltb_lt in E2. split; [intros _; exact E2|reflexivity].
    + apply Z.ltb_ge in E2. split; [discriminate|lia].
Qed.
Lemma cmp_z_equal a b : cmp_z a b = OEqual -> a = b.
Proof. unfold cmp_z. destruct (a <? b) eqn:E1; [discriminate|]. destruct (b <? a) eqn:E2; [discriminate|]. lia. Qed.

Lemma prev_func_spec (T : list (range * func)) addr :
  StronglySorted (fun a b => snd (fst a) < fst (fst b)) T -> wf_ranges T -> rm_get T addr = None ->
  match prev_func T addr with
  | Some c => In c T /\ fst (fst c) <= addr /\
              forall e, In e T -> fst (fst e) <= addr -> fst (fst e) <= fst (fst c)
  | None => forall e, In e T -> addr < fst (fst e)
  end.
Proof.
  intros Hs Hwf Hg.
  assert (Hwf' : forall e, In e T -> fst (fst e) <= snd (fst e)).
  { intros e He. unfold wf_ranges in Hwf. rewrite Forall_forall in Hwf. apply Hwf in He. unfold wf_range in He. lia. }
  assert (Heq : prev_func T addr = bs_cand (pf_cmp addr) T).
  { unfold prev_func, bs_cand. fold (pf_cmp addr).
    pose proof (bsearch_sound (pf_cmp addr) T) as H. destruct (bsearch_by (pf_cmp addr) T) as [i|[|i]]; try reflexivity.
    destruct H as [[r f] [H1 H2]]. exfalso. unfold pf_cmp in H2. apply cmp_z_equal in H2. cbn [fst] in H2.
    apply nth_error_In in H1. rewrite (rm_get_complete T addr r f) in Hg; [discriminate|assumption|assumption|assumption|].
    unfold contains. specialize (Hwf' _ H1). cbn [fst snd] in *. lia. }
  rewrite Heq.
  assert (Hm : mono (pf_cmp addr) T).
  { intros i j a b Hij Hi Hj Hc. unfold pf_cmp in *. apply cmp_z_greater in Hc. apply cmp_z_greater.
    pose proof (ss_nth _ _ Hs i j a b Hij Hi Hj) as Hord. cbn beta in Hord.
    apply nth_error_In in Hi. specialize (Hwf' _ Hi).
    destruct a as [[? ?] ?], b as [[? ?] ?]; cbn [fst snd] in *. lia. }
  pose proof (bs_cand_last (pf_cmp addr) T Hm) as H.
  destruct (bs_cand (pf_cmp addr) T) as [c|].
  - destruct H as (i & Hi & Hng & Hlast). split; [eapply nth_error_In; eassumption|].
    assert (Hc : fst (fst c) <= addr).
    { unfold pf_cmp in Hng. destruct (Z_le_gt_dec (fst (fst c)) addr); [assumption|].
      exfalso. apply Hng. apply cmp_z_greater. lia. }
    split; [assumption|]. intros e He Hea. apply In_nth_error in He. destruct He as [j Hj].
    destruct (Nat.lt_trichotomy j i) as [Hlt|[->|Hgt]].
    + pose proof (ss_nth _ _ Hs j i e c Hlt Hj Hi) as Hord. cbn beta in Hord.
      apply nth_error_In in Hj. specialize (Hwf' _ Hj).
      destruct e as [[? ?] ?], c as [[? ?] ?]; cbn [fst snd] in *. lia.
    + rewrite Hi in Hj. inversion Hj; subst. lia.
    + specialize (Hlast j e Hj Hgt). unfold pf_cmp in Hlast. apply cmp_z_greater in Hlast. lia.
  - intros e He. specialize (H e He). unfold pf_cmp in H. apply cmp_z_greater in H. exact H.
Qed.

(* ---- the PUBLIC branch *)
Definition cut_by_func (st : symtab) (pb : pub_rec) (addr : Z) : Prop :=
  exists r f, In (r, f) (st_funcs st) /\ fn_addr f = fst r /\ p_addr pb <= fn_addr f <= addr.

Lemma fill_public_spec fixed rf st mbase addr :
  wf_file rf -> st_rel fixed rf st -> rm_get (st_funcs st) addr = None ->
  let o := fill_public st mbase addr in
  ((forall q, In q (rf_publics rf) -> addr < p_addr q) /\ o = empty_out) \/
  (exists pb, In pb (rf_publics rf) /\ p_addr pb <= addr /\
      (forall q, In q (rf_publics rf) -> p_addr q <= addr -> pub_lt pb q = false) /\
      ((cut_by_func st pb addr /\ o = empty_out) \/
       (~ cut_by_func st pb addr /\
        o = mk_out (Some (p_name pb, p_addr pb + mbase, p_psize pb)) None []))).
Proof.
  intros Hwf Hrel Hg o. subst o. unfold fill_public. rewrite (sr_pubs _ _ _ Hrel).
  pose proof (nearest_public_spec (rf_publics rf) addr) as Hn.
  destruct (find_nearest_public (sort_by pub_lt (rf_publics rf)) addr) as [pb|]; [|left; auto].
  destruct Hn as (Hin & Hle & Hmax). right. exists pb. split; [assumption|]. split; [assumption|].
  split; [assumption|].
  destruct Hwf as (Hwff & _).
  destruct (sorted_disjoint_p func_eqb (fin_list fixed (rf_funcs rf)) (fin_list_wf fixed _ Hwff)) as [Hs Hw].
  rewrite <- (sr_funcs _ _ _ Hrel) in Hs, Hw.
  pose proof (prev_func_spec (st_funcs st) addr Hs Hw Hg) as Hp.
  assert (Hent : forall r f, In (r, f) (st_funcs st) -> fn_addr f = fst r).
  { intros r f Hrf. rewrite (sr_funcs _ _ _ Hrel) in Hrf. apply table_entry in Hrf.
    destruct Hrf as (fr & _ & _ & E & _). exact E. }
  unfold public_cut. destruct (prev_func (st_funcs st) addr) as [[r f]|].
  - destruct Hp as (Hc1 & Hc2 & Hc3). cbn [fst snd] in *. pose proof (Hent _ _ Hc1) as Ef.
    destruct (p_addr pb <=? fn_addr f) eqn:Ecut.
    + left. split; [|reflexivity]. exists r, f. split; [assumption|]. split; [assumption|]. lia.
    + right. split; [|reflexivity]. intros (r' & f' & A & B & C).
      specialize (Hc3 (r', f') A). cbn [fst] in Hc3. lia.
  - right. split; [|reflexivity]. intros (r' & f' & A & B & C).
    specialize (Hp (r', f') A). cbn [fst] in Hp. lia.
Qed.
