(* C11/Proofs7.v — Symbolizer level: module lookup (C08) composed with fill_symbol. *)
From Coq Require Import Lia Sorting.Sorted Sorting.Permutation.
From RM Require Import C08.Model C08.Proofs C11.Model C11.Proofs1 C11.Proofs2.
Open Scope Z_scope.

Definition wf_module (m : module) : Prop := u64 (fst (fst m)) /\ 0 <= snd (fst m).

Lemma enumerate_in {A} (l : list A) : forall k a i, In (a, i) (enumerate_from k l) ->
  k <= i /\ nth_error l (Z.to_nat (i - k)) = Some a.
Proof.
  induction l as [|x t IH]; intros k a i; cbn [enumerate_from In]; [tauto|].
  intros [H|H].
  - inversion H; subst. split; [lia|]. rewrite Z.sub_diag. reflexivity.
  - apply IH in H. destruct H as [H1 H2]. split; [lia|].
    replace (Z.to_nat (i - k)) with (S (Z.to_nat (i - (k + 1)))) by lia. exact H2.
Qed.

Lemma mod_ranges_wf (mods : list module) : Forall wf_module mods ->
  wf_entries (enumerate_from 0 (map (fun m : module => mk_range (fst (fst m)) (snd (fst m))) mods)).
Proof.
  intros H. unfold wf_entries. rewrite Forall_forall. intros [o i] Hin. apply enumerate_in in Hin.
  destruct Hin as [_ Hn]. cbn [fst]. destruct o as [r|]; [|exact I].
  apply nth_error_In in Hn. apply in_map_iff in Hn. destruct Hn as (m & E & Hm).
  rewrite Forall_forall in H. destruct (H _ Hm) as [[A _] B]. eapply mk_range_wf; [| |exact E]; lia.
Qed.

Lemma module_lookup_compose p (mods : list module) instr :
  Forall wf_module mods ->
  exists tbl, mod_table mods = Ret tbl /\
    match rm_get tbl instr with
    | None => frame_of p tbl mods instr = Ret None
    | Some idx =>
        exists b sz ost r, 0 <= idx /\ nth_error mods (Z.to_nat idx) = Some (b, sz, ost) /\
          mk_range b sz = Some r /\ contains r instr = true /\ b <= instr /\
          frame_of p tbl mods instr =
            match ost with
            | Some st => do o <- fill_symbol p st b instr;
                         Ret (Some (idx, mk_out (o_func o) (o_src o) (rev (o_inl o))))
            | None => Ret (Some (idx, empty_out))
            end
    end.
Proof.
  intros Hwf. pose proof (mod_ranges_wf mods Hwf) as Hw.
  unfold mod_table, build_indexed. rewrite (build_total Z.eqb) by exact Hw.
  eexists. split; [reflexivity|]. unfold frame_of.
  destruct (rm_get _ instr) as [idx|] eqn:Eg; [|reflexivity].
  apply (lookup_sound Z.eqb Z.eqb_eq) in Eg; [|exact Hw]. destruct Eg as (r & Hin & Hc).
  apply enumerate_in in Hin. destruct Hin as [Hi Hn]. rewrite Z.sub_0_r in Hn.
  rewrite nth_error_map in Hn. destruct (nth_error mods (Z.to_nat idx)) as [[[b sz] ost]|] eqn:En; [|discriminate].
  cbn [option_map fst snd] in Hn. inversion Hn as [Hr].
  exists b, sz, ost, r. split; [exact Hi|]. split; [reflexivity|]. split; [exact Hr|]. split; [exact Hc|].
  split.
  - apply mk_range_some in Hr. destruct Hr as (_ & -> & _). unfold contains in Hc. cbn [fst snd] in Hc. lia.
  - destruct ost; reflexivity.
Qed.

Definition module_parsed (m : module) : Prop :=
  match snd m with Some st => exists rf, wf_file rf /\ st_rel true rf st | None => True end.

(* with every module's table parsed from a file: no panic, and the frame is the pure result
   for the module found, at that module's base, inlines reversed *)
Lemma module_frame_total p (mods : list module) instr :
  Forall wf_module mods -> Forall module_parsed mods -> instr < two64 ->
  exists tbl, mod_table mods = Ret tbl /\
    frame_of p tbl mods instr =
      Ret (match rm_get tbl instr with
           | None => None
           | Some idx =>
               match nth_error mods (Z.to_nat idx) with
               | Some (b, _, Some st) =>
                   let o := fill_pure st b instr in Some (idx, mk_out (o_func o) (o_src o) (rev (o_inl o)))
               | _ => Some (idx, empty_out)
               end
           end).
Proof.
  intros Hwf Hp Hi. destruct (module_lookup_compose p mods instr Hwf) as (tbl & Et & H).
  exists tbl. split; [exact Et|]. destruct (rm_get tbl instr) as [idx|]; [|exact H].
  destruct H as (b & sz & ost & r & _ & En & _ & _ & _ & Ef). rewrite Ef, En.
  destruct ost as [st|]; [|reflexivity].
  pose proof (nth_error_In _ _ En) as Hin. rewrite Forall_forall in Hwf, Hp.
  destruct (Hwf _ Hin) as [[Hb _] _]. destruct (Hp _ Hin) as (rf & Hrf & Hrel). cbn [fst snd] in *.
  rewrite (fill_ret true p rf st b instr Hrf Hrel Hb Hi). reflexivity.
Qed.
