(* C11/Model.v — executable model of symbolication (definitions only; extracted).
   Mirrors:
     breakpad-symbols/src/sym_file/parser.rs   finish_item (line table via the trait
        into_rangemap_safe, zero-size lines filtered, inlinees.sort()), finish (publics.sort(),
        parser-local into_rangemap_safe for FUNC and STACK WIN tables), insert_win_stack_info
     breakpad-symbols/src/sym_file/types.rs    Function::{memory_range, get_outermost_sourceloc,
        get_innermost_sourceloc, get_inlinee_at_depth}
     breakpad-symbols/src/sym_file/mod.rs      SymbolFile::{fill_symbol, find_nearest_public}
     minidump-unwind/src/lib.rs                fill_source_line_info (reversal of the inlines)
     core::slice::binary_search_by (Rust >= 1.82 halving loop)
   Names (function, file, inline-origin names) are abstract integers; the harness renders
   them with an order-preserving fixed-width encoding (PublicSymbol's derived Ord compares
   the name after the address). *)
From RM Require Export Base.Word C08.Model.
Open Scope Z_scope.

Definition PANIC_ADD : Z := 1101.     (* `address + module.base_address()` overflow (debug) *)
Definition PANIC_INDEX : Z := 1102.   (* self.inlinees[index] out of bounds *)
Definition PANIC_DEPTH : Z := 1103.   (* `for depth in 1..` : u32 counter overflow (debug) *)
Definition PANIC_WIN_UNWRAP : Z := 1104. (* last_info.memory_range().unwrap() *)

(* ------------------------------------------------------------------ records *)
Record line_rec := mk_line { l_addr : Z; l_size : Z; l_file : Z; l_line : Z }.
(* field order = declaration order of `Inlinee` (the derived Ord is lexicographic in it) *)
Record inl_rec := mk_inl { i_depth : Z; i_addr : Z; i_size : Z; i_cfile : Z; i_cline : Z; i_origin : Z }.
Record pub_rec := mk_pub { p_addr : Z; p_name : Z; p_psize : Z }.
(* STACK WIN: w_tag stands for the remaining fields (they take part in `==` only) *)
Record win_rec := mk_win { w_addr : Z; w_size : Z; w_psize : Z; w_tag : Z }.

(* a FUNC block as the parser collects it *)
Record func_raw := mk_fraw { fr_addr : Z; fr_size : Z; fr_psize : Z; fr_name : Z;
                             fr_lines : list line_rec; fr_inls : list inl_rec }.
(* a finished Function *)
Record func := mk_func { fn_addr : Z; fn_size : Z; fn_psize : Z; fn_name : Z;
                         fn_lines : list (range * line_rec); fn_inls : list inl_rec }.

(* the records of one symbol file, per kind, in file order *)
Record raw_file := mk_raw {
  rf_files : list (Z * Z);       (* FILE id name *)
  rf_origins : list (Z * Z);     (* INLINE_ORIGIN id name, inside or outside FUNC blocks *)
  rf_publics : list pub_rec;
  rf_funcs : list func_raw;
  rf_win_fd : list win_rec;      (* STACK WIN 4 … (frame data) *)
  rf_win_fpo : list win_rec      (* STACK WIN 0 … (fpo) *)
}.

(* the parsed SymbolFile *)
Record symtab := mk_symtab {
  st_files : list (Z * Z);       (* HashMap as insertion log: the last insert of a key wins *)
  st_origins : list (Z * Z);
  st_publics : list pub_rec;     (* sorted *)
  st_funcs : list (range * func);
  st_win_fd : list (range * win_rec);
  st_win_fpo : list (range * win_rec)
}.

(* ------------------------------------------------------------------ equality / order *)
Definition line_eqb (a b : line_rec) : bool :=
  (l_addr a =? l_addr b) && (l_size a =? l_size b) && (l_file a =? l_file b) && (l_line a =? l_line b).
Definition inl_eqb (a b : inl_rec) : bool :=
  (i_depth a =? i_depth b) && (i_addr a =? i_addr b) && (i_size a =? i_size b) &&
  (i_cfile a =? i_cfile b) && (i_cline a =? i_cline b) && (i_origin a =? i_origin b).
Definition win_eqb (a b : win_rec) : bool :=
  (w_addr a =? w_addr b) && (w_size a =? w_size b) && (w_psize a =? w_psize b) && (w_tag a =? w_tag b).
Definition range_eqb (a b : range) : bool := (fst a =? fst b) && (snd a =? snd b).

Section ListEq.
  Context {A : Type} (eqb : A -> A -> bool).
  Fixpoint list_eqb (a b : list A) : bool :=
    match a, b with
    | [], [] => true
    | x :: a', y :: b' => eqb x y && list_eqb a' b'
    | _, _ => false
    end.
End ListEq.

Definition rline_eqb (a b : range * line_rec) : bool := range_eqb (fst a) (fst b) && line_eqb (snd a) (snd b).
Definition func_eqb (a b : func) : bool :=
  (fn_addr a =? fn_addr b) && (fn_size a =? fn_size b) && (fn_psize a =? fn_psize b) &&
  (fn_name a =? fn_name b) && list_eqb rline_eqb (fn_lines a) (fn_lines b) &&
  list_eqb inl_eqb (fn_inls a) (fn_inls b).

(* lexicographic `<` on lists of integers: the derived Ord of the record structs *)
Fixpoint lex_lt (a b : list Z) : bool :=
  match a, b with
  | x :: a', y :: b' => (x <? y) || ((x =? y) && lex_lt a' b')
  | _, _ => false
  end.
Definition inl_key (e : inl_rec) : list Z :=
  [i_depth e; i_addr e; i_size e; i_cfile e; i_cline e; i_origin e].
Definition inl_lt (a b : inl_rec) : bool := lex_lt (inl_key a) (inl_key b).
Definition pub_key (p : pub_rec) : list Z := [p_addr p; p_name p; p_psize p].
Definition pub_lt (a b : pub_rec) : bool := lex_lt (pub_key a) (pub_key b).

(* Vec::sort() of a vector of records (C08's stable insertion sort on keys) *)
Definition sort_by {A} (lt : A -> A -> bool) (l : list A) : list A :=
  map fst (sort_stable lt (map (fun e => (e, tt)) l)).

(* HashMap::get after a sequence of inserts *)
Fixpoint assoc_last (k : Z) (l : list (Z * Z)) : option Z :=
  match l with
  | [] => None
  | (k', v) :: t => match assoc_last k t with
                    | Some v' => Some v'
                    | None => if k' =? k then Some v else None
                    end
  end.

(* ------------------------------------------------------------------ binary search *)
Inductive bres := BOk (i : nat) | BErr (i : nat).

Section BSearch.
  Context {A : Type} (cmp : A -> ordering).   (* f(elem) relative to the target *)
  Fixpoint bs_loop (fuel : nat) (l : list A) (base size : nat) : nat :=
    match fuel with
    | O => base
    | S fuel' =>
        if Nat.leb size 1 then base
        else let half := Nat.div2 size in
             let mid := (base + half)%nat in
             let c := match nth_error l mid with Some e => cmp e | None => OGreater end in
             let base' := match c with OGreater => base | _ => mid end in
             bs_loop fuel' l base' (size - half)%nat
    end.
  Definition bsearch_by (l : list A) : bres :=
    match l with
    | [] => BErr 0
    | _ => let base := bs_loop (length l) l 0%nat (length l) in
           match nth_error l base with
           | Some e => match cmp e with
                       | OEqual => BOk base
                       | OLess => BErr (S base)
                       | OGreater => BErr base
                       end
           | None => BErr base     (* unreachable: base < len *)
           end
    end.
End BSearch.

Definition cmp_z (a b : Z) : ordering := if a <? b then OLess else if b <? a then OGreater else OEqual.
(* (a1, a2).cmp(&(b1, b2)) *)
Definition cmp_pair (a1 a2 b1 b2 : Z) : ordering :=
  match cmp_z a1 b1 with OEqual => cmp_z a2 b2 | c => c end.

(* ------------------------------------------------------------------ types.rs *)
Definition giad_candidate (inls : list inl_rec) (depth addr : Z) : outcome (option inl_rec) :=
  match bsearch_by (fun e => cmp_pair (i_depth e) (i_addr e) depth addr) inls with
  | BOk i => match nth_error inls i with Some e => Ret (Some e) | None => Panic PANIC_INDEX end
  | BErr O => Ret None
  | BErr (S i) => match nth_error inls i with Some e => Ret (Some e) | None => Panic PANIC_INDEX end
  end.

Definition giad_check (depth addr : Z) (c : option inl_rec) : option inl_rec :=
  match c with
  | None => None
  | Some e =>
      if negb (i_depth e =? depth) then None
      else match checked_add 64 (i_addr e) (i_size e) with
           | None => None
           | Some end_address => if addr <? end_address then Some e else None
           end
  end.

Definition get_inlinee_at_depth (inls : list inl_rec) (depth addr : Z) : outcome (option inl_rec) :=
  do c <- giad_candidate inls depth addr; Ret (giad_check depth addr c).

(* (file_id, line, address, inline_origin) *)
Definition get_outermost_sourceloc (f : func) (addr : Z) : outcome (option (Z * Z * Z * option inl_rec)) :=
  do r <- get_inlinee_at_depth (fn_inls f) 0 addr;
  match r with
  | Some e => Ret (Some (i_cfile e, i_cline e, i_addr e, Some e))
  | None => match rm_get (fn_lines f) addr with
            | Some l => Ret (Some (l_file l, l_line l, l_addr l, None))
            | None => Ret None
            end
  end.

(* `for depth in 1.. { match func.get_inlinee_at_depth(depth, addr) { Some => …, None => break } }`
   returns the inlinee found at depth, depth+1, …  *)
Fixpoint inline_loop (p : profile) (fuel : nat) (inls : list inl_rec) (addr depth : Z) : outcome (list inl_rec) :=
  match fuel with
  | O => OutOfFuel
  | S fuel' =>
      do r <- get_inlinee_at_depth inls depth addr;
      match r with
      | None => Ret []
      | Some e =>
          do depth' <- chk_add p 32 PANIC_DEPTH depth 1;
          do rest <- inline_loop p fuel' inls addr depth';
          Ret (e :: rest)
      end
  end.

(* ------------------------------------------------------------------ mod.rs *)
Definition iframe := (Z * option Z * option Z)%type.     (* name, file, line *)
Record sym_out := mk_out {
  o_func : option (Z * Z * Z);      (* set_function(name, base, parameter_size) *)
  o_src : option (Z * Z * Z);       (* set_source_file(file, line, base) *)
  o_inl : list iframe               (* add_inline_frame calls, in call order *)
}.
Definition empty_out : sym_out := mk_out None None [].

Definition find_nearest_public (pubs : list pub_rec) (addr : Z) : option pub_rec :=
  find (fun p => p_addr p <=? addr) (rev pubs).

(* the add_inline_frame calls: [org] is the origin whose frame is pending, [chain] the
   inlinees found at the following depths, [inner] the innermost line record *)
Fixpoint emit_frames (st : symtab) (org : Z) (chain : list inl_rec) (inner : option line_rec) : list iframe :=
  match chain with
  | e :: t =>
      (match assoc_last org (st_origins st) with
       | Some nm => [(nm, assoc_last (i_cfile e) (st_files st), Some (i_cline e))]
       | None => []
       end) ++ emit_frames st (i_origin e) t inner
  | [] =>
      match assoc_last org (st_origins st) with
      | Some nm =>
          match inner with
          | Some l => [(nm, assoc_last (l_file l) (st_files st),
                        if l_line l =? 0 then None else Some (l_line l))]
          | None => [(nm, None, None)]
          end
      | None => []
      end
  end.

Definition prev_func (funcs : list (range * func)) (addr : Z) : option (range * func) :=
  match bsearch_by (fun e : range * func => cmp_z (fst (fst e)) addr) funcs with
  | BOk _ => None
  | BErr O => None
  | BErr (S i) => nth_error funcs i
  end.

Definition param_size (st : symtab) (f : func) (addr : Z) : Z :=
  match rm_get (st_win_fd st) addr with
  | Some w => w_psize w
  | None => match rm_get (st_win_fpo st) addr with
            | Some w => w_psize w
            | None => fn_psize f
            end
  end.

Definition fill_symbol (p : profile) (st : symtab) (mbase instr : Z) : outcome sym_out :=
  if instr <? mbase then Ret empty_out
  else
    let addr := instr - mbase in
    match rm_get (st_funcs st) addr with
    | Some f =>
        do fbase <- chk_add p 64 PANIC_ADD (fn_addr f) mbase;
        let fo := Some (fn_name f, fbase, param_size st f addr) in
        do outer <- get_outermost_sourceloc f addr;
        match outer with
        | None => Ret (mk_out fo None [])
        | Some (fid, line, a, org) =>
            do src <- match assoc_last fid (st_files st) with
                      | Some fname => do b <- chk_add p 64 PANIC_ADD a mbase; Ret (Some (fname, line, b))
                      | None => Ret None
                      end;
            match org with
            | None => Ret (mk_out fo src [])
            | Some e0 =>
                do chain <- inline_loop p (length (fn_inls f)) (fn_inls f) addr 1;
                Ret (mk_out fo src (emit_frames st (i_origin e0) chain (rm_get (fn_lines f) addr)))
            end
        end
    | None =>
        match find_nearest_public (st_publics st) addr with
        | None => Ret empty_out
        | Some pb =>
            let cut := match prev_func (st_funcs st) addr with
                       | Some (_, f) => p_addr pb <=? fn_addr f
                       | None => false
                       end in
            if cut then Ret empty_out
            else do b <- chk_add p 64 PANIC_ADD (p_addr pb) mbase;
                 Ret (mk_out (Some (p_name pb, b, p_psize pb)) None [])
        end
    end.

(* minidump-unwind fill_source_line_info: frame.inlines.reverse() *)
Definition frame_inlines (o : sym_out) : list iframe := rev (o_inl o).

(* ------------------------------------------------------------------ Symbolizer level *)
(* minidump-unwind fill_source_line_info: modules.module_at_address(frame.instruction) — the table
   MinidumpModuleList::from_modules builds from the modules' memory_range() (C08 [build_indexed]) —
   then Symbolizer::fill_symbol(module, frame): the SymbolFile the supplier has for that module
   (None = no symbols: Err, nothing filled in) and SymbolFile::fill_symbol with that module's
   base; finally the reversal.  A module is (base, size, its symbol table). *)
Definition PANIC_MODIDX : Z := 1110.
Definition module := (Z * Z * option symtab)%type.
Definition mod_table (mods : list module) : outcome (list (range * Z)) :=
  build_indexed (map (fun m : module => mk_range (fst (fst m)) (snd (fst m))) mods).

Definition frame_of (p : profile) (tbl : list (range * Z)) (mods : list module) (instr : Z)
  : outcome (option (Z * sym_out)) :=
  match rm_get tbl instr with
  | None => Ret None
  | Some idx =>
      match nth_error mods (Z.to_nat idx) with
      | None => Panic PANIC_MODIDX
      | Some (b, _, Some st) =>
          do o <- fill_symbol p st b instr;
          Ret (Some (idx, mk_out (o_func o) (o_src o) (frame_inlines o)))
      | Some (_, _, None) => Ret (Some (idx, empty_out))
      end
  end.

(* ------------------------------------------------------------------ parser.rs *)
(* l.address.checked_add(l.size as u64 - 1), zero sizes filtered before *)
Definition mk_range_line (base size : Z) : option range :=
  match checked_add 64 base (size - 1) with
  | Some e => Some (base, e)
  | None => None
  end.

Definition line_entries (ls : list line_rec) : list (option range * line_rec) :=
  map (fun l => (mk_range_line (l_addr l) (l_size l), l)) (filter (fun l => 0 <? l_size l) ls).

(* finish_item(Line::Function).  [fixed = false] is the tree before the fix of F-C11a
   (INLINE ranges of size zero were kept in the table); [fixed = true] is the code now:
   `inlinees.retain(|i| i.size > 0)` before the sort. *)
Definition keep_inls (fixed : bool) (l : list inl_rec) : list inl_rec :=
  if fixed then filter (fun e => 0 <? i_size e) l else l.
Definition finish_func_gen (fixed : bool) (fr : func_raw) : outcome (option (range * func)) :=
  do lines <- build line_eqb (line_entries (fr_lines fr));
  let f := mk_func (fr_addr fr) (fr_size fr) (fr_psize fr) (fr_name fr) lines
                   (sort_by inl_lt (keep_inls fixed (fr_inls fr))) in
  match mk_range (fr_addr fr) (fr_size fr) with
  | Some r => Ret (Some (r, f))
  | None => Ret None
  end.

Fixpoint finish_funcs_gen (fixed : bool) (l : list func_raw) : outcome (list (range * func)) :=
  match l with
  | [] => Ret []
  | fr :: t =>
      do x <- finish_func_gen fixed fr;
      do rest <- finish_funcs_gen fixed t;
      Ret (match x with Some e => e :: rest | None => rest end)
  end.

(* insert_win_stack_info; [acc] is the vector reversed (head = last_mut()) *)
Definition win_range (w : win_rec) : option range := mk_range (w_addr w) (w_size w).
Definition win_insert (acc : list (range * win_rec)) (w : win_rec) : outcome (list (range * win_rec)) :=
  match win_range w with
  | None => Ret acc
  | Some mr =>
      match acc with
      | [] => Ret [(mr, w)]
      | (lr, lw) :: acc' =>
          if intersects lr mr then
            if w_addr w >? w_addr lw then
              let lw' := mk_win (w_addr lw) (wrap32 (w_addr w - w_addr lw)) (w_psize lw) (w_tag lw) in
              match win_range lw' with
              | Some lr' => Ret ((mr, w) :: (lr', lw') :: acc')
              | None => Panic PANIC_WIN_UNWRAP
              end
            else if negb (range_eqb lr mr) then Ret acc
            else Ret ((mr, w) :: acc)
          else Ret ((mr, w) :: acc)
      end
  end.
Fixpoint win_collect (acc : list (range * win_rec)) (ws : list win_rec) : outcome (list (range * win_rec)) :=
  match ws with
  | [] => Ret (rev acc)
  | w :: t => do acc' <- win_insert acc w; win_collect acc' t
  end.

(* SymbolParser::finish *)
Definition build_symtab_gen (fixed : bool) (rf : raw_file) : outcome symtab :=
  do fl <- finish_funcs_gen fixed (rf_funcs rf);
  do funcs <- build_p func_eqb fl;
  do wfd <- win_collect [] (rf_win_fd rf);
  do tfd <- build_p win_eqb wfd;
  do wfpo <- win_collect [] (rf_win_fpo rf);
  do tfpo <- build_p win_eqb wfpo;
  Ret (mk_symtab (rf_files rf) (rf_origins rf) (sort_by pub_lt (rf_publics rf)) funcs tfd tfpo).

Definition build_symtab := build_symtab_gen true.
Definition finish_func := finish_func_gen true.

(* parse, then symbolicate one instruction *)
Definition symbolize_gen (fixed : bool) (p : profile) (rf : raw_file) (mbase instr : Z) : outcome sym_out :=
  do st <- build_symtab_gen fixed rf; fill_symbol p st mbase instr.
Definition symbolize := symbolize_gen true.

(* ------------------------------------------------------------------ reference: linear scans *)
Definition func_covers (fr : func_raw) (x : Z) : bool :=
  match mk_range (fr_addr fr) (fr_size fr) with Some r => contains r x | None => false end.
Definition line_covers (l : line_rec) (x : Z) : bool :=
  (0 <? l_size l) &&
  match mk_range_line (l_addr l) (l_size l) with Some r => contains r x | None => false end.
Definition inl_covers (depth x : Z) (e : inl_rec) : bool :=
  (i_depth e =? depth) && (i_addr e <=? x) && (x <? i_addr e + i_size e) && (i_addr e + i_size e <? two64).
Definition win_covers (w : win_rec) (x : Z) : bool :=
  match win_range w with Some r => contains r x | None => false end.
