(* C11/Proofs2.v — the parser builds its tables without panicking; provenance of table
   entries; fill_symbol never panics and equals a pure function. *)
From Coq Require Import Lia Sorting.Sorted Sorting.Permutation.
From RM Require Import C08.Model C08.Proofs C11.Model C11.Proofs1.
Open Scope Z_scope.

(* what the integer types of the parser guarantee *)
Definition u64 (x : Z) : Prop := 0 <= x < two64.
Definition u32 (x : Z) : Prop := 0 <= x < two32.
Definition wf_line (l : line_rec) : Prop := u64 (l_addr l) /\ u32 (l_size l).
Definition wf_inl (e : inl_rec) : Prop := u32 (i_depth e) /\ u64 (i_addr e) /\ u32 (i_size e).
Definition wf_fraw (fr : func_raw) : Prop :=
  u64 (fr_addr fr) /\ u32 (fr_size fr) /\ Forall wf_line (fr_lines fr) /\ Forall wf_inl (fr_inls fr) /\
  Z.of_nat (length (fr_inls fr)) < two32 - 1.
Definition wf_pub (p : pub_rec) : Prop := u64 (p_addr p).
Definition wf_win (w : win_rec) : Prop := u64 (w_addr w) /\ u32 (w_size w).
Definition wf_file (rf : raw_file) : Prop :=
  Forall wf_fraw (rf_funcs rf) /\ Forall wf_pub (rf_publics rf) /\
  Forall wf_win (rf_win_fd rf) /\ Forall wf_win (rf_win_fpo rf).

Lemma two32_val : two32 = 2 ^ 32. Proof. reflexivity. Qed.

Lemma chk_add_ok p a b : 0 <= a -> 0 <= b -> a + b < two64 -> chk_add p 64 PANIC_ADD a b = Ret (a + b).
Proof.
  intros Ha Hb Hs. unfold chk_add, chk. rewrite <- two64_val.
  destruct ((0 <=? a + b) && (a + b <? two64)) eqn:E; [reflexivity|].
  apply andb_false_iff in E. lia.
Qed.

Lemma mk_range_some base size r : mk_range base size = Some r ->
  size <> 0 /\ r = (base, base + size - 1) /\ base + size < two64.
Proof.
  unfold mk_range, checked_add. destruct (size =? 0) eqn:E0; [discriminate|].
  destruct (base + size <? 2 ^ 64) eqn:E1; [|discriminate].
  intros H; inversion H; subst. rewrite two64_val. repeat split; lia.
Qed.

(* ------------------------------------------------------------------ line tables *)
Definition lines_tbl (ls : list line_rec) : list (range * line_rec) :=
  into_rangemap_safe line_eqb (line_entries ls).

Lemma line_entries_wf ls : Forall wf_line ls -> wf_entries (line_entries ls).
Proof.
  intros H. unfold wf_entries. rewrite Forall_forall. intros [o l] Hin.
  unfold line_entries in Hin. apply in_map_iff in Hin. destruct Hin as [l0 [Heq Hin]].
  inversion Heq; subst. apply filter_In in Hin. destruct Hin as [Hin Hs]. cbn [fst].
  unfold mk_range_line, checked_add. destruct (l_addr l + (l_size l - 1) <? 2 ^ 64) eqn:E; [|exact I].
  rewrite Forall_forall in H. specialize (H _ Hin). unfold wf_line, u64, u32, wf_range in *.
  cbn [fst snd]. rewrite two64_val. lia.
Qed.

Lemma lines_lookup ls x l : Forall wf_line ls -> rm_get (lines_tbl ls) x = Some l ->
  In l ls /\ line_covers l x = true /\ 0 <= l_addr l <= x.
Proof.
  intros Hwf Hg. apply (lookup_sound line_eqb line_eqb_eq) in Hg; [|apply line_entries_wf; assumption].
  destruct Hg as [r [Hin Hc]]. unfold line_entries in Hin. apply in_map_iff in Hin.
  destruct Hin as [l0 [Heq Hin]]. inversion Heq; subst l0. apply filter_In in Hin. destruct Hin as [Hin Hs].
  split; [assumption|]. unfold line_covers. rewrite Hs, H0. cbn [andb]. split; [assumption|].
  rewrite Forall_forall in Hwf. specialize (Hwf _ Hin). unfold wf_line, u64 in Hwf.
  unfold mk_range_line in H0. destruct (checked_add 64 (l_addr l) (l_size l - 1)); [|discriminate].
  inversion H0; subst r. unfold contains in Hc. cbn [fst snd] in Hc. lia.
Qed.

(* ------------------------------------------------------------------ FUNC blocks *)
Definition fin_func (fixed : bool) (fr : func_raw) : func :=
  mk_func (fr_addr fr) (fr_size fr) (fr_psize fr) (fr_name fr) (lines_tbl (fr_lines fr))
          (sort_by inl_lt (keep_inls fixed (fr_inls fr))).
Definition fin_pure (fixed : bool) (fr : func_raw) : option (range * func) :=
  match mk_range (fr_addr fr) (fr_size fr) with Some r => Some (r, fin_func fixed fr) | None => None end.
Fixpoint fin_list (fixed : bool) (l : list func_raw) : list (range * func) :=
  match l with
  | [] => []
  | fr :: t => match fin_pure fixed fr with Some e => e :: fin_list fixed t | None => fin_list fixed t end
  end.

Lemma finish_func_ret fixed fr : wf_fraw fr -> finish_func_gen fixed fr = Ret (fin_pure fixed fr).
Proof.
  intros (_ & _ & Hl & _). unfold finish_func_gen.
  rewrite (build_total line_eqb) by (apply line_entries_wf; assumption). cbn [obind].
  unfold fin_pure, fin_func, lines_tbl. destruct (mk_range (fr_addr fr) (fr_size fr)); reflexivity.
Qed.

Lemma finish_funcs_ret fixed l : Forall wf_fraw l -> finish_funcs_gen fixed l = Ret (fin_list fixed l).
Proof.
  induction 1 as [|fr t Hfr Ht IH]; cbn [finish_funcs_gen fin_list]; [reflexivity|].
  rewrite finish_func_ret by assumption. cbn [obind]. rewrite IH. cbn [obind].
  destruct (fin_pure fixed fr); reflexivity.
Qed.

Lemma fin_list_in fixed l e : In e (fin_list fixed l) <-> exists fr, In fr l /\ fin_pure fixed fr = Some e.
Proof.
  induction l as [|fr t IH]; cbn [fin_list In].
  - split; [tauto|intros [fr [[] _]]].
  - destruct (fin_pure fixed fr) as [e0|] eqn:E; cbn [In]; rewrite IH; split.
    + intros [->|[fr' [H1 H2]]]; [exists fr; auto|exists fr'; auto].
    + intros [fr' [[->|H1] H2]]; [left; congruence|right; exists fr'; auto].
    + intros [fr' [H1 H2]]; exists fr'; auto.
    + intros [fr' [[->|H1] H2]]; [congruence|exists fr'; auto].
Qed.

Lemma fin_list_app fixed a b : fin_list fixed (a ++ b) = fin_list fixed a ++ fin_list fixed b.
Proof.
  induction a as [|fr t IH]; cbn [fin_list app]; [reflexivity|].
  destruct (fin_pure fixed fr); [cbn [app]; f_equal|]; exact IH.
Qed.

Lemma fin_list_wf fixed l : Forall wf_fraw l -> wf_ranges (fin_list fixed l).
Proof.
  intros H. unfold wf_ranges. rewrite Forall_forall. intros [r f] Hin.
  apply fin_list_in in Hin. destruct Hin as [fr [Hin Hp]]. unfold fin_pure in Hp.
  destruct (mk_range (fr_addr fr) (fr_size fr)) as [r0|] eqn:E; [|discriminate]. inversion Hp; subst.
  rewrite Forall_forall in H. destruct (H _ Hin) as ((A & _) & (B & _) & _). cbn [fst].
  eapply mk_range_wf; [| |exact E]; lia.
Qed.

Lemma keep_inls_in fixed l e : In e (keep_inls fixed l) -> In e l.
Proof. unfold keep_inls. destruct fixed; [|auto]. intros H. apply filter_In in H. tauto. Qed.
Lemma filter_len_le {A} (f : A -> bool) l : (length (filter f l) <= length l)%nat.
Proof. induction l as [|a t IH]; cbn [filter length]; [lia|]. destruct (f a); cbn [length]; lia. Qed.
Lemma keep_inls_length fixed l : (length (keep_inls fixed l) <= length l)%nat.
Proof. unfold keep_inls. destruct fixed; [apply filter_len_le|lia]. Qed.

(* a FUNC found by the table lookup is a FUNC record of the file that covers the address *)
Lemma func_lookup fixed fl x f : Forall wf_fraw fl ->
  rm_get (into_rangemap_safe_p func_eqb (fin_list fixed fl)) x = Some f ->
  exists fr, In fr fl /\ func_covers fr x = true /\ f = fin_func fixed fr /\ 0 <= fr_addr fr <= x.
Proof.
  intros Hwf Hg. apply (lookup_sound_p func_eqb func_eqb_eq) in Hg; [|apply fin_list_wf; assumption].
  destruct Hg as [r [Hin Hc]]. apply fin_list_in in Hin. destruct Hin as [fr [Hin Hp]].
  exists fr. split; [assumption|]. unfold fin_pure in Hp. unfold func_covers.
  destruct (mk_range (fr_addr fr) (fr_size fr)) as [r0|] eqn:E; [|discriminate]. inversion Hp; subst.
  split; [assumption|]. split; [reflexivity|].
  rewrite Forall_forall in Hwf. destruct (Hwf _ Hin) as ((A & _) & _).
  apply mk_range_some in E. destruct E as (_ & -> & _). unfold contains in Hc. cbn [fst snd] in Hc. lia.
Qed.

(* ------------------------------------------------------------------ STACK WIN *)
Definition win_prov (ws : list win_rec) (e : range * win_rec) : Prop :=
  win_range (snd e) = Some (fst e) /\ wf_win (snd e) /\
  exists w0 r0, In w0 ws /\ win_range w0 = Some r0 /\ fst r0 = fst (fst e) /\ snd (fst e) <= snd r0 /\
                w_psize (snd e) = w_psize w0.

Lemma win_insert_ok ws acc w : Forall (win_prov ws) acc -> wf_win w -> In w ws ->
  exists acc', win_insert acc w = Ret acc' /\ Forall (win_prov ws) acc'.
Proof.
  intros Hacc Hw Hin. unfold win_insert. destruct (win_range w) as [mr|] eqn:Er; [|exists acc; auto].
  assert (Hnew : win_prov ws (mr, w)).
  { split; [exact Er|]. split; [exact Hw|]. exists w, mr. cbn [fst snd]. repeat split; auto; lia. }
  destruct acc as [|[lr lw] acc']; [exists [(mr, w)]; split; [reflexivity|constructor; [exact Hnew|constructor]]|].
  destruct (intersects lr mr) eqn:Ei; [|eexists; split; [reflexivity|constructor; assumption]].
  destruct (w_addr w >? w_addr lw) eqn:Eg.
  - inversion Hacc as [|? ? Hl Hrest]; subst.
    destruct Hl as (Hlr & Hlwf & w0 & r0 & Hw0 & Hr0 & Hs0 & He0 & Hp0). cbn [fst snd] in *.
    pose proof Hlr as Hlr'. unfold win_range in Hlr'. apply mk_range_some in Hlr'. destruct Hlr' as (Hsz & -> & Hb).
    pose proof Er as Er'. unfold win_range in Er'. apply mk_range_some in Er'. destruct Er' as (Hsz2 & -> & Hb2).
    unfold intersects in Ei. cbn [fst snd] in Ei.
    destruct Hlwf as [[A1 A2] [B1 B2]]. destruct Hw as [[C1 C2] [D1 D2]].
    set (d := w_addr w - w_addr lw).
    assert (Hd : 0 < d < w_size lw) by (unfold d; lia).
    assert (Hwrap : wrap32 d = d) by (unfold wrap32; apply Z.mod_small; lia).
    unfold win_range at 1. cbn [w_addr w_size]. rewrite Hwrap. unfold mk_range, checked_add.
    destruct (d =? 0) eqn:E0; [lia|]. destruct (w_addr lw + d <? 2 ^ 64) eqn:E1; [|rewrite two64_val in *; lia].
    eexists. split; [reflexivity|]. constructor; [exact Hnew|]. constructor; [|exact Hrest].
    split; [|split].
    + cbn [fst snd]. unfold win_range. cbn [w_addr w_size]. unfold mk_range, checked_add. rewrite E0, E1. reflexivity.
    + cbn [snd]. unfold wf_win, u64, u32. cbn [w_addr w_size]. lia.
    + exists w0, r0. cbn [fst snd w_psize] in *. unfold d in *. repeat split; try assumption; lia.
  - destruct (negb (range_eqb lr mr)); [exists ((lr, lw) :: acc'); auto|].
    eexists. split; [reflexivity|constructor; assumption].
Qed.

Lemma win_collect_ok wsall : forall ws acc, incl ws wsall -> Forall wf_win ws -> Forall (win_prov wsall) acc ->
  exists wl, win_collect acc ws = Ret wl /\ Forall (win_prov wsall) wl.
Proof.
  induction ws as [|w t IH]; intros acc Hincl Hwf Hacc; cbn [win_collect].
  - exists (rev acc). split; [reflexivity|apply Forall_rev; assumption].
  - inversion Hwf; subst.
    destruct (win_insert_ok wsall acc w Hacc) as [acc' [E Hacc']]; [assumption|apply Hincl; left; reflexivity|].
    rewrite E. cbn [obind]. apply IH; try assumption. intros a Ha. apply Hincl. right. exact Ha.
Qed.

Lemma win_prov_wf ws wl : Forall (win_prov ws) wl -> wf_ranges wl.
Proof.
  intros H. unfold wf_ranges. eapply Forall_impl; [|exact H]. intros [r w] (Hr & [[A _] [B _]] & _).
  cbn [fst snd] in *. unfold win_range in Hr. eapply mk_range_wf; [| |exact Hr]; lia.
Qed.

Lemma win_lookup ws wl x w : Forall (win_prov ws) wl ->
  rm_get (into_rangemap_safe_p win_eqb wl) x = Some w ->
  exists w0, In w0 ws /\ win_covers w0 x = true /\ w_psize w = w_psize w0.
Proof.
  intros Hp Hg. apply (lookup_sound_p win_eqb win_eqb_eq) in Hg; [|eapply win_prov_wf; eassumption].
  destruct Hg as [r [Hin Hc]]. rewrite Forall_forall in Hp. apply Hp in Hin.
  destruct Hin as (_ & _ & w0 & r0 & Hw0 & Hr0 & Hs & He & Hps). cbn [fst snd] in *.
  exists w0. split; [assumption|]. split; [|assumption]. unfold win_covers. rewrite Hr0.
  unfold contains in *. lia.
Qed.

(* ------------------------------------------------------------------ the parsed file *)
Record st_rel (fixed : bool) (rf : raw_file) (st : symtab) : Prop := mk_st_rel {
  (* the two HashMaps: same lookups (the representation of the map is free) *)
  sr_files : forall k, assoc_last k (st_files st) = assoc_last k (rf_files rf);
  sr_origins : forall k, assoc_last k (st_origins st) = assoc_last k (rf_origins rf);
  sr_pubs : st_publics st = sort_by pub_lt (rf_publics rf);
  sr_funcs : st_funcs st = into_rangemap_safe_p func_eqb (fin_list fixed (rf_funcs rf));
  sr_fd : exists wl, win_collect [] (rf_win_fd rf) = Ret wl /\ Forall (win_prov (rf_win_fd rf)) wl /\
                     st_win_fd st = into_rangemap_safe_p win_eqb wl;
  sr_fpo : exists wl, win_collect [] (rf_win_fpo rf) = Ret wl /\ Forall (win_prov (rf_win_fpo rf)) wl /\
                      st_win_fpo st = into_rangemap_safe_p win_eqb wl
}.

Lemma build_ok fixed rf : wf_file rf -> exists st, build_symtab_gen fixed rf = Ret st /\ st_rel fixed rf st.
Proof.
  intros (Hf & Hp & Hfd & Hfpo). unfold build_symtab_gen.
  rewrite finish_funcs_ret by assumption. cbn [obind].
  rewrite (build_total_p func_eqb) by (apply fin_list_wf; assumption). cbn [obind].
  destruct (win_collect_ok (rf_win_fd rf) (rf_win_fd rf) []) as [wl1 [E1 P1]];
    [apply incl_refl|assumption|constructor|].
  rewrite E1. cbn [obind]. rewrite (build_total_p win_eqb) by (eapply win_prov_wf; eassumption). cbn [obind].
  destruct (win_collect_ok (rf_win_fpo rf) (rf_win_fpo rf) []) as [wl2 [E2 P2]];
    [apply incl_refl|assumption|constructor|].
  rewrite E2. cbn [obind]. rewrite (build_total_p win_eqb) by (eapply win_prov_wf; eassumption). cbn [obind].
  eexists. split; [reflexivity|]. constructor; cbn; try reflexivity; eauto.
Qed.

(* ------------------------------------------------------------------ fill_symbol, pure *)
Definition src_of (st : symtab) (mbase fid line a : Z) : option (Z * Z * Z) :=
  match assoc_last fid (st_files st) with
  | Some fname => Some (fname, line, a + mbase)
  | None => None
  end.

Definition public_cut (st : symtab) (pb : pub_rec) (addr : Z) : bool :=
  match prev_func (st_funcs st) addr with
  | Some (_, f) => p_addr pb <=? fn_addr f
  | None => false
  end.

Definition inl_chain (f : func) (addr : Z) : list inl_rec :=
  match giad_pure (fn_inls f) 0 addr with
  | Some e0 => e0 :: chain_from (length (fn_inls f)) (fn_inls f) addr 1
  | None => []
  end.

Definition fill_func (st : symtab) (mbase addr : Z) (f : func) : sym_out :=
  let fo := Some (fn_name f, fn_addr f + mbase, param_size st f addr) in
  match inl_chain f addr with
  | e0 :: chain =>
      mk_out fo (src_of st mbase (i_cfile e0) (i_cline e0) (i_addr e0))
             (emit_frames st (i_origin e0) chain (rm_get (fn_lines f) addr))
  | [] =>
      match rm_get (fn_lines f) addr with
      | Some l => mk_out fo (src_of st mbase (l_file l) (l_line l) (l_addr l)) []
      | None => mk_out fo None []
      end
  end.

Definition fill_public (st : symtab) (mbase addr : Z) : sym_out :=
  match find_nearest_public (st_publics st) addr with
  | None => empty_out
  | Some pb => if public_cut st pb addr then empty_out
               else mk_out (Some (p_name pb, p_addr pb + mbase, p_psize pb)) None []
  end.

Definition fill_pure (st : symtab) (mbase instr : Z) : sym_out :=
  if instr <? mbase then empty_out
  else match rm_get (st_funcs st) (instr - mbase) with
       | Some f => fill_func st mbase (instr - mbase) f
       | None => fill_public st mbase (instr - mbase)
       end.

Lemma fin_inls_wf fixed fr : wf_fraw fr ->
  Forall wf_inl (fn_inls (fin_func fixed fr)) /\
  Z.of_nat (length (fn_inls (fin_func fixed fr))) < two32 - 1.
Proof.
  intros (_ & _ & _ & Hi & Hn). cbn [fin_func fn_inls]. split.
  - rewrite Forall_forall in *. intros e He. apply sort_by_in in He. apply keep_inls_in in He. auto.
  - rewrite sort_by_length. pose proof (keep_inls_length fixed (fr_inls fr)). lia.
Qed.

(* the chain found after depth 0 is shorter than the number of inlinees *)
Lemma chain_short inls addr e0 : giad_pure inls 0 addr = Some e0 ->
  (length (chain_from (length inls) inls addr 1) < length inls)%nat.
Proof.
  intros H0. apply giad_sound in H0. destruct H0 as (Hin & Hd & _).
  destruct (chain_from_depths (length inls) inls addr 1) as [Hf Hn].
  assert (Hnd : NoDup (e0 :: chain_from (length inls) inls addr 1)).
  { constructor; [|exact Hn]. intros Hc. rewrite Forall_forall in Hf. apply Hf in Hc. lia. }
  assert (Hincl : incl (e0 :: chain_from (length inls) inls addr 1) inls).
  { intros a [<-|Ha]; [assumption|]. rewrite Forall_forall in Hf. apply Hf in Ha. tauto. }
  pose proof (NoDup_incl_length Hnd Hincl) as Hl. cbn [length] in Hl. lia.
Qed.

Lemma find_some_rev {A} (f : A -> bool) l x : find f (rev l) = Some x -> In x l /\ f x = true.
Proof. intros H. apply find_some in H. rewrite <- in_rev in H. exact H. Qed.

Lemma fill_ret fixed p rf st mbase instr :
  wf_file rf -> st_rel fixed rf st -> 0 <= mbase -> instr < two64 ->
  fill_symbol p st mbase instr = Ret (fill_pure st mbase instr).
Proof.
  intros Hwf Hrel Hmb Hin. unfold fill_symbol, fill_pure, fill_func, fill_public.
  destruct (instr <? mbase) eqn:Elt; [reflexivity|]. apply Z.ltb_ge in Elt.
  set (addr := instr - mbase). destruct Hwf as (Hwff & Hwfp & _).
  destruct (rm_get (st_funcs st) addr) as [f|] eqn:Ef.
  - rewrite (sr_funcs _ _ _ Hrel) in Ef. apply func_lookup in Ef; [|assumption].
    destruct Ef as (fr & Hfr & Hcov & -> & Ha). rewrite Forall_forall in Hwff. specialize (Hwff _ Hfr).
    destruct (fin_inls_wf fixed fr Hwff) as [Hiw Hil].
    rewrite chk_add_ok by (cbn [fin_func fn_addr]; unfold addr in *; lia). cbn [obind].
    unfold get_outermost_sourceloc, inl_chain. rewrite giad_ret. cbn [obind].
    destruct (giad_pure (fn_inls (fin_func fixed fr)) 0 addr) as [e0|] eqn:E0.
    + cbn [obind]. pose proof (giad_sound _ _ _ _ E0) as (He0in & _ & He0a & _).
      rewrite Forall_forall in Hiw. destruct (Hiw _ He0in) as (_ & [A1 A2] & _).
      unfold src_of. rewrite inline_loop_ret; [|lia| |apply (chain_short _ _ _ E0)].
      * destruct (assoc_last (i_cfile e0) (st_files st)); cbn [obind];
          [rewrite chk_add_ok by (unfold addr in *; lia); cbn [obind]|]; reflexivity.
      * unfold two32 in *. lia.
    + destruct (rm_get (fn_lines (fin_func fixed fr)) addr) as [l|] eqn:El; cbn [obind]; [|reflexivity].
      cbn [fin_func fn_lines] in El. destruct Hwff as (_ & _ & Hlw & _).
      apply lines_lookup in El; [|assumption]. destruct El as (_ & _ & Hla).
      unfold src_of. destruct (assoc_last (l_file l) (st_files st)); cbn [obind];
        [rewrite chk_add_ok by (unfold addr in *; lia); cbn [obind]|]; reflexivity.
  - destruct (find_nearest_public (st_publics st) addr) as [pb|] eqn:Epb; [|reflexivity].
    fold (public_cut st pb addr). destruct (public_cut st pb addr); [reflexivity|].
    unfold find_nearest_public in Epb. apply find_some_rev in Epb. destruct Epb as [Hpin Hle].
    rewrite (sr_pubs _ _ _ Hrel) in Hpin. apply sort_by_in in Hpin.
    rewrite Forall_forall in Hwfp. specialize (Hwfp _ Hpin). unfold wf_pub, u64 in Hwfp.
    rewrite chk_add_ok by (unfold addr in *; lia). reflexivity.
Qed.

Lemma symbolize_ret fixed p rf mbase instr :
  wf_file rf -> 0 <= mbase -> instr < two64 ->
  exists st, st_rel fixed rf st /\ build_symtab_gen fixed rf = Ret st /\
             symbolize_gen fixed p rf mbase instr = Ret (fill_pure st mbase instr).
Proof.
  intros Hwf Hmb Hin. destruct (build_ok fixed rf Hwf) as [st [Hb Hrel]].
  exists st. split; [assumption|]. split; [assumption|]. unfold symbolize_gen. rewrite Hb. cbn [obind].
  eapply fill_ret; eassumption.
Qed.
