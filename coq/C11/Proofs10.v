(* C11/Proofs10.v — round 5: get_inlinee_at_depth characterised exactly, for EVERY FUNC block
   (overlapping ranges, duplicate (depth, address) keys, any order of the INLINE records):
   the candidate the binary search inspects is the greatest record, in the derived order of
   `Inlinee` (depth, address, size, call_file, call_line, origin_id), among the kept records whose
   (depth, address) is <= (depth, addr) — a description that mentions neither the algorithm nor
   the order of the records in the file.  Consequences: with duplicate keys the record with the
   greatest (size, call_file, call_line, origin) answers; Function values, and hence every
   symbolication, do not depend on the order of the INLINE records inside a FUNC block. *)
From Coq Require Import Lia Sorting.Sorted Sorting.Permutation.
From RM Require Import C08.Model C08.Proofs C11.Model C11.Proofs1 C11.Proofs2 C11.Proofs3 C11.Proofs5 C11.Proofs6.
Open Scope Z_scope.

(* ------------------------------------------------------------------ the derived order is total *)
Lemma lex_lt_total a : forall b, length a = length b -> lex_lt a b = false -> lex_lt b a = false -> a = b.
Proof.
  induction a as [|x a IH]; intros [|y b]; cbn [lex_lt length]; try lia; [reflexivity|].
  intros L H1 H2. apply orb_false_iff in H1, H2. destruct H1 as [A1 B1], H2 as [A2 B2].
  apply Z.ltb_ge in A1, A2. assert (x = y) by lia. subst y.
  rewrite Z.eqb_refl in B1, B2. cbn [andb] in B1, B2. f_equal. apply IH; [lia|assumption|assumption].
Qed.

Lemma inl_lt_total a b : inl_lt a b = false -> inl_lt b a = false -> a = b.
Proof.
  unfold inl_lt. intros H1 H2. pose proof (lex_lt_total (inl_key a) (inl_key b) eq_refl H1 H2) as E.
  destruct a, b. unfold inl_key in E. cbn in E. inversion E. reflexivity.
Qed.

Lemma inl_lt_irrefl a : inl_lt a a = false.
Proof. destruct (inl_lt a a) eqn:E; [|reflexivity]. pose proof (inl_lt_asym _ _ E). congruence. Qed.

(* ------------------------------------------------------------------ the declarative candidate *)
Definition key_le (e : inl_rec) (d x : Z) : Prop := i_depth e < d \/ (i_depth e = d /\ i_addr e <= x).

(* [c] is the greatest record of [inls] at or below the key (d, x), if there is one *)
Definition nearest (inls : list inl_rec) (d x : Z) (c : option inl_rec) : Prop :=
  match c with
  | Some c => In c inls /\ key_le c d x /\ forall e, In e inls -> key_le e d x -> inl_lt c e = false
  | None => forall e, In e inls -> ~ key_le e d x
  end.

Lemma nearest_unique inls d x c c' : nearest inls d x c -> nearest inls d x c' -> c = c'.
Proof.
  destruct c as [c|], c' as [c'|]; cbn [nearest].
  - intros (A & B & C) (A' & B' & C'). f_equal. apply inl_lt_total; [apply C|apply C']; assumption.
  - intros (A & B & _) H. exfalso. exact (H c A B).
  - intros H (A & B & _). exfalso. exact (H c' A B).
  - reflexivity.
Qed.

Lemma nearest_ext l l' d x c : (forall e, In e l <-> In e l') -> nearest l d x c -> nearest l' d x c.
Proof.
  intros E. destruct c as [c|]; cbn [nearest].
  - intros (A & B & C). split; [apply E; exact A|]. split; [exact B|]. intros e He. apply C. apply E. exact He.
  - intros H e He. apply H. apply E. exact He.
Qed.

Lemma giad_cmp_key e d x : giad_cmp d x e <> OGreater <-> key_le e d x.
Proof.
  unfold giad_cmp, key_le. split.
  - apply cmp_pair_not_greater.
  - intros H Hg. apply cmp_pair_greater in Hg. lia.
Qed.

Lemma giad_mono inls d x : sorted_by inl_lt inls -> mono (giad_cmp d x) inls.
Proof.
  intros Hs i j a b Hij Hi Hj Hg. specialize (Hs i j a b Hij Hi Hj). apply inl_lt_key2 in Hs.
  destruct (giad_cmp d x b) eqn:Eb; [| |reflexivity]; exfalso.
  - assert (Hn : giad_cmp d x b <> OGreater) by congruence. apply giad_cmp_key in Hn.
    unfold giad_cmp in Hg. apply cmp_pair_greater in Hg. unfold key_le in Hn. lia.
  - assert (Hn : giad_cmp d x b <> OGreater) by congruence. apply giad_cmp_key in Hn.
    unfold giad_cmp in Hg. apply cmp_pair_greater in Hg. unfold key_le in Hn. lia.
Qed.

(* the binary search of get_inlinee_at_depth on a sorted vector inspects exactly that record *)
Lemma bs_cand_nearest inls d x : sorted_by inl_lt inls -> nearest inls d x (bs_cand (giad_cmp d x) inls).
Proof.
  intros Hs. pose proof (bs_cand_last (giad_cmp d x) inls (giad_mono inls d x Hs)) as H.
  destruct (bs_cand (giad_cmp d x) inls) as [c|]; cbn [nearest].
  - destruct H as (i & Hi & Hng & Hlast). split; [eapply nth_error_In; eassumption|].
    split; [apply giad_cmp_key; exact Hng|]. intros e He Hk. apply In_nth_error in He. destruct He as [j Hj].
    destruct (Nat.lt_trichotomy j i) as [Hlt|[->|Hgt]].
    + exact (Hs j i e c Hlt Hj Hi).
    + rewrite Hi in Hj. inversion Hj; subst. apply inl_lt_irrefl.
    + exfalso. apply giad_cmp_key in Hk. apply Hk. exact (Hlast j e Hj Hgt).
  - intros e He Hk. apply giad_cmp_key in Hk. apply Hk. apply H. exact He.
Qed.

Lemma giad_exact inls d x c : sorted_by inl_lt inls -> nearest inls d x c ->
  get_inlinee_at_depth inls d x = Ret (giad_check d x c).
Proof.
  intros Hs Hc. rewrite giad_ret. unfold giad_pure.
  rewrite (nearest_unique inls d x _ _ (bs_cand_nearest inls d x Hs) Hc). reflexivity.
Qed.

(* ------------------------------------------------------------------ on the records of a FUNC block *)
(* finish_item keeps the INLINE ranges of non-zero size *)
Definition kept (fr : func_raw) : list inl_rec := filter (fun e => 0 <? i_size e) (fr_inls fr).

Lemma fin_inls_sorted fr : sorted_by inl_lt (fn_inls (fin_func true fr)).
Proof. cbn [fin_func fn_inls]. apply sort_by_sorted; [exact inl_lt_asym|exact inl_lt_negtrans]. Qed.

Lemma fin_inls_kept fr e : In e (fn_inls (fin_func true fr)) <-> In e (kept fr).
Proof. cbn [fin_func fn_inls keep_inls]. unfold kept. apply sort_by_in. Qed.

Lemma inlinee_lookup_exact fr d x c : nearest (kept fr) d x c ->
  get_inlinee_at_depth (fn_inls (fin_func true fr)) d x = Ret (giad_check d x c).
Proof.
  intros H. apply giad_exact; [apply fin_inls_sorted|].
  eapply nearest_ext; [|exact H]. intros e. symmetry. apply fin_inls_kept.
Qed.

(* such a record always exists (or none is at or below the key): the statement is never vacuous *)
Lemma nearest_exists fr d x : exists c, nearest (kept fr) d x c.
Proof.
  exists (bs_cand (giad_cmp d x) (fn_inls (fin_func true fr))).
  eapply nearest_ext; [apply fin_inls_kept|]. apply bs_cand_nearest. apply fin_inls_sorted.
Qed.

(* ------------------------------------------------------------------ the order of the records is irrelevant *)
Lemma sorted_by_tail {A} (lt : A -> A -> bool) x t :
  sorted_by lt (x :: t) -> sorted_by lt t /\ forall y, In y t -> lt y x = false.
Proof.
  intros H. split.
  - intros i j a b Hij Hi Hj. apply (H (S i) (S j) a b); [lia|exact Hi|exact Hj].
  - intros y Hy. apply In_nth_error in Hy. destruct Hy as [j Hj].
    apply (H 0%nat (S j) x y); [lia|reflexivity|exact Hj].
Qed.

Lemma sorted_perm_eq {A} (lt : A -> A -> bool) :
  (forall a b, lt a b = false -> lt b a = false -> a = b) ->
  forall l1 l2, sorted_by lt l1 -> sorted_by lt l2 -> Permutation l1 l2 -> l1 = l2.
Proof.
  intros Htot. induction l1 as [|x t1 IH]; intros l2 H1 H2 P.
  - apply Permutation_nil in P. subst. reflexivity.
  - destruct l2 as [|y t2]; [apply Permutation_sym, Permutation_nil in P; discriminate|].
    destruct (sorted_by_tail lt x t1 H1) as [S1 L1]. destruct (sorted_by_tail lt y t2 H2) as [S2 L2].
    assert (E : x = y).
    { assert (Hx : In x (y :: t2)) by (eapply Permutation_in; [exact P|left; reflexivity]).
      assert (Hy : In y (x :: t1)) by (eapply Permutation_in; [apply Permutation_sym; exact P|left; reflexivity]).
      destruct Hx as [Hx|Hx]; [congruence|]. destruct Hy as [Hy|Hy]; [congruence|].
      apply Htot; [apply L2; exact Hx|apply L1; exact Hy]. }
    subst y. f_equal. apply IH; [exact S1|exact S2|]. eapply Permutation_cons_inv. exact P.
Qed.

Lemma filter_perm {A} (f : A -> bool) l l' : Permutation l l' -> Permutation (filter f l) (filter f l').
Proof.
  induction 1 as [|x l l' P IH|x y l|l l' l'' P1 IH1 P2 IH2]; cbn [filter].
  - constructor.
  - destruct (f x); [constructor|]; exact IH.
  - destruct (f x), (f y); try reflexivity. apply perm_swap.
  - etransitivity; eassumption.
Qed.

Lemma sort_inls_perm l l' : Permutation l l' ->
  sort_by inl_lt (keep_inls true l) = sort_by inl_lt (keep_inls true l').
Proof.
  intros P. apply (sorted_perm_eq inl_lt inl_lt_total).
  - apply sort_by_sorted; [exact inl_lt_asym|exact inl_lt_negtrans].
  - apply sort_by_sorted; [exact inl_lt_asym|exact inl_lt_negtrans].
  - etransitivity; [apply Permutation_sym, sort_by_perm|]. etransitivity; [|apply sort_by_perm].
    cbn [keep_inls]. apply filter_perm. exact P.
Qed.

(* two FUNC blocks that differ only in the order of their INLINE ranges *)
Definition same_up_to_inline_order (a b : func_raw) : Prop :=
  fr_addr a = fr_addr b /\ fr_size a = fr_size b /\ fr_psize a = fr_psize b /\ fr_name a = fr_name b /\
  fr_lines a = fr_lines b /\ Permutation (fr_inls a) (fr_inls b).

Lemma finish_func_perm a b : same_up_to_inline_order a b -> finish_func a = finish_func b.
Proof.
  intros (A & B & C & D & E & P). unfold finish_func, finish_func_gen.
  rewrite A, B, C, D, E, (sort_inls_perm _ _ P). reflexivity.
Qed.

Lemma finish_funcs_perm l l' : Forall2 same_up_to_inline_order l l' ->
  finish_funcs_gen true l = finish_funcs_gen true l'.
Proof.
  induction 1 as [|a b l l' Hab Hl IH]; cbn [finish_funcs_gen]; [reflexivity|].
  fold (finish_func a). fold (finish_func b). rewrite (finish_func_perm a b Hab), IH. reflexivity.
Qed.

Lemma symbolize_inline_order p rf rf' mbase instr :
  rf_files rf = rf_files rf' -> rf_origins rf = rf_origins rf' -> rf_publics rf = rf_publics rf' ->
  rf_win_fd rf = rf_win_fd rf' -> rf_win_fpo rf = rf_win_fpo rf' ->
  Forall2 same_up_to_inline_order (rf_funcs rf) (rf_funcs rf') ->
  symbolize p rf mbase instr = symbolize p rf' mbase instr.
Proof.
  intros A B C D E F. unfold symbolize, symbolize_gen, build_symtab_gen.
  rewrite A, B, C, D, E, (finish_funcs_perm _ _ F). reflexivity.
Qed.

(* ------------------------------------------------------------------ duplicate (depth, address) keys *)
(* among kept records with the same depth and address as the answer, the answer has the greatest
   (size, call_file, call_line, origin_id) *)
Lemma inlinee_lookup_duplicates fr d x e e' :
  get_inlinee_at_depth (fn_inls (fin_func true fr)) d x = Ret (Some e) ->
  In e' (fr_inls fr) -> 0 < i_size e' -> i_depth e' = i_depth e -> i_addr e' = i_addr e ->
  lex_lt [i_size e; i_cfile e; i_cline e; i_origin e] [i_size e'; i_cfile e'; i_cline e'; i_origin e'] = false.
Proof.
  intros Hg Hin Hsz Hd Ha. destruct (nearest_exists fr d x) as [c Hc].
  rewrite (inlinee_lookup_exact fr d x c Hc) in Hg. inversion Hg as [Hchk]. clear Hg.
  destruct c as [c|]; [|discriminate]. cbn [giad_check] in Hchk.
  assert (c = e).
  { destruct (negb (i_depth c =? d)); [discriminate|]. destruct (checked_add 64 (i_addr c) (i_size c)); [|discriminate].
    destruct (x <? z); [|discriminate]. inversion Hchk. reflexivity. }
  subst c. destruct Hc as (_ & Hk & Hmax).
  assert (Hk' : key_le e' d x) by (unfold key_le in *; lia).
  assert (Hin' : In e' (kept fr)).
  { unfold kept. apply filter_In. split; [exact Hin|]. apply Z.ltb_lt. exact Hsz. }
  specialize (Hmax e' Hin' Hk'). unfold inl_lt, inl_key in Hmax. cbn [lex_lt] in Hmax |- *.
  rewrite Hd, Ha, !Z.ltb_irrefl, !Z.eqb_refl in Hmax. cbn [orb andb] in Hmax. exact Hmax.
Qed.

(* ------------------------------------------------------------------ the whole inline chain, exactly *)
(* element k of the chain fill_symbol walks (k <= its length; k = length is the lookup that ends the loop)
   is the lookup at depth k *)
Lemma inl_chain_nth f x k : (k <= length (inl_chain f x))%nat ->
  nth_error (inl_chain f x) k = giad_pure (fn_inls f) (Z.of_nat k) x.
Proof.
  unfold inl_chain. destruct (giad_pure (fn_inls f) 0 x) as [e0|] eqn:E0.
  - cbn [length]. intros Hk. destruct k as [|k]; [cbn [nth_error]; rewrite <- E0; reflexivity|].
    cbn [nth_error]. set (cf := chain_from (length (fn_inls f)) (fn_inls f) x 1) in *.
    replace (Z.of_nat (S k)) with (1 + Z.of_nat k) by lia.
    destruct (nth_error cf k) as [e|] eqn:En.
    + symmetry. exact (chain_from_spec _ _ _ _ _ _ En).
    + apply nth_error_None in En. assert (k = length cf) by lia. subst k.
      symmetry. apply chain_from_stops. apply (chain_short _ _ _ E0).
  - cbn [length]. intros Hk. assert (k = 0%nat) by lia. subst k. cbn [nth_error]. rewrite <- E0. reflexivity.
Qed.

(* … and that lookup is the declarative one: for the Function finished from ANY FUNC block [fr], at every
   depth k up to and including the one that ends the loop, the chain holds the greatest kept record at or
   below (k, x) when it has depth k and covers x, and ends there otherwise *)
Lemma inl_chain_exact fr x k c :
  (k <= length (inl_chain (fin_func true fr) x))%nat -> nearest (kept fr) (Z.of_nat k) x c ->
  nth_error (inl_chain (fin_func true fr) x) k = giad_check (Z.of_nat k) x c.
Proof.
  intros Hk Hc. rewrite (inl_chain_nth _ _ _ Hk).
  pose proof (inlinee_lookup_exact fr (Z.of_nat k) x c Hc) as E. rewrite giad_ret in E. inversion E. reflexivity.
Qed.

(* the inline frames fill_symbol emits, with the chain given declaratively (no algorithm, no record order) *)
Lemma inline_chain_exact p rf mbase instr :
  wf_file rf -> 0 <= mbase -> instr < two64 ->
  exists st o, build_symtab rf = Ret st /\ symbolize p rf mbase instr = Ret o /\
    (o_inl o <> [] ->
     exists fr chain, In fr (rf_funcs rf) /\ func_covers fr (instr - mbase) = true /\
       (forall k c, (k <= length chain)%nat -> nearest (kept fr) (Z.of_nat k) (instr - mbase) c ->
                    nth_error chain k = giad_check (Z.of_nat k) (instr - mbase) c) /\
       o_inl o = frames_spec st chain (rm_get (fn_lines (fin_func true fr)) (instr - mbase))).
Proof.
  intros Hwf Hmb Hin. destruct (symbolize_cases true p rf mbase instr Hwf Hmb Hin) as (st & o & Hrel & Hb & Hs & Hc).
  exists st, o. split; [exact Hb|]. split; [exact Hs|]. intros Hne.
  destruct Hc as [[Hlt ->]|[(Hge & fr & Hfr & Hcov & Ha & _ & ->)|(Hge & Hg & ->)]].
  - exfalso. apply Hne. reflexivity.
  - destruct (fill_func_spec true rf st mbase (instr - mbase) fr Hwf Hrel Hfr Hmb Ha) as (_ & _ & Hinl).
    exists fr, (inl_chain (fin_func true fr) (instr - mbase)).
    split; [assumption|]. split; [assumption|]. split; [|exact Hinl].
    intros k c Hk Hc. apply inl_chain_exact; assumption.
  - exfalso. apply Hne. apply (proj2 (fill_public_shape st mbase (instr - mbase))).
Qed.

Lemma inlinee_lookup_exact_all fr d x :
  (exists c, nearest (kept fr) d x c) /\
  (forall c c', nearest (kept fr) d x c -> nearest (kept fr) d x c' -> c = c') /\
  forall c, nearest (kept fr) d x c ->
    get_inlinee_at_depth (fn_inls (fin_func true fr)) d x = Ret (giad_check d x c).
Proof. split; [apply nearest_exists|]. split; [apply nearest_unique|apply inlinee_lookup_exact]. Qed.
