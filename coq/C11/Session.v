(* C11/Session.v — the Symbolizer level: module list -> module key -> cached symbol file -> SymbolFile::fill_symbol,
   composed with C12's model of the cache (RM.C12.Model: CachedAsyncResult / cachemap2 slot per module key, supplier
   called by the task that finds the slot empty, pending_stats / stats).  Definitions only (extracted).
   Mirrors breakpad-symbols/src/lib.rs Symbolizer::{get_symbols, fill_symbol, stats, pending_stats} and
   StringSymbolSupplier::locate_symbols (a module the supplier does not know: Err(NotFound); a symbol file that does not
   parse: Err(ParseError); both leave the frame without symbols, but the stats differ). *)
From RM Require Import C11.Model.
From RM Require C12.Model.

Open Scope Z_scope.

(* what the supplier has for a module *)
Inductive sup := SymOk (st : symtab) | SymMissing | SymCorrupt.
Definition smodule := (Z * Z * sup)%type.            (* base, size, supplier's answer *)
Definition sup_table (s : sup) : option symtab := match s with SymOk st => Some st | _ => None end.
Definition to_module (m : smodule) : module := (fst (fst m), snd (fst m), sup_table (snd m)).
Definition sup_outcome (s : sup) : RM.C12.Model.outcome :=
  match s with SymOk _ => RM.C12.Model.OOk | SymMissing => RM.C12.Model.ONotFound | SymCorrupt => RM.C12.Model.OParse end.

(* one Symbolizer, one sequential client (walk_stack / get_symbol_at_address issue their lookups one after the other):
   C12's configuration with a single task; key = position in the module list; the string supplier never suspends *)
Definition session_cfg (mods : list smodule) (keys : list nat) : RM.C12.Model.config :=
  {| RM.C12.Model.tasks := [keys]; RM.C12.Model.susp := fun _ => 0%nat;
     RM.C12.Model.outc := fun k => match nth_error mods k with Some m => sup_outcome (snd m) | None => RM.C12.Model.ONotFound end;
     RM.C12.Model.leaf := fun k => k |}.
Definition session_sched (keys : list nat) : list nat := repeat 0%nat (length keys).
Definition session_end (mods : list smodule) (keys : list nat) : RM.C12.Model.state :=
  RM.C12.Model.run (session_cfg mods keys) (session_sched keys).

(* the lookups a sequence of frames issues: the module the table finds for each instruction *)
Fixpoint session_keys (tbl : list (range * Z)) (qs : list Z) : list nat :=
  match qs with
  | [] => []
  | q :: t => match rm_get tbl q with
              | Some idx => Z.to_nat idx :: session_keys tbl t
              | None => session_keys tbl t
              end
  end.

(* Symbolizer::fill_symbol given what the cache returned for the module: Ok(sym) => sym.fill_symbol(module, frame),
   Err(_) => FillSymbolError, frame untouched; then fill_source_line_info's reversal *)
Definition fill_cached (p : profile) (m : smodule) (o : RM.C12.Model.outcome) (instr : Z) : outcome sym_out :=
  match o, snd m with
  | RM.C12.Model.OOk, SymOk st => do r <- fill_symbol p st (fst (fst m)) instr;
                        Ret (mk_out (o_func r) (o_src r) (frame_inlines r))
  | _, _ => Ret empty_out
  end.

(* observables of the Symbolizer after the session: pending_stats and, per module of the list, its stats entry *)
Definition session_stats (mods : list smodule) (keys : list nat) : nat * nat * list (option (bool * bool)) :=
  let s := session_end mods keys in
  (RM.C12.Model.requested s, RM.C12.Model.processed s,
   map (fun k => match RM.C12.Model.stats (RM.C12.Model.sh s) k with
                 | Some o => Some (RM.C12.Model.stat_loaded o, RM.C12.Model.stat_corrupt o)
                 | None => None
                 end) (seq 0 (length mods))).
