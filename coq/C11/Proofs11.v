(* C11/Proofs11.v — the Symbolizer session (C11/Session.v): C12's cache theorems instantiated at the sequential
   client, composed with C11's module lookup and fill_symbol. *)
From Coq Require Import Lia.
From RM Require Import C08.Model C11.Model C11.Session.
From RM Require C12.Model C12.Proofs C12.Progress.
Open Scope Z_scope.

Lemma concat_repeat_single {A} (a : A) n : concat (repeat [a] n) = repeat a n.
Proof. induction n as [|n IH]; [reflexivity|]. cbn. rewrite IH. reflexivity. Qed.

Lemma cost_nosusp c l : (forall k, RM.C12.Model.susp c k = 0%nat) -> RM.C12.Model.cost c l = length l.
Proof. intros H. induction l as [|k t IH]; [reflexivity|]. cbn [RM.C12.Model.cost length]. rewrite H, IH. reflexivity. Qed.

Lemma session_work mods keys : RM.C12.Model.work (session_cfg mods keys) = length keys.
Proof.
  unfold RM.C12.Model.work, RM.C12.Model.ntasks. cbn [RM.C12.Model.tasks session_cfg length RM.C12.Model.sum_upto nth].
  rewrite cost_nosusp by reflexivity. reflexivity.
Qed.

(* polling the one task [length keys] times finishes the session (one poll already does; C12's bound is used as is) *)
Lemma session_finishes mods keys :
  RM.C12.Model.all_done (session_cfg mods keys) (session_end mods keys) = true.
Proof.
  unfold session_end, session_sched. rewrite <- (concat_repeat_single 0%nat).
  apply RM.C12.Progress.finish_in_rounds.
  - apply Forall_forall. intros r Hr. apply repeat_spec in Hr. subst r.
    intros t Ht. unfold RM.C12.Model.ntasks in Ht. cbn in Ht. left. lia.
  - rewrite session_work, repeat_length. lia.
Qed.

Lemma session_distinct mods keys :
  RM.C12.Model.distinct_keys (session_cfg mods keys) = length (nodup Nat.eq_dec keys).
Proof. unfold RM.C12.Model.distinct_keys. cbn [RM.C12.Model.tasks session_cfg concat]. rewrite app_nil_r. reflexivity. Qed.

(* C12 at the session: in ANY schedule that finishes (session_sched does) the client got one result per lookup, in
   order, each the supplier's single answer for that module; requested = processed = distinct modules; every module
   asked for was fetched exactly once *)
Lemma session_cache mods keys sched :
  let c := session_cfg mods keys in
  RM.C12.Model.all_done c (RM.C12.Model.run c sched) = true ->
  map fst (RM.C12.Model.results (RM.C12.Model.sh (RM.C12.Model.run c sched)) 0%nat) = keys /\
  (forall i k o, RM.C12.Model.task_result (RM.C12.Model.run c sched) 0%nat i = Some (k, o) ->
     nth_error keys i = Some k /\ o = RM.C12.Model.outc c k) /\
  RM.C12.Model.requested (RM.C12.Model.run c sched) = length (nodup Nat.eq_dec keys) /\
  RM.C12.Model.processed (RM.C12.Model.run c sched) = length (nodup Nat.eq_dec keys) /\
  (forall k, In k keys -> RM.C12.Model.supplier_calls (RM.C12.Model.run c sched) k = 1%nat).
Proof.
  intros c Hd. split; [exact (RM.C12.Proofs.results_complete c sched 0%nat Hd)|]. split.
  - intros i k o H. destruct (RM.C12.Proofs.same_outcome c sched 0%nat i k o H) as [Ho Hk]. split; [exact Hk|exact Ho].
  - destruct (RM.C12.Proofs.counters_quiescent c sched Hd) as [Hr Hp].
    unfold c in Hr, Hp. rewrite session_distinct in Hr, Hp. split; [exact Hr|]. split; [exact Hp|].
    intros k Hk. apply RM.C12.Proofs.exactly_once_quiescent; [exact Hd|]. cbn. rewrite app_nil_r. exact Hk.
Qed.

(* composition with C11: whatever the schedule, the frame that Symbolizer::fill_symbol fills from the cache's answer to
   the lookup of the module found for [q] is the frame of C11's module-level model (frame_of: the table of C08, the
   module's own base, SymbolFile::fill_symbol of its symbol file or nothing, inlines reversed) *)
Lemma session_frame p mods tbl keys q idx m sched i o :
  rm_get tbl q = Some idx -> nth_error mods (Z.to_nat idx) = Some m ->
  RM.C12.Model.task_result (RM.C12.Model.run (session_cfg mods keys) sched) 0%nat i = Some (Z.to_nat idx, o) ->
  frame_of p tbl (map to_module mods) q = do r <- fill_cached p m o q; Ret (Some (idx, r)).
Proof.
  intros Hq Hm Hr. destruct (RM.C12.Proofs.same_outcome _ sched 0%nat i _ o Hr) as [Ho _].
  cbn [RM.C12.Model.outc session_cfg] in Ho. rewrite Hm in Ho. subst o.
  unfold frame_of. rewrite Hq, nth_error_map, Hm. cbn [option_map to_module].
  destruct m as [[b sz] s]. cbn [fst snd]. unfold fill_cached. cbn [fst snd].
  destruct s as [st| |]; cbn [sup_table sup_outcome]; try reflexivity.
  destruct (fill_symbol p st b q); reflexivity.
Qed.

(* a lookup of the session that has finished is one of the frames' lookups, in order (C12: position i of the task) *)
Lemma session_result_key mods keys sched i k o :
  RM.C12.Model.task_result (RM.C12.Model.run (session_cfg mods keys) sched) 0%nat i = Some (k, o) -> nth_error keys i = Some k.
Proof. intros H. exact (proj2 (RM.C12.Proofs.same_outcome _ sched 0%nat i k o H)). Qed.

Lemma session_theorem (mods : list smodule) (keys : list nat) :
  let c := session_cfg mods keys in
  RM.C12.Model.all_done c (session_end mods keys) = true /\
  forall sched, RM.C12.Model.all_done c (RM.C12.Model.run c sched) = true ->
    map fst (RM.C12.Model.results (RM.C12.Model.sh (RM.C12.Model.run c sched)) 0%nat) = keys /\
    (forall i k o, RM.C12.Model.task_result (RM.C12.Model.run c sched) 0%nat i = Some (k, o) ->
       nth_error keys i = Some k /\ o = RM.C12.Model.outc c k) /\
    RM.C12.Model.requested (RM.C12.Model.run c sched) = length (nodup Nat.eq_dec keys) /\
    RM.C12.Model.processed (RM.C12.Model.run c sched) = length (nodup Nat.eq_dec keys) /\
    (forall k, In k keys -> RM.C12.Model.supplier_calls (RM.C12.Model.run c sched) k = 1%nat).
Proof. intros c. split; [exact (session_finishes mods keys)|exact (session_cache mods keys)]. Qed.
