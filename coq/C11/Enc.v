(* C11/Enc.v — round 5: encodings [nm] / [tg] satisfying [enc_names_ok] exist for every parser state the
   recogniser can reach, so c11_from_bytes needs no hypothesis besides the length of the text.
   - String order: [rle_compare] on run-length-encoded strings with positive counts IS the lexicographic
     order of the decoded byte strings ([rle_cmp_decode]), hence a strict total order; on normal forms
     (adjacent runs of different bytes) decoding is injective.  Every name the parser stores is a normal
     form (it comes out of [rle_norm]).  [nm] = rank of the name among the names of the text.
   - [tg] = position of the record's payload (every STACK WIN field but address / size / parameter size)
     among the payloads of the text's STACK WIN records. *)
From Coq Require Import Lia ZArith List Bool.
From RM Require C09.Model.
From RM Require Import Base.Word C08.Model C08.Proofs C09.Grammar C09.Driver C09.Proofs C09.ProofsBytes
                       C09.ProofsFinish C09.ProofsFinal.
From RM Require Import C11.Model C11.Proofs1 C11.Proofs2 C11.Text C11.Text2 C11.Text3.
Import ListNotations.
Open Scope Z_scope.

(* ------------------------------------------------------------------ decoded strings, lexicographic order *)
Definition decode (s : rle) : list Z :=
  flat_map (fun r : Z * Z => repeat (fst r) (Z.to_nat (Z.max 1 (snd r)))) s.

Fixpoint lcmp (a b : list Z) : comparison :=
  match a, b with
  | [], [] => Eq
  | [], _ :: _ => Lt
  | _ :: _, [] => Gt
  | x :: a', y :: b' => if x <? y then Lt else if y <? x then Gt else lcmp a' b'
  end.

Lemma lcmp_eq a : forall b, lcmp a b = Eq -> a = b.
Proof.
  induction a as [|x a IH]; intros [|y b]; cbn [lcmp]; try discriminate; [reflexivity|].
  destruct (x <? y) eqn:E1; [discriminate|]. destruct (y <? x) eqn:E2; [discriminate|].
  intros H. apply Z.ltb_ge in E1, E2. f_equal; [lia|apply IH; exact H].
Qed.
Lemma lcmp_refl a : lcmp a a = Eq.
Proof. induction a as [|x a IH]; cbn [lcmp]; [reflexivity|]. rewrite Z.ltb_irrefl. exact IH. Qed.
Lemma lcmp_antisym a : forall b, lcmp b a = CompOpp (lcmp a b).
Proof.
  induction a as [|x a IH]; intros [|y b]; cbn [lcmp CompOpp]; try reflexivity.
  destruct (x <? y) eqn:E1, (y <? x) eqn:E2; cbn [CompOpp]; try reflexivity; [|apply IH].
  apply Z.ltb_lt in E1, E2. lia.
Qed.
Lemma lcmp_trans_lt a : forall b c, lcmp a b = Lt -> lcmp b c = Lt -> lcmp a c = Lt.
Proof.
  induction a as [|x a IH]; intros [|y b] [|z c]; cbn [lcmp]; try discriminate; try reflexivity.
  destruct (x <? y) eqn:E1; [|destruct (y <? x) eqn:E2; [discriminate|]];
    (destruct (y <? z) eqn:E3; [|destruct (z <? y) eqn:E4; [discriminate|]]); intros H1 H2;
    rewrite ?Z.ltb_lt, ?Z.ltb_ge in *.
  - rewrite (proj2 (Z.ltb_lt x z)) by lia. reflexivity.
  - rewrite (proj2 (Z.ltb_lt x z)) by lia. reflexivity.
  - rewrite (proj2 (Z.ltb_lt x z)) by lia. reflexivity.
  - assert (x = y) by lia. assert (y = z) by lia. subst. rewrite Z.ltb_irrefl. eapply IH; eassumption.
Qed.

Lemma lcmp_repeat (x : Z) n A B : lcmp (repeat x n ++ A) (repeat x n ++ B) = lcmp A B.
Proof. induction n as [|n IH]; cbn [repeat app lcmp]; [reflexivity|]. rewrite Z.ltb_irrefl. exact IH. Qed.

Definition pos (s : rle) : Prop := Forall (fun r : Z * Z => 1 <= snd r) s.

Lemma decode_cons x c t : 1 <= c -> decode ((x, c) :: t) = repeat x (Z.to_nat c) ++ decode t.
Proof. intros H. unfold decode. cbn [flat_map fst snd]. rewrite Z.max_r by lia. reflexivity. Qed.

Lemma repeat_split (x : Z) c d : 1 <= c -> c < d ->
  repeat x (Z.to_nat d) = repeat x (Z.to_nat c) ++ repeat x (Z.to_nat (d - c)).
Proof.
  intros H1 H2. rewrite <- repeat_app. f_equal. lia.
Qed.

Lemma repeat_hd (x : Z) c : 1 <= c -> repeat x (Z.to_nat c) = x :: repeat x (Z.to_nat (c - 1)).
Proof. intros H. replace (Z.to_nat c) with (S (Z.to_nat (c - 1))) by lia. reflexivity. Qed.

(* rle_cmp computes the lexicographic order of the decoded strings *)
Lemma rle_cmp_decode : forall fuel a b, pos a -> pos b -> (length a + length b < fuel)%nat ->
  rle_cmp fuel a b = lcmp (decode a) (decode b).
Proof.
  induction fuel as [|f IH]; intros a b Ha Hb Hf; [lia|]. cbn [rle_cmp].
  destruct a as [|[x c] a'], b as [|[y d] b'].
  - reflexivity.
  - inversion Hb as [|? ? Hd Hb']; subst. cbn [snd] in Hd. rewrite decode_cons, repeat_hd by lia. reflexivity.
  - inversion Ha as [|? ? Hc Ha']; subst. cbn [snd] in Hc. rewrite decode_cons, repeat_hd by lia. reflexivity.
  - inversion Ha as [|? ? Hc Ha']; inversion Hb as [|? ? Hd Hb']; subst. cbn [snd] in Hc, Hd. cbn [length] in Hf.
    destruct (x <? y) eqn:E1.
    { rewrite !decode_cons by lia. rewrite (repeat_hd x c), (repeat_hd y d) by lia. cbn [app lcmp]. rewrite E1. reflexivity. }
    destruct (y <? x) eqn:E2.
    { rewrite !decode_cons by lia. rewrite (repeat_hd x c), (repeat_hd y d) by lia. cbn [app lcmp]. rewrite E1, E2. reflexivity. }
    apply Z.ltb_ge in E1, E2. assert (x = y) by lia. subst y.
    destruct (c =? d) eqn:E3.
    { apply Z.eqb_eq in E3. subst d. rewrite !decode_cons by lia. rewrite lcmp_repeat.
      apply IH; [assumption|assumption|lia]. }
    apply Z.eqb_neq in E3. destruct (c <? d) eqn:E4.
    + apply Z.ltb_lt in E4. rewrite IH; [|assumption|constructor; [cbn [snd]; lia|assumption]|cbn [length]; lia].
      rewrite (decode_cons x c), (decode_cons x d), (decode_cons x (d - c)) by lia.
      rewrite (repeat_split x c d) by lia. rewrite <- app_assoc, lcmp_repeat. reflexivity.
    + apply Z.ltb_ge in E4. rewrite IH; [|constructor; [cbn [snd]; lia|assumption]|assumption|cbn [length]; lia].
      rewrite (decode_cons x c), (decode_cons x d), (decode_cons x (c - d)) by lia.
      rewrite (repeat_split x d c) by lia. rewrite <- app_assoc, lcmp_repeat. reflexivity.
Qed.

Lemma rle_compare_decode a b : pos a -> pos b -> rle_compare a b = lcmp (decode a) (decode b).
Proof. intros Ha Hb. unfold rle_compare. apply rle_cmp_decode; [assumption|assumption|lia]. Qed.

(* ------------------------------------------------------------------ normal forms *)
Fixpoint normal (s : rle) : Prop :=
  match s with
  | [] => True
  | (b, c) :: t => 1 <= c /\ match t with (b', _) :: _ => b <> b' | [] => True end /\ normal t
  end.

Lemma normal_pos s : normal s -> pos s.
Proof.
  induction s as [|[b c] t IH]; intros H; [constructor|]. destruct H as (H1 & _ & H3).
  constructor; [exact H1|apply IH; exact H3].
Qed.

Lemma repeat_app_inj (x : Z) : forall n m (A B : list Z),
  hd_error A <> Some x -> hd_error B <> Some x -> repeat x n ++ A = repeat x m ++ B -> n = m /\ A = B.
Proof.
  induction n as [|n IH]; intros [|m] A B HA HB; cbn [repeat app].
  - auto.
  - intros ->. exfalso. apply HA. reflexivity.
  - intros <-. exfalso. apply HB. reflexivity.
  - intros H. inversion H as [H']. destruct (IH m A B HA HB H') as [-> ->]. auto.
Qed.

Lemma decode_hd b c t : normal ((b, c) :: t) -> hd_error (decode t) <> Some b.
Proof.
  intros (_ & H2 & H3). destruct t as [|[b' c'] t']; [cbn; discriminate|].
  destruct H3 as (H4 & _). rewrite decode_cons, repeat_hd by lia. cbn [app hd_error]. congruence.
Qed.

Lemma decode_inj a : forall b, normal a -> normal b -> decode a = decode b -> a = b.
Proof.
  induction a as [|[x c] a' IH]; intros [|[y d] b'] Ha Hb; try reflexivity.
  - destruct Hb as (Hd & _). rewrite decode_cons, repeat_hd by lia. discriminate.
  - destruct Ha as (Hc & _). rewrite decode_cons, repeat_hd by lia. discriminate.
  - pose proof Ha as (Hc & _ & Ha'). pose proof Hb as (Hd & _ & Hb').
    rewrite !decode_cons by lia. intros H.
    assert (x = y). { rewrite (repeat_hd x c), (repeat_hd y d) in H by lia. inversion H. reflexivity. }
    subst y. apply repeat_app_inj in H; [|eapply decode_hd; exact Ha|eapply decode_hd; exact Hb].
    destruct H as [Hn Ht]. f_equal; [f_equal; lia|apply IH; assumption].
Qed.

(* rle_norm produces normal forms *)
Lemma rev_append_normal : forall acc tl, normal acc -> normal tl ->
  match acc, tl with (b, _) :: _, (b', _) :: _ => b <> b' | _, _ => True end ->
  normal (rev_append acc tl).
Proof.
  induction acc as [|[b c] acc IH]; intros tl Ha Ht Hj; cbn [rev_append]; [exact Ht|].
  destruct Ha as (Hc & Hadj & Ha'). apply IH; [exact Ha'| |].
  - cbn [normal]. split; [exact Hc|]. split; [|exact Ht]. destruct tl as [|[b' c'] tl']; [exact I|exact Hj].
  - destruct acc as [|[b0 c0] acc0]; [exact I|]. intros E. apply Hadj. symmetry. exact E.
Qed.

Lemma rle_norm_acc_normal : forall s acc, normal acc -> normal (rle_norm_acc s acc).
Proof.
  induction s as [|[b c] t IH]; intros acc Ha; cbn [rle_norm_acc].
  - apply rev_append_normal; [exact Ha|exact I|destruct acc as [|[? ?] ?]; exact I].
  - destruct acc as [|[b0 c0] acc'].
    + apply IH. cbn [normal]. split; [lia|]. split; exact I.
    + destruct (b0 =? b) eqn:E.
      * apply IH. destruct Ha as (H1 & H2 & H3). cbn [normal]. split; [lia|]. split; assumption.
      * apply IH. apply Z.eqb_neq in E. cbn [normal]. split; [lia|]. split; [congruence|exact Ha].
Qed.

Lemma rle_norm_normal s : normal (rle_norm s).
Proof. unfold rle_norm. apply rle_norm_acc_normal. exact I. Qed.

Lemma name_eol_normal s n : name_eol s = Some n -> normal n.
Proof.
  unfold name_eol. destruct (span_not is_cr s) as [name r]. destruct (utf8_ok name && eol r); [|discriminate].
  intros H; inversion H; subst. apply rle_norm_normal.
Qed.

(* ------------------------------------------------------------------ every stored name is a normal form *)
Definition pst_nn (p : pst) : Prop :=
  match p_cur p with CFunc f => normal (Grammar.fr_name f) | _ => True end /\
  Forall (fun f => normal (Grammar.fr_name f)) (p_funcs p) /\ Forall (fun pb => normal (pb_name pb)) (p_publics p).

Definition item_nn (it : item) : Prop :=
  match it with
  | IFunc f => normal (Grammar.fr_name f)
  | IPublic pb => normal (pb_name pb)
  | _ => True
  end.

Ltac brk :=
  repeat match goal with
         | H : context [match ?e with _ => _ end] |- _ => destruct e eqn:?; try discriminate
         end.
Ltac crack :=
  brk;
  repeat match goal with
         | H : POk _ = POk _ |- _ => inversion H; clear H
         | H : Some _ = Some _ |- _ => inversion H; clear H
         end;
  subst.

Lemma p_func_nn s it : p_func s = POk it -> item_nn it.
Proof. unfold p_func, cutp. cbv zeta. intros H. crack. cbn. eapply name_eol_normal; eassumption. Qed.
Lemma p_public_nn s it : p_public s = POk it -> item_nn it.
Proof. unfold p_public, cutp. cbv zeta. intros H. crack. cbn. eapply name_eol_normal; eassumption. Qed.
Lemma p_win_nn s it : p_stack_win s = POk it -> item_nn it.
Proof. unfold p_stack_win, cutp. intros H. crack. exact I. Qed.
Lemma p_cfi_nn s it : p_stack_cfi_init s = POk it -> item_nn it.
Proof. unfold p_stack_cfi_init, cutp. intros H. crack. exact I. Qed.
Lemma p_module_nn s it : p_module s = POk it -> item_nn it.
Proof. unfold p_module, cutp. intros H. crack. exact I. Qed.
Lemma p_file_nn s it : p_file s = POk it -> item_nn it.
Proof. unfold p_file, cutp. intros H. crack. exact I. Qed.
Lemma p_origin_nn s it : p_inline_origin s = POk it -> item_nn it.
Proof. unfold p_inline_origin, cutp. intros H. crack. exact I. Qed.
Lemma p_info_nn s it : p_info s = POk it -> item_nn it.
Proof. unfold p_info, cutp, guard. intros H. crack. exact I. Qed.
Lemma p_info_url_nn s it : p_info_url s = POk it -> item_nn it.
Proof. unfold p_info_url, cutp. intros H. crack. exact I. Qed.

Lemma line_top_nn s it : line_top s = Some it -> item_nn it.
Proof.
  unfold line_top, alt. intros H.
  destruct (p_info_url s) eqn:E1; try discriminate; [|inversion H; subst; eapply p_info_url_nn; eauto].
  destruct (p_info s) eqn:E2; try discriminate; [|inversion H; subst; eapply p_info_nn; eauto].
  destruct (p_file s) eqn:E3; try discriminate; [|inversion H; subst; eapply p_file_nn; eauto].
  destruct (p_inline_origin s) eqn:E4; try discriminate; [|inversion H; subst; eapply p_origin_nn; eauto].
  destruct (p_public s) eqn:E5; try discriminate; [|inversion H; subst; eapply p_public_nn; eauto].
  destruct (p_func s) eqn:E6; try discriminate; [|inversion H; subst; eapply p_func_nn; eauto].
  destruct (p_stack_win s) eqn:E7; try discriminate; [|inversion H; subst; eapply p_win_nn; eauto].
  destruct (p_stack_cfi_init s) eqn:E8; try discriminate; [|inversion H; subst; eapply p_cfi_nn; eauto].
  destruct (p_module s) eqn:E9; try discriminate. inversion H; subst; eapply p_module_nn; eauto.
Qed.

Lemma close_cur_nn p : pst_nn p -> pst_nn (close_cur p) /\ p_cur (close_cur p) = CNone.
Proof.
  unfold pst_nn, close_cur. intros (Hc & Hf & Hp).
  destruct (p_cur p) eqn:E; cbn; rewrite ?E; repeat split; auto.
Qed.

Lemma top_nn p s p' : pst_nn p -> top p s = inl p' -> pst_nn p'.
Proof.
  unfold pst_nn, top. intros (Hc & Hf & Hp) H.
  destruct (eol s).
  { inversion H; subst; cbn; auto. }
  destruct (line_top s) as [it|] eqn:E; [|discriminate].
  apply line_top_nn in E.
  destruct it as [id f|u| |id nm|id nm|pb|f|w|c]; cbn in E.
  - destruct (p_lines p =? 0); [|discriminate]. inversion H; subst; cbn; auto.
  - inversion H; subst; cbn; auto.
  - inversion H; subst; cbn; auto.
  - inversion H; subst; cbn; auto.
  - inversion H; subst; cbn; auto.
  - inversion H; subst; cbn; auto.
  - inversion H; subst; cbn; auto.
  - destruct w as [i|i|]; inversion H; subst; cbn; auto.
  - inversion H; subst; cbn; auto.
Qed.

Lemma recog_pst_nn p s p' : pst_nn p -> recog_pst p s = inl p' -> pst_nn p'.
Proof.
  intros Hwf H. unfold recog_pst in H.
  destruct (p_cur p) as [|f|c] eqn:Ec.
  - eapply top_nn; eauto.
  - destruct Hwf as (Hc & Hf & Hp). pose proof Hc as Hc0. rewrite Ec in Hc0.
    destruct (sub_func s) as [[id nm|l|l]|] eqn:Es.
    + inversion H; subst. unfold pst_nn; cbn; auto.
    + inversion H; subst. unfold pst_nn; cbn; auto.
    + inversion H; subst. unfold pst_nn; cbn; auto.
    + eapply top_nn; [|eassumption]. apply close_cur_nn. unfold pst_nn. auto.
  - destruct Hwf as (Hc & Hf & Hp). destruct (sub_cfi s) as [r|].
    + inversion H; subst. unfold pst_nn; cbn; auto.
    + eapply top_nn; [|eassumption]. apply close_cur_nn. unfold pst_nn. auto.
Qed.

Lemma bump_pst_nn p : pst_nn p -> pst_nn (bump_pst p).
Proof. unfold pst_nn, bump_pst, set_lines_cur; cbn; auto. Qed.
Lemma init_pst_nn : pst_nn init_pst.
Proof. unfold pst_nn, init_pst; cbn; auto. Qed.

Lemma replay_nn : forall (ds : list (bool * rle)) p p',
  pst_nn p -> RM.C09.Model.replay rle pst recog_pst bump_pst lineno_pst p ds = inl p' -> pst_nn p'.
Proof.
  induction ds as [|[b l] t IH]; intros p p' Hwf H.
  - cbn in H. inversion H; subst. exact Hwf.
  - cbn [RM.C09.Model.replay] in H. destruct b.
    + eapply IH; [|exact H]. apply bump_pst_nn. exact Hwf.
    + destruct (recog_pst p l) as [p1|c] eqn:E; [|discriminate].
      eapply IH; [|exact H]. eapply recog_pst_nn; eauto.
Qed.

(* ------------------------------------------------------------------ nm: the rank of a name *)
Section Rank.
Variable S : list rle.
Definition ltb (a b : rle) : bool := match lcmp (decode a) (decode b) with Lt => true | _ => false end.
Definition nm_rank (s : rle) : Z := Z.of_nat (length (filter (fun n => ltb n s) S)).

Lemma filter_length_le {A} (f g : A -> bool) l :
  (forall x, In x l -> f x = true -> g x = true) -> (length (filter f l) <= length (filter g l))%nat.
Proof.
  induction l as [|x t IH]; intros H; cbn [filter]; [lia|].
  assert (IH' := IH (fun y Hy => H y (or_intror Hy))).
  destruct (f x) eqn:Ef.
  - rewrite (H x (or_introl eq_refl) Ef). cbn [length]. lia.
  - destruct (g x); cbn [length]; lia.
Qed.
Lemma filter_length_lt {A} (f g : A -> bool) l a :
  (forall x, In x l -> f x = true -> g x = true) -> In a l -> f a = false -> g a = true ->
  (length (filter f l) < length (filter g l))%nat.
Proof.
  induction l as [|x t IH]; intros H Ha Hfa Hga; [destruct Ha|]. cbn [filter].
  destruct Ha as [->|Ha].
  - rewrite Hfa, Hga. cbn [length]. pose proof (filter_length_le f g t (fun y Hy => H y (or_intror Hy))). lia.
  - specialize (IH (fun y Hy => H y (or_intror Hy)) Ha Hfa Hga).
    destruct (f x) eqn:Ef.
    + rewrite (H x (or_introl eq_refl) Ef). cbn [length]. lia.
    + destruct (g x); cbn [length]; lia.
Qed.

Lemma nm_rank_lt a b : In a S -> lcmp (decode a) (decode b) = Lt -> nm_rank a < nm_rank b.
Proof.
  intros Ha Hlt. unfold nm_rank. apply inj_lt. apply (filter_length_lt _ _ S a).
  - intros x _ Hx. unfold ltb in *. destruct (lcmp (decode x) (decode a)) eqn:E; try discriminate.
    rewrite (lcmp_trans_lt _ _ _ E Hlt). reflexivity.
  - exact Ha.
  - unfold ltb. rewrite lcmp_refl. reflexivity.
  - unfold ltb. rewrite Hlt. reflexivity.
Qed.

Lemma nm_rank_eq a b : decode a = decode b -> nm_rank a = nm_rank b.
Proof. intros E. unfold nm_rank, ltb. rewrite E. reflexivity. Qed.

(* on normal forms of S: order-preserving and injective *)
Lemma nm_rank_compare a b : In a S -> In b S -> normal a -> normal b ->
  rle_compare a b = (nm_rank a ?= nm_rank b).
Proof.
  intros Ha Hb Na Nb. rewrite (rle_compare_decode a b (normal_pos a Na) (normal_pos b Nb)).
  destruct (lcmp (decode a) (decode b)) eqn:E.
  - apply lcmp_eq in E. rewrite (nm_rank_eq a b E). symmetry. apply Z.compare_refl.
  - symmetry. apply Z.compare_lt_iff. apply nm_rank_lt; assumption.
  - symmetry. apply Z.compare_gt_iff. apply nm_rank_lt; [assumption|].
    rewrite lcmp_antisym, E. reflexivity.
Qed.

Lemma nm_rank_inj a b : In a S -> In b S -> normal a -> normal b -> nm_rank a = nm_rank b -> a = b.
Proof.
  intros Ha Hb Na Nb E. apply decode_inj; [assumption|assumption|].
  destruct (lcmp (decode a) (decode b)) eqn:Ec.
  - apply lcmp_eq. exact Ec.
  - pose proof (nm_rank_lt a b Ha Ec). lia.
  - assert (Ec' : lcmp (decode b) (decode a) = Lt) by (rewrite lcmp_antisym, Ec; reflexivity).
    pose proof (nm_rank_lt b a Hb Ec'). lia.
Qed.
End Rank.

(* ------------------------------------------------------------------ tg: the position of the payload *)
Definition payload (w : win_info) : Z * Z * Z * Z * Z * win_thing :=
  (wi_prolog w, wi_epilog w, wi_saved w, wi_locals w, wi_maxstack w, wi_thing w).
Definition payload_eqb (a b : win_info) : bool :=
  (wi_prolog a =? wi_prolog b) && (wi_epilog a =? wi_epilog b) && (wi_saved a =? wi_saved b) &&
  (wi_locals a =? wi_locals b) && (wi_maxstack a =? wi_maxstack b) && thing_eqb (wi_thing a) (wi_thing b).

Lemma thing_eqb_eq a b : thing_eqb a b = true <-> a = b.
Proof.
  destruct a as [x|x], b as [y|y]; cbn [thing_eqb]; try (split; congruence).
  - rewrite rle_eqb_eq. split; congruence.
  - rewrite Bool.eqb_true_iff. split; congruence.
Qed.

Lemma payload_eqb_eq a b : payload_eqb a b = true <-> payload a = payload b.
Proof.
  unfold payload_eqb, payload. rewrite !andb_true_iff, !Z.eqb_eq, thing_eqb_eq.
  split; [intros [[[[[-> ->] ->] ->] ->] ->]; reflexivity|intros E; inversion E; tauto].
Qed.

Fixpoint idx (w : win_info) (l : list win_info) : Z :=
  match l with [] => 0 | x :: t => if payload_eqb x w then 0 else 1 + idx w t end.

Lemma idx_nonneg w l : 0 <= idx w l.
Proof. induction l as [|x t IH]; cbn [idx]; [lia|]. destruct (payload_eqb x w); lia. Qed.

Lemma idx_payload a b l : payload a = payload b -> idx a l = idx b l.
Proof.
  intros E. induction l as [|x t IH]; cbn [idx]; [reflexivity|].
  assert (payload_eqb x a = payload_eqb x b).
  { destruct (payload_eqb x a) eqn:Ea, (payload_eqb x b) eqn:Eb; try reflexivity.
    - apply payload_eqb_eq in Ea. rewrite E in Ea. apply payload_eqb_eq in Ea. congruence.
    - apply payload_eqb_eq in Eb. rewrite <- E in Eb. apply payload_eqb_eq in Eb. congruence. }
  rewrite H, IH. reflexivity.
Qed.

Lemma idx_inj a b l : (exists x, In x l /\ payload x = payload a) -> idx a l = idx b l -> payload a = payload b.
Proof.
  induction l as [|x t IH]; intros (x0 & Hin & Hx0); [destruct Hin|]. cbn [idx].
  destruct (payload_eqb x a) eqn:Ea, (payload_eqb x b) eqn:Eb.
  - intros _. apply payload_eqb_eq in Ea, Eb. congruence.
  - pose proof (idx_nonneg b t). lia.
  - pose proof (idx_nonneg a t). lia.
  - intros H. apply IH; [|lia]. destruct Hin as [->|Hin].
    + exfalso. apply payload_eqb_eq in Hx0. congruence.
    + exists x0. auto.
Qed.

Section Tg.
Variable L : list win_info.
Definition tg_idx (w : win_info) : Z := idx w L.

Lemma tg_idx_size w sz : tg_idx (wi_set_size w sz) = tg_idx w.
Proof. apply idx_payload. reflexivity. Qed.

Lemma tg_idx_agree ws a b : incl ws L -> in_scope ws a -> in_scope ws b ->
  win_eqb (Gw tg_idx a) (Gw tg_idx b) = wi_eqb a b.
Proof.
  intros Hincl (wa & Hwa & Ea) (wb & Hwb & Eb).
  assert (Pa : payload a = payload wa) by (destruct Ea as [->|[sz ->]]; reflexivity).
  assert (E : (tg_idx a =? tg_idx b) = payload_eqb a b).
  { destruct (payload_eqb a b) eqn:Ep.
    - apply payload_eqb_eq in Ep. apply Z.eqb_eq. apply idx_payload. exact Ep.
    - apply Z.eqb_neq. intros Hi. apply idx_inj in Hi.
      + apply payload_eqb_eq in Hi. congruence.
      + exists wa. split; [apply Hincl; exact Hwa|symmetry; exact Pa]. }
  unfold win_eqb, wi_eqb, Gw. cbn [w_addr w_size w_psize w_tag]. rewrite E. unfold payload_eqb.
  destruct (wi_addr a =? wi_addr b), (wi_size a =? wi_size b), (wi_prolog a =? wi_prolog b),
    (wi_epilog a =? wi_epilog b), (wi_params a =? wi_params b), (wi_saved a =? wi_saved b),
    (wi_locals a =? wi_locals b), (wi_maxstack a =? wi_maxstack b), (thing_eqb (wi_thing a) (wi_thing b)); reflexivity.
Qed.
End Tg.

(* ------------------------------------------------------------------ the encodings of a parser state *)
Definition names_of (q : pst) : list rle :=
  map Grammar.fr_name (funcs_of_pst q) ++ map pb_name (p_publics (close_cur q)).
Definition wins_of (q : pst) : list win_info := rev (p_win_fd (close_cur q)) ++ rev (p_win_fpo (close_cur q)).
Definition nm_of (q : pst) : rle -> Z := nm_rank (names_of q).
Definition tg_of (q : pst) : win_info -> Z := tg_idx (wins_of q).

Lemma encodings_ok q : pst_nn q -> enc_names_ok (nm_of q) (tg_of q) q.
Proof.
  intros Hnn. destruct (close_cur_nn q Hnn) as [(_ & Hf & Hp) _].
  assert (Nf : forall a, In a (map Grammar.fr_name (funcs_of_pst q)) -> normal a).
  { intros a Ha. apply in_map_iff in Ha. destruct Ha as (f & <- & Hin). unfold funcs_of_pst in Hin.
    apply in_rev in Hin. rewrite Forall_forall in Hf. exact (Hf f Hin). }
  assert (Np : forall pb, In pb (p_publics (close_cur q)) -> normal (pb_name pb)).
  { rewrite Forall_forall in Hp. exact Hp. }
  constructor.
  - intros a b Ha Hb E. unfold nm_of in E.
    apply (nm_rank_inj (names_of q)); try assumption; try (apply Nf; assumption);
      unfold names_of; apply in_or_app; left; assumption.
  - intros a b Ha Hb. unfold nm_of. apply nm_rank_compare; try (apply Np; assumption);
      unfold names_of; apply in_or_app; right; apply in_map; assumption.
  - intros w sz. apply tg_idx_size.
  - intros a b Ha Hb. unfold tg_of. apply (tg_idx_agree _ (rev (p_win_fd (close_cur q)))); try assumption.
    unfold wins_of. intros x Hx. apply in_or_app. left. exact Hx.
  - intros a b Ha Hb. unfold tg_of. apply (tg_idx_agree _ (rev (p_win_fpo (close_cur q)))); try assumption.
    unfold wins_of. intros x Hx. apply in_or_app. right. exact Hx.
Qed.

(* ------------------------------------------------------------------ closed statements *)
Lemma final_pst_nn lines tail sch q s :
  drive_c lines tail sch = Ret (RM.C09.Model.ROk q, s) -> pst_nn q.
Proof.
  intros H. unfold drive_c in H.
  destruct (drive_shape rle cllen pst init_pst recog_pst bump_pst lineno_pst cllen_pos lines tail sch
              (RM.C09.Model.ROk q) s H) as [ds [_ [_ [Hr [Hp _]]]]]. subst q.
  exact (replay_nn ds init_pst _ init_pst_nn Hr).
Qed.

(* every byte string shorter than 2^32-1 bytes that parses: no hypothesis besides the length *)
Lemma from_bytes_closed (bytes : list Z) (sch : list Z) q s :
  drive_c (map to_rle (fst (split_bytes bytes []))) (Z.of_nat (length (snd (split_bytes bytes [])))) sch
    = Ret (RM.C09.Model.ROk q, s) ->
  Z.of_nat (length bytes) < two32 - 1 ->
  let nm := nm_of q in let tg := tg_of q in
  enc_names_ok nm tg q /\
  exists t, finish q = Ret t /\
    wf_file (raw_of_pst nm tg q) /\ st_rel true (raw_of_pst nm tg q) (symtab_of_table nm tg t) /\
    forall p mbase instr, 0 <= mbase -> instr < two64 ->
      fill_symbol p (symtab_of_table nm tg t) mbase instr = symbolize p (raw_of_pst nm tg q) mbase instr.
Proof.
  intros H Hlen nm tg. pose proof (encodings_ok q (final_pst_nn _ _ _ q s H)) as He.
  split; [exact He|]. exact (from_bytes nm tg bytes sch q s H Hlen He).
Qed.

Lemma replay_encodings (ds : list (bool * rle)) q :
  RM.C09.Model.replay rle pst recog_pst bump_pst lineno_pst init_pst ds = inl q ->
  enc_names_ok (nm_of q) (tg_of q) q.
Proof. intros H. apply encodings_ok. exact (replay_nn ds init_pst q init_pst_nn H). Qed.
