(* C11/Prims.v — the vocabulary translate/c11_compile.py compiles the Rust bodies of the lookup functions into
   (Gen/C11Src.v).  Definitions only.  Each is the Gallina reading of one Rust / std construct:
     v[i]                          vec_index          (a panic site: index out of bounds)
     a - b on usize                usize_sub          (debug: trap; release: wraps to >= 2^64 - b, which is out of bounds for
                                                       every vector that fits in memory, so the index that follows panics —
                                                       the compiler uses it for index arithmetic only; both profiles: Panic)
     usize::checked_sub            usize_checked_sub
     Range::new(a, b)              range_new          (range-map 0.2.0: panics when a > b)
     Result<usize,usize>::err      bres_err           (the Result of slice::binary_search_by_key is Model.bres)
     Option::and_then              opt_and_then
     Iterator::map / Option::map   vec_mapM / opt_mapM when the closure can trap (map / option_map when it cannot)
     cur.lines = .. / cur.inlinees = ..   func_set_lines / func_set_inlinees;   last_info.size = ..   win_set_size
     v.last_mut()                  vec_last_split (the borrowed element is stored back wherever the borrow ends)
     Option::unwrap                opt_unwrap;   x as u32 (from u64)   wrap32;   Range::intersects   C08 intersects
     FrameSymbolizer callbacks     fr_set_function / fr_set_source_file / fr_add_inline_frame on Model.sym_out:
                                   the last set_function / set_source_file call and the add_inline_frame calls in call
                                   order — exactly what the harness's recording FrameSymbolizer prints. *)
From RM Require Export Base.Word C08.Model C11.Model.
Open Scope Z_scope.

Definition PANIC_SUB : Z := 1105.      (* `a - b` on u64 below zero (debug) *)
Definition PANIC_USIZE : Z := 1106.    (* `index - n` on usize below zero *)
Definition PANIC_RANGE : Z := 1107.    (* range_map::Range::new(start, end) with start > end: "Ranges must be ordered" *)

Definition vec_index {A} (l : list A) (i : nat) : outcome A :=
  match nth_error l i with Some e => Ret e | None => Panic PANIC_INDEX end.
Definition usize_sub (a b : nat) : outcome nat :=
  if Nat.ltb a b then Panic PANIC_USIZE else Ret (a - b)%nat.
Definition usize_checked_sub (a b : nat) : option nat :=
  if Nat.ltb a b then None else Some (a - b)%nat.
Definition range_new (a b : Z) : outcome range := if b <? a then Panic PANIC_RANGE else Ret (a, b).
Definition bres_err (r : bres) : option nat := match r with BOk _ => None | BErr i => Some i end.
Definition opt_and_then {A B} (f : A -> option B) (o : option A) : option B :=
  match o with Some a => f a | None => None end.

(* Iterator::map with a closure that can trap, Option::map likewise: left to right, the first panic ends it *)
Fixpoint vec_mapM {A B} (f : A -> outcome B) (l : list A) : outcome (list B) :=
  match l with
  | [] => Ret []
  | a :: t => do b <- f a; do r <- vec_mapM f t; Ret (b :: r)
  end.
Definition opt_mapM {A B} (f : A -> outcome B) (o : option A) : outcome (option B) :=
  match o with Some a => do b <- f a; Ret (Some b) | None => Ret None end.
(* `cur.lines = ...` / `cur.inlinees = ...` on a `mut cur: Function` *)
Definition func_set_lines (f : func) (l : list (range * line_rec)) : func :=
  mk_func (fn_addr f) (fn_size f) (fn_psize f) (fn_name f) l (fn_inls f).
Definition func_set_inlinees (f : func) (l : list inl_rec) : func :=
  mk_func (fn_addr f) (fn_size f) (fn_psize f) (fn_name f) (fn_lines f) l.

(* `if let Some((a, b)) = v.last_mut()`: the vector without its last element, and that element *)
Definition vec_last_split {A} (v : list A) : option (list A * A) :=
  match rev v with [] => None | x :: t => Some (rev t, x) end.
(* Option::unwrap (the only one in the compiled functions is last_info.memory_range().unwrap()) *)
Definition opt_unwrap {A} (o : option A) : outcome A := match o with Some a => Ret a | None => Panic PANIC_WIN_UNWRAP end.
(* `last_info.size = ...` *)
Definition win_set_size (w : win_rec) (sz : Z) : win_rec := mk_win (w_addr w) sz (w_psize w) (w_tag w).

Definition fr_set_function (o : sym_out) (name base psize : Z) : sym_out :=
  mk_out (Some (name, base, psize)) (o_src o) (o_inl o).
Definition fr_set_source_file (o : sym_out) (file line base : Z) : sym_out :=
  mk_out (o_func o) (Some (file, line, base)) (o_inl o).
Definition fr_add_inline_frame (o : sym_out) (name : Z) (file line : option Z) : sym_out :=
  mk_out (o_func o) (o_src o) (o_inl o ++ [(name, file, line)]).

(* the fuel the correspondence driver runs the compiled depth loop with: the largest number of INLINE ranges of a
   FUNC of the table (SrcTie.src_fuel_covers: it covers every FUNC; c11_compiled_fill_symbol: that suffices) *)
Definition src_fuel (st : symtab) : nat :=
  fold_right (fun rf n => Nat.max (length (fn_inls (snd rf))) n) 0%nat (st_funcs st).

(* ---- the Symbolizer level (Symbolizer::fill_symbol, fill_source_line_info).  A StackFrame as far as symbolication goes:
   its instruction, the module attached (position in the module list) and what the FrameSymbolizer callbacks stored
   (impl FrameSymbolizer for StackFrame: set_function / set_source_file overwrite, add_inline_frame pushes). *)
Record sframe := mk_sframe { sf_instr : Z; sf_module : option Z; sf_out : sym_out }.
(* MinidumpModuleList: the range table of C08 (Model.mod_table) and the modules; a module of the list with its position *)
Definition modlist := (list (range * Z) * list module)%type.
Definition module_at (ml : modlist) (x : Z) : outcome (option (Z * module)) :=
  match rm_get (fst ml) x with
  | None => Ret None
  | Some idx => match nth_error (snd ml) (Z.to_nat idx) with
                | Some m => Ret (Some (idx, m))
                | None => Panic PANIC_MODIDX
                end
  end.
Definition mod_base (m : Z * module) : Z := fst (fst (snd m)).
(* what `self.get_symbols(module).await` yields: the module's parsed symbol file, or an error (None) — how the cache gets it
   there, once, under any interleaving, is C12's model (C11/Session.v composes the two) *)
Definition get_symbols (m : Z * module) : option symtab := snd (snd m).
Definition sf_set_module (fr : sframe) (o : option (Z * module)) : sframe :=
  mk_sframe (sf_instr fr) (option_map fst o) (sf_out fr).
(* SymbolFile::fill_symbol(module, frame) on a StackFrame: the callbacks it made, applied to the frame *)
Definition sf_apply (fr : sframe) (o : sym_out) : sframe :=
  mk_sframe (sf_instr fr) (sf_module fr)
    (mk_out (match o_func o with Some f => Some f | None => o_func (sf_out fr) end)
            (match o_src o with Some f => Some f | None => o_src (sf_out fr) end)
            (o_inl (sf_out fr) ++ o_inl o)).
Definition sf_reverse_inlines (fr : sframe) : sframe :=
  mk_sframe (sf_instr fr) (sf_module fr) (mk_out (o_func (sf_out fr)) (o_src (sf_out fr)) (rev (o_inl (sf_out fr)))).
