(* C11/SrcTie.v — the functions translate/c11_compile.py COMPILES from the Rust source on every run (Gen/C11Src.v:
   src_get_inlinee_at_depth, src_get_outermost_sourceloc, src_get_innermost_sourceloc, src_find_nearest_public,
   src_fill_symbol with its generated loop) are the hand-written model of C11/Model.v, for all arguments. *)
From Coq Require Import Lia.
From RM Require Import C08.Model C11.Model C11.Prims Gen.C11Src.
Open Scope Z_scope.

(* ---- memory_range: the `- 1` cannot trap and Range::new's assertion cannot fire, for the parser's integer types *)
Lemma src_memory_range_gen p base size :
  0 <= base -> 0 <= size ->
  (if size =? 0 then Ret None
   else match checked_add 64 base size with
        | Some x2 => do x3 <- chk_sub p 64 PANIC_SUB x2 1; do x4 <- range_new base x3; Ret (Some x4)
        | None => Ret None
        end) = Ret (mk_range base size).
Proof.
  intros Hb Hs. unfold mk_range. destruct (size =? 0) eqn:E0; [reflexivity|]. apply Z.eqb_neq in E0.
  unfold checked_add. cbv zeta. destruct (base + size <? 2 ^ 64) eqn:E1; [|reflexivity]. apply Z.ltb_lt in E1.
  unfold chk_sub, chk. replace ((0 <=? base + size - 1) && (base + size - 1 <? 2 ^ 64)) with true
    by (symmetry; apply andb_true_iff; split; [apply Z.leb_le|apply Z.ltb_lt]; lia).
  cbn [obind]. unfold range_new. replace (base + size - 1 <? base) with false by (symmetry; apply Z.ltb_ge; lia).
  reflexivity.
Qed.
Lemma src_func_memory_range_eq p f :
  0 <= fn_addr f -> 0 <= fn_size f -> src_func_memory_range p f = Ret (mk_range (fn_addr f) (fn_size f)).
Proof. intros Ha Hs. unfold src_func_memory_range. exact (src_memory_range_gen p _ _ Ha Hs). Qed.
Lemma src_win_memory_range_eq p w :
  0 <= w_addr w -> 0 <= w_size w -> src_win_memory_range p w = Ret (win_range w).
Proof. intros Ha Hs. unfold src_win_memory_range, win_range. exact (src_memory_range_gen p _ _ Ha Hs). Qed.

Definition giad_tuple (e : inl_rec) : Z * Z * Z * Z := (i_cfile e, i_cline e, i_addr e, i_origin e).

Lemma src_get_inlinee_at_depth_eq p f depth addr :
  src_get_inlinee_at_depth p f depth addr =
  do r <- get_inlinee_at_depth (fn_inls f) depth addr; Ret (option_map giad_tuple r).
Proof.
  unfold src_get_inlinee_at_depth, get_inlinee_at_depth, giad_candidate. cbn [fst snd].
  destruct (bsearch_by _ (fn_inls f)) as [i|[|i]]; cbn [obind]; try reflexivity.
  - unfold vec_index. destruct (nth_error (fn_inls f) i) as [e|]; cbn [obind]; [|reflexivity].
    unfold giad_check. destruct (negb (i_depth e =? depth)); [reflexivity|].
    destruct (checked_add 64 (i_addr e) (i_size e)); [|reflexivity].
    destruct (addr <? z); reflexivity.
  - unfold usize_sub. cbn [Nat.ltb Nat.leb obind]. rewrite Nat.sub_succ, Nat.sub_0_r.
    unfold vec_index. destruct (nth_error (fn_inls f) i) as [e|]; cbn [obind]; [|reflexivity].
    unfold giad_check. destruct (negb (i_depth e =? depth)); [reflexivity|].
    destruct (checked_add 64 (i_addr e) (i_size e)); [|reflexivity].
    destruct (addr <? z); reflexivity.
Qed.

Definition outer_tuple (x : Z * Z * Z * option inl_rec) : Z * Z * Z * option Z :=
  let '(fid, line, a, org) := x in (fid, line, a, option_map i_origin org).

Lemma src_get_outermost_sourceloc_eq p f addr :
  src_get_outermost_sourceloc p f addr =
  do r <- get_outermost_sourceloc f addr; Ret (option_map outer_tuple r).
Proof.
  unfold src_get_outermost_sourceloc, get_outermost_sourceloc. rewrite src_get_inlinee_at_depth_eq.
  destruct (get_inlinee_at_depth (fn_inls f) 0 addr) as [[e|]| | |]; cbn [obind option_map]; try reflexivity.
  destruct (rm_get (fn_lines f) addr); reflexivity.
Qed.

Lemma src_get_innermost_sourceloc_eq p f addr :
  src_get_innermost_sourceloc p f addr =
  Ret (option_map (fun l => (l_file l, l_line l, l_addr l)) (rm_get (fn_lines f) addr)).
Proof. unfold src_get_innermost_sourceloc. destruct (rm_get (fn_lines f) addr); reflexivity. Qed.

Lemma src_find_nearest_public_eq p st addr :
  src_find_nearest_public p st addr = Ret (find_nearest_public (st_publics st) addr).
Proof. reflexivity. Qed.

(* ---- the depth loop: the compiled loop emits a frame per step, the model collects the chain and emits afterwards *)
Fixpoint emit_calls (st : symtab) (org : Z) (chain : list inl_rec) : list iframe :=
  match chain with
  | [] => []
  | e :: t =>
      (match assoc_last org (st_origins st) with
       | Some nm => [(nm, assoc_last (i_cfile e) (st_files st), Some (i_cline e))]
       | None => []
       end) ++ emit_calls st (i_origin e) t
  end.
Fixpoint last_org (org : Z) (chain : list inl_rec) : Z :=
  match chain with [] => org | e :: t => last_org (i_origin e) t end.

Lemma emit_frames_split st chain : forall org inner,
  emit_frames st org chain inner = emit_calls st org chain ++ emit_frames st (last_org org chain) [] inner.
Proof.
  induction chain as [|e t IH]; intros org inner; [reflexivity|].
  cbn [emit_frames emit_calls last_org]. rewrite IH, app_assoc. reflexivity.
Qed.

Definition add_frames (o : sym_out) (l : list iframe) : sym_out := mk_out (o_func o) (o_src o) (o_inl o ++ l).

Lemma src_fill_symbol_loop_eq p st addr f fuel : forall depth frame org,
  src_fill_symbol_loop p fuel st addr f depth frame org =
  do chain <- inline_loop p fuel (fn_inls f) addr depth;
  Ret (add_frames frame (emit_calls st org chain), last_org org chain).
Proof.
  induction fuel as [|fuel IH]; intros depth frame org; [reflexivity|].
  cbn [src_fill_symbol_loop inline_loop]. rewrite src_get_inlinee_at_depth_eq.
  destruct (get_inlinee_at_depth (fn_inls f) depth addr) as [[e|]| | |]; cbn [obind option_map]; try reflexivity.
  - unfold giad_tuple.
    destruct (assoc_last org (st_origins st)) as [nm|] eqn:Eo;
      (destruct (chk_add p 32 PANIC_DEPTH depth 1) as [d'| | |]; cbn [obind]; try reflexivity;
       rewrite IH; destruct (inline_loop p fuel (fn_inls f) addr d') as [chain| | |]; cbn [obind]; try reflexivity;
       cbn [emit_calls last_org]; rewrite Eo; unfold add_frames, fr_add_inline_frame; cbn [o_func o_src o_inl app];
       rewrite <- ?app_assoc; reflexivity).
  - unfold add_frames. cbn [emit_calls last_org]. rewrite app_nil_r. destruct frame; reflexivity.
Qed.

Lemma inline_loop_mono p n : forall m inls addr depth,
  inline_loop p n inls addr depth <> OutOfFuel -> (n <= m)%nat ->
  inline_loop p m inls addr depth = inline_loop p n inls addr depth.
Proof.
  induction n as [|n IH]; intros m inls addr depth H Hle; [exfalso; apply H; reflexivity|].
  destruct m as [|m]; [lia|]. cbn [inline_loop] in *.
  destruct (get_inlinee_at_depth inls depth addr) as [[e|]| | |]; cbn [obind] in *; try reflexivity.
  destruct (chk_add p 32 PANIC_DEPTH depth 1) as [d'| | |]; cbn [obind] in *; try reflexivity.
  rewrite (IH m inls addr d'); [reflexivity| |lia].
  intros E. apply H. rewrite E. reflexivity.
Qed.

Lemma bs_loop_ext {A} (f g : A -> ordering) (Hfg : forall e, f e = g e) l fuel : forall base size,
  bs_loop f fuel l base size = bs_loop g fuel l base size.
Proof.
  induction fuel as [|fuel IH]; intros; [reflexivity|]. cbn [bs_loop].
  destruct (Nat.leb size 1); [reflexivity|].
  destruct (nth_error l (base + Nat.div2 size)); [rewrite Hfg|]; apply IH.
Qed.
Lemma bsearch_by_ext {A} (f g : A -> ordering) (Hfg : forall e, f e = g e) l : bsearch_by f l = bsearch_by g l.
Proof.
  unfold bsearch_by. destruct l as [|a l]; [reflexivity|].
  rewrite (bs_loop_ext f g Hfg). destruct (nth_error _ _); [rewrite Hfg|]; reflexivity.
Qed.

Lemma src_prev_func_eq funcs addr :
  opt_and_then (fun i : nat => nth_error funcs i)
    (opt_and_then (fun i : nat => usize_checked_sub i 1%nat)
       (bres_err (bsearch_by (fun e => cmp_z ((fun '((r, _) : range * func) => fst r) e) addr) funcs))) =
  prev_func funcs addr.
Proof.
  unfold prev_func.
  rewrite (bsearch_by_ext _ (fun e : range * func => cmp_z (fst (fst e)) addr)) by (intros [r v]; reflexivity).
  destruct (bsearch_by _ funcs) as [i|[|i]]; cbn; try reflexivity.
  rewrite Nat.sub_0_r. reflexivity.
Qed.

Lemma chk_sub_ok p a b : 0 <= b -> b <= a -> a < two64 -> chk_sub p 64 PANIC_SUB a b = Ret (a - b).
Proof.
  intros Hb Hle Ha. unfold chk_sub, chk. change (2 ^ 64) with two64.
  destruct ((0 <=? a - b) && (a - b <? two64)) eqn:E; [reflexivity|].
  apply andb_false_iff in E. lia.
Qed.

(* the whole function.  [fuel] only has to cover the depth loop of the function found (the model runs it with
   fuel = its number of INLINE ranges, which c11_total shows to suffice); results and panics alike *)
Lemma src_fill_symbol_eq p fuel st mbase instr :
  0 <= mbase -> instr < two64 ->
  (forall f, rm_get (st_funcs st) (instr - mbase) = Some f -> (length (fn_inls f) <= fuel)%nat) ->
  fill_symbol p st mbase instr <> OutOfFuel ->
  src_fill_symbol p fuel st mbase instr = fill_symbol p st mbase instr.
Proof.
  intros Hmb Hin Hfuel. unfold src_fill_symbol, fill_symbol.
  destruct (instr <? mbase) eqn:Eg; [reflexivity|].
  apply Z.ltb_ge in Eg. rewrite chk_sub_ok by lia. cbn [obind]. cbv zeta.
  destruct (rm_get (st_funcs st) (instr - mbase)) as [f|] eqn:Ef.
  - specialize (Hfuel f eq_refl).
    destruct (chk_add p 64 PANIC_ADD (fn_addr f) mbase) as [fb| | |]; cbn [obind]; try reflexivity.
    rewrite src_get_outermost_sourceloc_eq.
    destruct (get_outermost_sourceloc f (instr - mbase)) as [[[[[fid line] a0] org]|]| | |]; cbn [obind option_map outer_tuple]; try reflexivity.
    assert (LOOP : forall fr e0,
      (do chain <- inline_loop p (length (fn_inls f)) (fn_inls f) (instr - mbase) 1;
       Ret (mk_out (o_func fr) (o_src fr) (emit_frames st (i_origin e0) chain (rm_get (fn_lines f) (instr - mbase))))) <> OutOfFuel ->
      o_inl fr = [] ->
      (do x10 <- src_fill_symbol_loop p fuel st (instr - mbase) f 1 fr (i_origin e0);
       let '(v_frame, v_inline_origin) := x10 in
       do x11 <- src_get_innermost_sourceloc p f (instr - mbase);
       let '(v_file_2, v_line_3) :=
         match x11 with
         | Some (v_file_id_2, v_line_2, _) =>
             (assoc_last v_file_id_2 (st_files st), if negb (v_line_2 =? 0) then Some v_line_2 else None)
         | None => (None, None)
         end in
       match assoc_last v_inline_origin (st_origins st) with
       | Some v_name_2 => let v_frame0 := fr_add_inline_frame v_frame v_name_2 v_file_2 v_line_3 in Ret v_frame0
       | None => Ret v_frame
       end) =
      (do chain <- inline_loop p (length (fn_inls f)) (fn_inls f) (instr - mbase) 1;
       Ret (mk_out (o_func fr) (o_src fr) (emit_frames st (i_origin e0) chain (rm_get (fn_lines f) (instr - mbase)))))).
    { intros fr e0 H Hnil. rewrite src_fill_symbol_loop_eq.
      rewrite (inline_loop_mono p _ fuel) by (try exact Hfuel; intros E; apply H; rewrite E; reflexivity).
      destruct (inline_loop p (length (fn_inls f)) (fn_inls f) (instr - mbase) 1) as [chain| | |]; cbn [obind]; try reflexivity.
      rewrite src_get_innermost_sourceloc_eq. cbn [obind].
      rewrite emit_frames_split. unfold add_frames. rewrite Hnil. cbn [app].
      destruct (rm_get (fn_lines f) (instr - mbase)) as [l|]; cbn [option_map emit_frames];
        destruct (assoc_last (last_org (i_origin e0) chain) (st_origins st)); cbn;
        rewrite ?app_nil_r; try reflexivity.
      destruct (l_line l =? 0); reflexivity. }
    unfold param_size.
    destruct (assoc_last fid (st_files st)) as [fname|].
    + destruct (chk_add p 64 PANIC_ADD a0 mbase) as [sb| | |]; cbn [obind]; try reflexivity.
      destruct org as [e0|]; cbn [option_map]; [|reflexivity].
      intros H. apply (LOOP (fr_set_source_file (fr_set_function empty_out (fn_name f) fb _) fname line sb) e0 H). reflexivity.
    + cbn [obind]. destruct org as [e0|]; cbn [option_map]; [|reflexivity].
      intros H. apply (LOOP (fr_set_function empty_out (fn_name f) fb _) e0 H). reflexivity.
  - rewrite src_find_nearest_public_eq. cbn [obind].
    destruct (find_nearest_public (st_publics st) (instr - mbase)) as [pb|]; [|reflexivity].
    rewrite src_prev_func_eq.
    destruct (prev_func (st_funcs st) (instr - mbase)) as [[r f]|]; cbn [snd].
    + destruct (p_addr pb <=? fn_addr f); [reflexivity|].
      destruct (chk_add p 64 PANIC_ADD (p_addr pb) mbase); reflexivity.
    + destruct (chk_add p 64 PANIC_ADD (p_addr pb) mbase); reflexivity.
Qed.

(* ---- on parsed files: the compiled fill_symbol IS symbolication, and it returns *)
From RM Require Import C08.Proofs C11.Proofs2 C11.Proofs5.

(* ---- parser.rs: the Line::Function arm of finish_item = finish_func, for the parser's integer types: after the
   `size > 0` filter the closure's `l.size as u64 - 1` cannot trap and its Range::new cannot fail *)
Lemma vec_mapM_ret {A B} (f : A -> outcome B) (g : A -> B) l :
  (forall a, In a l -> f a = Ret (g a)) -> vec_mapM f l = Ret (map g l).
Proof.
  induction l as [|a t IH]; intros H; [reflexivity|]. cbn [vec_mapM map].
  rewrite (H a (or_introl eq_refl)). cbn [obind]. rewrite IH by (intros b Hb; apply H; right; exact Hb). reflexivity.
Qed.

Lemma src_finish_function_eq p acc cur lines inls :
  u64 (fn_addr cur) -> u32 (fn_size cur) -> Forall wf_line lines ->
  src_finish_function p acc cur lines inls =
  do r <- finish_func (mk_fraw (fn_addr cur) (fn_size cur) (fn_psize cur) (fn_name cur) lines inls);
  Ret (acc ++ match r with Some e => [e] | None => [] end).
Proof.
  intros Ha Hs Hl. unfold src_finish_function, finish_func, finish_func_gen. cbn [fr_lines fr_inls fr_addr fr_size fr_psize fr_name].
  rewrite (vec_mapM_ret _ (fun l => (mk_range_line (l_addr l) (l_size l), l))).
  2:{ intros l Hin. apply filter_In in Hin. destruct Hin as [Hin Hgt]. apply Z.gtb_lt in Hgt.
      rewrite Forall_forall in Hl. destruct (Hl l Hin) as [[Ha0 Ha1] [Hs0 Hs1]].
      unfold chk_sub, chk. replace ((0 <=? l_size l - 1) && (l_size l - 1 <? 2 ^ 64)) with true.
      2:{ symmetry. apply andb_true_iff. unfold two32 in Hs1. split; [apply Z.leb_le|apply Z.ltb_lt]; lia. }
      cbn [obind]. unfold mk_range_line. destruct (checked_add 64 (l_addr l) (l_size l - 1)) as [e|] eqn:E; cbn [opt_mapM obind]; [|reflexivity].
      unfold checked_add in E. cbv zeta in E. destruct (l_addr l + (l_size l - 1) <? 2 ^ 64); [|discriminate]. inversion E; subst e.
      unfold range_new. replace (l_addr l + (l_size l - 1) <? l_addr l) with false by (symmetry; apply Z.ltb_ge; lia).
      reflexivity. }
  cbn [obind]. unfold line_entries.
  rewrite (filter_ext (fun v_l : line_rec => l_size v_l >? 0) (fun l => 0 <? l_size l)) by (intros; apply Z.gtb_ltb).
  destruct (build line_eqb _) as [tbl| | |]; cbn [obind]; try reflexivity.
  unfold u64 in Ha. unfold u32 in Hs.
  rewrite src_func_memory_range_eq by (cbn; lia). cbn [obind fn_addr fn_size func_set_inlinees func_set_lines].
  unfold keep_inls.
  rewrite (filter_ext (fun v_i : inl_rec => i_size v_i >? 0) (fun e => 0 <? i_size e)) by (intros; apply Z.gtb_ltb).
  destruct (mk_range (fn_addr cur) (fn_size cur)); cbn [obind]; rewrite ?app_nil_r; reflexivity.
Qed.

Definition fuel_covers (st : symtab) (fuel : nat) : Prop :=
  forall r f, In (r, f) (st_funcs st) -> (length (fn_inls f) <= fuel)%nat.

(* the fuel the correspondence driver runs the compiled loop with (Prims.src_fuel) *)
Lemma src_fuel_covers st : fuel_covers st (src_fuel st).
Proof.
  unfold fuel_covers, src_fuel. induction (st_funcs st) as [|[r0 f0] t IH]; intros r f Hin; [destruct Hin|].
  cbn [fold_right snd]. destruct Hin as [E|Hin]; [inversion E; subst; lia|]. specialize (IH r f Hin). lia.
Qed.

Lemma src_symbolize p fuel rf st mbase instr :
  wf_file rf -> 0 <= mbase -> instr < two64 ->
  build_symtab rf = Ret st -> fuel_covers st fuel ->
  src_fill_symbol p fuel st mbase instr = symbolize p rf mbase instr /\
  exists o, src_fill_symbol p fuel st mbase instr = Ret o.
Proof.
  intros Hwf Hmb Hin Hst Hfuel. destruct (total p rf mbase instr Hwf Hmb Hin) as [o Ho].
  assert (Hfs : fill_symbol p st mbase instr = Ret o).
  { unfold symbolize, symbolize_gen in Ho. fold build_symtab in Ho. rewrite Hst in Ho. exact Ho. }
  assert (E : src_fill_symbol p fuel st mbase instr = fill_symbol p st mbase instr).
  { apply src_fill_symbol_eq; try assumption.
    - intros f Hf. destruct (rm_get_in _ _ _ Hf) as (r & Hr & _). exact (Hfuel r f Hr).
    - rewrite Hfs. discriminate. }
  split; [|exists o; rewrite E; exact Hfs].
  rewrite E, Hfs. symmetry. exact Ho.
Qed.

(* everything the compiler produced, in one statement *)
(* ---- parser.rs insert_win_stack_info = win_insert (the model keeps the vector reversed: head = last_mut()) *)
Lemma src_insert_win_stack_info_eq p v w :
  u64 (w_addr w) -> 0 <= w_size w -> Forall (fun e : range * win_rec => 0 <= w_addr (snd e)) v ->
  src_insert_win_stack_info p v w = do acc <- win_insert (rev v) w; Ret (rev acc).
Proof.
  intros [Ha0 Ha1] Hs Hv. unfold src_insert_win_stack_info, win_insert, vec_last_split.
  rewrite src_win_memory_range_eq by assumption. cbn [obind].
  destruct (win_range w) as [mr|]; [|cbn [obind]; rewrite rev_involutive; reflexivity].
  destruct (rev v) as [|[lr lw] t] eqn:Erev.
  - cbn [obind rev app]. rewrite <- (rev_involutive v), Erev. reflexivity.
  - assert (Hlw : 0 <= w_addr lw).
    { rewrite Forall_forall in Hv. apply (Hv (lr, lw)). apply in_rev. rewrite Erev. left. reflexivity. }
    assert (Ev : v = rev t ++ [(lr, lw)]) by (rewrite <- (rev_involutive v), Erev; reflexivity).
    destruct (intersects lr mr).
    + destruct (w_addr w >? w_addr lw) eqn:Eg.
      * apply Z.gtb_lt in Eg. rewrite chk_sub_ok by lia. cbn [obind].
        rewrite src_win_memory_range_eq; [|cbn; lia|cbn; apply Z.mod_pos_bound; reflexivity].
        cbn [obind]. unfold win_set_size.
        destruct (win_range (mk_win (w_addr lw) (wrap32 (w_addr w - w_addr lw)) (w_psize lw) (w_tag lw))) as [lr'|];
          cbn [opt_unwrap obind rev]; reflexivity.
      * destruct (negb (range_eqb lr mr)); cbn [obind rev]; reflexivity.
    + cbn [obind rev]. rewrite <- Ev. reflexivity.
Qed.

(* ---- the Symbolizer level: fill_source_line_info (with Symbolizer::fill_symbol inside) on a fresh frame = frame_of *)
Lemma src_fill_source_line_info_eq p fuel tbl mods instr :
  instr < two64 ->
  (forall idx b sz st, rm_get tbl instr = Some idx -> nth_error mods (Z.to_nat idx) = Some (b, sz, Some st) ->
     0 <= b /\ fuel_covers st fuel /\ fill_symbol p st b instr <> OutOfFuel) ->
  src_fill_source_line_info p fuel (mk_sframe instr None empty_out) (tbl, mods) =
  do r <- frame_of p tbl mods instr;
  Ret (match r with
       | None => mk_sframe instr None empty_out
       | Some (idx, o) => mk_sframe instr (Some idx) o
       end).
Proof.
  intros Hin H. unfold src_fill_source_line_info, frame_of, module_at. cbn [fst snd sf_instr]. unfold module in *.
  destruct (rm_get tbl instr) as [idx|] eqn:Eq; cbn [obind]; [|reflexivity].
  destruct (nth_error mods (Z.to_nat idx)) as [[[b sz] [st|]]|] eqn:En; cbn [obind]; try reflexivity.
  destruct (H idx b sz st eq_refl En) as (Hb & Hf & Hnf).
  rewrite ?En. cbn [obind].
  cbv beta iota zeta delta [src_symbolizer_fill_symbol get_symbols mod_base sf_set_module fst snd sf_instr option_map].
  rewrite src_fill_symbol_eq; try assumption.
  2:{ intros f Hf0. destruct (rm_get_in _ _ _ Hf0) as (r & Hr & _). exact (Hf r f Hr). }
  destruct (fill_symbol p st b instr) as [o| | |]; cbn [obind]; try reflexivity.
  unfold sf_reverse_inlines, sf_apply, frame_inlines. cbn [sf_instr sf_module sf_out o_func o_src o_inl empty_out app snd].
  destruct o as [[f|] [sc|] inl]; reflexivity.
Qed.

(* with every module's table parsed from a well-formed file and a fuel that covers them: the compiled
   fill_source_line_info returns, and the frame is the pure result of c11_module_frame_total *)
From RM Require Import C11.Proofs7.
Lemma src_frame_total p fuel (mods : list module) instr :
  Forall wf_module mods -> Forall module_parsed mods -> instr < two64 ->
  (forall b sz st, In (b, sz, Some st) mods -> fuel_covers st fuel) ->
  exists tbl, mod_table mods = Ret tbl /\
    src_fill_source_line_info p fuel (mk_sframe instr None empty_out) (tbl, mods) =
      Ret (match rm_get tbl instr with
           | None => mk_sframe instr None empty_out
           | Some idx =>
               match nth_error mods (Z.to_nat idx) with
               | Some (b, _, Some st) =>
                   let o := fill_pure st b instr in mk_sframe instr (Some idx) (mk_out (o_func o) (o_src o) (rev (o_inl o)))
               | _ => mk_sframe instr (Some idx) empty_out
               end
           end).
Proof.
  intros Hwf Hp Hi Hfuel. destruct (module_frame_total p mods instr Hwf Hp Hi) as (tbl & Et & Hf).
  exists tbl. split; [exact Et|].
  rewrite src_fill_source_line_info_eq; [rewrite Hf; cbn [obind]| exact Hi |].
  - destruct (rm_get tbl instr) as [idx|]; [|reflexivity].
    destruct (nth_error mods (Z.to_nat idx)) as [[[b sz] [st|]]|]; reflexivity.
  - intros idx b sz st _ En. pose proof (nth_error_In _ _ En) as Hin.
    rewrite Forall_forall in Hwf, Hp. destruct (Hwf _ Hin) as [[Hb _] _]. destruct (Hp _ Hin) as (rf & Hrf & Hrel).
    cbn [fst snd] in *. split; [exact Hb|]. split; [exact (Hfuel b sz st Hin)|].
    rewrite (fill_ret true p rf st b instr Hrf Hrel Hb Hi). discriminate.
Qed.

(* the table built with the compiled finish_item arm (Driver.table_of_src) is build_symtab *)
From RM Require C11.Driver.
Lemma src_finish_funcs_eq p l : forall acc, Forall wf_fraw l ->
  RM.C11.Driver.src_finish_funcs p acc l = do r <- finish_funcs_gen true l; Ret (acc ++ r).
Proof.
  induction l as [|fr t IH]; intros acc Hwf; [cbn; rewrite app_nil_r; reflexivity|].
  inversion Hwf as [|? ? Hfr Ht]; subst. destruct Hfr as (Ha & Hs & Hl & _).
  cbn [RM.C11.Driver.src_finish_funcs finish_funcs_gen].
  rewrite src_finish_function_eq by (cbn; assumption). cbn [fn_addr fn_size fn_psize fn_name].
  replace (mk_fraw (fr_addr fr) (fr_size fr) (fr_psize fr) (fr_name fr) (fr_lines fr) (fr_inls fr)) with fr by (destruct fr; reflexivity).
  fold finish_func. unfold finish_func.
  destruct (finish_func_gen true fr) as [x| | |]; cbn [obind]; try reflexivity.
  rewrite IH by exact Ht.
  destruct (finish_funcs_gen true t) as [rest| | |]; cbn [obind]; try reflexivity.
  destruct x; rewrite <- ?app_assoc, ?app_nil_r; reflexivity.
Qed.
Definition addr_nonneg (e : range * win_rec) : Prop := 0 <= w_addr (snd e).
Lemma win_insert_addr acc w acc' :
  Forall addr_nonneg acc -> 0 <= w_addr w -> win_insert acc w = Ret acc' -> Forall addr_nonneg acc'.
Proof.
  intros Hacc Hw. unfold win_insert. destruct (win_range w) as [mr|]; [|intros H; inversion H; subst; exact Hacc].
  destruct acc as [|[lr lw] t]; [intros H; inversion H; subst; constructor; [exact Hw|constructor]|].
  inversion Hacc as [|? ? Hlw Ht]; subst. unfold addr_nonneg in Hlw. cbn [snd] in Hlw.
  destruct (intersects lr mr).
  - destruct (w_addr w >? w_addr lw).
    + destruct (win_range _) as [lr'|]; [|discriminate]. intros H; inversion H; subst.
      constructor; [exact Hw|]. constructor; [exact Hlw|exact Ht].
    + destruct (negb (range_eqb lr mr)); intros H; inversion H; subst; [exact Hacc|constructor; [exact Hw|exact Hacc]].
  - intros H; inversion H; subst. constructor; [exact Hw|exact Hacc].
Qed.
Lemma src_win_collect_eq p ws : forall v, Forall wf_win ws -> Forall addr_nonneg v ->
  RM.C11.Driver.src_win_collect p v ws = win_collect (rev v) ws.
Proof.
  induction ws as [|w t IH]; intros v Hws Hv; [cbn; rewrite rev_involutive; reflexivity|].
  inversion Hws as [|? ? Hw Ht]; subst. destruct Hw as [Ha [Hs0 _]].
  cbn [RM.C11.Driver.src_win_collect win_collect].
  rewrite src_insert_win_stack_info_eq by (try assumption; exact Hv).
  destruct (win_insert (rev v) w) as [acc'| | |] eqn:E; cbn [obind]; try reflexivity.
  rewrite IH; [rewrite rev_involutive; reflexivity|exact Ht|].
  apply Forall_rev. apply (win_insert_addr (rev v) w acc'); [apply Forall_rev; exact Hv|destruct Ha; assumption|exact E].
Qed.
Lemma src_build_symtab p rf : wf_file rf -> RM.C11.Driver.table_of_src p rf = build_symtab rf.
Proof.
  intros (Hf & _ & Hfd & Hfpo). unfold RM.C11.Driver.table_of_src, build_symtab, build_symtab_gen.
  rewrite src_finish_funcs_eq by exact Hf. cbn [app].
  rewrite !src_win_collect_eq by (try assumption; constructor). cbn [rev].
  destruct (finish_funcs_gen true (rf_funcs rf)); reflexivity.
Qed.

Lemma compiled_source_tie :
  (forall p fuel tbl mods instr, instr < two64 ->
     (forall idx b sz st, rm_get tbl instr = Some idx -> nth_error mods (Z.to_nat idx) = Some (b, sz, Some st) ->
        0 <= b /\ fuel_covers st fuel /\ fill_symbol p st b instr <> OutOfFuel) ->
     src_fill_source_line_info p fuel (mk_sframe instr None empty_out) (tbl, mods) =
     do r <- frame_of p tbl mods instr;
     Ret (match r with
          | None => mk_sframe instr None empty_out
          | Some (idx, o) => mk_sframe instr (Some idx) o
          end)) /\
  (forall p v w, u64 (w_addr w) -> 0 <= w_size w -> Forall (fun e : range * win_rec => 0 <= w_addr (snd e)) v ->
     src_insert_win_stack_info p v w = do acc <- win_insert (rev v) w; Ret (rev acc)) /\
  (forall p acc cur lines inls, u64 (fn_addr cur) -> u32 (fn_size cur) -> Forall wf_line lines ->
     src_finish_function p acc cur lines inls =
     do r <- finish_func (mk_fraw (fn_addr cur) (fn_size cur) (fn_psize cur) (fn_name cur) lines inls);
     Ret (acc ++ match r with Some e => [e] | None => [] end)) /\
  (forall p f, 0 <= fn_addr f -> 0 <= fn_size f -> src_func_memory_range p f = Ret (mk_range (fn_addr f) (fn_size f))) /\
  (forall p w, 0 <= w_addr w -> 0 <= w_size w -> src_win_memory_range p w = Ret (win_range w)) /\
  (forall p f depth addr, src_get_inlinee_at_depth p f depth addr =
     do r <- get_inlinee_at_depth (fn_inls f) depth addr; Ret (option_map giad_tuple r)) /\
  (forall p f addr, src_get_outermost_sourceloc p f addr =
     do r <- get_outermost_sourceloc f addr; Ret (option_map outer_tuple r)) /\
  (forall p f addr, src_get_innermost_sourceloc p f addr =
     Ret (option_map (fun l => (l_file l, l_line l, l_addr l)) (rm_get (fn_lines f) addr))) /\
  (forall p st addr, src_find_nearest_public p st addr = Ret (find_nearest_public (st_publics st) addr)) /\
  (forall p st addr f fuel depth frame org, src_fill_symbol_loop p fuel st addr f depth frame org =
     do chain <- inline_loop p fuel (fn_inls f) addr depth;
     Ret (add_frames frame (emit_calls st org chain), last_org org chain)) /\
  (forall p fuel st mbase instr, 0 <= mbase -> instr < two64 ->
     (forall f, rm_get (st_funcs st) (instr - mbase) = Some f -> (length (fn_inls f) <= fuel)%nat) ->
     fill_symbol p st mbase instr <> OutOfFuel ->
     src_fill_symbol p fuel st mbase instr = fill_symbol p st mbase instr).
Proof.
  split; [exact src_fill_source_line_info_eq|].
  split; [exact src_insert_win_stack_info_eq|]. split; [exact src_finish_function_eq|].
  split; [exact src_func_memory_range_eq|]. split; [exact src_win_memory_range_eq|].
  split; [exact src_get_inlinee_at_depth_eq|]. split; [exact src_get_outermost_sourceloc_eq|].
  split; [exact src_get_innermost_sourceloc_eq|]. split; [exact src_find_nearest_public_eq|].
  split; [exact src_fill_symbol_loop_eq|]. exact src_fill_symbol_eq.
Qed.
