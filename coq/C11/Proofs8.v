(* C11/Proofs8.v — any two tables related to the same records give the same symbolication. *)
From Coq Require Import Lia Sorting.Sorted Sorting.Permutation.
From RM Require Import C08.Model C08.Proofs C11.Model C11.Proofs1 C11.Proofs2 C11.Proofs3.
Open Scope Z_scope.

Section Ext.
Variables st st' : symtab.
Hypothesis Hfu : st_funcs st = st_funcs st'.
Hypothesis Hpu : st_publics st = st_publics st'.
Hypothesis Hfd : st_win_fd st = st_win_fd st'.
Hypothesis Hfp : st_win_fpo st = st_win_fpo st'.
Hypothesis Hfi : forall k, assoc_last k (st_files st) = assoc_last k (st_files st').
Hypothesis Hor : forall k, assoc_last k (st_origins st) = assoc_last k (st_origins st').

Lemma emit_frames_ext chain : forall org inner,
  emit_frames st org chain inner = emit_frames st' org chain inner.
Proof.
  induction chain as [|e t IH]; intros org inner; cbn [emit_frames].
  - rewrite Hor. destruct (assoc_last org (st_origins st')); [|reflexivity].
    destruct inner; [rewrite Hfi|]; reflexivity.
  - rewrite Hor, Hfi, IH. reflexivity.
Qed.

Lemma fill_pure_ext mbase instr : fill_pure st mbase instr = fill_pure st' mbase instr.
Proof.
  unfold fill_pure. destruct (instr <? mbase); [reflexivity|]. rewrite Hfu.
  destruct (rm_get (st_funcs st') (instr - mbase)) as [f|].
  - unfold fill_func, param_size, src_of. rewrite Hfd, Hfp.
    destruct (inl_chain f (instr - mbase)) as [|e0 chain].
    + destruct (rm_get (fn_lines f) (instr - mbase)); [rewrite Hfi|]; reflexivity.
    + rewrite Hfi, emit_frames_ext. reflexivity.
  - unfold fill_public, public_cut. rewrite Hpu, Hfu. reflexivity.
Qed.
End Ext.

Lemma st_rel_same rf st st' mbase instr :
  st_rel true rf st -> st_rel true rf st' -> fill_pure st mbase instr = fill_pure st' mbase instr.
Proof.
  intros R R'. apply fill_pure_ext.
  - rewrite (sr_funcs _ _ _ R), (sr_funcs _ _ _ R'). reflexivity.
  - rewrite (sr_pubs _ _ _ R), (sr_pubs _ _ _ R'). reflexivity.
  - destruct (sr_fd _ _ _ R) as (wl & C & _ & E), (sr_fd _ _ _ R') as (wl' & C' & _ & E').
    rewrite C in C'. inversion C'; subst. congruence.
  - destruct (sr_fpo _ _ _ R) as (wl & C & _ & E), (sr_fpo _ _ _ R') as (wl' & C' & _ & E').
    rewrite C in C'. inversion C'; subst. congruence.
  - intros k. rewrite (sr_files _ _ _ R), (sr_files _ _ _ R'). reflexivity.
  - intros k. rewrite (sr_origins _ _ _ R), (sr_origins _ _ _ R'). reflexivity.
Qed.

(* fill_symbol on ANY table related to the records of a file is [symbolize] on those records:
   every theorem about [symbolize] is a theorem about that table *)
Lemma table_interface p rf st mbase instr :
  wf_file rf -> st_rel true rf st -> 0 <= mbase -> instr < two64 ->
  fill_symbol p st mbase instr = symbolize p rf mbase instr.
Proof.
  intros Hwf R Hmb Hi. rewrite (fill_ret true p rf st mbase instr Hwf R Hmb Hi).
  destruct (symbolize_ret true p rf mbase instr Hwf Hmb Hi) as (st0 & R0 & _ & E).
  unfold symbolize. rewrite E. f_equal. apply (st_rel_same rf); assumption.
Qed.
