(* C11/Proofs1.v — equality reflection, the generic binary search, get_inlinee_at_depth,
   the depth loop. *)
From Coq Require Import Lia Sorting.Sorted Sorting.Permutation.
From RM Require Import C08.Model C08.Proofs C11.Model.
Open Scope Z_scope.

(* ------------------------------------------------------------------ reflection *)
Lemma list_eqb_eq {A} (eqb : A -> A -> bool) :
  (forall a b, eqb a b = true <-> a = b) -> forall a b, list_eqb eqb a b = true <-> a = b.
Proof.
  intros H a. induction a as [|x a IH]; intros [|y b]; cbn [list_eqb]; try (split; congruence).
  rewrite andb_true_iff, H, IH. split; [intros [-> ->]; reflexivity|intros E; inversion E; auto].
Qed.
Lemma line_eqb_eq a b : line_eqb a b = true <-> a = b.
Proof.
  destruct a as [a1 a2 a3 a4], b as [b1 b2 b3 b4]; unfold line_eqb; cbn [l_addr l_size l_file l_line].
  rewrite !andb_true_iff, !Z.eqb_eq.
  split; [intros [[[-> ->] ->] ->]; reflexivity|intros E; inversion E; auto].
Qed.
Lemma inl_eqb_eq a b : inl_eqb a b = true <-> a = b.
Proof.
  destruct a as [a1 a2 a3 a4 a5 a6], b as [b1 b2 b3 b4 b5 b6]; unfold inl_eqb; cbn [i_depth i_addr i_size i_cfile i_cline i_origin].
  rewrite !andb_true_iff, !Z.eqb_eq.
  split; [intros [[[[[-> ->] ->] ->] ->] ->]; reflexivity|intros E; inversion E; tauto].
Qed.
Lemma win_eqb_eq a b : win_eqb a b = true <-> a = b.
Proof.
  destruct a as [a1 a2 a3 a4], b as [b1 b2 b3 b4]; unfold win_eqb; cbn [w_addr w_size w_psize w_tag].
  rewrite !andb_true_iff, !Z.eqb_eq.
  split; [intros [[[-> ->] ->] ->]; reflexivity|intros E; inversion E; auto].
Qed.
Lemma range_eqb_eq (a b : range) : range_eqb a b = true <-> a = b.
Proof.
  destruct a as [a1 a2], b as [b1 b2]; unfold range_eqb; cbn [fst snd]. rewrite andb_true_iff, !Z.eqb_eq.
  split; [intros [-> ->]; reflexivity|intros E; inversion E; auto].
Qed.
Lemma rline_eqb_eq a b : rline_eqb a b = true <-> a = b.
Proof.
  destruct a as [r l], b as [r' l']; unfold rline_eqb; cbn [fst snd].
  rewrite andb_true_iff, range_eqb_eq, line_eqb_eq.
  split; [intros [-> ->]; reflexivity|intros E; inversion E; auto].
Qed.
Lemma func_eqb_eq a b : func_eqb a b = true <-> a = b.
Proof.
  destruct a as [a1 a2 a3 a4 a5 a6], b as [b1 b2 b3 b4 b5 b6]; unfold func_eqb; cbn [fn_addr fn_size fn_psize fn_name fn_lines fn_inls].
  rewrite !andb_true_iff, !Z.eqb_eq, (list_eqb_eq _ rline_eqb_eq), (list_eqb_eq _ inl_eqb_eq).
  split; [intros [[[[[-> ->] ->] ->] ->] ->]; reflexivity|intros E; inversion E; tauto].
Qed.

(* ------------------------------------------------------------------ lexicographic order *)
Lemma lex_lt_asym a : forall b, lex_lt a b = true -> lex_lt b a = false.
Proof.
  induction a as [|x a IH]; intros [|y b]; cbn [lex_lt]; try congruence.
  intros H. apply orb_true_iff in H. apply orb_false_iff.
  destruct H as [H|H].
  - split; [lia|]. apply andb_false_iff. left. lia.
  - apply andb_true_iff in H. destruct H as [H1 H2]. split; [lia|].
    apply andb_false_iff. right. apply IH. exact H2.
Qed.
Lemma lex_lt_negtrans a : forall b c, length a = length b -> length b = length c ->
  lex_lt b a = false -> lex_lt c b = false -> lex_lt c a = false.
Proof.
  induction a as [|x a IH]; intros [|y b] [|z c]; cbn [lex_lt length]; try congruence; try lia.
  intros L1 L2 H1 H2. apply orb_false_iff in H1, H2. destruct H1 as [A1 B1], H2 as [A2 B2].
  apply orb_false_iff. split; [lia|].
  apply andb_false_iff. destruct (z =? x) eqn:E; [right|left; reflexivity].
  apply andb_false_iff in B1, B2.
  assert (y = x) by lia. subst y.
  destruct B1 as [B1|B1]; [lia|]. destruct B2 as [B2|B2]; [lia|].
  eapply IH; [| |exact B1|exact B2]; lia.
Qed.
Lemma inl_lt_asym a b : inl_lt a b = true -> inl_lt b a = false.
Proof. apply lex_lt_asym. Qed.
Lemma inl_lt_negtrans a b c : inl_lt b a = false -> inl_lt c b = false -> inl_lt c a = false.
Proof. apply lex_lt_negtrans; reflexivity. Qed.
Lemma pub_lt_asym a b : pub_lt a b = true -> pub_lt b a = false.
Proof. apply lex_lt_asym. Qed.
Lemma pub_lt_negtrans a b c : pub_lt b a = false -> pub_lt c b = false -> pub_lt c a = false.
Proof. apply lex_lt_negtrans; reflexivity. Qed.

(* ------------------------------------------------------------------ sort_by *)
Lemma sort_by_perm {A} (lt : A -> A -> bool) l : Permutation l (sort_by lt l).
Proof.
  unfold sort_by. rewrite <- (map_id l) at 1.
  rewrite <- (map_ext (fun x => fst ((fun e : A => (e, tt)) x)) (fun x => x)) by reflexivity.
  rewrite <- map_map. apply Permutation_map. apply sort_perm.
Qed.
Lemma sort_by_in {A} (lt : A -> A -> bool) l x : In x (sort_by lt l) <-> In x l.
Proof.
  split; intros H; [eapply Permutation_in; [symmetry; apply sort_by_perm|exact H]
                   |eapply Permutation_in; [apply sort_by_perm|exact H]].
Qed.
Lemma sort_by_length {A} (lt : A -> A -> bool) l : length (sort_by lt l) = length l.
Proof. symmetry. apply Permutation_length. apply sort_by_perm. Qed.

Definition sorted_by {A} (lt : A -> A -> bool) (l : list A) : Prop :=
  forall i j a b, (i < j)%nat -> nth_error l i = Some a -> nth_error l j = Some b -> lt b a = false.

Lemma ss_nth {A} (R : A -> A -> Prop) l : StronglySorted R l ->
  forall i j a b, (i < j)%nat -> nth_error l i = Some a -> nth_error l j = Some b -> R a b.
Proof.
  induction 1 as [|x t Ht IH Hall]; intros i j a b Hij Hi Hj.
  - destruct i; discriminate.
  - destruct j as [|j]; [lia|]. cbn [nth_error] in Hj. destruct i as [|i]; cbn [nth_error] in Hi.
    + inversion Hi; subst. rewrite Forall_forall in Hall. apply Hall. eapply nth_error_In; eassumption.
    + eapply IH; [|eassumption|eassumption]. lia.
Qed.

Lemma sort_by_sorted {A} (lt : A -> A -> bool) l :
  (forall a b, lt a b = true -> lt b a = false) ->
  (forall a b c, lt b a = false -> lt c b = false -> lt c a = false) ->
  sorted_by lt (sort_by lt l).
Proof.
  intros Has Hnt i j a b Hij Hi Hj. unfold sort_by in *.
  rewrite nth_error_map in Hi, Hj.
  destruct (nth_error _ i) as [[a' []]|] eqn:Ei; [|discriminate].
  destruct (nth_error _ j) as [[b' []]|] eqn:Ej; [|discriminate].
  cbn in Hi, Hj. inversion Hi; inversion Hj; subst.
  pose proof (sort_sorted (V := unit) lt Has Hnt (map (fun e => (e, tt)) l)) as Hs.
  exact (ss_nth _ _ Hs i j _ _ Hij Ei Ej).
Qed.

(* ------------------------------------------------------------------ binary search *)
Section BS.
Context {A : Type} (cmp : A -> ordering).

Definition cmp_at (l : list A) (i : nat) : ordering :=
  match nth_error l i with Some e => cmp e | None => OGreater end.

Lemma bs_loop_inv l : forall fuel base size,
  (base = 0%nat \/ cmp_at l base <> OGreater) ->
  (bs_loop cmp fuel l base size = 0%nat \/ cmp_at l (bs_loop cmp fuel l base size) <> OGreater).
Proof.
  induction fuel as [|fuel IH]; intros base size H; cbn [bs_loop]; [exact H|].
  destruct (Nat.leb size 1); [exact H|].
  apply IH. fold (cmp_at l (base + Nat.div2 size)).
  destruct (cmp_at l (base + Nat.div2 size)) eqn:E; [right; congruence|right; congruence|exact H].
Qed.

(* what the callers get, with no assumption on the order of [l] *)
Lemma bsearch_sound l :
  match bsearch_by cmp l with
  | BOk i => exists e, nth_error l i = Some e /\ cmp e = OEqual
  | BErr O => True
  | BErr (S i) => exists e, nth_error l i = Some e /\ cmp e = OLess
  end.
Proof.
  unfold bsearch_by. destruct l as [|a0 l']; [exact I|].
  set (l := a0 :: l'). set (b := bs_loop cmp (length l) l 0 (length l)).
  pose proof (bs_loop_inv l (length l) 0%nat (length l) (or_introl eq_refl)) as Hinv. fold b in Hinv.
  unfold cmp_at in Hinv.
  destruct (nth_error l b) as [e|] eqn:En.
  - destruct (cmp e) eqn:Ec.
    + exists e. auto.
    + exists e. auto.
    + destruct b as [|i]; [exact I|]. destruct Hinv as [Hinv|Hinv]; [discriminate|congruence].
  - destruct b as [|i]; [exact I|]. destruct Hinv as [Hinv|Hinv]; [discriminate|congruence].
Qed.

(* ---- on a list on which cmp is monotone (Less/Equal … then Greater …) *)
Definition mono (l : list A) : Prop :=
  forall i j a b, (i < j)%nat -> nth_error l i = Some a -> nth_error l j = Some b ->
                  cmp a = OGreater -> cmp b = OGreater.

Lemma div2_bounds' n : (2 <= n -> 1 <= Nat.div2 n /\ Nat.div2 n <= n - Nat.div2 n)%nat.
Proof.
  intros H. pose proof (Nat.div2_odd n) as Ho. destruct (Nat.odd n); cbn [Nat.b2n] in Ho; lia.
Qed.

Lemma bs_loop_part l : mono l -> forall fuel base size,
  (size <= fuel)%nat -> (1 <= size)%nat ->
  (forall j e, nth_error l j = Some e -> (base + size <= j)%nat -> cmp e = OGreater) ->
  forall j e, nth_error l j = Some e -> (bs_loop cmp fuel l base size < j)%nat -> cmp e = OGreater.
Proof.
  intros Hm. induction fuel as [|fuel IH]; intros base size Hf H1 Hinv; [lia|].
  cbn [bs_loop]. destruct (Nat.leb size 1) eqn:El.
  - apply Nat.leb_le in El. intros j e Hj Hlt. apply (Hinv j e Hj). lia.
  - apply Nat.leb_gt in El. destruct (div2_bounds' size) as [Hh1 Hh2]; [lia|].
    set (half := Nat.div2 size) in *. set (mid := (base + half)%nat).
    apply IH; [lia|lia|].
    destruct (nth_error l mid) as [em|] eqn:Em.
    + destruct (cmp em) eqn:Ec.
      * intros j e Hj Hge. apply (Hinv j e Hj). lia.
      * intros j e Hj Hge. apply (Hinv j e Hj). lia.
      * intros j e Hj Hge. destruct (Nat.eq_dec j mid) as [->|Hne].
        -- rewrite Em in Hj. inversion Hj; subst. exact Ec.
        -- eapply (Hm mid j); [|exact Em|exact Hj|exact Ec]. lia.
    + intros j e Hj Hge. apply nth_error_None in Em.
      assert (j < length l)%nat by (apply nth_error_Some; congruence). lia.
Qed.

(* the candidate element: the last one that is not Greater *)
Definition bs_cand (l : list A) : option A :=
  match bsearch_by cmp l with
  | BOk i => nth_error l i
  | BErr O => None
  | BErr (S i) => nth_error l i
  end.

Lemma bs_cand_sound l e : bs_cand l = Some e -> In e l /\ cmp e <> OGreater.
Proof.
  unfold bs_cand. pose proof (bsearch_sound l) as H. destruct (bsearch_by cmp l) as [i|[|i]].
  - destruct H as [e' [H1 H2]]. intros H3. rewrite H1 in H3. inversion H3; subst.
    split; [eapply nth_error_In; eassumption|congruence].
  - discriminate.
  - destruct H as [e' [H1 H2]]. intros H3. rewrite H1 in H3. inversion H3; subst.
    split; [eapply nth_error_In; eassumption|congruence].
Qed.

Lemma bs_cand_last l : mono l ->
  match bs_cand l with
  | Some c => exists i, nth_error l i = Some c /\ cmp c <> OGreater /\
                        forall j e, nth_error l j = Some e -> (i < j)%nat -> cmp e = OGreater
  | None => forall e, In e l -> cmp e = OGreater
  end.
Proof.
  intros Hm. unfold bs_cand, bsearch_by. destruct l as [|a0 l']; [intros e []|].
  set (l := a0 :: l') in *. set (b := bs_loop cmp (length l) l 0 (length l)).
  assert (Hpart : forall j e, nth_error l j = Some e -> (b < j)%nat -> cmp e = OGreater).
  { apply (bs_loop_part l Hm (length l) 0%nat (length l)); [lia|cbn; lia|].
    intros j e Hj Hge. assert (j < length l)%nat by (apply nth_error_Some; congruence). lia. }
  pose proof (bs_loop_inv l (length l) 0%nat (length l) (or_introl eq_refl)) as Hinv. fold b in Hinv.
  unfold cmp_at in Hinv.
  destruct (nth_error l b) as [eb|] eqn:En.
  - destruct (cmp eb) eqn:Ec.
    + rewrite En. exists b. split; [assumption|]. split; [congruence|exact Hpart].
    + rewrite En. exists b. split; [assumption|]. split; [congruence|exact Hpart].
    + destruct b as [|i]; [|destruct Hinv as [Hinv|Hinv]; [discriminate|congruence]].
      intros e Hin. apply In_nth_error in Hin. destruct Hin as [j Hj].
      destruct j as [|j]; [rewrite En in Hj; inversion Hj; subst; exact Ec|].
      apply (Hpart (S j) e Hj). lia.
  - destruct b as [|i]; [|destruct Hinv as [Hinv|Hinv]; [discriminate|congruence]].
    cbn in En. discriminate.
Qed.
End BS.

(* ------------------------------------------------------------------ get_inlinee_at_depth *)
Definition giad_cmp (depth addr : Z) (e : inl_rec) : ordering :=
  cmp_pair (i_depth e) (i_addr e) depth addr.

Definition giad_pure (inls : list inl_rec) (depth addr : Z) : option inl_rec :=
  giad_check depth addr (bs_cand (giad_cmp depth addr) inls).

Lemma giad_ret inls depth addr :
  get_inlinee_at_depth inls depth addr = Ret (giad_pure inls depth addr).
Proof.
  unfold get_inlinee_at_depth, giad_pure, giad_candidate, bs_cand.
  fold (giad_cmp depth addr).
  pose proof (bsearch_sound (giad_cmp depth addr) inls) as H.
  destruct (bsearch_by (giad_cmp depth addr) inls) as [i|[|i]].
  - destruct H as [e [H1 _]]. rewrite H1. reflexivity.
  - reflexivity.
  - destruct H as [e [H1 _]]. rewrite H1. reflexivity.
Qed.

Lemma cmp_pair_not_greater a1 a2 b1 b2 :
  cmp_pair a1 a2 b1 b2 <> OGreater -> a1 < b1 \/ (a1 = b1 /\ a2 <= b2).
Proof.
  unfold cmp_pair, cmp_z. destruct (a1 <? b1) eqn:E1; [lia|].
  destruct (b1 <? a1) eqn:E2; [congruence|].
  destruct (a2 <? b2) eqn:E3; [lia|]. destruct (b2 <? a2) eqn:E4; [congruence|]. lia.
Qed.
Lemma cmp_pair_greater a1 a2 b1 b2 :
  cmp_pair a1 a2 b1 b2 = OGreater -> b1 < a1 \/ (a1 = b1 /\ b2 < a2).
Proof.
  unfold cmp_pair, cmp_z. destruct (a1 <? b1) eqn:E1; [discriminate|].
  destruct (b1 <? a1) eqn:E2; [lia|].
  destruct (a2 <? b2) eqn:E3; [discriminate|]. destruct (b2 <? a2) eqn:E4; [lia|discriminate].
Qed.

(* soundness, for every list of inlinees whatever its order *)
Lemma giad_sound inls depth addr e :
  giad_pure inls depth addr = Some e ->
  In e inls /\ i_depth e = depth /\ i_addr e <= addr /\ addr < i_addr e + i_size e /\
  i_addr e + i_size e < two64.
Proof.
  unfold giad_pure. destruct (bs_cand (giad_cmp depth addr) inls) as [c|] eqn:Ec; [|discriminate].
  apply bs_cand_sound in Ec. destruct Ec as [Hin Hng]. cbn [giad_check].
  destruct (i_depth c =? depth) eqn:Ed; cbn [negb]; [|discriminate].
  unfold checked_add. destruct (i_addr c + i_size c <? 2 ^ 64) eqn:Eo; [|discriminate].
  destruct (addr <? i_addr c + i_size c) eqn:Ea; [|discriminate].
  intros H; inversion H; subst e. apply cmp_pair_not_greater in Hng.
  rewrite two64_val. repeat split; try lia; assumption.
Qed.

(* ------------------------------------------------------------------ the depth loop *)
Fixpoint chain_from (fuel : nat) (inls : list inl_rec) (addr depth : Z) : list inl_rec :=
  match fuel with
  | O => []
  | S f => match giad_pure inls depth addr with
           | None => []
           | Some e => e :: chain_from f inls addr (depth + 1)
           end
  end.

Lemma chain_from_spec fuel : forall inls addr depth k e,
  nth_error (chain_from fuel inls addr depth) k = Some e ->
  giad_pure inls (depth + Z.of_nat k) addr = Some e.
Proof.
  induction fuel as [|f IH]; intros inls addr depth k e; cbn [chain_from]; [destruct k; discriminate|].
  destruct (giad_pure inls depth addr) as [e0|] eqn:E0; [|destruct k; discriminate].
  destruct k as [|k]; cbn [nth_error].
  - intros H; inversion H; subst. rewrite Z.add_0_r. exact E0.
  - intros H. apply IH in H. rewrite <- H. f_equal. lia.
Qed.

Lemma chain_from_depths fuel inls addr depth :
  Forall (fun e => In e inls /\ depth <= i_depth e) (chain_from fuel inls addr depth) /\
  NoDup (chain_from fuel inls addr depth).
Proof.
  revert depth. induction fuel as [|f IH]; intros depth; cbn [chain_from]; [split; constructor|].
  destruct (giad_pure inls depth addr) as [e0|] eqn:E0; [|split; constructor].
  apply giad_sound in E0. destruct E0 as (Hin & Hd & _).
  destruct (IH (depth + 1)) as [Hf Hn]. split.
  - constructor; [split; [assumption|lia]|].
    eapply Forall_impl; [|exact Hf]. intros a [Ha1 Ha2]. split; [assumption|lia].
  - constructor; [|exact Hn]. intros Hc. rewrite Forall_forall in Hf. apply Hf in Hc. lia.
Qed.

(* stops by itself (not by running out of fuel) when fuel exceeds the length *)
Lemma chain_from_stops fuel : forall inls addr depth,
  (length (chain_from fuel inls addr depth) < fuel)%nat ->
  giad_pure inls (depth + Z.of_nat (length (chain_from fuel inls addr depth))) addr = None.
Proof.
  induction fuel as [|f IH]; intros inls addr depth; cbn [chain_from]; [lia|].
  destruct (giad_pure inls depth addr) as [e0|] eqn:E0.
  - cbn [length]. intros H. rewrite <- (IH inls addr (depth + 1)) by lia. f_equal. lia.
  - cbn [length]. intros _. rewrite Z.add_0_r. exact E0.
Qed.

Lemma chain_from_more fuel : forall inls addr depth,
  (length (chain_from fuel inls addr depth) < fuel)%nat ->
  chain_from (S fuel) inls addr depth = chain_from fuel inls addr depth.
Proof.
  induction fuel as [|f IH]; intros inls addr depth; [cbn; lia|].
  intros H. change (chain_from (S (S f)) inls addr depth) with
    (match giad_pure inls depth addr with None => [] | Some e => e :: chain_from (S f) inls addr (depth + 1) end).
  cbn [chain_from] in H |- *.
  destruct (giad_pure inls depth addr) as [e0|]; [|reflexivity].
  cbn [length] in H. f_equal. apply IH. lia.
Qed.

Lemma inline_loop_ret p fuel : forall inls addr depth,
  0 <= depth -> depth + Z.of_nat fuel < two32 ->
  (length (chain_from fuel inls addr depth) < fuel)%nat ->
  inline_loop p fuel inls addr depth = Ret (chain_from fuel inls addr depth).
Proof.
  induction fuel as [|f IH]; intros inls addr depth Hd Hb Hl; [cbn in Hl; lia|].
  cbn [inline_loop chain_from] in *. rewrite giad_ret. cbn [obind].
  destruct (giad_pure inls depth addr) as [e0|]; [|reflexivity].
  cbn [length] in Hl.
  unfold chk_add, chk. replace (2 ^ 32) with two32 by reflexivity.
  destruct ((0 <=? depth + 1) && (depth + 1 <? two32)) eqn:E.
  - cbn [obind]. rewrite IH; [reflexivity|lia|lia|lia].
  - apply andb_false_iff in E. lia.
Qed.
