(* C11/Driver.v — entry point of the correspondence run (extracted to OCaml). *)
From RM Require Import C11.Model.
Open Scope Z_scope.

Definition PANIC_MODIDX : Z := 1110.

(* front-end (S): walk_stack -> fill_source_line_info on the context frame.
   modules.module_at_address(instruction) is C08's table over the modules' memory_range()
   (MinidumpModuleList::from_modules = build_indexed); a module is (base, size, has symbols).
   Symbolizer::fill_symbol(module, frame) = SymbolFile::fill_symbol with that module's base,
   or an error (nothing filled in) when the supplier has no symbols for it. *)
Definition mod_table (mods : list (Z * Z * bool)) : outcome (list (range * Z)) :=
  build_indexed (map (fun m => mk_range (fst (fst m)) (snd (fst m))) mods).

Definition frame_of (p : profile) (st : symtab) (tbl : list (range * Z)) (mods : list (Z * Z * bool)) (instr : Z)
  : outcome (option (Z * sym_out)) :=
  match rm_get tbl instr with
  | None => Ret None
  | Some idx =>
      match nth_error mods (Z.to_nat idx) with
      | None => Panic PANIC_MODIDX
      | Some (b, _, hs) =>
          if hs then
            do o <- fill_symbol p st b instr;
            Ret (Some (idx, mk_out (o_func o) (o_src o) (frame_inlines o)))
          else Ret (Some (idx, empty_out))
      end
  end.

(* front-end (G): Symbolizer::get_symbol_at_address(debug_file, debug_id, address): the module
   is the pair, whose base address is 0; only the function name is returned *)
Definition symbol_at (p : profile) (st : symtab) (address : Z) : outcome (option Z) :=
  do o <- fill_symbol p st 0 address;
  Ret (match o_func o with Some (n, _, _) => Some n | None => None end).

Fixpoint run_queries (p : profile) (st : symtab) (mbase : Z) (tbl : list (range * Z))
                     (mods : list (Z * Z * bool)) (qs : list Z)
  : outcome (list (sym_out * option (Z * sym_out) * option Z)) :=
  match qs with
  | [] => Ret []
  | q :: t =>
      do a <- fill_symbol p st mbase q;
      do b <- frame_of p st tbl mods q;
      do g <- symbol_at p st q;
      do rest <- run_queries p st mbase tbl mods t;
      Ret ((a, b, g) :: rest)
  end.

(* module 0 is (mbase, msize, true) *)
Definition run_case (rf : raw_file) (mbase msize : Z) (extra : list (Z * Z * bool)) (qs : list Z)
  : outcome (list (sym_out * option (Z * sym_out) * option Z)) :=
  let mods := (mbase, msize, true) :: extra in
  do st <- build_symtab rf;
  do tbl <- mod_table mods;
  run_queries Debug st mbase tbl mods qs.

(* the parsed tables, for the table part of the answer line *)
Definition table_of (rf : raw_file) : outcome symtab := build_symtab rf.
