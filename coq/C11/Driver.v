(* C11/Driver.v — entry point of the correspondence run (extracted to OCaml). *)
From RM Require Import C11.Model.
Open Scope Z_scope.

(* front-end (b): walk_stack -> fill_source_line_info on the context frame.  The module
   list holds one module [mbase, mbase+msize); module_at_address is C08's range lookup. *)
Definition frame_of (p : profile) (st : symtab) (mbase msize instr : Z) : outcome (option sym_out) :=
  match mk_range mbase msize with
  | None => Ret None
  | Some r =>
      if contains r instr then
        do o <- fill_symbol p st mbase instr;
        Ret (Some (mk_out (o_func o) (o_src o) (frame_inlines o)))
      else Ret None
  end.

Fixpoint run_queries (p : profile) (st : symtab) (mbase msize : Z) (qs : list Z)
  : outcome (list (sym_out * option sym_out)) :=
  match qs with
  | [] => Ret []
  | q :: t =>
      do a <- fill_symbol p st mbase q;
      do b <- frame_of p st mbase msize q;
      do rest <- run_queries p st mbase msize t;
      Ret ((a, b) :: rest)
  end.

Definition run_case (rf : raw_file) (mbase msize : Z) (qs : list Z)
  : outcome (list (sym_out * option sym_out)) :=
  do st <- build_symtab rf; run_queries Debug st mbase msize qs.

(* the parsed tables, for the table part of the answer line *)
Definition table_of (rf : raw_file) : outcome symtab := build_symtab rf.
