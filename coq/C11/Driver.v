(* C11/Driver.v — entry point of the correspondence run (extracted to OCaml). *)
From RM Require Import C11.Model C11.Prims Gen.C11Src C11.Session.
From RM Require C09.Model C09.Grammar C11.Text C11.Text2.
Open Scope Z_scope.

(* front-end (G): Symbolizer::get_symbol_at_address(debug_file, debug_id, address): the module
   is the pair, whose base address is 0; only the function name is returned *)
Definition symbol_at (p : profile) (st : symtab) (address : Z) : outcome (option Z) :=
  do o <- fill_symbol p st 0 address;
  Ret (match o_func o with Some (n, _, _) => Some n | None => None end).

(* fourth component (round 5, second pass): the same query answered by the function COMPILED from the Rust source of
   SymbolFile::fill_symbol (Gen/C11Src.v), with the fuel of Prims.src_fuel; the glue prints it as the D field and flags a
   difference from the hand-written model (proved impossible on the unchanged tree: c11_compiled_fill_symbol); fifth
   component: front-end S answered by the compiled fill_source_line_info / Symbolizer::fill_symbol on a fresh StackFrame
   (every module that has symbols has the table [st], so the same fuel covers it) *)
Fixpoint run_queries (p : profile) (st : symtab) (mbase : Z) (tbl : list (range * Z))
                     (mods : list module) (qs : list Z)
  : outcome (list (sym_out * option (Z * sym_out) * option Z * outcome sym_out * outcome sframe)) :=
  match qs with
  | [] => Ret []
  | q :: t =>
      do a <- fill_symbol p st mbase q;
      do b <- frame_of p tbl mods q;
      do g <- symbol_at p st q;
      do rest <- run_queries p st mbase tbl mods t;
      Ret ((a, b, g, src_fill_symbol p (src_fuel st) st mbase q,
            src_fill_source_line_info p (src_fuel st) (mk_sframe q None empty_out) (tbl, mods)) :: rest)
  end.

(* module 0 is (mbase, msize, symbols); the further modules carry a flag: 0 = unknown to the supplier, 1 = the same symbol
   file, 2 = a symbol file that does not parse, 3 = another symbol file (alt_table).  Second pass: after the queries, the Symbolizer's pending_stats / stats as
   C12's cache model gives them for the session (Session.session_stats): the lookups are, per query, the module the table
   finds (front-end S) and the (debug_file, debug_id) pseudo-module of front-end G (key = length of the module list) *)
(* flag 3: the supplier has ANOTHER symbol file for the module: "FUNC 0 ffffffff 0 f9999" (c11_nonvacuous_alt_table: this is
   what build_symtab makes of it) *)
Definition alt_file : raw_file := mk_raw [] [] [] [mk_fraw 0 4294967295 0 9999 [] []] [] [].
Definition alt_table : symtab :=
  mk_symtab [] [] [] [((0, 4294967294), mk_func 0 4294967295 0 9999 [] [])] [] [].
Definition sup_of_flag (st : symtab) (f : Z) : sup :=
  if f =? 1 then SymOk st else if f =? 2 then SymCorrupt else if f =? 3 then SymOk alt_table else SymMissing.
Definition case_result : Type :=
  (list (sym_out * option (Z * sym_out) * option Z * outcome sym_out * outcome sframe) * (nat * nat * list (option (bool * bool))))%type.
Definition run_case_st (st : symtab) (mbase msize : Z) (extra : list (Z * Z * Z)) (qs : list Z) : outcome case_result :=
  let smods : list smodule :=
    (mbase, msize, SymOk st) :: map (fun m : Z * Z * Z => (fst m, sup_of_flag st (snd m))) extra in
  let mods : list module := map to_module smods in
  do tbl <- mod_table mods;
  do l <- run_queries Debug st mbase tbl mods qs;
  let gk := length smods in
  let keys := flat_map (fun q => match rm_get tbl q with Some idx => [Z.to_nat idx; gk] | None => [gk] end) qs in
  Ret (l, session_stats (smods ++ [(0, 0, SymOk st)]) keys).

Definition run_case (rf : raw_file) (mbase msize : Z) (extra : list (Z * Z * Z)) (qs : list Z) : outcome case_result :=
  do st <- build_symtab rf; run_case_st st mbase msize extra qs.

(* round 5: the model reading the TEXT (the two sides of c11_from_parse, executed).  [ds] = the lines of the
   symbol file, run-length encoded, each with the decision of the parse loop (true = dropped as over-long:
   C09's [bump_pst]); C09's line recogniser and [finish], then the table seen through the encodings [nm] / [tg]
   (Text2.symtab_of_table).  None = the text does not parse. *)
Definition table_of_text (nm : RM.C09.Grammar.rle -> Z) (tg : RM.C09.Grammar.win_info -> Z)
                         (ds : list (bool * RM.C09.Grammar.rle)) : outcome (option symtab) :=
  match RM.C09.Model.replay RM.C09.Grammar.rle RM.C09.Grammar.pst RM.C09.Grammar.recog_pst RM.C09.Grammar.bump_pst
                            RM.C09.Grammar.lineno_pst RM.C09.Grammar.init_pst ds with
  | inl q => do t <- RM.C09.Grammar.finish q; Ret (Some (RM.C11.Text2.symtab_of_table nm tg t))
  | inr _ => Ret None
  end.

(* the parsed tables, for the table part of the answer line *)
Definition table_of (rf : raw_file) : outcome symtab := build_symtab rf.

(* second pass: the same with every FUNC block finished by the function COMPILED from the Line::Function arm of
   SymbolParser::finish_item (Gen/C11Src.v src_finish_function: `cur` as the FUNC line leaves it — no lines, no inlinees —
   then the block's line records and INLINE ranges) and every STACK WIN record filed by the compiled insert_win_stack_info;
   the rest of SymbolParser::finish as in build_symtab.
   c11_compiled_build_symtab: equal to build_symtab on every wf_file; the glue prints this table and flags a difference *)
Fixpoint src_finish_funcs (p : profile) (acc : list (range * func)) (l : list func_raw) : outcome (list (range * func)) :=
  match l with
  | [] => Ret acc
  | fr :: t =>
      do acc' <- src_finish_function p acc (mk_func (fr_addr fr) (fr_size fr) (fr_psize fr) (fr_name fr) [] [])
                                     (fr_lines fr) (fr_inls fr);
      src_finish_funcs p acc' t
  end.
(* the STACK WIN vectors, record by record through the compiled insert_win_stack_info *)
Fixpoint src_win_collect (p : profile) (v : list (range * win_rec)) (ws : list win_rec) : outcome (list (range * win_rec)) :=
  match ws with
  | [] => Ret v
  | w :: t => do v' <- src_insert_win_stack_info p v w; src_win_collect p v' t
  end.
Definition table_of_src (p : profile) (rf : raw_file) : outcome symtab :=
  do fl <- src_finish_funcs p [] (rf_funcs rf);
  do funcs <- build_p func_eqb fl;
  do wfd <- src_win_collect p [] (rf_win_fd rf);
  do tfd <- build_p win_eqb wfd;
  do wfpo <- src_win_collect p [] (rf_win_fpo rf);
  do tfpo <- build_p win_eqb wfpo;
  Ret (mk_symtab (rf_files rf) (rf_origins rf) (sort_by pub_lt (rf_publics rf)) funcs tfd tfpo).
