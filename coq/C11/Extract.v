From Coq Require Extraction.
From Coq Require Import ExtrOcamlBasic.
From RM Require Import C11.Driver.
Extraction "c11_model.ml" run_case run_case_st table_of table_of_src table_of_text.
