(* C11/Text3.v — round 5: the hypothesis [eo_wf] of c11_from_text is discharged from the parser.
   Every record SymbolParser holds after any sequence of lines (recognised by [recog_pst] or
   dropped by the over-long-line recovery, [bump_pst]) has its integer fields in the ranges
   [wf_file] asks for — they all come out of hex_str::<u64>/<u32> / decimal_u32 — and a FUNC
   block holds at most as many INLINE ranges as the text had bytes so far (every range costs at
   least two bytes of its INLINE line).  So for every BYTE STRING shorter than 2^32-1 bytes that
   SymbolFile::parse accepts (C09's [drive_c], any read schedule, including dropped lines), the
   parsed table symbolicates exactly as [symbolize] on the records of the text, and those
   records are [wf_file]: all theorems of C11 hold of the text. *)
From Coq Require Import Lia ZArith List Bool.
From RM Require C09.Model.
From RM Require Import Base.Word C08.Model C08.Proofs C09.Grammar C09.Driver C09.Proofs C09.ProofsBytes
                       C09.ProofsFinish C09.ProofsFinal.
From RM Require Import C11.Model C11.Proofs1 C11.Proofs2 C11.Proofs5 C11.Proofs6 C11.Proofs7 C11.Proofs8 C11.Text C11.Text2.
From RM Require C11.Driver.
Import ListNotations.
Open Scope Z_scope.

(* ------------------------------------------------------------------ how much input a parser eats *)
Lemma uncons_len s b s' : uncons s = Some (b, s') -> rle_len s' = rle_len s - 1.
Proof.
  destruct s as [|[b0 c] t]; cbn [uncons]; [discriminate|].
  destruct (Z.leb_spec c 1) as [L|L]; intros H; inversion H; subst; cbn [rle_len]; lia.
Qed.

Lemma digits_len val base : forall n s acc k v k' s',
  digits val base n s acc k = (v, k', s') -> k <= k' /\ rle_len s' = rle_len s - (k' - k).
Proof.
  induction n as [|n IH]; intros s acc k v k' s'; cbn [digits].
  - intros H; inversion H; subst. lia.
  - destruct (uncons s) as [[b s1]|] eqn:Eu; [|intros H; inversion H; subst; lia].
    destruct (val b) as [d|]; [|intros H; inversion H; subst; lia].
    intros H. apply IH in H. apply uncons_len in Eu. lia.
Qed.

Lemma hex_str_len n s v s' : hex_str n s = Some (v, s') -> rle_len s' <= rle_len s - 1.
Proof.
  unfold hex_str. destruct (digits hexval 16 n s 0 0) as [[v0 k0] s0] eqn:E.
  destruct (k0 =? 0) eqn:Ek; [discriminate|]. intros H; inversion H; subst.
  apply digits_len in E. apply Z.eqb_neq in Ek. lia.
Qed.

Lemma decimal_u32_len s v s' : decimal_u32 s = Some (v, s') -> rle_len s' <= rle_len s - 1.
Proof.
  unfold decimal_u32. destruct (digits decval 10 10%nat s 0 0) as [[v0 k0] s0] eqn:E.
  destruct (k0 =? 0) eqn:Ek; [discriminate|]. destruct (U32MAX <? v0); [discriminate|].
  intros H; inversion H; subst. apply digits_len in E. apply Z.eqb_neq in Ek. lia.
Qed.

Lemma skip_while_len p s : rle_len (skip_while p s) <= rle_len s.
Proof.
  induction s as [|[b c] t IH]; cbn [skip_while]; [lia|].
  destruct (p b); cbn [rle_len] in *; lia.
Qed.

Lemma space1_len s s' : space1 s = Some s' -> rle_len s' <= rle_len s.
Proof.
  unfold space1. destruct s as [|[b c] t]; [discriminate|]. destruct (is_sp b); [|discriminate].
  intros H. injection H as <-. apply (skip_while_len is_sp ((b, c) :: t)).
Qed.

Lemma osp_inv {A} (o : option (A * rle)) v s' :
  osp o = Some (v, s') -> exists s1, o = Some (v, s1) /\ rle_len s' <= rle_len s1.
Proof.
  unfold osp. destruct o as [[v0 s1]|]; [|discriminate]. destruct (space1 s1) as [s2|] eqn:E; [|discriminate].
  intros H; inversion H; subst. exists s1. split; [reflexivity|]. apply space1_len. exact E.
Qed.

Lemma tag_len bs : forall s s', tag bs s = Some s' -> rle_len s' <= rle_len s.
Proof.
  induction bs as [|x bs IH]; intros s s'; cbn [tag].
  - intros H; inversion H; lia.
  - destruct (uncons s) as [[b s1]|] eqn:E; [|discriminate]. destruct (b =? x); [|discriminate].
    intros H. apply IH in H. apply uncons_len in E. lia.
Qed.

Lemma hdr_len t s s' : hdr t s = Some s' -> rle_len s' <= rle_len s.
Proof.
  unfold hdr. destruct (tag t s) as [s1|] eqn:E; [|discriminate]. intros H.
  apply space1_len in H. apply tag_len in E. lia.
Qed.

(* ------------------------------------------------------------------ the number fields *)
Lemma hex64sp_ok s v s' : hex64sp s = Some (v, s') -> u64 v /\ rle_len s' <= rle_len s - 1.
Proof.
  unfold hex64sp. intros H. apply osp_inv in H. destruct H as (s1 & H & L).
  pose proof (hex64_range _ _ _ H). apply hex_str_len in H. unfold u64. lia.
Qed.
Lemma hex32sp_ok s v s' : hex32sp s = Some (v, s') -> u32 v /\ rle_len s' <= rle_len s - 1.
Proof.
  unfold hex32sp. intros H. apply osp_inv in H. destruct H as (s1 & H & L).
  pose proof (hex32_range _ _ _ H). apply hex_str_len in H. unfold u32. lia.
Qed.
Lemma decsp_ok s v s' : decsp s = Some (v, s') -> u32 v /\ rle_len s' <= rle_len s - 1.
Proof.
  unfold decsp. intros H. apply osp_inv in H. destruct H as (s1 & H & L).
  pose proof (decimal_u32_range _ _ _ H). apply decimal_u32_len in H. unfold u32. lia.
Qed.

Lemma addr_range_ok s a sz s' :
  addr_range s = Some (a, sz, s') -> u64 a /\ u32 sz /\ rle_len s' <= rle_len s - 2.
Proof.
  unfold addr_range. destruct (hex64sp s) as [[a0 s1]|] eqn:E1; [|discriminate].
  destruct (hex_str 8 s1) as [[sz0 s2]|] eqn:E2; [|discriminate].
  intros H; inversion H; subst. apply hex64sp_ok in E1. pose proof (hex32_range _ _ _ E2).
  apply hex_str_len in E2. unfold u64, u32 in *. lia.
Qed.

Definition rng_pair (r : Z * Z) : Prop := u64 (fst r) /\ u32 (snd r).

Lemma more_ranges_ok : forall fuel s acc racc s',
  more_ranges fuel s acc = (racc, s') -> Forall rng_pair acc ->
  Forall rng_pair racc /\ Z.of_nat (length racc) + rle_len s' <= Z.of_nat (length acc) + rle_len s.
Proof.
  induction fuel as [|f IH]; intros s acc racc s'; cbn [more_ranges].
  - intros H Ha; inversion H; subst. split; [exact Ha|lia].
  - destruct (space1 s) as [s1|] eqn:E1; [|intros H Ha; inversion H; subst; split; [exact Ha|lia]].
    destruct (addr_range s1) as [[[a sz] s2]|] eqn:E2; [|intros H Ha; inversion H; subst; split; [exact Ha|lia]].
    intros H Ha. apply addr_range_ok in E2. destruct E2 as (A & B & C). apply space1_len in E1.
    apply IH in H; [|constructor; [split; assumption|exact Ha]].
    destruct H as [H1 H2]. split; [exact H1|]. cbn [length] in H2. lia.
Qed.

(* an INLINE line: every Inlinee is in range, and there are at most as many as the line has bytes *)
Lemma sub_inline_ok s l : sub_inline s = Some l -> Forall wf_inl l /\ Z.of_nat (length l) <= rle_len s.
Proof.
  unfold sub_inline, guard. intros H.
  destruct (hdr T_INLINE s) as [s0|] eqn:E0; [|discriminate].
  destruct (decsp s0) as [[depth s1]|] eqn:E1; [|discriminate].
  destruct (decsp s1) as [[cline s2]|] eqn:E2; [|discriminate].
  destruct (decsp s2) as [[cfile s3]|] eqn:E3; [|discriminate].
  destruct (decsp s3) as [[origin s4]|] eqn:E4; [|discriminate].
  destruct (addr_range s4) as [[[a sz] s5]|] eqn:E5; [|discriminate].
  destruct (more_ranges (S (length s5)) s5 [(a, sz)]) as [racc s6] eqn:E6.
  destruct (eol s6); [|discriminate]. inversion H; subst l. clear H.
  apply hdr_len in E0. apply decsp_ok in E1, E2, E3, E4. apply addr_range_ok in E5.
  destruct E5 as (A & B & C).
  apply more_ranges_ok in E6; [|constructor; [split; assumption|constructor]].
  destruct E6 as [R L]. cbn [length] in L. pose proof (rle_len_nonneg s6).
  split.
  - rewrite Forall_map. apply Forall_rev. eapply Forall_impl; [|exact R].
    intros r [Ra Rs]. unfold wf_inl. cbn [i_depth i_addr i_size]. tauto.
  - rewrite map_length, rev_length. lia.
Qed.

Lemma sub_line_data_ok s l : sub_line_data s = Some l -> wf_line l.
Proof.
  unfold sub_line_data, guard. intros H.
  destruct (hex64sp s) as [[a s1]|] eqn:E1; [|discriminate].
  destruct (hex32sp s1) as [[sz s2]|] eqn:E2; [|discriminate].
  destruct (decsp s2) as [[ln s3]|] eqn:E3; [|discriminate].
  destruct (decimal_u32 s3) as [[fl s4]|] eqn:E4; [|discriminate].
  destruct (eol s4); [|discriminate]. inversion H; subst l.
  apply hex64sp_ok in E1. apply hex32sp_ok in E2. unfold wf_line. cbn [l_addr l_size]. tauto.
Qed.

(* ------------------------------------------------------------------ the invariant *)
Definition fr_rng (n : Z) (f : Grammar.func_raw) : Prop :=
  u64 (Grammar.fr_addr f) /\ u32 (Grammar.fr_size f) /\ Forall wf_line (Grammar.fr_lines f) /\
  Forall wf_inl (Grammar.fr_inls f) /\ Z.of_nat (length (Grammar.fr_inls f)) <= n.
Definition wi_rng (w : win_info) : Prop := u64 (wi_addr w) /\ u32 (wi_size w).
Definition pb_rng (pb : pub_sym) : Prop := u64 (pb_addr pb).
(* [n] = bytes of text seen so far *)
Definition pst_rng (n : Z) (p : pst) : Prop :=
  match p_cur p with CFunc f => fr_rng n f | _ => True end /\
  Forall (fr_rng n) (p_funcs p) /\ Forall pb_rng (p_publics p) /\
  Forall wi_rng (p_win_fd p) /\ Forall wi_rng (p_win_fpo p).

Lemma fr_rng_mono n m f : n <= m -> fr_rng n f -> fr_rng m f.
Proof.
  unfold fr_rng. intros L (A & B & C & D & E).
  split; [exact A|]. split; [exact B|]. split; [exact C|]. split; [exact D|lia].
Qed.

Lemma pst_rng_mono n m p : n <= m -> pst_rng n p -> pst_rng m p.
Proof.
  unfold pst_rng. intros L (A & B & C & D & E). repeat split; try assumption.
  - destruct (p_cur p); try exact I. eapply fr_rng_mono; eauto.
  - eapply Forall_impl; [|exact B]. intros f. apply fr_rng_mono. exact L.
Qed.

Definition item_rng (it : item) : Prop :=
  match it with
  | IFunc f => fr_rng 0 f
  | IPublic pb => pb_rng pb
  | IWin (FrameData i) => wi_rng i
  | IWin (Fpo i) => wi_rng i
  | _ => True
  end.

Ltac brk :=
  repeat match goal with
         | H : context [match ?e with _ => _ end] |- _ => destruct e eqn:?; try discriminate
         end.
Ltac crack :=
  brk;
  repeat match goal with
         | H : POk _ = POk _ |- _ => inversion H; clear H
         | H : Some _ = Some _ |- _ => inversion H; clear H
         end;
  subst;
  repeat match goal with
         | H : hex64sp _ = Some (_, _) |- _ => apply hex64sp_ok in H
         | H : hex32sp _ = Some (_, _) |- _ => apply hex32sp_ok in H
         end.

Lemma p_func_rng s it : p_func s = POk it -> item_rng it.
Proof.
  unfold p_func, cutp. cbv zeta. intros H. crack.
  cbn. unfold fr_rng. cbn.
  split; [tauto|]. split; [tauto|]. split; [apply Forall_nil|]. split; [apply Forall_nil|lia].
Qed.
Lemma p_public_rng s it : p_public s = POk it -> item_rng it.
Proof. unfold p_public, cutp. cbv zeta. intros H. crack. cbn. unfold pb_rng. cbn. tauto. Qed.
Lemma p_win_rng s it : p_stack_win s = POk it -> item_rng it.
Proof.
  unfold p_stack_win, cutp. intros H. crack.
  unfold win_of_fields. cbv zeta.
  repeat match goal with |- context [if ?c then _ else _] => destruct c end; cbn; auto;
    unfold wi_rng; cbn; tauto.
Qed.
Lemma p_cfi_rng s it : p_stack_cfi_init s = POk it -> item_rng it.
Proof. unfold p_stack_cfi_init, cutp. intros H. crack. exact I. Qed.
Lemma p_module_rng s it : p_module s = POk it -> item_rng it.
Proof. unfold p_module, cutp. intros H. crack. exact I. Qed.
Lemma p_file_rng s it : p_file s = POk it -> item_rng it.
Proof. unfold p_file, cutp. intros H. crack. exact I. Qed.
Lemma p_origin_rng s it : p_inline_origin s = POk it -> item_rng it.
Proof. unfold p_inline_origin, cutp. intros H. crack. exact I. Qed.
Lemma p_info_rng s it : p_info s = POk it -> item_rng it.
Proof. unfold p_info, cutp, guard. intros H. crack. exact I. Qed.
Lemma p_info_url_rng s it : p_info_url s = POk it -> item_rng it.
Proof. unfold p_info_url, cutp. intros H. crack. exact I. Qed.

Lemma line_top_rng s it : line_top s = Some it -> item_rng it.
Proof.
  unfold line_top, alt. intros H.
  destruct (p_info_url s) eqn:E1; try discriminate; [|inversion H; subst; eapply p_info_url_rng; eauto].
  destruct (p_info s) eqn:E2; try discriminate; [|inversion H; subst; eapply p_info_rng; eauto].
  destruct (p_file s) eqn:E3; try discriminate; [|inversion H; subst; eapply p_file_rng; eauto].
  destruct (p_inline_origin s) eqn:E4; try discriminate; [|inversion H; subst; eapply p_origin_rng; eauto].
  destruct (p_public s) eqn:E5; try discriminate; [|inversion H; subst; eapply p_public_rng; eauto].
  destruct (p_func s) eqn:E6; try discriminate; [|inversion H; subst; eapply p_func_rng; eauto].
  destruct (p_stack_win s) eqn:E7; try discriminate; [|inversion H; subst; eapply p_win_rng; eauto].
  destruct (p_stack_cfi_init s) eqn:E8; try discriminate; [|inversion H; subst; eapply p_cfi_rng; eauto].
  destruct (p_module s) eqn:E9; try discriminate. inversion H; subst; eapply p_module_rng; eauto.
Qed.

Lemma sub_func_line_rng s l : sub_func s = Some (SLine l) -> wf_line l.
Proof.
  unfold sub_func. intros H.
  destruct (tag T_INLINE_ORIGIN_SP s).
  - destruct (p_inline_origin s) as [| |[]]; discriminate.
  - destruct (tag T_INLINE_SP s).
    + destruct (sub_inline s); discriminate.
    + destruct (sub_line_data s) eqn:E; [|discriminate]. inversion H; subst.
      eapply sub_line_data_ok; eauto.
Qed.

Lemma sub_func_inline_rng s l :
  sub_func s = Some (SInline l) -> Forall wf_inl l /\ Z.of_nat (length l) <= rle_len s.
Proof.
  unfold sub_func. intros H.
  destruct (tag T_INLINE_ORIGIN_SP s).
  - destruct (p_inline_origin s) as [| |[]]; discriminate.
  - destruct (tag T_INLINE_SP s).
    + destruct (sub_inline s) eqn:E; [|discriminate]. inversion H; subst. apply sub_inline_ok. exact E.
    + destruct (sub_line_data s); discriminate.
Qed.

(* ------------------------------------------------------------------ one line *)
Lemma close_cur_rng n p : pst_rng n p -> pst_rng n (close_cur p) /\ p_cur (close_cur p) = CNone.
Proof.
  unfold pst_rng, close_cur. intros (Hc & Hf & Hp & Hfd & Hfpo).
  destruct (p_cur p) eqn:E; cbn; rewrite ?E; repeat split; auto.
Qed.

Lemma top_rng n p s p' : 0 <= n -> pst_rng n p -> top p s = inl p' -> pst_rng n p'.
Proof.
  unfold pst_rng, top. intros Hn (Hc & Hf & Hp & Hfd & Hfpo) H.
  destruct (eol s).
  { inversion H; subst; cbn; auto. }
  destruct (line_top s) as [it|] eqn:E; [|discriminate].
  apply line_top_rng in E.
  destruct it as [id f|u| |id nm|id nm|pb|f|w|c]; cbn in E.
  - destruct (p_lines p =? 0); [|discriminate]. inversion H; subst; cbn; auto.
  - inversion H; subst; cbn; auto.
  - inversion H; subst; cbn; auto.
  - inversion H; subst; cbn; auto.
  - inversion H; subst; cbn; auto.
  - inversion H; subst; cbn; auto.
  - inversion H; subst; cbn. split; [eapply fr_rng_mono; [|exact E]; exact Hn|]. repeat split; auto.
  - destruct w as [i|i|]; inversion H; subst; cbn; auto 10.
  - inversion H; subst; cbn; auto.
Qed.

Lemma recog_pst_rng n p s p' :
  0 <= n -> pst_rng n p -> recog_pst p s = inl p' -> pst_rng (n + cllen s) p'.
Proof.
  intros Hn Hwf H. pose proof (cllen_pos s) as Hl. unfold recog_pst in H.
  destruct (p_cur p) as [|f|c] eqn:Ec.
  - eapply pst_rng_mono; [|eapply top_rng; eauto]. lia.
  - destruct (sub_func s) as [[id nm|l|l]|] eqn:Es.
    + inversion H; subst. apply (pst_rng_mono n); [lia|].
      destruct Hwf as (Hc & Hf & Hp & Hfd & Hfpo). rewrite Ec in Hc. unfold pst_rng; cbn; auto.
    + inversion H; subst. apply sub_func_inline_rng in Es. destruct Es as [Ei El].
      destruct (pst_rng_mono n (n + cllen s) p) as (Hc & Hf & Hp & Hfd & Hfpo); [lia|exact Hwf|].
      destruct Hwf as (Hc0 & _). rewrite Ec in Hc0. destruct Hc0 as (A & B & C & D & E).
      unfold pst_rng; cbn. split; [|repeat split; assumption].
      unfold fr_rng; cbn. split; [exact A|]. split; [exact B|]. split; [exact C|]. split.
      * rewrite rev_append_rev. apply Forall_app. split; [apply Forall_rev; exact Ei|exact D].
      * rewrite rev_append_rev, app_length, rev_length. unfold cllen. lia.
    + inversion H; subst. apply sub_func_line_rng in Es.
      destruct (pst_rng_mono n (n + cllen s) p) as (Hc & Hf & Hp & Hfd & Hfpo); [lia|exact Hwf|].
      rewrite Ec in Hc. destruct Hc as (A & B & C & D & E).
      unfold pst_rng; cbn. split; [|repeat split; assumption].
      unfold fr_rng; cbn. split; [exact A|]. split; [exact B|]. split; [constructor; assumption|].
      split; [exact D|exact E].
    + eapply pst_rng_mono; [|eapply top_rng; [exact Hn| |eassumption]]; [lia|].
      apply close_cur_rng; assumption.
  - destruct (sub_cfi s) as [r|].
    + inversion H; subst. apply (pst_rng_mono n); [lia|].
      destruct Hwf as (Hc & Hf & Hp & Hfd & Hfpo). unfold pst_rng; cbn. auto.
    + eapply pst_rng_mono; [|eapply top_rng; [exact Hn| |eassumption]]; [lia|].
      apply close_cur_rng; assumption.
Qed.

Lemma bump_pst_rng n p : pst_rng n p -> pst_rng n (bump_pst p).
Proof. unfold pst_rng, bump_pst, set_lines_cur; cbn; auto. Qed.

Lemma init_pst_rng : pst_rng 0 init_pst.
Proof. unfold pst_rng, init_pst; cbn; auto. Qed.

(* any sequence of recognised and dropped lines *)
Lemma replay_rng : forall (ds : list (bool * rle)) n p p',
  0 <= n -> pst_rng n p -> RM.C09.Model.replay rle pst recog_pst bump_pst lineno_pst p ds = inl p' ->
  pst_rng (n + RM.C09.Model.size rle cllen (map snd ds)) p'.
Proof.
  induction ds as [|[b l] t IH]; intros n p p' Hn Hwf H.
  - cbn in H. inversion H; subst. cbn. rewrite Z.add_0_r. exact Hwf.
  - cbn [RM.C09.Model.replay] in H. cbn [map snd RM.C09.Model.size]. pose proof (cllen_pos l).
    rewrite Z.add_assoc. destruct b.
    + apply (IH (n + cllen l)) in H; [exact H|lia|]. apply (pst_rng_mono n); [lia|]. apply bump_pst_rng. exact Hwf.
    + destruct (recog_pst p l) as [p1|c] eqn:E; [|discriminate].
      apply (IH (n + cllen l)) in H; [exact H|lia|]. eapply recog_pst_rng; eauto.
Qed.

Lemma fold_recog_rng : forall (lines : list rle) n p p',
  0 <= n -> pst_rng n p -> RM.C09.Model.fold_recog rle pst recog_pst lineno_pst p lines = inl p' ->
  pst_rng (n + RM.C09.Model.size rle cllen lines) p'.
Proof.
  induction lines as [|l t IH]; intros n p p' Hn Hwf H.
  - cbn in H. inversion H; subst. cbn. rewrite Z.add_0_r. exact Hwf.
  - cbn [RM.C09.Model.fold_recog] in H. cbn [RM.C09.Model.size]. pose proof (cllen_pos l).
    rewrite Z.add_assoc. destruct (recog_pst p l) as [p1|c] eqn:E; [|discriminate].
    apply (IH (n + cllen l)) in H; [exact H|lia|]. eapply recog_pst_rng; eauto.
Qed.

(* ------------------------------------------------------------------ the records are wf_file *)
Section Enc.
Variables (nm : rle -> Z) (tg : win_info -> Z).

Lemma wf_of_rng n q : pst_rng n q -> n < two32 - 1 -> wf_file (raw_of_pst nm tg q).
Proof.
  intros R Hn. destruct (close_cur_rng n q R) as [(_ & Hf & Hp & Hfd & Hfpo) _].
  unfold wf_file, raw_of_pst. cbn [rf_funcs rf_publics rf_win_fd rf_win_fpo].
  repeat split; rewrite Forall_map; apply Forall_rev.
  - eapply Forall_impl; [|exact Hf]. intros f (A & B & C & D & E).
    unfold wf_fraw, raw_of_func. cbn [Model.fr_addr Model.fr_size Model.fr_lines Model.fr_inls].
    repeat split; try apply A; try apply B; try (apply Forall_rev; assumption).
    rewrite rev_length. lia.
  - eapply Forall_impl; [|exact Hp]. intros pb H. exact H.
  - eapply Forall_impl; [|exact Hfd]. intros w H. exact H.
  - eapply Forall_impl; [|exact Hfpo]. intros w H. exact H.
Qed.

(* the hypotheses on the two encodings alone (what is left of [enc_ok] without [eo_wf]):
   [nm] renders names as integers injectively on the FUNC names and monotonically on the PUBLIC
   names of the text, [tg] stands for the STACK WIN fields that only take part in `==` *)
Record enc_names_ok (q : pst) : Prop := mk_enc_names_ok {
  en_names : names_injective nm q;
  en_pub : forall a b, In a (p_publics (close_cur q)) -> In b (p_publics (close_cur q)) ->
             rle_compare (pb_name a) (pb_name b) = (nm (pb_name a) ?= nm (pb_name b));
  en_tgsize : forall w sz, tg (wi_set_size w sz) = tg w;
  en_tg_fd : forall a b, in_scope (rev (p_win_fd (close_cur q))) a -> in_scope (rev (p_win_fd (close_cur q))) b ->
               win_eqb (Gw tg a) (Gw tg b) = wi_eqb a b;
  en_tg_fpo : forall a b, in_scope (rev (p_win_fpo (close_cur q))) a -> in_scope (rev (p_win_fpo (close_cur q))) b ->
                win_eqb (Gw tg a) (Gw tg b) = wi_eqb a b
}.

Lemma enc_ok_of_rng n q : pst_rng n q -> n < two32 - 1 -> enc_names_ok q -> enc_ok nm tg q.
Proof.
  intros R Hn [A B C D E]. constructor; try assumption. eapply wf_of_rng; eauto.
Qed.

(* the lines of any accepted text shorter than 2^32-1 bytes *)
Lemma from_text_lines (lines : list rle) q t :
  RM.C09.Model.fold_recog rle pst recog_pst lineno_pst init_pst lines = inl q ->
  finish q = Ret t -> RM.C09.Model.size rle cllen lines < two32 - 1 -> enc_names_ok q ->
  wf_file (raw_of_pst nm tg q) /\ st_rel true (raw_of_pst nm tg q) (symtab_of_table nm tg t) /\
  forall p mbase instr, 0 <= mbase -> instr < two64 ->
    fill_symbol p (symtab_of_table nm tg t) mbase instr = symbolize p (raw_of_pst nm tg q) mbase instr.
Proof.
  intros Hf Hfin Hsz He.
  pose proof (fold_recog_rng lines 0 init_pst q (Z.le_refl 0) init_pst_rng Hf) as R. rewrite Z.add_0_l in R.
  pose proof (enc_ok_of_rng _ q R Hsz He) as Hok.
  split; [exact (eo_wf nm tg q Hok)|]. exact (from_text nm tg lines q t Hf Hfin Hok).
Qed.

(* the whole parse: SymbolFile::parse over any reader schedule, with the over-long-line recovery *)
Lemma from_parse (lines : list rle) (tail : Z) (sch : list Z) q s :
  drive_c lines tail sch = Ret (RM.C09.Model.ROk q, s) ->
  RM.C09.Model.size rle cllen lines < two32 - 1 -> enc_names_ok q ->
  exists t, finish q = Ret t /\
    wf_file (raw_of_pst nm tg q) /\ st_rel true (raw_of_pst nm tg q) (symtab_of_table nm tg t) /\
    forall p mbase instr, 0 <= mbase -> instr < two64 ->
      fill_symbol p (symtab_of_table nm tg t) mbase instr = symbolize p (raw_of_pst nm tg q) mbase instr.
Proof.
  intros H Hsz He.
  destruct (final_pst_wf lines tail sch (RM.C09.Model.ROk q) s H) as [W _].
  unfold drive_c in H.
  destruct (drive_shape rle cllen pst init_pst recog_pst bump_pst lineno_pst cllen_pos lines tail sch (RM.C09.Model.ROk q) s H)
    as [ds [_ [Hl [Hr [Hp Hrest]]]]]. subst q.
  destruct (finish_total (RM.C09.Model.ps s) W) as [t Ht]. exists t. split; [exact Ht|].
  pose proof (replay_rng ds 0 init_pst (RM.C09.Model.ps s) (Z.le_refl 0) init_pst_rng Hr) as R. rewrite Z.add_0_l in R.
  rewrite Hrest, app_nil_r in Hl. rewrite <- Hl in R.
  pose proof (enc_ok_of_rng _ (RM.C09.Model.ps s) R Hsz He) as Hok.
  split; [exact (eo_wf nm tg _ Hok)|].
  pose proof (table_rel nm tg (RM.C09.Model.ps s) t Hok Ht) as T. split; [exact T|].
  intros p mbase instr Hmb Hi. apply table_interface; [exact (eo_wf nm tg _ Hok)|exact T|exact Hmb|exact Hi].
Qed.
End Enc.

(* ------------------------------------------------------------------ bytes *)
Lemma size_to_rle (ls : list (list Z)) :
  RM.C09.Model.size rle cllen (map to_rle ls) = Z.of_nat (length (flat_map (fun l => l ++ [10]) ls)).
Proof.
  induction ls as [|l t IH]; cbn [map RM.C09.Model.size flat_map]; [reflexivity|].
  rewrite IH, !app_length. cbn [length]. unfold cllen.
  assert (E : rle_len (to_rle l) = Z.of_nat (length l)).
  { unfold to_rle. induction l as [|b l' IHl]; cbn [map rle_len length]; [reflexivity|]. rewrite IHl. lia. }
  rewrite E. lia.
Qed.

Lemma lines_size_le_bytes (bytes : list Z) :
  RM.C09.Model.size rle cllen (map to_rle (fst (split_bytes bytes []))) <= Z.of_nat (length bytes).
Proof.
  rewrite size_to_rle. pose proof (split_join_id bytes) as E. unfold join_bytes in E.
  rewrite <- E at 2. rewrite app_length. lia.
Qed.

Lemma from_bytes nm tg (bytes : list Z) (sch : list Z) q s :
  drive_c (map to_rle (fst (split_bytes bytes []))) (Z.of_nat (length (snd (split_bytes bytes [])))) sch
    = Ret (RM.C09.Model.ROk q, s) ->
  Z.of_nat (length bytes) < two32 - 1 -> enc_names_ok nm tg q ->
  exists t, finish q = Ret t /\
    wf_file (raw_of_pst nm tg q) /\ st_rel true (raw_of_pst nm tg q) (symtab_of_table nm tg t) /\
    forall p mbase instr, 0 <= mbase -> instr < two64 ->
      fill_symbol p (symtab_of_table nm tg t) mbase instr = symbolize p (raw_of_pst nm tg q) mbase instr.
Proof.
  intros H Hlen He. eapply from_parse; [exact H| |exact He].
  pose proof (lines_size_le_bytes bytes). lia.
Qed.

(* the property's first clause, stated of the text: what fill_symbol reports on the table parsed
   from the bytes is a FUNC block of the text covering the address, or a PUBLIC of the text *)
Lemma bytes_func_sound nm tg (bytes : list Z) (sch : list Z) q s :
  drive_c (map to_rle (fst (split_bytes bytes []))) (Z.of_nat (length (snd (split_bytes bytes [])))) sch
    = Ret (RM.C09.Model.ROk q, s) ->
  Z.of_nat (length bytes) < two32 - 1 -> enc_names_ok nm tg q ->
  exists t, finish q = Ret t /\
  forall p mbase instr, 0 <= mbase -> instr < two64 ->
  exists o, fill_symbol p (symtab_of_table nm tg t) mbase instr = Ret o /\
    (instr < mbase -> o = empty_out) /\
    forall name base psz, o_func o = Some (name, base, psz) ->
      mbase <= instr /\ base <= instr /\
      ((exists fr, In fr (funcs_of_pst q) /\ func_covers (raw_of_func nm fr) (instr - mbase) = true /\
          name = nm (Grammar.fr_name fr) /\ base = Grammar.fr_addr fr + mbase /\
          (psz = Grammar.fr_psize fr \/
           exists w, In w (rev (p_win_fd (close_cur q)) ++ rev (p_win_fpo (close_cur q))) /\
                     win_covers (Gw tg w) (instr - mbase) = true /\ psz = wi_params w))
       \/ (exists pb, In pb (p_publics (close_cur q)) /\ pb_addr pb <= instr - mbase /\ name = nm (pb_name pb) /\
             base = pb_addr pb + mbase /\ psz = pb_psize pb /\ o_src o = None /\ o_inl o = [])).
Proof.
  intros H Hlen He. destruct (from_bytes nm tg bytes sch q s H Hlen He) as (t & Ht & Hwf & _ & Heq).
  exists t. split; [exact Ht|]. intros p mbase instr Hmb Hi.
  destruct (func_sound p (raw_of_pst nm tg q) mbase instr Hwf Hmb Hi) as (o & Eo & Hlow & Hf).
  exists o. rewrite (Heq p mbase instr Hmb Hi). split; [exact Eo|]. split; [exact Hlow|].
  intros name base psz Hfn. destruct (Hf name base psz Hfn) as (A & B & C). split; [exact A|]. split; [exact B|].
  destruct C as [(fr & Hin & Hc & Hn & Hb & Hps)|(pb & Hin & Ha & Hn & Hb & Hps & Hs & Hi0)].
  - left. unfold raw_of_pst in Hin. cbn [rf_funcs] in Hin. apply in_map_iff in Hin.
    destruct Hin as (fr0 & <- & Hin). exists fr0. split; [exact Hin|]. split; [exact Hc|].
    split; [exact Hn|]. split; [exact Hb|].
    destruct Hps as [Hps|(w & Hw & Hwc & Hwp)]; [left; exact Hps|right].
    unfold raw_of_pst in Hw. cbn [rf_win_fd rf_win_fpo] in Hw. rewrite <- map_app in Hw.
    apply in_map_iff in Hw. destruct Hw as (w0 & <- & Hw). exists w0. auto.
  - right. unfold raw_of_pst in Hin. cbn [rf_publics] in Hin. apply in_map_iff in Hin.
    destruct Hin as (pb0 & <- & Hin). apply in_rev in Hin. exists pb0. cbn in *. auto 10.
Qed.

(* Symbolizer level: a module whose SymbolFile was parsed from such bytes meets [module_parsed], the
   hypothesis of c11_module_frame_total (walk_stack -> fill_source_line_info -> Symbolizer::fill_symbol
   never panics and the frame is the pure result for the module found) *)
Lemma bytes_module_parsed nm tg (bytes : list Z) (sch : list Z) q s :
  drive_c (map to_rle (fst (split_bytes bytes []))) (Z.of_nat (length (snd (split_bytes bytes [])))) sch
    = Ret (RM.C09.Model.ROk q, s) ->
  Z.of_nat (length bytes) < two32 - 1 -> enc_names_ok nm tg q ->
  exists t, finish q = Ret t /\ forall b sz, module_parsed (b, sz, Some (symtab_of_table nm tg t)).
Proof.
  intros H Hlen He. destruct (from_bytes nm tg bytes sch q s H Hlen He) as (t & Ht & Hwf & Hrel & _).
  exists t. split; [exact Ht|]. intros b sz. unfold module_parsed. cbn [snd].
  exists (raw_of_pst nm tg q). split; assumption.
Qed.

(* the property's last clause, stated of the bytes: when the records of the text do not overlap, fill_symbol
   on the table parsed from the bytes equals the linear scans over the records of the text *)
Lemma bytes_equals_linear_scan nm tg (bytes : list Z) (sch : list Z) q s :
  drive_c (map to_rle (fst (split_bytes bytes []))) (Z.of_nat (length (snd (split_bytes bytes [])))) sch
    = Ret (RM.C09.Model.ROk q, s) ->
  Z.of_nat (length bytes) < two32 - 1 -> enc_names_ok nm tg q ->
  let rf := raw_of_pst nm tg q in
  non_overlapping rf ->
  exists t, finish q = Ret t /\
  forall p mbase instr, 0 <= mbase -> mbase <= instr < two64 ->
  exists o, fill_symbol p (symtab_of_table nm tg t) mbase instr = Ret o /\
    match ref_func rf (instr - mbase) with
    | Some fr => o = ref_fill_func rf (ref_psize rf fr (instr - mbase)) mbase (instr - mbase) fr
    | None =>
        ((forall pq, In pq (rf_publics rf) -> instr - mbase < p_addr pq) /\ o = empty_out) \/
        (exists pb, In pb (rf_publics rf) /\ p_addr pb <= instr - mbase /\
           (forall pq, In pq (rf_publics rf) -> p_addr pq <= instr - mbase -> Model.pub_lt pb pq = false) /\
           let cut := exists fr, In fr (rf_funcs rf) /\ mk_range (Model.fr_addr fr) (Model.fr_size fr) <> None /\
                                 p_addr pb <= Model.fr_addr fr <= instr - mbase in
           ((cut /\ o = empty_out) \/
            (~ cut /\ o = mk_out (Some (p_name pb, p_addr pb + mbase, p_psize pb)) None [])))
    end.
Proof.
  intros H Hlen He rf Hno. destruct (from_bytes nm tg bytes sch q s H Hlen He) as (t & Ht & Hwf & _ & Heq).
  exists t. split; [exact Ht|]. intros p mbase instr Hmb Hi.
  destruct (equals_linear_scan p rf mbase instr Hwf Hno Hmb Hi) as (o & Eo & Hspec).
  exists o. split; [|exact Hspec]. rewrite (Heq p mbase instr Hmb (proj2 Hi)). exact Eo.
Qed.

(* any list of decisions (line recognised / line dropped): what the correspondence driver's text front-end
   ([Driver.table_of_text]: replay, finish, symtab_of_table) computes *)
Lemma from_replay nm tg (ds : list (bool * rle)) q :
  RM.C09.Model.replay rle pst recog_pst bump_pst lineno_pst init_pst ds = inl q ->
  RM.C09.Model.size rle cllen (map snd ds) < two32 - 1 -> enc_names_ok nm tg q ->
  exists t, finish q = Ret t /\
    wf_file (raw_of_pst nm tg q) /\ st_rel true (raw_of_pst nm tg q) (symtab_of_table nm tg t) /\
    forall p mbase instr, 0 <= mbase -> instr < two64 ->
      fill_symbol p (symtab_of_table nm tg t) mbase instr = symbolize p (raw_of_pst nm tg q) mbase instr.
Proof.
  intros Hr Hsz He.
  destruct (replay_wf ds init_pst q init_pst_wf Hr) as [W _].
  destruct (finish_total q W) as [t Ht]. exists t. split; [exact Ht|].
  pose proof (replay_rng ds 0 init_pst q (Z.le_refl 0) init_pst_rng Hr) as R. rewrite Z.add_0_l in R.
  pose proof (enc_ok_of_rng nm tg _ q R Hsz He) as Hok.
  split; [exact (eo_wf nm tg _ Hok)|].
  pose proof (table_rel nm tg q t Hok Ht) as T. split; [exact T|].
  intros p mbase instr Hmb Hi. apply table_interface; [exact (eo_wf nm tg _ Hok)|exact T|exact Hmb|exact Hi].
Qed.

Lemma text_driver_correct nm tg (ds : list (bool * rle)) q :
  RM.C09.Model.replay rle pst recog_pst bump_pst lineno_pst init_pst ds = inl q ->
  RM.C09.Model.size rle cllen (map snd ds) < two32 - 1 -> enc_names_ok nm tg q ->
  exists st, RM.C11.Driver.table_of_text nm tg ds = Ret (Some st) /\
    wf_file (raw_of_pst nm tg q) /\ st_rel true (raw_of_pst nm tg q) st /\
    forall p mbase instr, 0 <= mbase -> instr < two64 ->
      fill_symbol p st mbase instr = symbolize p (raw_of_pst nm tg q) mbase instr.
Proof.
  intros Hr Hsz He. destruct (from_replay nm tg ds q Hr Hsz He) as (t & Ht & Hwf & Hrel & Heq).
  exists (symtab_of_table nm tg t). split; [|split; [exact Hwf|split; [exact Hrel|exact Heq]]].
  unfold RM.C11.Driver.table_of_text. rewrite Hr, Ht. reflexivity.
Qed.

Lemma replay_rng0 (ds : list (bool * rle)) q :
  RM.C09.Model.replay rle pst recog_pst bump_pst lineno_pst init_pst ds = inl q ->
  pst_rng (RM.C09.Model.size rle cllen (map snd ds)) q.
Proof. intros H. exact (replay_rng ds 0 init_pst q (Z.le_refl 0) init_pst_rng H). Qed.

(* front-end G, Symbolizer::get_symbol_at_address(debug_file, debug_id, address): the (&str, DebugId) module has
   base 0, only the name is returned ([Driver.symbol_at]).  On any table parsed from the records: never panics,
   and the name is that of a FUNC record covering the address or of a PUBLIC at or below it. *)
Lemma symbol_at_sound p rf st address :
  wf_file rf -> st_rel true rf st -> 0 <= address < two64 ->
  exists r, RM.C11.Driver.symbol_at p st address = Ret r /\
    forall n, r = Some n ->
      (exists fr, In fr (rf_funcs rf) /\ func_covers fr address = true /\ n = Model.fr_name fr) \/
      (exists pb, In pb (rf_publics rf) /\ p_addr pb <= address /\ n = p_name pb).
Proof.
  intros Hwf Hrel [Ha0 Ha]. unfold RM.C11.Driver.symbol_at.
  rewrite (table_interface p rf st 0 address Hwf Hrel (Z.le_refl 0) Ha).
  destruct (func_sound p rf 0 address Hwf (Z.le_refl 0) Ha) as (o & Eo & _ & Hf).
  rewrite Eo. cbn [obind]. eexists. split; [reflexivity|]. intros n Hn.
  destruct (o_func o) as [[[name base] ps]|] eqn:Ef; [|discriminate]. inversion Hn; subst n.
  destruct (Hf name base ps eq_refl) as (_ & _ & [(fr & Hin & Hc & Hname & _)|(pb & Hin & Hle & Hname & _)]);
    rewrite Z.sub_0_r in *.
  - left. exists fr. auto.
  - right. exists pb. auto.
Qed.
