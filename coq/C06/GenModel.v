(* C06/GenModel.v — the STACK CFI evaluator as an INTERPRETATION of coq/Gen/CfiOps.v, the tables that
   translate/c06_cfi_ops.py regenerates from breakpad-symbols/src/sym_file/walker.rs on every run:
     gen_eval_step / gen_eval_cfi_expr   the `match token` arms of eval_cfi_expr in source order, the if-let chain of
                                         the `_` arm, the final stack-length test
     gen_classify / gen_strip_label      the label suffix and the classification chain of parse_cfi_exprs
     gen_walk                            the statement skeleton of walk_with_stack_cfi (step list + loop actions)
   Definitions only (extracted through C06/GenDriver.v).  C06/Proofs6.v proves them equal to the hand-written
   model of C06/Model.v, so every theorem of C06/Properties.v is a theorem about the generated tables. *)
From RM Require Export C06.Model.
From RM Require Export Gen.CfiOps.
Open Scope Z_scope.

Definition PANIC_DIV0 : Z := 604.   (* u64::wrapping_div / wrapping_rem with a zero divisor *)
Definition PANIC_GEN : Z := 605.    (* a step sequence rustc would reject (use before definition) *)

(* ---- expressions and conditions of an operator arm ---- *)
Fixpoint gexp_eval (p : profile) (vars : list Z) (e : gexp) : outcome Z :=
  match e with
  | GVar n => Ret (nth n vars 0)
  | GLit z => Ret z
  | GWrapAdd a b => do x <- gexp_eval p vars a; do y <- gexp_eval p vars b; Ret (wrap64 (x + y))
  | GWrapSub a b => do x <- gexp_eval p vars a; do y <- gexp_eval p vars b; Ret (wrap64 (x - y))
  | GWrapMul a b => do x <- gexp_eval p vars a; do y <- gexp_eval p vars b; Ret (wrap64 (x * y))
  | GWrapDiv a b => do x <- gexp_eval p vars a; do y <- gexp_eval p vars b;
                    if y =? 0 then Panic PANIC_DIV0 else Ret (x / y)
  | GWrapRem a b => do x <- gexp_eval p vars a; do y <- gexp_eval p vars b;
                    if y =? 0 then Panic PANIC_DIV0 else Ret (x mod y)
  | GAnd a b => do x <- gexp_eval p vars a; do y <- gexp_eval p vars b; Ret (Z.land x y)
  | GXor a b => do x <- gexp_eval p vars a; do y <- gexp_eval p vars b; Ret (Z.lxor x y)
  | GSub a b => do x <- gexp_eval p vars a; do y <- gexp_eval p vars b; chk_usub p PANIC_SUB x y
  end.

Fixpoint gcond_eval (p : profile) (vars : list Z) (c : gcond) : outcome bool :=
  match c with
  | CEq a b => do x <- gexp_eval p vars a; do y <- gexp_eval p vars b; Ret (x =? y)
  | CPow2 a => do x <- gexp_eval p vars a; Ret (is_pow2 x)
  | CNot c => do b <- gcond_eval p vars c; Ret (negb b)
  | COr a b => do x <- gcond_eval p vars a; if x then Ret true else gcond_eval p vars b   (* `||` short-circuits *)
  end.

(* the statements of one arm; [vars] = the values popped so far, in binding order; Fail = `return None` *)
Fixpoint run_stmts (p : profile) (E : env) (cfa : option Z) (ss : list gstmt) (vars : list Z) (st : list Z)
  : outcome (list Z) :=
  match ss with
  | [] => Ret st
  | SPop :: r => match st with v :: st' => run_stmts p E cfa r (vars ++ [v]) st' | [] => Fail end
  | SGuard c :: r => do b <- gcond_eval p vars c; if b then Fail else run_stmts p E cfa r vars st
  | SPush e :: r => do v <- gexp_eval p vars e; run_stmts p E cfa r vars (v :: st)
  | SPushDeref e :: r => do a <- gexp_eval p vars e;
                         match e_mem E a with Some v => run_stmts p E cfa r vars (v :: st) | None => Fail end
  | SPushCfa :: r => match cfa with Some c => run_stmts p E cfa r vars (c :: st) | None => Fail end
  | SReturnNone :: _ => Fail
  end.

Fixpoint find_arm (t : bytes) (arms : list (list Z * list gstmt)) : option (list gstmt) :=
  match arms with
  | [] => None
  | (k, ss) :: r => if beq t k then Some ss else find_arm t r
  end.

Fixpoint run_default (E : env) (t : bytes) (st : list Z) (l : list gdefault) : outcome (list Z) :=
  match l with
  | [] => Fail
  | DAfterDollar :: r => match after_dollar t with
                         | Some reg => push_opt (e_callee E reg) st
                         | None => run_default E t st r
                         end
  | DInt bits :: r => match parse_int bits t with
                      | Some v => Ret (wrap64 v :: st)
                      | None => run_default E t st r
                      end
  | DBareReg :: r => match e_callee E t with
                     | Some v => Ret (v :: st)
                     | None => run_default E t st r
                     end
  end.

Definition gen_eval_step (p : profile) (E : env) (cfa : option Z) (t : bytes) (st : list Z) : outcome (list Z) :=
  match find_arm t cfi_arms with
  | Some ss => run_stmts p E cfa ss [] st
  | None => run_default E t st cfi_default
  end.

Fixpoint gen_eval_loop (p : profile) (E : env) (cfa : option Z) (toks : expr) (st : list Z) : outcome (list Z) :=
  match toks with
  | [] => Ret st
  | t :: r => do st' <- gen_eval_step p E cfa t st; gen_eval_loop p E cfa r st'
  end.

(* if stack.len() == N { stack.pop() } else { None } *)
Definition gen_eval_cfi_expr (p : profile) (E : env) (e : expr) (cfa : option Z) : outcome Z :=
  do st <- gen_eval_loop p E cfa e [];
  if Nat.eqb (length st) cfi_final_len then match st with v :: _ => Ret v | [] => Fail end else Fail.

(* ---- parse_cfi_exprs: label detection and classification from the generated chain ---- *)
Definition gen_strip_label (t : bytes) : option bytes :=
  match rev t with
  | c :: r => if c =? cfi_label_suffix then Some (rev r) else None
  | [] => None
  end.
Fixpoint gen_classify_with (l : list gclass) (name : bytes) : cfireg :=
  match l with
  | [] => ROther name
  | KEq n k :: r => if beq name n then (match k with KCfa => RCfa | KRa => RRa end) else gen_classify_with r name
  | KStripPrefix c :: r => match name with
                           | x :: rest => if x =? c then ROther rest else gen_classify_with r name
                           | [] => gen_classify_with r name
                           end
  | KBare :: _ => ROther name
  end.
Definition gen_classify := gen_classify_with cfi_classify.

Fixpoint gen_parse_loop (len : Z) (toks : list tok) (reg : option cfireg)
         (first last : option tok) (acc : list bytes) (out : rmap) : outcome rmap :=
  match toks with
  | [] => commit len reg first last acc out
  | t :: r =>
      match gen_strip_label (t_body t) with
      | Some name =>
          match reg with
          | Some _ =>
              do out' <- commit len reg first last acc out;
              gen_parse_loop len r (Some (gen_classify name)) None None [] out'
          | None => gen_parse_loop len r (Some (gen_classify name)) first last acc out
          end
      | None =>
          match reg with
          | None => Fail
          | Some _ =>
              gen_parse_loop len r reg (match first with None => Some t | _ => first end)
                             (Some t) (t_body t :: acc) out
          end
      end
  end.
Definition gen_parse_cfi_exprs (input : bytes) (out : rmap) : outcome rmap :=
  gen_parse_loop (blen input) (tokens input) None None None [] out.
Fixpoint gen_parse_all (texts : list bytes) (out : rmap) : outcome rmap :=
  match texts with
  | [] => Ret out
  | t :: r => do out' <- gen_parse_cfi_exprs t out; gen_parse_all r out'
  end.

(* ---- walk_with_stack_cfi: the generated step list ---- *)
Section GenWalk.
Context {S : Type} (ops : wops S).

Record wst := mkW {
  w_map : rmap; w_sorted : bool;
  w_cfa_e : option expr; w_ra_e : option expr;
  w_cfa : option Z; w_ra : option Z;
  w_s : S
}.

Definition run_acts (acts : list gact) (s : S) (name : bytes) : S :=
  fold_left (fun s a => match a with AClear => o_clear ops s name end) acts s.

Definition gen_apply_rule (p : profile) (E : env) (cfa : Z) (s : S) (re : cfireg * expr) : outcome S :=
  match fst re with
  | ROther name =>
      match gen_eval_cfi_expr p E (snd re) (if cfi_loop_with_cfa then Some cfa else None) with
      | Ret v => match o_set ops s name v with
                 | Some s' => Ret (run_acts cfi_on_accepted s' name)
                 | None => Ret (run_acts cfi_on_rejected s name)
                 end
      | Fail => Ret (run_acts cfi_on_failed s name)
      | Panic t => Panic t
      | OutOfFuel => OutOfFuel
      end
  | _ => Panic PANIC_UNREACHABLE
  end.
Fixpoint gen_apply_rules (p : profile) (E : env) (cfa : Z) (l : rmap) (s : S) : outcome S :=
  match l with
  | [] => Ret s
  | re :: r => do s' <- gen_apply_rule p E cfa s re; gen_apply_rules p E cfa r s'
  end.

(* one statement of the skeleton; Ret None = the function returns None (`?`) *)
Definition gen_step (p : profile) (E : env) (init : bytes) (adds : list bytes) (k : wstep) (w : wst)
  : outcome (option wst) :=
  match k with
  | WParseInit =>
      try_ (gen_parse_cfi_exprs init (w_map w)) (fun m =>
        Ret (Some (mkW m (w_sorted w) (w_cfa_e w) (w_ra_e w) (w_cfa w) (w_ra w) (w_s w))))
  | WParseAdditional =>
      try_ (gen_parse_all adds (w_map w)) (fun m =>
        Ret (Some (mkW m (w_sorted w) (w_cfa_e w) (w_ra_e w) (w_cfa w) (w_ra w) (w_s w))))
  | WRemoveCfa =>
      let '(o, m) := map_remove RCfa (w_map w) in
      match o with
      | Some e => Ret (Some (mkW m (w_sorted w) (Some e) (w_ra_e w) (w_cfa w) (w_ra w) (w_s w)))
      | None => Ret None
      end
  | WRemoveRa =>
      let '(o, m) := map_remove RRa (w_map w) in
      match o with
      | Some e => Ret (Some (mkW m (w_sorted w) (w_cfa_e w) (Some e) (w_cfa w) (w_ra w) (w_s w)))
      | None => Ret None
      end
  | WEvalCfa with_cfa =>
      match w_cfa_e w with
      | Some e =>
          try_ (gen_eval_cfi_expr p E e (if with_cfa then w_cfa w else None)) (fun v =>
            Ret (Some (mkW (w_map w) (w_sorted w) (w_cfa_e w) (w_ra_e w) (Some v) (w_ra w) (w_s w))))
      | None => Panic PANIC_GEN
      end
  | WEvalRa with_cfa =>
      match w_ra_e w with
      | Some e =>
          try_ (gen_eval_cfi_expr p E e (if with_cfa then w_cfa w else None)) (fun v =>
            Ret (Some (mkW (w_map w) (w_sorted w) (w_cfa_e w) (w_ra_e w) (w_cfa w) (Some v) (w_s w))))
      | None => Panic PANIC_GEN
      end
  | WSetCfa =>
      match w_cfa w with
      | Some c => match o_set_cfa ops (w_s w) c with
                  | Some s' => Ret (Some (mkW (w_map w) (w_sorted w) (w_cfa_e w) (w_ra_e w) (w_cfa w) (w_ra w) s'))
                  | None => Ret None
                  end
      | None => Panic PANIC_GEN
      end
  | WSetRa =>
      match w_ra w with
      | Some c => match o_set_ra ops (w_s w) c with
                  | Some s' => Ret (Some (mkW (w_map w) (w_sorted w) (w_cfa_e w) (w_ra_e w) (w_cfa w) (w_ra w) s'))
                  | None => Ret None
                  end
      | None => Panic PANIC_GEN
      end
  | WSort => Ret (Some (mkW (sort_rules (w_map w)) true (w_cfa_e w) (w_ra_e w) (w_cfa w) (w_ra w) (w_s w)))
  end.

Fixpoint gen_steps (p : profile) (E : env) (init : bytes) (adds : list bytes) (ks : list wstep) (w : wst)
  : outcome (option wst) :=
  match ks with
  | [] => Ret (Some w)
  | k :: r =>
      match gen_step p E init adds k w with
      | Ret (Some w') => gen_steps p E init adds r w'
      | Ret None => Ret None
      | Fail => Fail
      | Panic t => Panic t
      | OutOfFuel => OutOfFuel
      end
  end.

(* walk_with_stack_cfi(init, additional, walker) *)
Definition gen_walk (p : profile) (E : env) (init : bytes) (adds : list bytes) (s : S) : outcome (option S) :=
  match gen_steps p E init adds cfi_walk_steps (mkW [] false None None None None s) with
  | Ret (Some w) =>
      match w_cfa w, w_sorted w with
      | Some cfa, true => try_ (gen_apply_rules p E cfa (w_map w) (w_s w)) (fun s3 => Ret (Some s3))
      | _, _ => Panic PANIC_GEN
      end
  | Ret None => Ret None
  | Fail => Fail
  | Panic t => Panic t
  | OutOfFuel => OutOfFuel
  end.
End GenWalk.

(* SymbolFile::walk_frame, STACK CFI part, over the generated evaluator and the generated record selection *)
Definition gen_take_cmp (a addr : Z) : bool :=
  match cfi_take_cmp with CmpLe => a <=? addr | CmpLt => a <? addr end.
Fixpoint gen_take_applicable (addr : Z) (l : list cfi_rules) : list cfi_rules :=
  match l with
  | [] => []
  | x :: t => if gen_take_cmp (fst x) addr then x :: gen_take_applicable addr t else []
  end.
Definition gen_deltas (l : list cfi_rules) : list cfi_rules := if cfi_deltas_sorted then sort_cfi l else l.

Definition gen_walk_frame_cfi {S} (ops : wops S) (p : profile) (E : env) (r : cfi_record) (addr : Z) (s : S)
  : outcome (option S) :=
  if cfi_covers r addr then
    gen_walk ops p E (snd (c_init r)) (map snd (gen_take_applicable addr (gen_deltas (c_add r)))) s
  else Ret None.
