(* C06/Model.v — executable model of STACK CFI evaluation.
   Mirrors (as of the fix commits 3a7f18b, 811f017, 2c8a29b):
     breakpad-symbols/src/sym_file/walker.rs  walk_with_stack_cfi, parse_cfi_exprs, eval_cfi_expr
     breakpad-symbols/src/sym_file/mod.rs     walk_frame (STACK CFI part: add_rules with address <= lookup)
     breakpad-symbols/src/sym_file/parser.rs  finish_item (add_rules.sort(), derived Ord = (address, text))
     minidump-unwind/src/lib.rs               CfiStackWalker (FrameWalker callbacks for real contexts)
   Strings are lists of bytes ([Z], 0..255), written out as ASCII codes (Coq's [string] is
   avoided because its extraction would shadow OCaml's [string] in the glue); C06/Proofs.v
   checks every constant against its text ([consts_ok]).  Definitions only. *)
From RM Require Export Base.Word.
Open Scope Z_scope.

Definition bytes := list Z.
Fixpoint beq (a b : bytes) : bool :=
  match a, b with
  | [], [] => true
  | x :: a', y :: b' => (x =? y) && beq a' b'
  | _, _ => false
  end.

(* derived Ord on str / String: byte-lexicographic *)
Fixpoint bytes_ltb (a b : bytes) : bool :=
  match a, b with
  | [], [] => false
  | [], _ :: _ => true
  | _ :: _, [] => false
  | x :: a', y :: b' => if x <? y then true else if y <? x then false else bytes_ltb a' b'
  end.

Definition blen (b : bytes) : Z := Z.of_nat (length b).

(* ---- str::split_ascii_whitespace, keeping each token's offset in the input ---- *)
Definition is_ws (c : Z) : bool :=
  (c =? 32) || (c =? 9) || (c =? 10) || (c =? 12) || (c =? 13).

Record tok := mkTok { t_off : Z; t_body : bytes }.
Definition t_end (t : tok) : Z := t_off t + blen (t_body t).

(* [o] = offset of the next byte, [cur] = bytes of the token being read, reversed *)
Fixpoint split_off (o : Z) (cur : bytes) (s : bytes) : list tok :=
  match s with
  | [] => match cur with [] => [] | _ => [mkTok (o - blen cur) (rev cur)] end
  | c :: t =>
      if is_ws c then
        match cur with
        | [] => split_off (o + 1) [] t
        | _ => mkTok (o - blen cur) (rev cur) :: split_off (o + 1) [] t
        end
      else split_off (o + 1) (c :: cur) t
  end.
Definition tokens (s : bytes) : list tok := split_off 0 [] s.
Definition split_ws (s : bytes) : list bytes := map t_body (tokens s).

(* ---- small string helpers ---- *)
Definition strip_suffix_colon (t : bytes) : option bytes :=
  match rev t with
  | c :: r => if c =? 58 then Some (rev r) else None
  | [] => None
  end.
Definition strip_prefix_dollar (t : bytes) : option bytes :=
  match t with
  | c :: r => if c =? 36 then Some r else None
  | [] => None
  end.
(* token.split_once('$').1 : the text after the FIRST '$' anywhere in the token *)
Fixpoint after_dollar (t : bytes) : option bytes :=
  match t with
  | [] => None
  | c :: r => if c =? 36 then Some r else after_dollar r
  end.

(* iN::from_str: optional single sign, at least one digit, digits only, range check *)
Definition digit (c : Z) : option Z :=
  if (48 <=? c) && (c <=? 57) then Some (c - 48) else None.
Fixpoint digits_val (acc : Z) (l : bytes) : option Z :=
  match l with
  | [] => Some acc
  | c :: r => match digit c with Some d => digits_val (acc * 10 + d) r | None => None end
  end.
Definition parse_int (bits : Z) (t : bytes) : option Z :=
  match t with
  | [] => None
  | c :: r =>
      let neg := c =? 45 in
      let ds := if (c =? 43) || (c =? 45) then r else t in
      match ds with
      | [] => None
      | _ =>
          match digits_val 0 ds with
          | None => None
          | Some v =>
              if neg then (if v <=? 2 ^ (bits - 1) then Some (- v) else None)
              else (if v <? 2 ^ (bits - 1) then Some v else None)
          end
      end
  end.

(* ---- token constants ---- *)
Definition T_plus := [43] (* + *).      Definition T_minus := [45] (* - *).
Definition T_star := [42] (* * *).      Definition T_slash := [47] (* / *).
Definition T_pct := [37] (* % *).       Definition T_at := [64] (* @ *).
Definition T_caret := [94] (* ^ *).     Definition T_cfa := [46; 99; 102; 97] (* .cfa *).
Definition T_ra := [46; 114; 97] (* .ra *).      Definition T_undef := [46; 117; 110; 100; 101; 102] (* .undef *).

(* ---- panic tags ---- *)
Definition PANIC_SLICE : Z := 601.        (* &input[min..max] out of order / out of range *)
Definition PANIC_UNREACHABLE : Z := 602.  (* unreachable!() in walk_with_stack_cfi *)
Definition PANIC_SUB : Z := 603.          (* rhs - 1 in the '@' operator *)

(* ---- parse_cfi_exprs ---- *)
Inductive cfireg := RCfa | RRa | ROther (name : bytes).
Definition cfireg_eqb (a b : cfireg) : bool :=
  match a, b with
  | RCfa, RCfa => true
  | RRa, RRa => true
  | ROther x, ROther y => beq x y
  | _, _ => false
  end.
(* an expression is kept as the tokens of the substring first..last *)
Definition expr := list bytes.
Definition rmap := list (cfireg * expr).

(* HashMap::insert: overwrite or add *)
Fixpoint map_insert (k : cfireg) (v : expr) (m : rmap) : rmap :=
  match m with
  | [] => [(k, v)]
  | (k', v') :: r => if cfireg_eqb k k' then (k, v) :: r else (k', v') :: map_insert k v r
  end.
(* HashMap::remove *)
Fixpoint map_remove (k : cfireg) (m : rmap) : option expr * rmap :=
  match m with
  | [] => (None, [])
  | (k', v') :: r =>
      if cfireg_eqb k k' then (Some v', r)
      else let '(o, r') := map_remove k r in (o, (k', v') :: r')
  end.

Definition classify_reg (name : bytes) : cfireg :=
  if beq name T_cfa then RCfa
  else if beq name T_ra then RRa
  else match strip_prefix_dollar name with
       | Some n => ROther n
       | None => ROther name
       end.

(* let expr = &input[min_addr - base_addr .. max_addr - base_addr];  (slice index panics
   when the bounds are out of order or past the end) *)
Definition commit (len : Z) (reg : option cfireg) (first last : option tok) (acc : list bytes)
                  (out : rmap) : outcome rmap :=
  match first, last with
  | Some f, Some l =>
      if (0 <=? t_off f) && (t_off f <=? t_end l) && (t_end l <=? len) then
        match reg with
        | Some r => Ret (map_insert r (rev acc) out)
        | None => Fail
        end
      else Panic PANIC_SLICE
  | _, _ => Fail
  end.

Fixpoint parse_loop (len : Z) (toks : list tok) (reg : option cfireg)
         (first last : option tok) (acc : list bytes) (out : rmap) : outcome rmap :=
  match toks with
  | [] => commit len reg first last acc out
  | t :: r =>
      match strip_suffix_colon (t_body t) with
      | Some name =>
          match reg with
          | Some _ =>
              do out' <- commit len reg first last acc out;
              parse_loop len r (Some (classify_reg name)) None None [] out'
          | None => parse_loop len r (Some (classify_reg name)) first last acc out
          end
      | None =>
          match reg with
          | None => Fail
          | Some _ =>
              parse_loop len r reg (match first with None => Some t | _ => first end)
                         (Some t) (t_body t :: acc) out
          end
      end
  end.

Definition parse_cfi_exprs (input : bytes) (out : rmap) : outcome rmap :=
  parse_loop (blen input) (tokens input) None None None [] out.

(* ---- eval_cfi_expr ---- *)
(* what the evaluator reads from the FrameWalker (never changed by the writes) *)
Record env := mkEnv {
  e_callee : bytes -> option Z;      (* get_callee_register *)
  e_mem : Z -> option Z;             (* get_register_at_address *)
  e_instr : Z;
  e_has_gc : bool;
  e_gcps : Z
}.

(* u64 `a - b`: can only leave the range downwards (Base.Word.chk_sub also tests the upper
   bound, which would need a range invariant on [a] that the trap itself does not depend on) *)
Definition chk_usub (p : profile) (tag a b : Z) : outcome Z :=
  if 0 <=? a - b then Ret (a - b)
  else match p with Debug => Panic tag | Release => Ret ((a - b) mod two64) end.

(* u64::is_power_of_two *)
Definition is_pow2 (x : Z) : bool := (0 <? x) && (x =? 2 ^ Z.log2 x).

Definition binop (st : list Z) (f : Z -> Z -> outcome Z) : outcome (list Z) :=
  match st with
  | rhs :: lhs :: s => do v <- f lhs rhs; Ret (v :: s)
  | _ => Fail
  end.
Definition push_opt (o : option Z) (st : list Z) : outcome (list Z) :=
  match o with Some v => Ret (v :: st) | None => Fail end.

Definition eval_step (p : profile) (E : env) (cfa : option Z) (t : bytes) (st : list Z)
  : outcome (list Z) :=
  if beq t T_plus then binop st (fun l r => Ret (wrap64 (l + r)))
  else if beq t T_minus then binop st (fun l r => Ret (wrap64 (l - r)))
  else if beq t T_star then binop st (fun l r => Ret (wrap64 (l * r)))
  else if beq t T_slash then binop st (fun l r => if r =? 0 then Fail else Ret (l / r))
  else if beq t T_pct then binop st (fun l r => if r =? 0 then Fail else Ret (l mod r))
  else if beq t T_at then
    binop st (fun l r =>
      if (r =? 0) || negb (is_pow2 r) then Fail
      else do m <- chk_usub p PANIC_SUB r 1; Ret (Z.land l (Z.lxor U64MAX m)))
  else if beq t T_caret then
    match st with
    | ptr :: s => push_opt (e_mem E ptr) s
    | [] => Fail
    end
  else if beq t T_cfa then push_opt cfa st
  else if beq t T_undef then Fail
  else match after_dollar t with
       | Some reg => push_opt (e_callee E reg) st
       | None =>
           match parse_int 64 t with
           | Some v => Ret (wrap64 v :: st)
           | None => push_opt (e_callee E t) st
           end
       end.

Fixpoint eval_loop (p : profile) (E : env) (cfa : option Z) (toks : expr) (st : list Z)
  : outcome (list Z) :=
  match toks with
  | [] => Ret st
  | t :: r => do st' <- eval_step p E cfa t st; eval_loop p E cfa r st'
  end.

Definition eval_cfi_expr (p : profile) (E : env) (e : expr) (cfa : option Z) : outcome Z :=
  do st <- eval_loop p E cfa e [];
  match st with [v] => Ret v | _ => Fail end.

(* ---- the writes of a FrameWalker, over an abstract caller state S ---- *)
Record wops (S : Type) := mkOps {
  o_set : S -> bytes -> Z -> option S;    (* set_caller_register; None = rejected, state unchanged *)
  o_clear : S -> bytes -> S;              (* clear_caller_register *)
  o_set_cfa : S -> Z -> option S;
  o_set_ra : S -> Z -> option S
}.
Arguments o_set {S}. Arguments o_clear {S}. Arguments o_set_cfa {S}. Arguments o_set_ra {S}.

(* `x?` on an Option inside a function returning Option<()> *)
Definition try_ {A B} (x : outcome A) (k : A -> outcome (option B)) : outcome (option B) :=
  match x with
  | Ret a => k a
  | Fail => Ret None
  | Panic t => Panic t
  | OutOfFuel => OutOfFuel
  end.

Section Walk.
Context {S : Type} (ops : wops S).

(* one iteration of `for (reg, expr) in exprs` *)
Definition apply_rule (p : profile) (E : env) (cfa : Z) (s : S) (re : cfireg * expr) : outcome S :=
  match fst re with
  | ROther name =>
      match eval_cfi_expr p E (snd re) (Some cfa) with
      | Ret v => match o_set ops s name v with
                 | Some s' => Ret s'
                 | None => Ret (o_clear ops s name)
                 end
      | Fail => Ret (o_clear ops s name)
      | Panic t => Panic t
      | OutOfFuel => OutOfFuel
      end
  | _ => Panic PANIC_UNREACHABLE
  end.

Fixpoint apply_rules (p : profile) (E : env) (cfa : Z) (l : rmap) (s : S) : outcome S :=
  match l with
  | [] => Ret s
  | re :: r => do s' <- apply_rule p E cfa s re; apply_rules p E cfa r s'
  end.

Fixpoint parse_all (texts : list bytes) (out : rmap) : outcome rmap :=
  match texts with
  | [] => Ret out
  | t :: r => do out' <- parse_cfi_exprs t out; parse_all r out'
  end.

(* walk_with_stack_cfi.  [ord] is the order in which the rules that remain after .cfa/.ra
   are visited (a HashMap iteration before commit 3a7f18b, a sort by name after it). *)
Definition walk_cfi_ord (ord : rmap -> rmap) (p : profile) (E : env) (texts : list bytes) (s : S)
  : outcome (option S) :=
  try_ (parse_all texts []) (fun m =>
  let '(ocfa, m1) := map_remove RCfa m in
  match ocfa with None => Ret None | Some cfa_e =>
  let '(ora, m2) := map_remove RRa m1 in
  match ora with None => Ret None | Some ra_e =>
  try_ (eval_cfi_expr p E cfa_e None) (fun cfa =>
  try_ (eval_cfi_expr p E ra_e (Some cfa)) (fun ra =>
  match o_set_cfa ops s cfa with None => Ret None | Some s1 =>
  match o_set_ra ops s1 ra with None => Ret None | Some s2 =>
  try_ (apply_rules p E cfa (ord m2) s2) (fun s3 => Ret (Some s3))
  end end)) end end).
End Walk.

(* derived Ord on CfiReg: Cfa < Ra < Other(name), names byte-lexicographic *)
Definition cfireg_ltb (a b : cfireg) : bool :=
  match a, b with
  | RCfa, RCfa => false
  | RCfa, _ => true
  | RRa, RCfa => false
  | RRa, RRa => false
  | RRa, ROther _ => true
  | ROther x, ROther y => bytes_ltb x y
  | ROther _, _ => false
  end.
Fixpoint insert_rule (x : cfireg * expr) (l : rmap) : rmap :=
  match l with
  | [] => [x]
  | y :: t => if cfireg_ltb (fst y) (fst x) then y :: insert_rule x t else x :: y :: t
  end.
Definition sort_rules (l : rmap) : rmap := fold_right insert_rule [] l.

Definition walk_with_stack_cfi {S} (ops : wops S) := walk_cfi_ord ops sort_rules.

(* ---- rule selection: finish_item's sort and walk_frame's prefix ---- *)
Definition cfi_rules := (Z * bytes)%type.       (* CfiRules { address, rules } *)
Definition rules_ltb (a b : cfi_rules) : bool :=
  (fst a <? fst b) || ((fst a =? fst b) && bytes_ltb (snd a) (snd b)).
Fixpoint insert_cfi (x : cfi_rules) (l : list cfi_rules) : list cfi_rules :=
  match l with
  | [] => [x]
  | y :: t => if rules_ltb x y then x :: y :: t else y :: insert_cfi x t
  end.
(* stable insertion sort; equal elements are identical, so stability is unobservable *)
Definition sort_cfi (l : list cfi_rules) : list cfi_rules := fold_right insert_cfi [] l.
(* while count < len && add_rules[count].address <= addr *)
Fixpoint take_applicable (addr : Z) (l : list cfi_rules) : list cfi_rules :=
  match l with
  | [] => []
  | x :: t => if fst x <=? addr then x :: take_applicable addr t else []
  end.

Record cfi_record := mkCfi { c_init : cfi_rules; c_size : Z; c_add : list cfi_rules (* file order *) }.

(* StackInfoCfi::memory_range + RangeMap::get for a single record *)
Definition cfi_covers (r : cfi_record) (addr : Z) : bool :=
  negb (c_size r =? 0) &&
  match checked_add 64 (fst (c_init r)) (c_size r) with
  | Some e => (fst (c_init r) <=? addr) && (addr <=? e - 1)
  | None => false
  end.

Definition walk_frame_cfi {S} (ops : wops S) (p : profile) (E : env) (r : cfi_record) (addr : Z) (s : S)
  : outcome (option S) :=
  if cfi_covers r addr then
    walk_with_stack_cfi ops p E
      (snd (c_init r) :: map snd (take_applicable addr (sort_cfi (c_add r)))) s
  else Ret None.

(* ==== walker 1: the mock FrameWalker of the harness (harness/src/cfi_common.rs) ==== *)
Inductive cell := Unset | SetTo (v : Z) | Cleared.
Record mstate := mkM { m_cfa : option Z; m_ra : option Z; m_regs : bytes -> cell }.
Definition m_init : mstate := mkM None None (fun _ => Unset).
Definition fits (w v : Z) : bool := v <? 2 ^ (8 * w).
Definition starts_no (n : bytes) : bool :=
  match n with a :: b :: _ => (a =? 110) && (b =? 111) | _ => false end.
Definition upd (f : bytes -> cell) (n : bytes) (c : cell) : bytes -> cell :=
  fun x => if beq x n then c else f x.
Definition mock_ops (w : Z) : wops mstate :=
  mkOps mstate
    (fun s n v => if starts_no n || negb (fits w v) then None
                  else Some (mkM (m_cfa s) (m_ra s) (upd (m_regs s) n (SetTo v))))
    (fun s n => mkM (m_cfa s) (m_ra s) (upd (m_regs s) n Cleared))
    (fun s v => if fits w v then Some (mkM (Some v) (m_ra s) (m_regs s)) else None)
    (fun s v => if fits w v then Some (mkM (m_cfa s) (Some v) (m_regs s)) else None).

(* little-endian w-byte read inside [base, base + len) *)
Fixpoint le_val (l : bytes) : Z :=
  match l with [] => 0 | b :: r => b + 256 * le_val r end.
Definition mem_read (w base : Z) (data : bytes) (addr : Z) : option Z :=
  if (base <=? addr) && (addr - base + w <=? blen data) then
    Some (le_val (firstn (Z.to_nat w) (skipn (Z.to_nat (addr - base)) data)))
  else None.

Fixpoint assoc (k : bytes) (l : list (bytes * Z)) : option Z :=
  match l with
  | [] => None
  | (k', v) :: r => if beq k k' then Some v else assoc k r
  end.

(* ==== walker 2: CfiStackWalker over a real context (minidump-unwind/src/lib.rs) ==== *)
Record arch := mkArch {
  a_width : Z;                         (* size_of::<Register>() *)
  a_regs : list bytes;                 (* CpuContext::REGISTERS *)
  a_alias : list (bytes * bytes);      (* extra names accepted by memoize_register *)
  a_sp : bytes; a_ip : bytes;
  a_saved : list bytes                 (* CALLEE_SAVED_REGS of the architecture's unwinder *)
}.
Fixpoint assoc_b (k : bytes) (l : list (bytes * bytes)) : option bytes :=
  match l with
  | [] => None
  | (k', v) :: r => if beq k k' then Some v else assoc_b k r
  end.
Fixpoint mem_b (k : bytes) (l : list bytes) : bool :=
  match l with [] => false | x :: r => beq k x || mem_b k r end.
(* CpuContext::memoize_register *)
Definition memoize (a : arch) (n : bytes) : option bytes :=
  match assoc_b n (a_alias a) with
  | Some c => Some c
  | None => if mem_b n (a_regs a) then Some n else None
  end.

Definition x86 : arch := mkArch 4
  [[101; 105; 112] (* eip *);
   [101; 115; 112] (* esp *);
   [101; 98; 112] (* ebp *);
   [101; 98; 120] (* ebx *);
   [101; 115; 105] (* esi *);
   [101; 100; 105] (* edi *);
   [101; 97; 120] (* eax *);
   [101; 99; 120] (* ecx *);
   [101; 100; 120] (* edx *);
   [101; 102; 108; 97; 103; 115] (* eflags *)]
  [] [101; 115; 112] (* esp *) [101; 105; 112] (* eip *) [[101; 98; 112] (* ebp *);
   [101; 98; 120] (* ebx *);
   [101; 100; 105] (* edi *);
   [101; 115; 105] (* esi *)].
Definition amd64 : arch := mkArch 8
  [[114; 97; 120] (* rax *);
   [114; 100; 120] (* rdx *);
   [114; 99; 120] (* rcx *);
   [114; 98; 120] (* rbx *);
   [114; 115; 105] (* rsi *);
   [114; 100; 105] (* rdi *);
   [114; 98; 112] (* rbp *);
   [114; 115; 112] (* rsp *);
   [114; 56] (* r8 *);
   [114; 57] (* r9 *);
   [114; 49; 48] (* r10 *);
   [114; 49; 49] (* r11 *);
   [114; 49; 50] (* r12 *);
   [114; 49; 51] (* r13 *);
   [114; 49; 52] (* r14 *);
   [114; 49; 53] (* r15 *);
   [114; 105; 112] (* rip *)]
  [] [114; 115; 112] (* rsp *) [114; 105; 112] (* rip *) [[114; 98; 120] (* rbx *);
   [114; 98; 112] (* rbp *);
   [114; 49; 50] (* r12 *);
   [114; 49; 51] (* r13 *);
   [114; 49; 52] (* r14 *);
   [114; 49; 53] (* r15 *)].
Definition arm64 : arch := mkArch 8
  [[120; 48] (* x0 *);
   [120; 49] (* x1 *);
   [120; 50] (* x2 *);
   [120; 51] (* x3 *);
   [120; 52] (* x4 *);
   [120; 53] (* x5 *);
   [120; 54] (* x6 *);
   [120; 55] (* x7 *);
   [120; 56] (* x8 *);
   [120; 57] (* x9 *);
   [120; 49; 48] (* x10 *);
   [120; 49; 49] (* x11 *);
   [120; 49; 50] (* x12 *);
   [120; 49; 51] (* x13 *);
   [120; 49; 52] (* x14 *);
   [120; 49; 53] (* x15 *);
   [120; 49; 54] (* x16 *);
   [120; 49; 55] (* x17 *);
   [120; 49; 56] (* x18 *);
   [120; 49; 57] (* x19 *);
   [120; 50; 48] (* x20 *);
   [120; 50; 49] (* x21 *);
   [120; 50; 50] (* x22 *);
   [120; 50; 51] (* x23 *);
   [120; 50; 52] (* x24 *);
   [120; 50; 53] (* x25 *);
   [120; 50; 54] (* x26 *);
   [120; 50; 55] (* x27 *);
   [120; 50; 56] (* x28 *);
   [102; 112] (* fp *);
   [108; 114] (* lr *);
   [115; 112] (* sp *);
   [112; 99] (* pc *)]
  [([120; 50; 57] (* x29 *), [102; 112] (* fp *)); ([120; 51; 48] (* x30 *), [108; 114] (* lr *))] [115; 112] (* sp *) [112; 99] (* pc *)
  [[120; 49; 57] (* x19 *);
   [120; 50; 48] (* x20 *);
   [120; 50; 49] (* x21 *);
   [120; 50; 50] (* x22 *);
   [120; 50; 51] (* x23 *);
   [120; 50; 52] (* x24 *);
   [120; 50; 53] (* x25 *);
   [120; 50; 54] (* x26 *);
   [120; 50; 55] (* x27 *);
   [120; 50; 56] (* x28 *);
   [102; 112] (* fp *)].

(* caller_ctx (by canonical name) and caller_validity *)
Record rstate := mkR { r_ctx : bytes -> Z; r_valid : bytes -> bool }.
Definition updz (f : bytes -> Z) (n : bytes) (v : Z) : bytes -> Z := fun x => if beq x n then v else f x.
Definition updb (f : bytes -> bool) (n : bytes) (v : bool) : bytes -> bool := fun x => if beq x n then v else f x.
Definition real_set (a : arch) (s : rstate) (n : bytes) (v : Z) : option rstate :=
  match memoize a n with
  | None => None
  | Some c => if fits (a_width a) v then Some (mkR (updz (r_ctx s) c v) (updb (r_valid s) c true)) else None
  end.
Definition real_ops (a : arch) : wops rstate :=
  mkOps rstate
    (real_set a)
    (fun s n => match memoize a n with
                | Some c => mkR (r_ctx s) (updb (r_valid s) c false)
                | None => s
                end)
    (fun s v => real_set a s (a_sp a) v)
    (fun s v => real_set a s (a_ip a) v).
(* clear_caller_register before commit 2c8a29b: removal by the name as written *)
Definition real_ops_exactclear (a : arch) : wops rstate :=
  mkOps rstate (real_set a)
    (fun s n => mkR (r_ctx s) (updb (r_valid s) n false))
    (fun s v => real_set a s (a_sp a) v)
    (fun s v => real_set a s (a_ip a) v).

(* callee context: values by canonical name, validity All or Some(set of canonical names) *)
Definition real_callee (a : arch) (ctx : list (bytes * Z)) (valid : option (list bytes)) (n : bytes) : option Z :=
  match memoize a n with
  | None => None
  | Some c =>
      let ok := match valid with None => true | Some which => mem_b c which end in
      if ok then Some (match assoc c ctx with Some v => v | None => 0 end) else None
  end.
(* from_ctx_and_args: caller_ctx = callee ctx, caller_validity = forwarded callee-saved registers *)
Definition real_init (a : arch) (ctx : list (bytes * Z)) (valid : option (list bytes)) : rstate :=
  mkR (fun n => match assoc n ctx with Some v => v | None => 0 end)
      (fun n => mem_b n (a_saved a) &&
                match valid with None => true | Some which => mem_b n which end).

(* ==== the documented semantics, written independently (walker.rs module docs,
        "STACK CFI expressions") ==== *)
Inductive stok :=
| SBin (op : Z)           (* the byte of + - * / % @ *)
| SDeref                  (* ^ *)
| SCfa | SUndef
| SLit (v : Z)            (* signed decimal integer within i64 *)
| SReg (name : bytes)     (* $name or name *)
| SJunk.

Definition is_alnum (c : Z) : bool :=
  ((48 <=? c) && (c <=? 57)) || ((65 <=? c) && (c <=? 90)) || ((97 <=? c) && (c <=? 122)) || (c =? 95).
Definition is_binop_byte (c : Z) : bool :=
  (c =? 43) || (c =? 45) || (c =? 42) || (c =? 47) || (c =? 37) || (c =? 64).
Definition is_nil (b : bytes) : bool := match b with [] => true | _ => false end.

Definition spec_lex (t : bytes) : stok :=
  match t with
  | [c] =>
      if is_binop_byte c then SBin c
      else if c =? 94 then SDeref
      else match digit c with
           | Some d => SLit d
           | None => if is_alnum c then SReg t else SJunk
           end
  | _ =>
      if beq t T_cfa then SCfa
      else if beq t T_undef then SUndef
      else match strip_prefix_dollar t with
           | Some n => if forallb is_alnum n && negb (is_nil n) then SReg n else SJunk
           | None =>
               match parse_int 64 t with
               | Some v => SLit v
               | None => if forallb is_alnum t && negb (is_nil t) then SReg t else SJunk
               end
           end
  end.

Definition spec_bin (op l r : Z) : option Z :=
  if op =? 43 then Some ((l + r) mod two64)
  else if op =? 45 then Some ((l - r) mod two64)
  else if op =? 42 then Some ((l * r) mod two64)
  else if op =? 47 then (if r =? 0 then None else Some (l / r))
  else if op =? 37 then (if r =? 0 then None else Some (l mod r))
  else (* @: truncate l to a multiple of r, r a power of two *)
       if (0 <? r) && (r =? 2 ^ Z.log2 r) then Some (l - l mod r) else None.

(* one token of a postfix program; None = "the rule fails" *)
Definition spec_step (E : env) (cfa : option Z) (k : stok) (st : list Z) : option (list Z) :=
  match k with
  | SBin op => match st with
               | y :: x :: s => match spec_bin op x y with Some v => Some (v :: s) | None => None end
               | _ => None
               end
  | SDeref => match st with
              | a :: s => match e_mem E a with Some v => Some (v :: s) | None => None end
              | [] => None
              end
  | SCfa => match cfa with Some c => Some (c :: st) | None => None end
  | SUndef => None
  | SLit v => Some (v mod two64 :: st)
  | SReg n => match e_callee E n with Some v => Some (v :: st) | None => None end
  | SJunk => None
  end.
Fixpoint spec_run (E : env) (cfa : option Z) (prog : list stok) (st : list Z) : option (list Z) :=
  match prog with
  | [] => Some st
  | k :: r => match spec_step E cfa k st with Some st' => spec_run E cfa r st' | None => None end
  end.
Definition spec_eval (E : env) (cfa : option Z) (e : expr) : option Z :=
  match spec_run E cfa (map spec_lex e) [] with
  | Some [v] => Some v
  | _ => None
  end.

(* ==== the documented rule-set semantics ("STACK CFI registers": REG: EXPR REG: EXPR ..., INIT first,
        applicable deltas in order, a later rule for a register replaces an earlier one) ==== *)
Definition is_nil_l {A} (l : list A) : bool := match l with [] => true | _ => false end.

(* right-to-left grouping: (tokens before the first label, [(label, its expression)]) *)
Fixpoint split_groups (toks : list bytes) : expr * list (bytes * expr) :=
  match toks with
  | [] => ([], [])
  | t :: r =>
      let '(pre, gs) := split_groups r in
      match strip_suffix_colon t with
      | Some name => ([], (name, pre) :: gs)
      | None => (t :: pre, gs)
      end
  end.
(* well-formed: starts with a label, at least one rule, no empty expression *)
Definition spec_pairs (toks : list bytes) : option (list (cfireg * expr)) :=
  let '(pre, gs) := split_groups toks in
  if is_nil_l pre && negb (is_nil_l gs) && forallb (fun g => negb (is_nil_l (snd g))) gs
  then Some (map (fun g => (classify_reg (fst g), snd g)) gs)
  else None.
Fixpoint all_pairs (texts : list bytes) : option (list (cfireg * expr)) :=
  match texts with
  | [] => Some []
  | t :: r =>
      match spec_pairs (split_ws t), all_pairs r with
      | Some a, Some b => Some (a ++ b)
      | _, _ => None
      end
  end.
(* the rule in force for a register: the LAST pair naming it *)
Fixpoint last_rule (k : cfireg) (ps : list (cfireg * expr)) : option expr :=
  match ps with
  | [] => None
  | (k', e) :: r =>
      match last_rule k r with
      | Some e' => Some e'
      | None => if cfireg_eqb k k' then Some e else None
      end
  end.

(* what the mock walker holds for a general register after its rule: the value, or Cleared when
   the rule fails or the walker rejects the value *)
Definition mock_cell (w : Z) (n : bytes) (o : option Z) : cell :=
  match o with
  | Some v => if starts_no n || negb (fits w v) then Cleared else SetTo v
  | None => Cleared
  end.

(* the documented result of unwinding one frame with the mock walker: None, or (cfa, ra, registers) *)
Definition cfi_spec (w : Z) (E : env) (r : cfi_record) (addr : Z) : option (Z * Z * (bytes -> cell)) :=
  if cfi_covers r addr then
    match all_pairs (snd (c_init r) :: map snd (take_applicable addr (sort_cfi (c_add r)))) with
    | None => None
    | Some ps =>
        match last_rule RCfa ps, last_rule RRa ps with
        | Some ce, Some re =>
            match spec_eval E None ce with
            | None => None
            | Some cfa =>
                match spec_eval E (Some cfa) re with
                | None => None
                | Some ra =>
                    if fits w cfa && fits w ra then
                      Some (cfa, ra, fun n => match last_rule (ROther n) ps with
                                              | Some e => mock_cell w n (spec_eval E (Some cfa) e)
                                              | None => Unset
                                              end)
                    else None
                end
            end
        | _, _ => None
        end
    end
  else None.

(* ==== the documented result for the REAL walker (CfiStackWalker over a context of architecture [a]):
        caller context and validity, register by canonical (memoized) name ==== *)
(* the first rule target in [l] that names the machine register [c] *)
Fixpoint find_canon (a : arch) (c : bytes) (l : list (cfireg * expr)) : option (bytes * expr) :=
  match l with
  | [] => None
  | (ROther n, e) :: r =>
      match memoize a n with
      | Some c' => if beq c' c then Some (n, e) else find_canon a c r
      | None => find_canon a c r
      end
  | _ :: r => find_canon a c r
  end.

Definition cfi_spec_real (a : arch) (E : env) (r : cfi_record) (addr : Z) (s0 : rstate)
  : option ((bytes -> Z) * (bytes -> bool)) :=
  if cfi_covers r addr then
    match all_pairs (snd (c_init r) :: map snd (take_applicable addr (sort_cfi (c_add r)))) with
    | None => None
    | Some ps =>
        match last_rule RCfa ps, last_rule RRa ps with
        | Some ce, Some re =>
            match spec_eval E None ce with
            | None => None
            | Some cfa =>
                match spec_eval E (Some cfa) re with
                | None => None
                | Some ra =>
                    match memoize a (a_sp a), memoize a (a_ip a) with
                    | Some spc, Some ipc =>
                        if fits (a_width a) cfa && fits (a_width a) ra then
                          (* the stack pointer is the CFA, the instruction pointer the return address;
                             everything else starts as forwarded from the callee (s0) *)
                          let bctx := fun c => if beq c ipc then ra else if beq c spc then cfa else r_ctx s0 c in
                          let bval := fun c => if beq c ipc then true else if beq c spc then true else r_valid s0 c in
                          (* a register with a rule: its value if the rule evaluates and fits, else unknown *)
                          let res := fun c =>
                            match find_canon a c ps with
                            | Some (n, _) =>
                                match last_rule (ROther n) ps with
                                | Some e =>
                                    match spec_eval E (Some cfa) e with
                                    | Some v => if fits (a_width a) v then (v, true) else (bctx c, false)
                                    | None => (bctx c, false)
                                    end
                                | None => (bctx c, bval c)
                                end
                            | None => (bctx c, bval c)
                            end in
                          Some (fun c => fst (res c), fun c => snd (res c))
                        else None
                    | _, _ => None
                    end
                end
            end
        | _, _ => None
        end
    end
  else None.
