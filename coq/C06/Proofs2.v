(* C06/Proofs2.v — order irrelevance and failure modes. *)
From Coq Require Import String Lia Permutation Morphisms Setoid.
From RM Require Import C06.Model C06.Proofs.
Import ListNotations.
Open Scope Z_scope.

(* ---- folding commuting steps over a permutation ---- *)
Section Fold.
Context {S X : Type} (eqv : S -> S -> Prop) (Heq : Equivalence eqv) (f : S -> X -> S).
Hypothesis f_proper : forall s s' x, eqv s s' -> eqv (f s x) (f s' x).

Lemma fold_proper : forall l s s', eqv s s' -> eqv (fold_left f l s) (fold_left f l s').
Proof. induction l as [|x r IH]; intros s s' H; cbn [fold_left]; auto. Qed.

Lemma fold_perm : forall l l', Permutation l l' ->
  (forall x y, In x l -> In y l -> x <> y -> forall s, eqv (f (f s x) y) (f (f s y) x)) ->
  NoDup l -> forall s s', eqv s s' -> eqv (fold_left f l s) (fold_left f l' s').
Proof.
  induction 1 as [|x l l' Hp IH|x y l|l l' l'' Hp1 IH1 Hp2 IH2]; intros Hc Hnd s s' Hs.
  - exact Hs.
  - cbn [fold_left]. inversion Hnd; subst. apply IH; auto.
    intros a b Ha Hb. apply Hc; right; assumption.
  - cbn [fold_left]. inversion Hnd as [|? ? Hn1 Hd1]; subst.
    assert (Hxy : y <> x) by (intro; subst; apply Hn1; left; reflexivity).
    apply fold_proper. etransitivity.
    + apply (Hc y x); [left; reflexivity|right; left; reflexivity|exact Hxy].
    + apply f_proper. apply f_proper. exact Hs.
  - etransitivity.
    + apply (IH1 Hc Hnd s s). reflexivity.
    + apply IH2; auto.
      * intros a b Ha Hb. apply Hc; eapply Permutation_in; try (apply Permutation_sym; exact Hp1); assumption.
      * eapply Permutation_NoDup; eauto.
Qed.
End Fold.

(* ---- order irrelevance of the remaining rules ---- *)
Definition other_names (m : rmap) : list bytes :=
  flat_map (fun x => match fst x with ROther n => [n] | _ => [] end) m.
(* the general-register targets of a rule set *)
Definition targets (texts : list bytes) : list bytes :=
  match parse_all texts [] with Ret m => other_names m | _ => [] end.

Definition act_proper {S} (ops : wops S) (eqv : S -> S -> Prop) : Prop :=
  forall s s' n o, eqv s s' -> eqv (act ops s n o) (act ops s' n o).
(* two distinct rule targets never name the same thing in the walker *)
Definition nonaliasing {S} (ops : wops S) (eqv : S -> S -> Prop) (names : list bytes) : Prop :=
  forall n1 n2, In n1 names -> In n2 names -> n1 <> n2 ->
  forall s o1 o2, eqv (act ops (act ops s n1 o1) n2 o2) (act ops (act ops s n2 o2) n1 o1).

Definition oeqv {S} (eqv : S -> S -> Prop) (x y : outcome (option S)) : Prop :=
  match x, y with
  | Ret (Some a), Ret (Some b) => eqv a b
  | Ret None, Ret None => True
  | _, _ => False
  end.

Lemma in_other_names : forall m n e, In (ROther n, e) m -> In n (other_names m).
Proof.
  intros m n e H. unfold other_names. apply in_flat_map. exists (ROther n, e). split; [exact H|left; reflexivity].
Qed.

Lemma nodup_fst_inj : forall (l : rmap) x y, NoDup (map fst l) -> In x l -> In y l -> fst x = fst y -> x = y.
Proof.
  induction l as [|a r IH]; intros x y Hn Hx Hy Hf; [contradiction|].
  cbn in Hn. inversion Hn as [|? ? Hnin Hd]; subst.
  destruct Hx as [Hx|Hx], Hy as [Hy|Hy]; subst; auto.
  - exfalso. apply Hnin. rewrite Hf. apply in_map. exact Hy.
  - exfalso. apply Hnin. rewrite <- Hf. apply in_map. exact Hx.
Qed.

Theorem order_irrelevant : forall S (ops : wops S) (eqv : S -> S -> Prop), Equivalence eqv ->
  act_proper ops eqv ->
  forall ord1 ord2 : rmap -> rmap,
  (forall l, Permutation (ord1 l) l) -> (forall l, Permutation (ord2 l) l) ->
  forall p E texts s,
  nonaliasing ops eqv (targets texts) ->
  oeqv eqv (walk_cfi_ord ops ord1 p E texts s) (walk_cfi_ord ops ord2 p E texts s).
Proof.
  intros S ops eqv Heq Hprop ord1 ord2 Ho1 Ho2 p E texts s Hna. unfold walk_cfi_ord.
  unfold targets in Hna.
  pose proof (parse_all_ok texts []) as Hp.
  destruct (parse_all texts []) as [m| | |] eqn:Em; cbn in Hp; try contradiction; cbn [try_]; [|exact I].
  assert (Hn : NoDup (map fst m)) by (eapply parse_all_nodup; [|exact Em]; constructor).
  destruct (map_remove RCfa m) as [ocfa m1] eqn:E1.
  destruct ocfa as [cfa_e|]; [|exact I].
  destruct (map_remove RRa m1) as [ora m2] eqn:E2.
  destruct ora as [ra_e|]; [|exact I].
  rewrite (eval_val p E cfa_e None).
  destruct (val p E None cfa_e) as [cfa|]; cbn [try_]; [|exact I].
  rewrite (eval_val p E ra_e (Some cfa)).
  destruct (val p E (Some cfa) ra_e) as [ra|]; cbn [try_]; [|exact I].
  destruct (o_set_cfa ops s cfa) as [s1|]; [|exact I].
  destruct (o_set_ra ops s1 ra) as [s2|]; [|exact I].
  pose proof (remaining_all_other _ _ _ _ _ Hn E1 E2) as Hall.
  destruct (map_remove_spec _ _ _ _ Hn E1) as [_ [B1 [C1 _]]].
  destruct (map_remove_spec _ _ _ _ B1 E2) as [_ [B2 [C2 _]]].
  rewrite !apply_rules_fold.
  2:{ intros x Hx. apply Hall. eapply Permutation_in; [apply Ho2|exact Hx]. }
  2:{ intros x Hx. apply Hall. eapply Permutation_in; [apply Ho1|exact Hx]. }
  cbn [try_ oeqv].
  apply (fold_perm eqv Heq (stepf ops p E cfa)).
  - intros a b x Hab. unfold stepf. destruct (fst x); auto.
  - eapply Permutation_trans; [apply Ho1|apply Permutation_sym; apply Ho2].
  - intros x y Hx Hy Hxy s0.
    assert (Hx2 : In x m2) by (eapply Permutation_in; [apply Ho1|exact Hx]).
    assert (Hy2 : In y m2) by (eapply Permutation_in; [apply Ho1|exact Hy]).
    destruct (Hall x Hx2) as [n1 Hn1]. destruct (Hall y Hy2) as [n2 Hn2].
    unfold stepf. rewrite Hn1, Hn2.
    apply Hna.
    + destruct x as [kx ex]. cbn in Hn1. subst kx. eapply in_other_names. apply C1. apply C2. exact Hx2.
    + destruct y as [ky ey]. cbn in Hn2. subst ky. eapply in_other_names. apply C1. apply C2. exact Hy2.
    + intro Heqn. subst n2. apply Hxy. eapply nodup_fst_inj; eauto. congruence.
  - eapply Permutation_NoDup; [apply Permutation_sym; apply Ho1|].
    eapply NoDup_map_inv. exact B2.
  - reflexivity.
Qed.

(* ---- the mock walker never aliases ---- *)
Definition meqv (a b : mstate) : Prop :=
  m_cfa a = m_cfa b /\ m_ra a = m_ra b /\ forall n, m_regs a n = m_regs b n.
Lemma meqv_equiv : Equivalence meqv.
Proof.
  split.
  - intro a. repeat split.
  - intros a b [H1 [H2 H3]]. repeat split; auto.
  - intros a b c [H1 [H2 H3]] [G1 [G2 G3]]. repeat split; try congruence; try (intro n; rewrite H3; apply G3).
Qed.

Lemma mock_act_regs : forall w s n o x,
  m_regs (act (mock_ops w) s n o) x =
  if beq x n then match o with
                  | Some v => if starts_no n || negb (fits w v) then Cleared else SetTo v
                  | None => Cleared
                  end
  else m_regs s x.
Proof.
  intros w s n o x. unfold act, mock_ops. cbn [o_set o_clear].
  destruct o as [v|]; [destruct (starts_no n || negb (fits w v))|]; cbn [m_regs]; unfold upd; destruct (beq x n); reflexivity.
Qed.
Lemma mock_act_cfa_ra : forall w s n o,
  m_cfa (act (mock_ops w) s n o) = m_cfa s /\ m_ra (act (mock_ops w) s n o) = m_ra s.
Proof.
  intros w s n o. unfold act, mock_ops. cbn [o_set o_clear].
  destruct o as [v|]; [destruct (starts_no n || negb (fits w v))|]; cbn; split; reflexivity.
Qed.

Lemma mock_act_proper : forall w, act_proper (mock_ops w) meqv.
Proof.
  intros w s s' n o [H1 [H2 H3]]. unfold meqv.
  destruct (mock_act_cfa_ra w s n o) as [A B]. destruct (mock_act_cfa_ra w s' n o) as [A' B'].
  rewrite A, B, A', B'. repeat split; auto.
  intro x. rewrite !mock_act_regs. destruct (beq x n); auto.
Qed.

Lemma mock_nonaliasing : forall w names, nonaliasing (mock_ops w) meqv names.
Proof.
  intros w names n1 n2 _ _ Hne s o1 o2. unfold meqv.
  repeat match goal with |- context [m_cfa (act (mock_ops w) ?s ?n ?o)] =>
    destruct (mock_act_cfa_ra w s n o) as [-> _] end.
  repeat match goal with |- context [m_ra (act (mock_ops w) ?s ?n ?o)] =>
    destruct (mock_act_cfa_ra w s n o) as [_ ->] end.
  repeat split; auto.
  intro x. rewrite !mock_act_regs.
  destruct (beq x n1) eqn:E1, (beq x n2) eqn:E2; auto.
  apply beq_eq in E1. apply beq_eq in E2. congruence.
Qed.

(* ---- the real walker: non-aliasing = distinct canonical registers ---- *)
Definition reqv (a b : rstate) : Prop :=
  forall n, r_ctx a n = r_ctx b n /\ r_valid a n = r_valid b n.
Lemma reqv_equiv : Equivalence reqv.
Proof.
  split.
  - intros a n. split; reflexivity.
  - intros a b H n. destruct (H n). split; auto.
  - intros a b c H G n. destruct (H n), (G n). split; congruence.
Qed.

Lemma real_act_spec : forall a s n o,
  act (real_ops a) s n o =
  match memoize a n with
  | None => s
  | Some c => match o with
              | Some v => if fits (a_width a) v then mkR (updz (r_ctx s) c v) (updb (r_valid s) c true)
                          else mkR (r_ctx s) (updb (r_valid s) c false)
              | None => mkR (r_ctx s) (updb (r_valid s) c false)
              end
  end.
Proof.
  intros a s n o. unfold act, real_ops. cbn [o_set o_clear]. unfold real_set.
  destruct (memoize a n) as [c|]; destruct o as [v|]; try reflexivity.
  destruct (fits (a_width a) v); reflexivity.
Qed.

Lemma real_act_proper : forall a, act_proper (real_ops a) reqv.
Proof.
  intros a s s' n o H. rewrite !real_act_spec.
  destruct (memoize a n) as [c|]; [|exact H].
  destruct o as [v|]; [destruct (fits (a_width a) v)|]; intro x; destruct (H x) as [H1 H2]; cbn [r_ctx r_valid];
    unfold updz, updb; destruct (beq x c); auto.
Qed.

Definition canon_distinct (a : arch) (names : list bytes) : Prop :=
  forall n1 n2, In n1 names -> In n2 names -> n1 <> n2 ->
  memoize a n1 = None \/ memoize a n2 = None \/ memoize a n1 <> memoize a n2.

Lemma real_nonaliasing : forall a names, canon_distinct a names -> nonaliasing (real_ops a) reqv names.
Proof.
  intros a names Hcd n1 n2 H1 H2 Hne s o1 o2. specialize (Hcd n1 n2 H1 H2 Hne).
  rewrite !real_act_spec.
  destruct (memoize a n1) as [c1|] eqn:M1, (memoize a n2) as [c2|] eqn:M2; try (apply reqv_equiv).
  assert (Hc : c1 <> c2) by (destruct Hcd as [D|[D|D]]; congruence).
  assert (Hb : forall x, beq x c1 = true -> beq x c2 = false).
  { intros x Hx. apply beq_eq in Hx. subst. apply beq_neq. exact Hc. }
  intro x.
  destruct o1 as [v1|]; [destruct (fits (a_width a) v1)|];
  (destruct o2 as [v2|]; [destruct (fits (a_width a) v2)|]);
  cbn [r_ctx r_valid]; unfold updz, updb;
  destruct (beq x c1) eqn:B1; try rewrite (Hb x B1); destruct (beq x c2); split; reflexivity.
Qed.

(* aliasing targets: the order is observable (arm64 x29 / fp) *)
Definition alias_texts : list bytes := [bs ".cfa: 16 .ra: 8 x29: 111 fp: 222"].
Definition null_env : env := mkEnv (fun _ => None) (fun _ => None) 0 false 0.
Lemma alias_order_matters :
  match walk_cfi_ord (real_ops arm64) (fun l => l) Debug null_env alias_texts (real_init arm64 [] None),
        walk_cfi_ord (real_ops arm64) (@rev _) Debug null_env alias_texts (real_init arm64 [] None) with
  | Ret (Some a), Ret (Some b) => r_ctx a (bs "fp") = 222 /\ r_ctx b (bs "fp") = 111
  | _, _ => False
  end.
Proof. vm_compute. split; reflexivity. Qed.
Lemma alias_not_canon_distinct : ~ canon_distinct arm64 (targets alias_texts).
Proof.
  intro H. specialize (H (bs "x29") (bs "fp")).
  assert (T : targets alias_texts = [bs "x29"; bs "fp"]) by (vm_compute; reflexivity).
  rewrite T in H. destruct H as [H|[H|H]]; try (vm_compute in H; discriminate).
  - left; reflexivity.
  - right; left; reflexivity.
  - vm_compute. discriminate.
  - vm_compute in H. apply H. reflexivity.
Qed.

(* ---- failure modes of one expression ---- *)
Lemma eval_loop_app : forall p E cfa a b st,
  eval_loop p E cfa (a ++ b) st = obind (eval_loop p E cfa a st) (fun st' => eval_loop p E cfa b st').
Proof.
  induction a as [|t r IH]; intros b st; cbn [app eval_loop obind]; [reflexivity|].
  destruct (eval_step p E cfa t st); cbn [obind]; auto.
Qed.

Lemma eval_fail_at : forall p E cfa pre t post st,
  eval_loop p E cfa pre [] = Ret st -> eval_step p E cfa t st = Fail ->
  eval_cfi_expr p E (pre ++ t :: post) cfa = Fail.
Proof.
  intros p E cfa pre t post st H1 H2. unfold eval_cfi_expr.
  rewrite eval_loop_app, H1. cbn [obind eval_loop]. rewrite H2. reflexivity.
Qed.

Definition is_binop (t : bytes) : Prop :=
  t = T_plus \/ t = T_minus \/ t = T_star \/ t = T_slash \/ t = T_pct \/ t = T_at.

Lemma fm_underflow_binop : forall p E cfa t st, is_binop t -> (length st < 2)%nat -> eval_step p E cfa t st = Fail.
Proof.
  intros p E cfa t st Ht Hl.
  destruct st as [|a [|b s]]; cbn in Hl; try lia;
  destruct Ht as [H|[H|[H|[H|[H|H]]]]]; subst; reflexivity.
Qed.
Lemma fm_underflow_deref : forall p E cfa, eval_step p E cfa T_caret [] = Fail.
Proof. reflexivity. Qed.
Lemma fm_div_zero : forall p E cfa l s, eval_step p E cfa T_slash (0 :: l :: s) = Fail.
Proof. reflexivity. Qed.
Lemma fm_rem_zero : forall p E cfa l s, eval_step p E cfa T_pct (0 :: l :: s) = Fail.
Proof. reflexivity. Qed.
Lemma fm_align_not_pow2 : forall p E cfa r l s, is_pow2 r = false -> eval_step p E cfa T_at (r :: l :: s) = Fail.
Proof.
  intros p E cfa r l s H. unfold eval_step. cbn [beq T_at T_plus T_minus T_star T_slash T_pct Z.eqb Pos.eqb andb].
  cbn [binop]. rewrite H. cbn [negb]. rewrite orb_true_r. reflexivity.
Qed.
Lemma fm_unreadable : forall p E cfa a s, e_mem E a = None -> eval_step p E cfa T_caret (a :: s) = Fail.
Proof.
  intros p E cfa a s H. unfold eval_step. cbn [beq T_caret T_at T_plus T_minus T_star T_slash T_pct Z.eqb Pos.eqb andb].
  rewrite H. reflexivity.
Qed.
Lemma fm_undef : forall p E cfa st, eval_step p E cfa T_undef st = Fail.
Proof. reflexivity. Qed.
Lemma fm_cfa_in_cfa : forall p E st, eval_step p E None T_cfa st = Fail.
Proof. reflexivity. Qed.
Lemma fm_unknown_dollar_reg : forall p E cfa n st,
  n <> [] -> e_callee E n = None -> eval_step p E cfa (36 :: n) st = Fail.
Proof.
  intros p E cfa n st Hn H. unfold eval_step.
  cbn [beq T_caret T_at T_plus T_minus T_star T_slash T_pct T_cfa T_undef Z.eqb Pos.eqb andb after_dollar].
  rewrite H. reflexivity.
Qed.
Lemma fm_unknown_bare_reg : forall p E cfa t st,
  is_special t = false -> after_dollar t = None -> parse_int 64 t = None -> e_callee E t = None ->
  eval_step p E cfa t st = Fail.
Proof.
  intros p E cfa t st Hs Ha Hp Hc. unfold is_special in Hs. cbn [existsb] in Hs.
  repeat (apply orb_false_elim in Hs; destruct Hs as [?H Hs]).
  unfold eval_step.
  repeat match goal with H : beq t ?c = false |- _ => rewrite H; clear H end.
  rewrite Ha, Hp, Hc. reflexivity.
Qed.
Lemma fm_leftover : forall p E cfa e st,
  eval_loop p E cfa e [] = Ret st -> length st <> 1%nat -> eval_cfi_expr p E e cfa = Fail.
Proof.
  intros p E cfa e st H Hl. unfold eval_cfi_expr. rewrite H. cbn [obind].
  destruct st as [|v [|w s]]; try reflexivity. cbn in Hl. lia.
Qed.

(* ---- failure modes of the walk ---- *)
Lemma fm_parse_fails : forall S (ops : wops S) ord p E texts s,
  parse_all texts [] = Fail -> walk_cfi_ord ops ord p E texts s = Ret None.
Proof. intros. unfold walk_cfi_ord. rewrite H. reflexivity. Qed.

Lemma fm_cfa_mandatory : forall S (ops : wops S) ord p E texts s m,
  parse_all texts [] = Ret m ->
  (fst (map_remove RCfa m) = None \/
   exists e, fst (map_remove RCfa m) = Some e /\ eval_cfi_expr p E e None = Fail) ->
  walk_cfi_ord ops ord p E texts s = Ret None.
Proof.
  intros S ops ord p E texts s m Hm H. unfold walk_cfi_ord. rewrite Hm. cbn [try_].
  destruct (map_remove RCfa m) as [ocfa m1]. cbn [fst] in H.
  destruct H as [H|[e [H1 H2]]]; subst; [reflexivity|].
  destruct (map_remove RRa m1) as [ora m2]. destruct ora; [|reflexivity].
  rewrite H2. reflexivity.
Qed.

Lemma fm_ra_mandatory : forall S (ops : wops S) ord p E texts s m cfa_e m1 cfa,
  parse_all texts [] = Ret m -> map_remove RCfa m = (Some cfa_e, m1) ->
  eval_cfi_expr p E cfa_e None = Ret cfa ->
  (fst (map_remove RRa m1) = None \/
   exists e, fst (map_remove RRa m1) = Some e /\ eval_cfi_expr p E e (Some cfa) = Fail) ->
  walk_cfi_ord ops ord p E texts s = Ret None.
Proof.
  intros S ops ord p E texts s m cfa_e m1 cfa Hm H1 Hc H. unfold walk_cfi_ord. rewrite Hm. cbn [try_].
  rewrite H1. destruct (map_remove RRa m1) as [ora m2]. cbn [fst] in H.
  destruct H as [H|[e [H2 H3]]]; subst; [reflexivity|].
  rewrite Hc. cbn [try_]. rewrite H3. reflexivity.
Qed.

(* the mock walker's final register file, rule by rule *)

Lemma fold_regs_notin : forall w p E cfa l s n,
  ~ In (ROther n) (map fst l) ->
  m_regs (fold_left (stepf (mock_ops w) p E cfa) l s) n = m_regs s n.
Proof.
  induction l as [|[k e] r IH]; intros s n Hn; cbn [fold_left]; [reflexivity|].
  cbn in Hn. rewrite IH by tauto.
  unfold stepf. cbn [fst snd]. destruct k; try reflexivity.
  rewrite mock_act_regs. destruct (beq n name) eqn:B; [|reflexivity].
  apply beq_eq in B. subst. exfalso. apply Hn. left. reflexivity.
Qed.
Lemma fold_regs_in : forall w p E cfa l s n e,
  NoDup (map fst l) -> In (ROther n, e) l ->
  m_regs (fold_left (stepf (mock_ops w) p E cfa) l s) n = mock_cell w n (val p E (Some cfa) e).
Proof.
  induction l as [|[k e'] r IH]; intros s n e Hnd Hin; [contradiction|].
  cbn [fold_left]. cbn in Hnd. inversion Hnd as [|? ? Hnin Hd]; subst.
  destruct Hin as [Hin|Hin].
  - inversion Hin; subst. rewrite fold_regs_notin by exact Hnin.
    unfold stepf. cbn [fst snd]. rewrite mock_act_regs, beq_refl. reflexivity.
  - eapply IH; eauto.
Qed.
Lemma fold_cfa_ra : forall w p E cfa l s,
  m_cfa (fold_left (stepf (mock_ops w) p E cfa) l s) = m_cfa s /\
  m_ra (fold_left (stepf (mock_ops w) p E cfa) l s) = m_ra s.
Proof.
  induction l as [|[k e] r IH]; intro s; cbn [fold_left]; [split; reflexivity|].
  destruct (IH (stepf (mock_ops w) p E cfa s (k, e))) as [A B]. rewrite A, B.
  unfold stepf. cbn [fst snd]. destruct k; try (split; reflexivity). apply mock_act_cfa_ra.
Qed.

Theorem mock_walk_result : forall w p E texts s s' m,
  walk_with_stack_cfi (mock_ops w) p E texts s = Ret (Some s') -> parse_all texts [] = Ret m ->
  exists cfa ra,
    m_cfa s' = Some cfa /\ m_ra s' = Some ra /\
    (exists e, In (RCfa, e) m /\ eval_cfi_expr p E e None = Ret cfa) /\
    (exists e, In (RRa, e) m /\ eval_cfi_expr p E e (Some cfa) = Ret ra) /\
    (forall n e, In (ROther n, e) m -> m_regs s' n = mock_cell w n (val p E (Some cfa) e)) /\
    (forall n, ~ In (ROther n) (map fst m) -> m_regs s' n = m_regs s n).
Proof.
  intros w p E texts s s' m H Hm. unfold walk_with_stack_cfi, walk_cfi_ord in H. rewrite Hm in H. cbn [try_] in H.
  assert (Hn : NoDup (map fst m)) by (eapply parse_all_nodup; [|exact Hm]; constructor).
  destruct (map_remove RCfa m) as [ocfa m1] eqn:E1.
  destruct ocfa as [cfa_e|]; [|discriminate].
  destruct (map_remove RRa m1) as [ora m2] eqn:E2.
  destruct ora as [ra_e|]; [|discriminate].
  destruct (map_remove_spec _ _ _ _ Hn E1) as [A1 [B1 [C1 [D1 F1]]]].
  destruct (map_remove_spec _ _ _ _ B1 E2) as [A2 [B2 [C2 [D2 F2]]]].
  pose proof (eval_val p E cfa_e None) as Vc. rewrite Vc in H.
  destruct (val p E None cfa_e) as [cfa|] eqn:Ec; cbn [try_] in H; [|discriminate].
  pose proof (eval_val p E ra_e (Some cfa)) as Vr. rewrite Vr in H.
  destruct (val p E (Some cfa) ra_e) as [ra|] eqn:Er; cbn [try_] in H; [|discriminate].
  cbn [mock_ops o_set_cfa o_set_ra] in H.
  destruct (fits w cfa); [|discriminate]. cbn [m_cfa m_ra m_regs] in H.
  destruct (fits w ra); [|discriminate].
  pose proof (remaining_all_other _ _ _ _ _ Hn E1 E2) as Hall.
  rewrite apply_rules_fold in H.
  2:{ intros x Hx. apply Hall. eapply Permutation_in; [apply sort_rules_perm|exact Hx]. }
  cbn [try_] in H. inversion H as [Hs']. clear H.
  set (s2 := mkM (Some cfa) (Some ra) (m_regs s)) in *.
  destruct (fold_cfa_ra w p E cfa (sort_rules m2) s2) as [Fc Fr].
  exists cfa, ra. rewrite Fc, Fr. repeat split; try reflexivity.
  - exists cfa_e. split; [exact F1|exact Vc].
  - exists ra_e. split; [apply C1; exact F2|exact Vr].
  - intros n e Hin. apply fold_regs_in.
    + eapply Permutation_NoDup; [apply Permutation_map; apply Permutation_sym; apply sort_rules_perm|exact B2].
    + eapply Permutation_in; [apply Permutation_sym; apply sort_rules_perm|].
      apply D2; [apply D1; [exact Hin|cbn; discriminate]|cbn; discriminate].
  - intros n Hnin. rewrite fold_regs_notin; [reflexivity|].
    intro Hin. apply Hnin. apply in_map_iff in Hin. destruct Hin as [x [Hx1 Hx2]].
    apply in_map_iff. exists x. split; [exact Hx1|]. apply C1. apply C2.
    eapply Permutation_in; [apply sort_rules_perm|exact Hx2].
Qed.
