(* C06/Proofs11.v — str::split_ascii_whitespace as modelled by [split_ws], against its defining equations:
   (a) every token is non-empty and free of whitespace; (b) a token-like string is its own single token;
   (c) splitting distributes over a whitespace byte; (d) whitespace-only text has no tokens.
   Every byte string is a concatenation of whitespace bytes and whitespace-free blocks, so (b)-(d) determine the
   function. *)
From Coq Require Import Lia.
From RM Require Import C06.Model C06.Proofs.
Open Scope Z_scope.

Definition ws_free (t : bytes) : Prop := forallb (fun c => negb (is_ws c)) t = true.

(* bodies only, with the token under construction made explicit *)
Fixpoint split_b (cur : bytes) (s : bytes) : list bytes :=
  match s with
  | [] => match cur with [] => [] | _ => [rev cur] end
  | c :: t => if is_ws c then match cur with [] => split_b [] t | _ => rev cur :: split_b [] t end
              else split_b (c :: cur) t
  end.
Lemma split_off_bodies : forall s o cur, map t_body (split_off o cur s) = split_b cur s.
Proof.
  induction s as [|c t IH]; intros o cur; cbn [split_off split_b].
  - destruct cur; reflexivity.
  - destruct (is_ws c); [destruct cur; cbn [map]; [|f_equal]|]; apply IH.
Qed.
Lemma split_ws_b : forall s, split_ws s = split_b [] s.
Proof. intro s. unfold split_ws, tokens. apply split_off_bodies. Qed.

(* the general shape: text before the first whitespace byte joins the token under construction *)
Lemma split_b_app_ws : forall a cur c b, is_ws c = true ->
  split_b cur (a ++ c :: b) = split_b cur a ++ split_b [] b.
Proof.
  induction a as [|x a IH]; intros cur c b W; cbn [app split_b].
  - rewrite W. destruct cur; reflexivity.
  - destruct (is_ws x).
    + destruct cur; cbn [app]; [|f_equal]; apply IH; exact W.
    + apply IH; exact W.
Qed.

Lemma split_b_ws_free : forall t cur, ws_free t -> (cur <> [] \/ t <> []) -> split_b cur t = [rev cur ++ t].
Proof.
  induction t as [|x t IH]; intros cur F N; cbn [split_b].
  - destruct cur; [destruct N as [N|N]; contradiction|]. rewrite app_nil_r. reflexivity.
  - unfold ws_free in F. cbn [forallb] in F. apply Bool.andb_true_iff in F. destruct F as [F1 F2].
    destruct (is_ws x); [discriminate F1|].
    assert (Hne : x :: cur <> []) by discriminate.
    rewrite (IH (x :: cur) F2 (or_introl Hne)). cbn [rev]. rewrite <- app_assoc. reflexivity.
Qed.

Lemma split_b_tokens_ok : forall s cur, ws_free (rev cur) ->
  Forall (fun t => t <> [] /\ ws_free t) (split_b cur s).
Proof.
  induction s as [|c t IH]; intros cur F; cbn [split_b].
  - destruct cur as [|x cur']; constructor; [|constructor]. split; [|exact F].
    intro E. apply (f_equal (@length Z)) in E. rewrite rev_length in E. discriminate E.
  - destruct (is_ws c) eqn:W.
    + destruct cur as [|x cur'].
      * apply IH. reflexivity.
      * constructor; [|apply IH; reflexivity]. split; [|exact F].
        intro E. apply (f_equal (@length Z)) in E. rewrite rev_length in E. discriminate E.
    + apply IH. cbn [rev]. unfold ws_free in *. rewrite forallb_app, F. cbn [forallb]. rewrite W. reflexivity.
Qed.

Lemma split_ws_spec :
  (forall s, Forall (fun t => t <> [] /\ ws_free t) (split_ws s)) /\
  (forall t, t <> [] -> ws_free t -> split_ws t = [t]) /\
  (forall a c b, is_ws c = true -> split_ws (a ++ c :: b) = split_ws a ++ split_ws b) /\
  split_ws [] = [] /\
  (forall c, is_ws c = true <-> c = 32 \/ c = 9 \/ c = 10 \/ c = 12 \/ c = 13).
Proof.
  split; [|split; [|split; [|split]]].
  - intro s. rewrite split_ws_b. apply split_b_tokens_ok. reflexivity.
  - intros t N F. rewrite split_ws_b. rewrite (split_b_ws_free t [] F (or_intror N)). reflexivity.
  - intros a c b W. rewrite !split_ws_b. apply split_b_app_ws. exact W.
  - reflexivity.
  - intro c. unfold is_ws. rewrite !Bool.orb_true_iff, !Z.eqb_eq. tauto.
Qed.
