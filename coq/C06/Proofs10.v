(* C06/Proofs10.v — i64::from_str as modelled by [parse_int] (shared by the implementation model and [spec_lex]),
   against a declarative statement of "signed decimal integer within range": an optional single sign, at least one
   digit, digits only, value within [-2^(bits-1), 2^(bits-1) - 1]. *)
From Coq Require Import Lia.
From RM Require Import C06.Model.
Open Scope Z_scope.

Definition is_digit (c : Z) : bool := (48 <=? c) && (c <=? 57).
Definition dec_val (ds : bytes) : Z := fold_left (fun a c => a * 10 + (c - 48)) ds 0.

Inductive lit_shape : bytes -> bool -> bytes -> Prop :=
| LPlain : forall ds, lit_shape ds false ds
| LPlus : forall ds, lit_shape (43 :: ds) false ds
| LMinus : forall ds, lit_shape (45 :: ds) true ds.

Lemma digits_val_spec : forall l acc v,
  digits_val acc l = Some v <-> forallb is_digit l = true /\ v = fold_left (fun a c => a * 10 + (c - 48)) l acc.
Proof.
  induction l as [|c r IH]; intros acc v; cbn [digits_val forallb fold_left].
  - split; [intro H; injection H as <-; split; reflexivity|intros [_ ->]; reflexivity].
  - unfold digit, is_digit at 1. destruct ((48 <=? c) && (c <=? 57)); cbn [andb].
    + apply IH.
    + split; [discriminate|intros [H _]; discriminate H].
Qed.

Lemma parse_int_spec : forall bits t v,
  parse_int bits t = Some v <->
  exists neg ds, lit_shape t neg ds /\ ds <> [] /\ forallb is_digit ds = true /\
                 v = (if neg then - dec_val ds else dec_val ds) /\
                 (if neg then dec_val ds <= 2 ^ (bits - 1) else dec_val ds < 2 ^ (bits - 1)).
Proof.
  intros bits t v. unfold parse_int. destruct t as [|c r].
  - split; [discriminate|]. intros (neg & ds & S & Hn & _). inversion S; subst; contradiction.
  - destruct (c =? 45) eqn:M.
    + (* '-' *) apply Z.eqb_eq in M. subst c. cbn [orb Z.eqb]. rewrite Bool.orb_true_r.
      split.
      * destruct r as [|d r']; [discriminate|]. destruct (digits_val 0 (d :: r')) as [w|] eqn:D; [|discriminate].
        apply digits_val_spec in D. destruct D as [D1 D2].
        destruct (w <=? 2 ^ (bits - 1)) eqn:R; [|discriminate]. intro H. injection H as <-.
        exists true, (d :: r'). repeat split; [constructor|discriminate|exact D1|unfold dec_val; lia|unfold dec_val; rewrite <- D2; lia].
      * intros (neg & ds & S & Hn & Hd & Hv & Hr). inversion S; subst.
        -- (* plain: the first digit would be '-' *) cbn [forallb] in Hd. unfold is_digit at 1 in Hd. cbn in Hd. discriminate Hd.
        -- destruct ds as [|d r']; [contradiction|].
           assert (D : digits_val 0 (d :: r') = Some (dec_val (d :: r'))) by (apply digits_val_spec; split; [exact Hd|reflexivity]).
           rewrite D. replace (dec_val (d :: r') <=? 2 ^ (bits - 1)) with true by (symmetry; apply Z.leb_le; exact Hr). reflexivity.
    + destruct (c =? 43) eqn:P.
      * (* '+' *) apply Z.eqb_eq in P. subst c. cbn [orb].
        split.
        -- destruct r as [|d r']; [discriminate|]. destruct (digits_val 0 (d :: r')) as [w|] eqn:D; [|discriminate].
           apply digits_val_spec in D. destruct D as [D1 D2].
           destruct (w <? 2 ^ (bits - 1)) eqn:R; [|discriminate]. intro H. injection H as <-.
           exists false, (d :: r'). repeat split; [constructor|discriminate|exact D1|unfold dec_val; lia|unfold dec_val; rewrite <- D2; lia].
        -- intros (neg & ds & S & Hn & Hd & Hv & Hr). inversion S; subst.
           ++ cbn [forallb] in Hd. unfold is_digit at 1 in Hd. cbn in Hd. discriminate Hd.
           ++ destruct ds as [|d r']; [contradiction|].
              assert (D : digits_val 0 (d :: r') = Some (dec_val (d :: r'))) by (apply digits_val_spec; split; [exact Hd|reflexivity]).
              rewrite D. replace (dec_val (d :: r') <? 2 ^ (bits - 1)) with true by (symmetry; apply Z.ltb_lt; exact Hr). reflexivity.
      * (* no sign *) cbn [orb].
        split.
        -- destruct (digits_val 0 (c :: r)) as [w|] eqn:D; [|discriminate].
           apply digits_val_spec in D. destruct D as [D1 D2].
           destruct (w <? 2 ^ (bits - 1)) eqn:R; [|discriminate]. intro H. injection H as <-.
           exists false, (c :: r). repeat split; [constructor|discriminate|exact D1|unfold dec_val; lia|unfold dec_val; rewrite <- D2; lia].
        -- intros (neg & ds & S & Hn & Hd & Hv & Hr). inversion S; subst.
           ++ assert (D : digits_val 0 (c :: r) = Some (dec_val (c :: r))) by (apply digits_val_spec; split; [exact Hd|reflexivity]).
              rewrite D. replace (dec_val (c :: r) <? 2 ^ (bits - 1)) with true by (symmetry; apply Z.ltb_lt; exact Hr). reflexivity.
           ++ rewrite Z.eqb_refl in P. discriminate P.
           ++ rewrite Z.eqb_refl in M. discriminate M.
Qed.
