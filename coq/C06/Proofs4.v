(* C06/Proofs4.v — the whole walk refines the documented rule-set semantics [cfi_spec]. *)
From Coq Require Import Lia Permutation.
From RM Require Import C06.Model C06.Proofs C06.Proofs2 C06.Proofs3.
Import ListNotations.
Open Scope Z_scope.

Definition ins (m : rmap) (p : cfireg * expr) : rmap := map_insert (fst p) (snd p) m.
Definition groups_ok (gs : list (bytes * expr)) : bool := forallb (fun g => negb (is_nil_l (snd g))) gs.
Definition cls (gs : list (bytes * expr)) : list (cfireg * expr) :=
  map (fun g => (classify_reg (fst g), snd g)) gs.

(* ---- parse_cfi_exprs = the grouping spec ---- *)
Lemma commit_some : forall len rg f l acc out lo,
  st_wf lo (Some f) (Some l) -> lo <= len ->
  commit len (Some rg) (Some f) (Some l) acc out = Ret (map_insert rg (rev acc) out).
Proof.
  intros len rg f l acc out lo [H1 [H2 H3]] Hlo. unfold commit.
  replace (0 <=? t_off f) with true by (symmetry; apply Z.leb_le; lia).
  replace (t_off f <=? t_end l) with true by (symmetry; apply Z.leb_le; lia).
  replace (t_end l <=? len) with true by (symmetry; apply Z.leb_le; lia). reflexivity.
Qed.

Lemma parse_loop_spec : forall toks len reg first last acc out lo,
  0 <= lo -> toks_wf lo len toks -> st_wf lo first last ->
  (first = None <-> acc = []) -> (reg = None -> acc = []) ->
  parse_loop len toks reg first last acc out =
  let '(pre, gs) := split_groups (map t_body toks) in
  match reg with
  | None => if is_nil_l pre && negb (is_nil_l gs) && groups_ok gs
            then Ret (fold_left ins (cls gs) out) else Fail
  | Some rg => if negb (is_nil_l (rev acc ++ pre)) && groups_ok gs
               then Ret (fold_left ins ((rg, rev acc ++ pre) :: cls gs) out) else Fail
  end.
Proof.
  induction toks as [|t r IH]; intros len reg first last acc out lo Hlo0 Hwf Hst Hfa Hra.
  - cbn [parse_loop map split_groups]. destruct reg as [rg|].
    + rewrite app_nil_r. destruct first as [f|].
      * destruct last as [l|]; [|cbn in Hst; contradiction].
        pose proof (toks_wf_le _ _ _ Hwf) as Hle.
        rewrite (commit_some len rg f l acc out lo Hst Hle).
        assert (Hacc : acc <> []) by (intro E; apply Hfa in E; discriminate).
        destruct acc as [|a acc']; [contradiction|].
        assert (Hr : rev (a :: acc') <> []).
        { intro E. apply (f_equal (@length _)) in E. rewrite rev_length in E. cbn in E. lia. }
        destruct (rev (a :: acc')) eqn:Er; [contradiction|]. reflexivity.
      * assert (acc = []) by (apply Hfa; reflexivity). subst acc. cbn.
        destruct last; reflexivity.
    + assert (acc = []) by (apply Hra; reflexivity). subst acc.
      assert (first = None) by (apply Hfa; reflexivity). subst first.
      destruct last; cbn in Hst; try contradiction. reflexivity.
  - cbn [toks_wf] in Hwf. destruct Hwf as [Ht Hr].
    pose proof (toks_wf_le _ _ _ Hr) as Hle.
    assert (Hend : t_off t <= t_end t) by (unfold t_end; pose proof (blen_nonneg (t_body t)); lia).
    cbn [parse_loop map split_groups].
    destruct (split_groups (map t_body r)) as [pre' gs'] eqn:Esg.
    destruct (strip_suffix_colon (t_body t)) as [name|] eqn:Esc.
    + (* a label *)
      destruct reg as [rg|].
      * rewrite app_nil_r. destruct first as [f|].
        -- destruct last as [l|]; [|cbn in Hst; contradiction].
           assert (Hlo : lo <= len) by lia.
           rewrite (commit_some len rg f l acc out lo Hst Hlo). cbn [obind].
           rewrite (IH len (Some (classify_reg name)) None None [] _ (t_end t)); [|lia|exact Hr|exact I|tauto|discriminate].
           cbn [rev app].
           assert (Hacc : acc <> []) by (intro E; apply Hfa in E; discriminate).
           assert (Hrn : is_nil_l (rev acc) = false).
           { destruct (rev acc) eqn:Er; [|reflexivity]. apply (f_equal (@length _)) in Er. rewrite rev_length in Er.
             destruct acc; [contradiction|cbn in Er; lia]. }
           rewrite Hrn. cbn [negb andb groups_ok forallb snd cls map fst fold_left ins].
           fold (groups_ok gs'). fold (cls gs').
           destruct (negb (is_nil_l pre') && groups_ok gs'); reflexivity.
        -- assert (acc = []) by (apply Hfa; reflexivity). subst acc.
           assert (Hc : commit len (Some rg) None last [] out = Fail) by (unfold commit; destruct last; reflexivity).
           rewrite Hc. reflexivity.
      * assert (acc = []) by (apply Hra; reflexivity). subst acc.
        assert (first = None) by (apply Hfa; reflexivity). subst first.
        destruct last; cbn in Hst; try contradiction.
        rewrite (IH len (Some (classify_reg name)) None None [] out (t_end t)); [|lia|exact Hr|exact I|tauto|discriminate].
        cbn [rev app is_nil_l negb andb groups_ok forallb snd cls map fst].
        fold (groups_ok gs'). fold (cls gs'). reflexivity.
    + (* an expression token *)
      destruct reg as [rg|]; [|reflexivity].
      rewrite (IH len (Some rg) _ (Some t) (t_body t :: acc) out (t_end t)); [|lia|exact Hr| | |discriminate].
      * cbn [rev]. rewrite <- app_assoc. cbn [app]. reflexivity.
      * destruct first as [f|]; destruct last as [l|]; cbn in Hst |- *; try contradiction; lia.
      * split; intro H; [destruct first; discriminate|discriminate].
Qed.

Lemma parse_spec : forall input out,
  parse_cfi_exprs input out =
  match spec_pairs (split_ws input) with Some ps => Ret (fold_left ins ps out) | None => Fail end.
Proof.
  intros. unfold parse_cfi_exprs.
  rewrite (parse_loop_spec (tokens input) (blen input) None None None [] out 0);
    [|lia|apply tokens_wf|exact I|tauto|reflexivity].
  unfold spec_pairs, split_ws. destruct (split_groups (map t_body (tokens input))) as [pre gs].
  fold (groups_ok gs). fold (cls gs). destruct (is_nil_l pre && negb (is_nil_l gs) && groups_ok gs); reflexivity.
Qed.

Lemma parse_all_spec : forall texts out,
  parse_all texts out =
  match all_pairs texts with Some ps => Ret (fold_left ins ps out) | None => Fail end.
Proof.
  induction texts as [|t r IH]; intro out; cbn [parse_all all_pairs]; [reflexivity|].
  rewrite parse_spec. destruct (spec_pairs (split_ws t)) as [a|]; cbn [obind]; [|reflexivity].
  rewrite IH. destruct (all_pairs r) as [b|]; [|reflexivity]. rewrite fold_left_app. reflexivity.
Qed.

(* ---- the map after all inserts: a later rule replaces an earlier one ---- *)
Fixpoint find (k : cfireg) (m : rmap) : option expr :=
  match m with
  | [] => None
  | (k', e) :: r => if cfireg_eqb k k' then Some e else find k r
  end.

Lemma find_insert : forall k k' e m,
  find k (map_insert k' e m) = if cfireg_eqb k k' then Some e else find k m.
Proof.
  induction m as [|[k2 e2] r IH]; cbn [map_insert find]; [reflexivity|].
  destruct (cfireg_eqb k' k2) eqn:E2.
  - apply cfireg_eqb_eq in E2. subst k2. cbn [find]. destruct (cfireg_eqb k k'); reflexivity.
  - cbn [find]. rewrite IH. destruct (cfireg_eqb k k2) eqn:E3; [|reflexivity].
    apply cfireg_eqb_eq in E3. subst k2. destruct (cfireg_eqb k k') eqn:E4; [|reflexivity].
    apply cfireg_eqb_eq in E4. subst k'. rewrite (proj2 (cfireg_eqb_eq k k) eq_refl) in E2. discriminate.
Qed.

Lemma find_fold : forall ps k m,
  find k (fold_left ins ps m) = match last_rule k ps with Some e => Some e | None => find k m end.
Proof.
  induction ps as [|[k' e] r IH]; intros k m; cbn [fold_left last_rule]; [reflexivity|].
  rewrite IH. destruct (last_rule k r); [reflexivity|]. unfold ins. cbn [fst snd]. rewrite find_insert.
  destruct (cfireg_eqb k k'); reflexivity.
Qed.

Lemma find_in : forall k e m, NoDup (map fst m) -> (find k m = Some e <-> In (k, e) m).
Proof.
  induction m as [|[k' e'] r IH]; intro Hn; cbn [find]; [split; [discriminate|contradiction]|].
  cbn in Hn. inversion Hn as [|? ? Hnin Hd]; subst.
  destruct (cfireg_eqb k k') eqn:E.
  - apply cfireg_eqb_eq in E. subst k'. split; intro H.
    + inversion H; subst. left; reflexivity.
    + destruct H as [H|H]; [inversion H; reflexivity|]. exfalso. apply Hnin. apply in_map_iff. exists (k, e). auto.
  - apply cfireg_eqb_neq in E. rewrite (IH Hd). split; intro H; [right; exact H|].
    destruct H as [H|H]; [inversion H; congruence|exact H].
Qed.
Lemma find_notin : forall k m, find k m = None -> ~ In k (map fst m).
Proof.
  induction m as [|[k' e'] r IH]; cbn [find]; intros H Hin; [contradiction|].
  destruct (cfireg_eqb k k') eqn:E; [discriminate|]. apply cfireg_eqb_neq in E.
  destruct Hin as [Hin|Hin]; [cbn in Hin; congruence|exact (IH H Hin)].
Qed.

Lemma map_remove_find : forall k m, fst (map_remove k m) = find k m.
Proof.
  induction m as [|[k' e'] r IH]; cbn [map_remove find]; [reflexivity|].
  destruct (cfireg_eqb k k'); [reflexivity|]. destruct (map_remove k r) as [o r']. cbn [fst] in *. exact IH.
Qed.
Lemma map_remove_find_other : forall k k2 m, k <> k2 -> find k2 (snd (map_remove k m)) = find k2 m.
Proof.
  induction m as [|[k' e'] r IH]; intro Hne; cbn [map_remove find]; [reflexivity|].
  destruct (cfireg_eqb k k') eqn:E.
  - apply cfireg_eqb_eq in E. subst k'. cbn [snd].
    replace (cfireg_eqb k2 k) with false by (symmetry; apply cfireg_eqb_neq; congruence). reflexivity.
  - destruct (map_remove k r) as [o r'] eqn:Er. cbn [snd find] in *. rewrite (IH Hne). reflexivity.
Qed.

Lemma last_rule_in : forall k ps e, last_rule k ps = Some e -> In (k, e) ps.
Proof.
  induction ps as [|[k' e'] r IH]; intros e H; cbn [last_rule] in H; [discriminate|].
  destruct (last_rule k r) as [e2|].
  - inversion H; subst. right. apply IH. reflexivity.
  - destruct (cfireg_eqb k k') eqn:E; [|discriminate]. apply cfireg_eqb_eq in E. inversion H; subst. left; reflexivity.
Qed.

(* values stay within u64 *)
Lemma loop_inr : forall p E cfa e st st',
  env_wf E -> (forall c, cfa = Some c -> inr c) -> Forall documented e -> Forall inr st ->
  eval_loop p E cfa e st = Ret st' -> Forall inr st'.
Proof.
  induction e as [|t r IH]; intros st st' HE Hcfa Hdoc Hst H; cbn [eval_loop] in H; [inversion H; subst; exact Hst|].
  inversion Hdoc as [|? ? Ht Hr]; subst.
  destruct (step_refines p E cfa t st HE Hcfa Ht Hst) as [_ H2].
  destruct (eval_step p E cfa t st) as [st1| | |] eqn:Es; cbn [obind] in H; try discriminate.
  eapply (IH st1 st' HE Hcfa Hr); [apply H2; reflexivity|exact H].
Qed.
Lemma val_inr : forall p E cfa e v,
  env_wf E -> (forall c, cfa = Some c -> inr c) -> Forall documented e ->
  val p E cfa e = Some v -> inr v.
Proof.
  intros p E cfa e v HE Hcfa Hdoc H. unfold val, eval_cfi_expr in H.
  destruct (eval_loop p E cfa e []) as [st| | |] eqn:El; cbn [obind] in H; try discriminate.
  pose proof (loop_inr p E cfa e [] st HE Hcfa Hdoc (Forall_nil _) El) as Hst.
  destruct st as [|x [|y s]]; try discriminate. inversion H; subst. inversion Hst; assumption.
Qed.

(* ---- the theorem ---- *)
Definition texts_of (r : cfi_record) (addr : Z) : list bytes :=
  snd (c_init r) :: map snd (take_applicable addr (sort_cfi (c_add r))).
(* every expression token of the applicable records is in the documented alphabet *)
Definition all_documented (r : cfi_record) (addr : Z) : Prop :=
  forall ps, all_pairs (texts_of r addr) = Some ps -> Forall (fun q => Forall documented (snd q)) ps.

Theorem walk_refines_spec : forall w p E r addr,
  env_wf E -> all_documented r addr ->
  match walk_frame_cfi (mock_ops w) p E r addr m_init, cfi_spec w E r addr with
  | Ret (Some s), Some (cfa, ra, regs) =>
      m_cfa s = Some cfa /\ m_ra s = Some ra /\ forall n, m_regs s n = regs n
  | Ret None, None => True
  | _, _ => False
  end.
Proof.
  intros w p E r addr HE Hdoc. unfold walk_frame_cfi, cfi_spec. fold (texts_of r addr).
  destruct (cfi_covers r addr); [|exact I].
  unfold all_documented in Hdoc. set (texts := texts_of r addr) in *.
  unfold walk_with_stack_cfi, walk_cfi_ord. rewrite parse_all_spec.
  destruct (all_pairs texts) as [ps|] eqn:Eps; cbn [try_]; [|exact I].
  specialize (Hdoc ps eq_refl). rewrite Forall_forall in Hdoc.
  set (m := fold_left ins ps []).
  assert (Hm : parse_all texts [] = Ret m) by (rewrite parse_all_spec, Eps; reflexivity).
  assert (Hn : NoDup (map fst m)) by (eapply parse_all_nodup; [|exact Hm]; constructor).
  assert (Hfind : forall k, find k m = last_rule k ps).
  { intro k. unfold m. rewrite find_fold. cbn [find]. destruct (last_rule k ps); reflexivity. }
  destruct (map_remove RCfa m) as [ocfa m1] eqn:E1.
  pose proof (map_remove_find RCfa m) as F1. rewrite E1 in F1. cbn [fst] in F1. rewrite Hfind in F1.
  pose proof (map_remove_find_other RCfa RRa m) as F2. rewrite E1 in F2. cbn [snd] in F2.
  destruct (map_remove RRa m1) as [ora m2] eqn:E2.
  pose proof (map_remove_find RRa m1) as F3. rewrite E2 in F3. cbn [fst] in F3.
  rewrite F2 in F3 by discriminate. rewrite Hfind in F3.
  subst ocfa ora.
  destruct (last_rule RCfa ps) as [ce|] eqn:Lc; [|exact I].
  destruct (last_rule RRa ps) as [re|] eqn:Lr; [|exact I].
  assert (Dc : Forall documented ce) by (apply (Hdoc (RCfa, ce)); apply last_rule_in; exact Lc).
  assert (Dr : Forall documented re) by (apply (Hdoc (RRa, re)); apply last_rule_in; exact Lr).
  assert (Hnone : forall c : Z, @None Z = Some c -> inr c) by (intros c H; discriminate).
  rewrite (eval_val p E ce None). rewrite (eval_refines_spec p E None ce HE Hnone Dc).
  destruct (spec_eval E None ce) as [cfa|] eqn:Sc; cbn [try_]; [|exact I].
  assert (Hcfa_in : inr cfa).
  { apply (val_inr p E None ce cfa HE Hnone Dc). rewrite (eval_refines_spec p E None ce HE Hnone Dc). exact Sc. }
  assert (Hsome : forall c : Z, Some cfa = Some c -> inr c) by (intros c H; inversion H; subst; exact Hcfa_in).
  rewrite (eval_val p E re (Some cfa)). rewrite (eval_refines_spec p E (Some cfa) re HE Hsome Dr).
  destruct (spec_eval E (Some cfa) re) as [ra|] eqn:Sr; cbn [try_]; [|exact I].
  cbn [mock_ops o_set_cfa o_set_ra m_init m_cfa m_ra m_regs].
  destruct (fits w cfa); cbn [andb]; [|exact I].
  destruct (fits w ra); [|exact I].
  pose proof (remaining_all_other _ _ _ _ _ Hn E1 E2) as Hall.
  destruct (map_remove_spec _ _ _ _ Hn E1) as [A1 [B1 [C1 [D1 _]]]].
  destruct (map_remove_spec _ _ _ _ B1 E2) as [A2 [B2 [C2 [D2 _]]]].
  rewrite apply_rules_fold.
  2:{ intros x Hx. apply Hall. eapply Permutation_in; [apply sort_rules_perm|exact Hx]. }
  cbn [try_].
  match goal with |- context [fold_left _ _ ?s0] => change s0 with (mkM (Some cfa) (Some ra) (fun _ : bytes => Unset)) end.
  set (s2 := mkM (Some cfa) (Some ra) (fun _ : bytes => Unset)).
  destruct (fold_cfa_ra w p E cfa (sort_rules m2) s2) as [Fc Fr].
  split; [rewrite Fc; reflexivity|]. split; [rewrite Fr; reflexivity|].
  intro n. destruct (last_rule (ROther n) ps) as [e|] eqn:Ln.
  - assert (Hin : In (ROther n, e) m) by (apply find_in; [exact Hn|rewrite Hfind; exact Ln]).
    assert (De : Forall documented e) by (apply (Hdoc (ROther n, e)); apply last_rule_in; exact Ln).
    rewrite (fold_regs_in w p E cfa (sort_rules m2) s2 n e).
    + unfold val at 1. rewrite (eval_val p E e (Some cfa)).
      rewrite (eval_refines_spec p E (Some cfa) e HE Hsome De).
      destruct (spec_eval E (Some cfa) e); reflexivity.
    + eapply Permutation_NoDup; [apply Permutation_map; apply Permutation_sym; apply sort_rules_perm|exact B2].
    + eapply Permutation_in; [apply Permutation_sym; apply sort_rules_perm|].
      apply D2; [apply D1; [exact Hin|cbn; discriminate]|cbn; discriminate].
  - rewrite fold_regs_notin; [reflexivity|].
    intro Hin. assert (Hf : find (ROther n) m = None) by (rewrite Hfind; exact Ln).
    apply (find_notin _ _ Hf). apply in_map_iff in Hin. destruct Hin as [x [Hx1 Hx2]].
    apply in_map_iff. exists x. split; [exact Hx1|]. apply C1. apply C2.
    eapply Permutation_in; [apply sort_rules_perm|exact Hx2].
Qed.
