(* C06/Proofs3.v — the evaluator refines the documented expression semantics. *)
From Coq Require Import Lia.
From RM Require Import C06.Model C06.Proofs.
Import ListNotations.
Open Scope Z_scope.

Definition inr (v : Z) : Prop := 0 <= v < two64.
Definition env_wf (E : env) : Prop :=
  (forall n v, e_callee E n = Some v -> inr v) /\ (forall a v, e_mem E a = Some v -> inr v).
(* a token of the documented alphabet *)
Definition documented (t : bytes) : Prop := spec_lex t <> SJunk.

Definition opt {A} (x : outcome A) : option A := match x with Ret a => Some a | _ => None end.

Lemma align_pow2 : forall x k, 0 <= x < 2 ^ 64 -> 0 <= k < 64 ->
  Z.land x (Z.lxor (2 ^ 64 - 1) (2 ^ k - 1)) = x - x mod 2 ^ k.
Proof.
  intros x k Hx Hk.
  replace (2 ^ 64 - 1) with (Z.ones 64) by (rewrite Z.ones_equiv; reflexivity).
  replace (2 ^ k - 1) with (Z.ones k) by (rewrite Z.ones_equiv; lia).
  assert (E : Z.land x (Z.lxor (Z.ones 64) (Z.ones k)) = Z.ldiff x (Z.ones k)).
  { apply Z.bits_inj'. intros i Hi.
    rewrite Z.land_spec, Z.lxor_spec, Z.ldiff_spec.
    destruct (Z_lt_le_dec i k) as [H1|H1].
    - rewrite (Z.ones_spec_low k i) by lia. rewrite (Z.ones_spec_low 64 i) by lia.
      cbn. rewrite !andb_false_r. reflexivity.
    - rewrite (Z.ones_spec_high k i) by lia.
      destruct (Z_lt_le_dec i 64) as [H2|H2].
      + rewrite (Z.ones_spec_low 64 i) by lia. reflexivity.
      + rewrite (Z.ones_spec_high 64 i) by lia. cbn. rewrite andb_false_r, andb_true_r.
        symmetry. destruct (Z.eq_dec x 0) as [->|Hne]; [apply Z.bits_0|].
        apply Z.bits_above_log2; [lia|].
        assert (Z.log2 x < 64) by (apply Z.log2_lt_pow2; lia). lia. }
  rewrite E. rewrite Z.ldiff_ones_r by lia.
  rewrite Z.shiftr_div_pow2, Z.shiftl_mul_pow2 by lia.
  pose proof (Z.div_mod x (2 ^ k)) as D. assert (0 < 2 ^ k) by (apply Z.pow_pos_nonneg; lia). lia.
Qed.

Lemma two64_eq : two64 = 2 ^ 64.
Proof. reflexivity. Qed.
Lemma two64_pos : 0 < two64.
Proof. reflexivity. Qed.

(* ---- binary operators ---- *)
Lemma binop_step : forall p E cfa c st,
  is_binop_byte c = true -> Forall inr st ->
  opt (eval_step p E cfa [c] st) = spec_step E cfa (SBin c) st /\
  (forall st', eval_step p E cfa [c] st = Ret st' -> Forall inr st').
Proof.
  intros p E cfa c st Hc Hst. unfold is_binop_byte in Hc.
  pose proof two64_pos as Hp.
  destruct st as [|y [|x s]].
  1,2: repeat (apply orb_prop in Hc; destruct Hc as [Hc|Hc]); apply Z.eqb_eq in Hc; subst c;
       (split; [reflexivity|intros st' H; discriminate H]).
  inversion Hst as [|? ? Hy Hst1]; subst. inversion Hst1 as [|? ? Hx Hs]; subst.
  unfold inr in Hx, Hy.
  repeat (apply orb_prop in Hc; destruct Hc as [Hc|Hc]); apply Z.eqb_eq in Hc; subst c.
  - (* + *) split; [reflexivity|]. intros st' H. inversion H; subst. constructor; [|exact Hs].
    unfold inr, wrap64. apply Z.mod_pos_bound. exact Hp.
  - split; [reflexivity|]. intros st' H. inversion H; subst. constructor; [|exact Hs].
    unfold inr, wrap64. apply Z.mod_pos_bound. exact Hp.
  - split; [reflexivity|]. intros st' H. inversion H; subst. constructor; [|exact Hs].
    unfold inr, wrap64. apply Z.mod_pos_bound. exact Hp.
  - (* / *) change (eval_step p E cfa [47] (y :: x :: s)) with
      (obind (if y =? 0 then Fail else Ret (x / y)) (fun v => Ret (v :: s))).
    change (spec_step E cfa (SBin 47) (y :: x :: s)) with
      (match (if y =? 0 then None else Some (x / y)) with Some v => Some (v :: s) | None => None end).
    destruct (y =? 0) eqn:E0; [split; [reflexivity|intros st' H; discriminate H]|].
    apply Z.eqb_neq in E0. split; [reflexivity|]. intros st' H. cbn [obind] in H. inversion H; subst.
    constructor; [|exact Hs]. unfold inr. split; [apply Z.div_pos; lia|].
    assert (x / y <= x) by (apply Z.div_le_upper_bound; nia). lia.
  - (* % *) change (eval_step p E cfa [37] (y :: x :: s)) with
      (obind (if y =? 0 then Fail else Ret (x mod y)) (fun v => Ret (v :: s))).
    change (spec_step E cfa (SBin 37) (y :: x :: s)) with
      (match (if y =? 0 then None else Some (x mod y)) with Some v => Some (v :: s) | None => None end).
    destruct (y =? 0) eqn:E0; [split; [reflexivity|intros st' H; discriminate H]|].
    apply Z.eqb_neq in E0. split; [reflexivity|]. intros st' H. cbn [obind] in H. inversion H; subst.
    constructor; [|exact Hs]. unfold inr. pose proof (Z.mod_pos_bound x y). lia.
  - (* @ *) change (eval_step p E cfa [64] (y :: x :: s)) with
      (obind (if (y =? 0) || negb (is_pow2 y) then Fail
              else obind (chk_usub p PANIC_SUB y 1) (fun m => Ret (Z.land x (Z.lxor U64MAX m))))
             (fun v => Ret (v :: s))).
    change (spec_step E cfa (SBin 64) (y :: x :: s)) with
      (match (if (0 <? y) && (y =? 2 ^ Z.log2 y) then Some (x - x mod y) else None) with
       | Some v => Some (v :: s) | None => None end).
    unfold is_pow2.
    destruct ((0 <? y) && (y =? 2 ^ Z.log2 y)) eqn:Ep; cbn [negb].
    + apply andb_prop in Ep. destruct Ep as [P1 P2]. apply Z.ltb_lt in P1. apply Z.eqb_eq in P2.
      replace (y =? 0) with false by (symmetry; apply Z.eqb_neq; lia). cbn [orb].
      unfold chk_usub. replace (0 <=? y - 1) with true by (symmetry; apply Z.leb_le; lia).
      cbn [obind].
      assert (Hk : 0 <= Z.log2 y < 64).
      { split; [apply Z.log2_nonneg|]. apply Z.log2_lt_pow2; [lia|]. rewrite <- two64_eq. lia. }
      assert (Ha : Z.land x (Z.lxor U64MAX (y - 1)) = x - x mod y).
      { rewrite P2 at 1 2. change U64MAX with (2 ^ 64 - 1). rewrite two64_eq in Hx.
        rewrite (align_pow2 x (Z.log2 y) Hx Hk). rewrite <- P2. reflexivity. }
      rewrite Ha. split; [reflexivity|]. intros st' H. inversion H; subst.
      constructor; [|exact Hs]. unfold inr. pose proof (Z.mod_pos_bound x y P1). pose proof (Z.mod_le x y). lia.
    + rewrite orb_true_r. split; [reflexivity|intros st' H; discriminate H].
Qed.

(* ---- tokens that are none of the special ones ---- *)
Lemma beq_single : forall c k, beq [c] [k] = (c =? k).
Proof. intros. cbn [beq]. apply andb_true_r. Qed.
Lemma beq_single_long : forall c k1 k2 r, beq [c] (k1 :: k2 :: r) = false.
Proof. intros. cbn [beq]. apply andb_false_r. Qed.
Lemma beq_long_single : forall c c2 r k, beq (c :: c2 :: r) [k] = false.
Proof. intros. cbn [beq]. apply andb_false_r. Qed.

Definition generic (p : profile) (E : env) (t : bytes) (st : list Z) : outcome (list Z) :=
  match after_dollar t with
  | Some reg => push_opt (e_callee E reg) st
  | None => match parse_int 64 t with
            | Some v => Ret (wrap64 v :: st)
            | None => push_opt (e_callee E t) st
            end
  end.

Lemma eval_step_generic : forall p E cfa t st,
  is_special t = false -> eval_step p E cfa t st = generic p E t st.
Proof.
  intros p E cfa t st Hs. unfold is_special in Hs. cbn [existsb] in Hs.
  repeat (apply orb_false_elim in Hs; destruct Hs as [?H Hs]).
  unfold eval_step.
  repeat match goal with H : beq t ?c = false |- _ => rewrite H; clear H end.
  reflexivity.
Qed.

Lemma special_single : forall c, is_binop_byte c = false -> (c =? 94) = false -> is_special [c] = false.
Proof.
  intros c Hb H94. unfold is_binop_byte in Hb.
  repeat match goal with H : (_ || _) = false |- _ => apply orb_false_elim in H; destruct H end.
  unfold is_special. cbn [existsb]. unfold T_plus, T_minus, T_star, T_slash, T_pct, T_at, T_caret, T_cfa, T_undef.
  rewrite !beq_single, !beq_single_long.
  repeat match goal with H : (c =? _) = false |- _ => rewrite H; clear H end. reflexivity.
Qed.
Lemma special_not_single : forall t, length t <> 1%nat -> beq t T_cfa = false -> beq t T_undef = false ->
  is_special t = false.
Proof.
  intros t Hl H1 H2. unfold is_special. cbn [existsb]. rewrite H1, H2.
  destruct t as [|c [|c2 r]]; [reflexivity|cbn in Hl; lia|].
  unfold T_plus, T_minus, T_star, T_slash, T_pct, T_at, T_caret. rewrite !beq_long_single. reflexivity.
Qed.

Lemma is_alnum_not_dollar : forall c, is_alnum c = true -> (c =? 36) = false.
Proof.
  intros c H. destruct (c =? 36) eqn:E; [|reflexivity]. apply Z.eqb_eq in E. subst. discriminate H.
Qed.
Lemma alnum_no_dollar : forall t, forallb is_alnum t = true -> after_dollar t = None.
Proof.
  induction t as [|c r IH]; cbn [forallb after_dollar]; intro H; [reflexivity|].
  apply andb_prop in H. destruct H as [H1 H2]. rewrite (is_alnum_not_dollar c H1). apply IH. exact H2.
Qed.
Lemma digit_not_dollar : forall c d, digit c = Some d -> (c =? 36) = false.
Proof.
  intros c d H. unfold digit in H. destruct ((48 <=? c) && (c <=? 57)) eqn:E; [|discriminate].
  apply andb_prop in E. destruct E as [E1 E2]. apply Z.leb_le in E1. apply Z.eqb_neq. lia.
Qed.
Lemma digits_no_dollar : forall l acc v, digits_val acc l = Some v -> after_dollar l = None.
Proof.
  induction l as [|c r IH]; intros acc v H; cbn [digits_val after_dollar] in *; [reflexivity|].
  destruct (digit c) as [d|] eqn:Ed; [|discriminate]. rewrite (digit_not_dollar c d Ed). eapply IH; eauto.
Qed.
Lemma parse_int_no_dollar : forall bits t v, parse_int bits t = Some v -> after_dollar t = None.
Proof.
  intros bits t v H. unfold parse_int in H. destruct t as [|c r]; [discriminate|].
  destruct ((c =? 43) || (c =? 45)) eqn:Es.
  - destruct r as [|c2 r2]; [discriminate|].
    destruct (digits_val 0 (c2 :: r2)) as [w|] eqn:Ed; [|discriminate].
    cbn [after_dollar]. replace (c =? 36) with false.
    + exact (digits_no_dollar _ _ _ Ed).
    + symmetry. apply Z.eqb_neq. apply orb_prop in Es. destruct Es as [Es|Es]; apply Z.eqb_eq in Es; lia.
  - destruct (digits_val 0 (c :: r)) as [w|] eqn:Ed; [|discriminate].
    exact (digits_no_dollar _ _ _ Ed).
Qed.

Lemma wrap64_inr : forall v, inr (wrap64 v).
Proof. intro v. unfold inr, wrap64. apply Z.mod_pos_bound. reflexivity. Qed.

Lemma push_callee : forall E n st, env_wf E -> Forall inr st ->
  opt (push_opt (e_callee E n) st) = match e_callee E n with Some v => Some (v :: st) | None => None end /\
  (forall st', push_opt (e_callee E n) st = Ret st' -> Forall inr st').
Proof.
  intros E n st [Hw _] Hst. destruct (e_callee E n) as [v|] eqn:Ec; cbn [push_opt opt].
  - split; [reflexivity|]. intros st' H. inversion H; subst. constructor; [eapply Hw; eauto|exact Hst].
  - split; [reflexivity|intros st' H; discriminate H].
Qed.

(* ---- one token ---- *)
Lemma step_refines : forall p E cfa t st,
  env_wf E -> (forall c, cfa = Some c -> inr c) -> documented t -> Forall inr st ->
  opt (eval_step p E cfa t st) = spec_step E cfa (spec_lex t) st /\
  (forall st', eval_step p E cfa t st = Ret st' -> Forall inr st').
Proof.
  intros p E cfa t st HE Hcfa Hdoc Hst. unfold documented in Hdoc.
  destruct t as [|c [|c2 r]].
  - (* empty token: not documented *)
    exfalso. apply Hdoc. reflexivity.
  - (* single byte *)
    cbn [spec_lex] in *.
    destruct (is_binop_byte c) eqn:Eb; [apply binop_step; assumption|].
    destruct (c =? 94) eqn:E94.
    { apply Z.eqb_eq in E94. subst c.
      change (eval_step p E cfa [94] st) with (match st with ptr :: s => push_opt (e_mem E ptr) s | [] => Fail end).
      cbn [spec_step]. destruct st as [|a s]; [split; [reflexivity|intros st' H; discriminate H]|].
      inversion Hst as [|? ? Ha Hs]; subst. destruct HE as [_ Hm].
      destruct (e_mem E a) as [v|] eqn:Em; cbn [push_opt opt].
      - split; [reflexivity|]. intros st' H. inversion H; subst. constructor; [eapply Hm; eauto|exact Hs].
      - split; [reflexivity|intros st' H; discriminate H]. }
    rewrite (eval_step_generic p E cfa [c] st (special_single c Eb E94)). unfold generic.
    destruct (digit c) as [d|] eqn:Ed.
    + (* one digit *)
      cbn [after_dollar]. rewrite (digit_not_dollar c d Ed).
      assert (Hp : parse_int 64 [c] = Some d).
      { unfold digit in Ed. destruct ((48 <=? c) && (c <=? 57)) eqn:Edg; [|discriminate].
        apply andb_prop in Edg. destruct Edg as [E1 E2]. apply Z.leb_le in E1. apply Z.leb_le in E2.
        inversion Ed; subst d. unfold parse_int.
        replace (c =? 43) with false by (symmetry; apply Z.eqb_neq; lia).
        replace (c =? 45) with false by (symmetry; apply Z.eqb_neq; lia). cbn [orb].
        cbn [digits_val]. unfold digit. replace ((48 <=? c) && (c <=? 57)) with true
          by (symmetry; apply andb_true_intro; split; apply Z.leb_le; lia).
        replace (0 * 10 + (c - 48) <? 2 ^ (64 - 1)) with true by (symmetry; apply Z.ltb_lt; lia).
        f_equal; try lia. }
      rewrite Hp. cbn [opt spec_step]. split; [reflexivity|].
      intros st' H. inversion H; subst. constructor; [apply wrap64_inr|exact Hst].
    + destruct (is_alnum c) eqn:Ea; [|exfalso; apply Hdoc; reflexivity].
      cbn [after_dollar]. rewrite (is_alnum_not_dollar c Ea).
      assert (Hp : parse_int 64 [c] = None).
      { unfold parse_int. unfold is_binop_byte in Eb.
        repeat match goal with H : (_ || _) = false |- _ => apply orb_false_elim in H; destruct H end.
        repeat match goal with H : (c =? _) = false |- _ => rewrite H end. cbn [orb].
        cbn [digits_val]. rewrite Ed. reflexivity. }
      rewrite Hp. cbn [spec_step]. apply push_callee; assumption.
  - (* two or more bytes *)
    set (t := c :: c2 :: r) in *.
    assert (Hlen : length t <> 1%nat) by (cbn; lia).
    unfold spec_lex in *. fold t in Hdoc |- *.
    change (match t with [c0] => _ | _ => ?x end) with x in Hdoc |- *.
    destruct (beq t T_cfa) eqn:Ecfa.
    { apply beq_eq in Ecfa. rewrite Ecfa.
      change (eval_step p E cfa T_cfa st) with (push_opt cfa st). cbn [spec_step].
      destruct cfa as [cv|]; cbn [push_opt opt]; [|split; [reflexivity|intros st' H; discriminate H]].
      split; [reflexivity|]. intros st' H. inversion H; subst. constructor; [apply Hcfa; reflexivity|exact Hst]. }
    destruct (beq t T_undef) eqn:Eund.
    { apply beq_eq in Eund. rewrite Eund. split; [reflexivity|intros st' H; discriminate H]. }
    rewrite (eval_step_generic p E cfa t st (special_not_single t Hlen Ecfa Eund)). unfold generic.
    destruct (strip_prefix_dollar t) as [n|] eqn:Esd.
    + unfold strip_prefix_dollar, t in Esd. destruct (c =? 36) eqn:E36; [|discriminate].
      inversion Esd; subst n. apply Z.eqb_eq in E36. subst c.
      destruct (forallb is_alnum (c2 :: r) && negb (is_nil (c2 :: r))) eqn:Ean; [|exfalso; apply Hdoc; reflexivity].
      unfold t. cbn [after_dollar Z.eqb Pos.eqb]. cbn [spec_step]. apply push_callee; assumption.
    + destruct (parse_int 64 t) as [v|] eqn:Epi.
      * rewrite (parse_int_no_dollar 64 t v Epi). cbn [opt spec_step]. split; [reflexivity|].
        intros st' H. inversion H; subst. constructor; [apply wrap64_inr|exact Hst].
      * destruct (forallb is_alnum t && negb (is_nil t)) eqn:Ean; [|exfalso; apply Hdoc; reflexivity].
        apply andb_prop in Ean. destruct Ean as [Ean _].
        rewrite (alnum_no_dollar t Ean). cbn [spec_step]. apply push_callee; assumption.
Qed.

Lemma loop_refines : forall p E cfa e st,
  env_wf E -> (forall c, cfa = Some c -> inr c) -> Forall documented e -> Forall inr st ->
  opt (eval_loop p E cfa e st) = spec_run E cfa (map spec_lex e) st.
Proof.
  induction e as [|t r IH]; intros st HE Hcfa Hdoc Hst; cbn [eval_loop map spec_run]; [reflexivity|].
  inversion Hdoc as [|? ? Ht Hr]; subst.
  destruct (step_refines p E cfa t st HE Hcfa Ht Hst) as [H1 H2].
  rewrite <- H1. destruct (eval_step p E cfa t st) as [st'| | |] eqn:Es; cbn [obind opt]; try reflexivity.
  apply IH; auto.
Qed.

Theorem eval_refines_spec : forall p E cfa e,
  env_wf E -> (forall c, cfa = Some c -> 0 <= c < two64) -> Forall documented e ->
  val p E cfa e = spec_eval E cfa e.
Proof.
  intros p E cfa e HE Hcfa Hdoc. unfold val, spec_eval, eval_cfi_expr.
  rewrite <- (loop_refines p E cfa e [] HE Hcfa Hdoc (Forall_nil _)).
  destruct (eval_loop p E cfa e []) as [st| | |]; cbn [obind opt]; try reflexivity.
  destruct st as [|v [|w s]]; reflexivity.
Qed.
