(* C06/FileTable.v — SEVERAL STACK CFI INIT records in one symbol file, as the code handles them: finish_item files a
   record under StackInfoCfi::memory_range() (dropped when the range does not exist: size 0, end beyond u64), the
   parser-local into_rangemap_safe + RangeMap::try_from_iter build the table, walk_frame looks the address up with
   RangeMap::get and walks the record found.  The table / lookup are C08's: [g_record_table], [g_mr_StackInfoCfi]
   (Gen/C08Tables.v, regenerated from parser.rs / types.rs / range-map) and [rm_get] (C08/Model.v: the real binary
   search).  Overlapping INIT records are therefore inside the model.  Definitions only; extracted. *)
From RM Require Import Base.Word C08.Model C08.EndToEnd Gen.C08Tables Gen.CfiOps C06.Model C06.GenModel C06.Driver C06.GenDriver.
Open Scope Z_scope.

(* #[derive(PartialEq)] of StackInfoCfi { init, size, add_rules } and CfiRules { address, rules } *)
Definition rules_eqb (a b : cfi_rules) : bool := (fst a =? fst b) && beq (snd a) (snd b).
Fixpoint rules_list_eqb (a b : list cfi_rules) : bool :=
  match a, b with
  | [], [] => true
  | x :: a', y :: b' => rules_eqb x y && rules_list_eqb a' b'
  | _, _ => false
  end.
Definition cfi_rec_eqb (a b : cfi_record) : bool :=
  rules_eqb (c_init a) (c_init b) && (c_size a =? c_size b) && rules_list_eqb (c_add a) (c_add b).

(* finish_item: `cur.add_rules.sort()` (Gen/CfiOps.v cfi_deltas_sorted) before the record is filed *)
Definition finished (r : cfi_record) : cfi_record := mkCfi (c_init r) (c_size r) (gen_deltas (c_add r)).
Definition file_recs (rs : list cfi_record) : list (Z * Z * cfi_record) :=
  map (fun r => (fst (c_init r), c_size r, finished r)) rs.
Definition cfi_file_table (p : profile) (rs : list cfi_record) : outcome (list (range * cfi_record)) :=
  g_record_table cfi_rec_eqb (g_mr_StackInfoCfi p) (file_recs rs).

(* mod.rs walk_frame: `if let Some(info) = self.cfi_stack_info.get(addr) { .. walk_with_stack_cfi(&info.init,
   &info.add_rules[0..count], walker) } else { None }` — no second look at the record's range, no second sort *)
Definition gen_walk_file {S} (ops : wops S) (p : profile) (E : env) (rs : list cfi_record) (addr : Z) (s : S)
  : outcome (option S) :=
  match cfi_file_table p rs with
  | Ret t =>
      match rm_get t addr with
      | Some r => gen_walk ops p E (snd (c_init r)) (map snd (gen_take_applicable addr (c_add r))) s
      | None => Ret None
      end
  | Fail => Fail
  | Panic t => Panic t
  | OutOfFuel => OutOfFuel
  end.

Definition run_mock_file_gen (w lookup : Z) (regs : list (bytes * Z)) (membase : Z) (mem : bytes)
                             (rs : list cfi_record) (names : list bytes) : c06_out :=
  let E := mock_env w lookup regs membase mem false 0 in
  match gen_walk_file (mock_ops w) Debug E rs lookup m_init with
  | Ret (Some s) => observe_mock names s
  | Ret None => out_none
  | _ => out_panic
  end.
