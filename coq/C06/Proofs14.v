(* C06/Proofs14.v — front-end B for every architecture whose unwinder uses CfiStackWalker (x86, amd64, arm64, arm,
   mips 32-bit view, mips64): the architecture tables are well-formed (canonical names are fixed points of
   memoize_register and lie in REGISTERS, so the validity set the walker builds never leaves REGISTERS), the
   environment the driver builds is within u64, and the extracted entry point [run_real2_gen] — the function the
   correspondence run compares with walk_stack — equals the documented result [cfi_spec_real] followed by the
   hand-over of <arch>::get_caller_frame. *)
From Coq Require Import Lia.
From RM Require Import C08.Model C06.Model C06.GenModel C06.Proofs C06.Proofs2 C06.Proofs3 C06.Proofs4 C06.Proofs5 C06.Proofs6
                       C06.Proofs7 C06.Driver C06.GenDriver C06.ArchDriver Gen.UnwindConsts Gen.CfiOps.
Open Scope Z_scope.

(* ---- well-formed architecture tables ---- *)
Definition arch_wfb (a : arch) : bool :=
  forallb (fun c => match memoize a c with Some c' => beq c' c | None => false end) (map snd (a_alias a) ++ a_regs a) &&
  forallb (fun c => mem_b c (a_regs a)) (map snd (a_alias a) ++ a_saved a) &&
  mem_b (a_sp a) (a_regs a) && mem_b (a_ip a) (a_regs a) &&
  match memoize a (a_sp a), memoize a (a_ip a) with
  | Some s, Some i => beq s (a_sp a) && beq i (a_ip a) && negb (beq s i)
  | _, _ => false
  end &&
  (0 <? a_width a) && (a_width a <=? 8).

Lemma mem_b_In : forall k l, mem_b k l = true <-> In k l.
Proof.
  induction l as [|x r IH]; cbn [mem_b In]; [split; [discriminate|contradiction]|].
  rewrite Bool.orb_true_iff, IH. split; (intros [H|H]; [left|right; exact H]).
  - apply beq_eq in H. symmetry. exact H.
  - subst. apply beq_refl.
Qed.
Lemma assoc_b_In : forall k l c, assoc_b k l = Some c -> In c (map snd l).
Proof.
  induction l as [|[k' v] r IH]; intros c H; cbn [assoc_b] in H; [discriminate|].
  destruct (beq k k'); [injection H as <-; left; reflexivity|right; apply IH; exact H].
Qed.

Lemma arch_wf_memoize : forall a, arch_wfb a = true ->
  forall n c, memoize a n = Some c -> In c (a_regs a) /\ memoize a c = Some c.
Proof.
  intros a W n c M. unfold arch_wfb in W. rewrite !Bool.andb_true_iff in W.
  destruct W as [[[[[[W1 W2] _] _] _] _] _].
  rewrite forallb_forall in W1, W2.
  assert (Hin : In c (map snd (a_alias a) ++ a_regs a)).
  { unfold memoize in M. destruct (assoc_b n (a_alias a)) as [c'|] eqn:A.
    - injection M as <-. apply in_or_app. left. eapply assoc_b_In. exact A.
    - destruct (mem_b n (a_regs a)) eqn:B; [|discriminate]. injection M as <-.
      apply in_or_app. right. apply mem_b_In. exact B. }
  split.
  - apply in_app_or in Hin. destruct Hin as [H|H]; [|exact H].
    apply mem_b_In. apply W2. apply in_or_app. left. exact H.
  - specialize (W1 c Hin). destruct (memoize a c) as [c'|]; [|discriminate]. apply beq_eq in W1. subst. reflexivity.
Qed.

Lemma arch_wf_sp_ip : forall a, arch_wfb a = true ->
  memoize a (a_sp a) = Some (a_sp a) /\ memoize a (a_ip a) = Some (a_ip a) /\ a_sp a <> a_ip a /\
  In (a_sp a) (a_regs a) /\ In (a_ip a) (a_regs a) /\ (forall c, In c (a_saved a) -> In c (a_regs a)) /\
  0 < a_width a <= 8.
Proof.
  intros a W. unfold arch_wfb in W. rewrite !Bool.andb_true_iff in W.
  destruct W as [[[[[[_ W2] W3] W4] W5] W6] W7].
  destruct (memoize a (a_sp a)) as [s|]; [|discriminate]. destruct (memoize a (a_ip a)) as [i|]; [|discriminate].
  rewrite !Bool.andb_true_iff in W5. destruct W5 as [[A B] C].
  apply beq_eq in A. apply beq_eq in B. subst s i.
  apply Z.ltb_lt in W6. apply Z.leb_le in W7.
  split; [reflexivity|]. split; [reflexivity|].
  split; [intro H; rewrite H, beq_refl in C; discriminate|].
  split; [apply mem_b_In; exact W3|]. split; [apply mem_b_In; exact W4|].
  split; [|lia].
  intros c Hc. rewrite forallb_forall in W2. apply mem_b_In. apply W2. apply in_or_app. right. exact Hc.
Qed.

Lemma arch_tables_wf : forall k, arch_wfb (arch_of2 k) = true.
Proof.
  intro k. unfold arch_of2, arch_of.
  destruct (k =? 3); [vm_compute; reflexivity|]. destruct (k =? 4); [vm_compute; reflexivity|].
  destruct (k =? 5); [vm_compute; reflexivity|]. destruct (k =? 0); [vm_compute; reflexivity|].
  destruct (k =? 1); vm_compute; reflexivity.
Qed.

(* ---- the environment of the driver is within u64 ---- *)
Definition ctx_wf (ctx : list (bytes * Z)) : Prop := forall n v, In (n, v) ctx -> 0 <= v < two64.
Definition bytes_wf (l : bytes) : Prop := forall b, In b l -> 0 <= b < 256.

Lemma assoc_In : forall k l v, assoc k l = Some v -> exists k', In (k', v) l.
Proof.
  induction l as [|[k' v'] r IH]; intros v H; cbn [assoc] in H; [discriminate|].
  destruct (beq k k'); [injection H as <-; exists k'; left; reflexivity|].
  destruct (IH _ H) as [k'' I]. exists k''. right. exact I.
Qed.

Lemma le_val_bound : forall l, bytes_wf l -> 0 <= le_val l < 256 ^ Z.of_nat (length l).
Proof.
  induction l as [|b r IH]; intro W; cbn [le_val length]; [cbn; lia|].
  assert (Hb : 0 <= b < 256) by (apply W; left; reflexivity).
  assert (Hr : 0 <= le_val r < 256 ^ Z.of_nat (length r)) by (apply IH; intros x Hx; apply W; right; exact Hx).
  rewrite Nat2Z.inj_succ, Z.pow_succ_r by lia. nia.
Qed.

Lemma In_firstn_ : forall (A : Type) n (l : list A) x, In x (firstn n l) -> In x l.
Proof. intros A n l x H. rewrite <- (firstn_skipn n l). apply in_or_app. left. exact H. Qed.
Lemma In_skipn_ : forall (A : Type) n (l : list A) x, In x (skipn n l) -> In x l.
Proof. intros A n l x H. rewrite <- (firstn_skipn n l). apply in_or_app. right. exact H. Qed.

Lemma mem_read_inr : forall w base data addr v, 0 < w <= 8 -> bytes_wf data ->
  mem_read w base data addr = Some v -> 0 <= v < two64.
Proof.
  intros w base data addr v Hw W H. unfold mem_read in H.
  destruct ((base <=? addr) && (addr - base + w <=? blen data)); [|discriminate]. injection H as <-.
  set (l := firstn (Z.to_nat w) (skipn (Z.to_nat (addr - base)) data)).
  assert (Wl : bytes_wf l).
  { intros b Hb. apply W. unfold l in Hb. apply In_firstn_ in Hb. apply In_skipn_ in Hb. exact Hb. }
  pose proof (le_val_bound l Wl) as B.
  assert (L : (length l <= Z.to_nat w)%nat) by (unfold l; apply firstn_le_length).
  assert (P : 256 ^ Z.of_nat (length l) <= 256 ^ 8) by (apply Z.pow_le_mono_r; lia).
  unfold two64. change (256 ^ 8) with (2 ^ 64) in P. lia.
Qed.

Lemma real_env2_wf : forall k ctx valid stackbase stack ip,
  ctx_wf ctx -> bytes_wf stack -> env_wf (real_env2 k ctx valid stackbase stack ip).
Proof.
  intros k ctx valid sb st ip Wc Ws. unfold real_env2, env_wf. cbn [e_callee e_mem]. split.
  - assert (B : forall n v, real_callee (arch_of2 k) ctx valid n = Some v -> 0 <= v < two64).
    { intros n v H. unfold real_callee in H. destruct (memoize (arch_of2 k) n) as [c|]; [|discriminate].
      match type of H with (if ?b then _ else _) = _ => destruct b; [|discriminate] end.
      injection H as <-. destruct (assoc c ctx) as [v|] eqn:A; [|split; [lia|reflexivity]].
      destruct (assoc_In _ _ _ A) as [k' I]. apply (Wc _ _ I). }
    intros n v H. unfold inr. unfold real_callee2 in H. destruct (k =? 4); [|apply (B n v H)].
    destruct (real_callee (arch_of2 k) ctx valid n) as [v0|]; [|discriminate]. injection H as <-.
    change cfi_mips32_callee_bits with 32.
    pose proof (Z.mod_pos_bound v0 (2 ^ 32) ltac:(lia)) as M.
    unfold two64. change (Z.pow_pos 2 32) with 4294967296. change (2 ^ 32) with 4294967296 in *. change (2 ^ 64) with 18446744073709551616. lia.
  - intros a v H. unfold inr. pose proof (arch_wf_sp_ip _ (arch_tables_wf k)) as [_ [_ [_ [_ [_ [_ Hw]]]]]].
    eapply mem_read_inr; eassumption.
Qed.

(* ---- pointwise-equal walker states are observed alike ---- *)
Definition rs_eq (s s' : rstate) : Prop := forall c, r_ctx s c = r_ctx s' c /\ r_valid s c = r_valid s' c.

Lemma observe_real_ext : forall a s s', rs_eq s s' -> observe_real a s = observe_real a s'.
Proof.
  intros a s s' H. unfold observe_real. induction (a_regs a) as [|n r IH]; [reflexivity|].
  cbn [flat_map]. destruct (H n) as [-> ->]. rewrite IH. reflexivity.
Qed.

Lemma post_real2_ext : forall k a sp s s', rs_eq s s' ->
  match post_real2 k a sp s, post_real2 k a sp s' with
  | Some x, Some y => rs_eq x y
  | None, None => True
  | _, _ => False
  end.
Proof.
  intros k a sp s s' H. unfold post_real2, post_real.
  destruct (k <? 3).
  - destruct (k =? 2).
    + cbn [r_ctx r_valid]. unfold updz.
      assert (Hc : forall n, (if beq n R_fp then Z.land (r_ctx s R_fp) (2 ^ 47 - 1)
                    else if beq n R_lr then Z.land (r_ctx s R_lr) (2 ^ 47 - 1)
                    else if beq n R_pc then Z.land (r_ctx s R_pc) (2 ^ 47 - 1) else r_ctx s n) =
                   (if beq n R_fp then Z.land (r_ctx s' R_fp) (2 ^ 47 - 1)
                    else if beq n R_lr then Z.land (r_ctx s' R_lr) (2 ^ 47 - 1)
                    else if beq n R_pc then Z.land (r_ctx s' R_pc) (2 ^ 47 - 1) else r_ctx s' n)).
      { intro n. rewrite (proj1 (H R_fp)), (proj1 (H R_lr)), (proj1 (H R_pc)), (proj1 (H n)). reflexivity. }
      rewrite (Hc (a_ip a)), (Hc (a_sp a)).
      destruct (_ <? 4096); [exact I|]. destruct (_ <? sp); [exact I|].
      intro c. cbn [r_ctx r_valid]. split; [apply Hc|apply H].
    + rewrite (proj1 (H (a_ip a))), (proj1 (H (a_sp a))).
      destruct (_ <? 4096); [exact I|]. destruct (_ <=? sp); [exact I|exact H].
  - rewrite (proj1 (H (a_ip a))), (proj1 (H (a_sp a))).
    destruct (_ <? 4096); [exact I|]. destruct (_ <? sp); [exact I|exact H].
Qed.

(* ---- end to end: the extracted entry point = documented result + hand-over ---- *)
Definition frame_of_spec (k : Z) (a : arch) (callee_sp : Z) (res : option ((bytes -> Z) * (bytes -> bool))) : c06_out :=
  match res with
  | Some (c, v) =>
      match post_real2 k a callee_sp (mkR c v) with
      | Some s1 => Build_c06_out 1 None None (observe_real a s1) []
      | None => out_none
      end
  | None => out_none
  end.

Theorem real_end_to_end : forall k ctx valid stackbase stack initaddr initsize init deltas,
  ctx_wf ctx -> bytes_wf stack ->
  let a := arch_of2 k in
  let ip := match assoc (a_ip a) ctx with Some v => v | None => 0 end in
  let sp := match assoc (a_sp a) ctx with Some v => v | None => 0 end in
  let r := mkCfi (initaddr, init) initsize deltas in
  let E := real_env2 k ctx valid stackbase stack ip in
  all_documented r (ip - 1073741824) -> real_documented_nonaliasing a r (ip - 1073741824) ->
  run_real2_gen k ctx valid stackbase stack initaddr initsize init deltas =
    if negb (stack_ok stackbase stack)
       || negb (match valid with None => true | Some which => mem_b (a_sp a) which end)
       || (ip <? 1073741824) || (1073741824 + 65536 <=? ip) then out_none
    else frame_of_spec k a sp (cfi_spec_real a E r (ip - 1073741824) (real_init a ctx valid)).
Proof.
  intros k ctx valid sb st ia isz init deltas Wc Ws a ip sp r E Hd Hn.
  unfold run_real2_gen. fold a. fold ip. fold sp. fold E. fold r.
  destruct (negb (stack_ok sb st)); [reflexivity|]. cbn [orb].
  destruct (negb _ || _ || _); [reflexivity|].
  pose proof (gen_real_walk_refines_spec a Debug E r (ip - 1073741824) (real_init a ctx valid)
                (real_env2_wf k ctx valid sb st ip Wc Ws) Hd Hn) as R.
  destruct (gen_walk_frame_cfi (real_ops a) Debug E r (ip - 1073741824) (real_init a ctx valid)) as [[s|]| | |];
    destruct (cfi_spec_real a E r (ip - 1073741824) (real_init a ctx valid)) as [[c v]|]; try contradiction; try reflexivity.
  unfold frame_of_spec.
  assert (Q : rs_eq s (mkR c v)) by (intro x; cbn [r_ctx r_valid]; apply R).
  pose proof (post_real2_ext k a sp _ _ Q) as P.
  destruct (post_real2 k a sp s) as [x|], (post_real2 k a sp (mkR c v)) as [y|]; try contradiction; [|reflexivity].
  rewrite (observe_real_ext a x y P). reflexivity.
Qed.

(* what arm.rs / mips.rs hand to walk_stack: the walker's context unchanged; the frame exists iff pc >= 4096 and the
   stack pointer did not go down (a context frame may be a leaf: equality is allowed) *)
Lemma handover_arm_mips : forall k a callee_sp s, 3 <= k ->
  match post_real2 k a callee_sp s with
  | Some s1 => s1 = s /\ 4096 <= r_ctx s (a_ip a) /\ callee_sp <= r_ctx s (a_sp a)
  | None => r_ctx s (a_ip a) < 4096 \/ r_ctx s (a_sp a) < callee_sp
  end.
Proof.
  intros k a csp s Hk. unfold post_real2. replace (k <? 3) with false by (symmetry; apply Z.ltb_ge; lia).
  destruct (r_ctx s (a_ip a) <? 4096) eqn:E1; [left; apply Z.ltb_lt; exact E1|].
  destruct (r_ctx s (a_sp a) <? csp) eqn:E2; [right; apply Z.ltb_lt; exact E2|].
  apply Z.ltb_ge in E1. apply Z.ltb_ge in E2. repeat split; lia.
Qed.

(* the old entry point is the new one on the old architectures *)
Lemma run_real2_old : forall k ctx valid stackbase stack initaddr initsize init deltas, k < 3 ->
  stack_ok stackbase stack = true ->
  run_real2_gen k ctx valid stackbase stack initaddr initsize init deltas =
  run_real_gen k ctx valid stackbase stack initaddr initsize init deltas.
Proof.
  intros k ctx valid sb st ia isz init deltas Hk Hst. unfold run_real2_gen, run_real_gen, real_env2, post_real2, arch_of2.
  rewrite Hst. cbn [negb].
  replace (k =? 3) with false by (symmetry; apply Z.eqb_neq; lia).
  replace (k =? 4) with false by (symmetry; apply Z.eqb_neq; lia).
  replace (k =? 5) with false by (symmetry; apply Z.eqb_neq; lia).
  replace (k <? 3) with true by (symmetry; apply Z.ltb_lt; lia).
  unfold real_callee2. replace (k =? 4) with false by (symmetry; apply Z.eqb_neq; lia). reflexivity.
Qed.

(* ---- the observation loses nothing: the validity set of the documented result stays inside REGISTERS ---- *)
Lemma real_init_valid_in_regs : forall a ctx valid, arch_wfb a = true ->
  forall c, r_valid (real_init a ctx valid) c = true -> In c (a_regs a).
Proof.
  intros a ctx valid W c H. unfold real_init in H. cbn [r_valid] in H. apply Bool.andb_true_iff in H. destruct H as [H _].
  apply mem_b_In in H. destruct (arch_wf_sp_ip a W) as [_ [_ [_ [_ [_ [S _]]]]]]. apply S. exact H.
Qed.

Lemma spec_real_valid_in_regs : forall a E r addr s0 ctx valid, arch_wfb a = true ->
  (forall c, r_valid s0 c = true -> In c (a_regs a)) ->
  cfi_spec_real a E r addr s0 = Some (ctx, valid) ->
  forall c, valid c = true -> In c (a_regs a).
Proof.
  intros a E r addr s0 ctx valid W H0 H c Hc. unfold cfi_spec_real in H.
  destruct (arch_wf_sp_ip a W) as [Msp [Mip [_ [Isp [Iip _]]]]]. rewrite Msp, Mip in H.
  destruct (cfi_covers r addr); [|discriminate].
  destruct (all_pairs _) as [ps|]; [|discriminate].
  destruct (last_rule RCfa ps); [|discriminate]. destruct (last_rule RRa ps); [|discriminate].
  destruct (spec_eval E None _) as [cfa|]; [|discriminate].
  destruct (spec_eval E (Some cfa) _) as [ra|]; [|discriminate].
  destruct (fits (a_width a) cfa && fits (a_width a) ra); [|discriminate].
  injection H as _ Hv. subst valid. cbn beta in Hc.
  assert (Hb : (if beq c (a_ip a) then true else if beq c (a_sp a) then true else r_valid s0 c) = true -> In c (a_regs a)).
  { destruct (beq c (a_ip a)) eqn:B1; [apply beq_eq in B1; subst; intro; exact Iip|].
    destruct (beq c (a_sp a)) eqn:B2; [apply beq_eq in B2; subst; intro; exact Isp|]. apply H0. }
  destruct (find_canon a c ps) as [[n ee]|] eqn:F; [|apply Hb; exact Hc].
  destruct (find_canon_some _ _ _ _ _ F) as [_ M]. apply (arch_wf_memoize a W n c M).
Qed.

(* ---- CfiStackWalker::set_caller_register / set_cfa / set_ra on any architecture table: the name is resolved through
        memoize_register (aliases), the value must fit size_of::<Register>() bytes, exactly one machine register
        changes ---- *)
Lemma real_set_spec : forall a s n v,
  match real_set a s n v with
  | Some s' => exists c, memoize a n = Some c /\ v < 2 ^ (8 * a_width a) /\
                 r_ctx s' c = v /\ r_valid s' c = true /\
                 forall c', c' <> c -> r_ctx s' c' = r_ctx s c' /\ r_valid s' c' = r_valid s c'
  | None => memoize a n = None \/ 2 ^ (8 * a_width a) <= v
  end.
Proof.
  intros a s n v. unfold real_set. destruct (memoize a n) as [c|]; [|left; reflexivity].
  unfold fits. destruct (v <? 2 ^ (8 * a_width a)) eqn:F.
  - apply Z.ltb_lt in F. exists c. split; [reflexivity|]. split; [exact F|]. cbn [r_ctx r_valid]. unfold updz, updb.
    rewrite beq_refl. split; [reflexivity|]. split; [reflexivity|].
    intros c' Hne. apply beq_neq in Hne. rewrite Hne. split; reflexivity.
  - right. apply Z.ltb_ge. exact F.
Qed.

(* a stack memory without a range (empty, or base + size beyond u64) ends the walk before any frame is unwound *)
Lemma no_stack_no_frame : forall k ctx valid stackbase stack initaddr initsize init deltas,
  (blen stack = 0 \/ two64 <= stackbase + blen stack) ->
  run_real2_gen k ctx valid stackbase stack initaddr initsize init deltas = out_none.
Proof.
  intros k ctx valid sb st ia isz init deltas H. unfold run_real2_gen.
  assert (E : stack_ok sb st = false).
  { unfold stack_ok, mk_range, checked_add. destruct (blen st =? 0) eqn:E0; [reflexivity|].
    destruct H as [H|H]; [apply Z.eqb_neq in E0; contradiction|].
    destruct (sb + blen st <? 2 ^ 64) eqn:E1; [|reflexivity]. apply Z.ltb_lt in E1. unfold two64 in H. lia. }
  rewrite E. reflexivity.
Qed.
