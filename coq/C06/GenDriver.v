(* C06/GenDriver.v — the entry points of the correspondence run over the GENERATED evaluator
   (C06/GenModel.v interpreting Gen/CfiOps.v): this is what is extracted and compared with the real code. *)
From RM Require Import C06.Model C06.GenModel C06.Driver.
Open Scope Z_scope.

Definition run_mock_gen (w lookup initaddr initsize : Z) (regs : list (bytes * Z)) (membase : Z) (mem : bytes)
                        (init : bytes) (deltas : list (Z * bytes)) (names : list bytes) : c06_out :=
  let E := mock_env w lookup regs membase mem false 0 in
  match gen_walk_frame_cfi (mock_ops w) Debug E (mkCfi (initaddr, init) initsize deltas) lookup m_init with
  | Ret (Some s) => observe_mock names s
  | Ret None => out_none
  | _ => out_panic
  end.

Definition run_real_gen (k : Z) (ctx : list (bytes * Z)) (valid : option (list bytes))
                        (stackbase : Z) (stack : bytes) (initaddr initsize : Z) (init : bytes)
                        (deltas : list (Z * bytes)) : c06_out :=
  let a := arch_of k in
  let ip := match assoc (a_ip a) ctx with Some v => v | None => 0 end in
  let sp := match assoc (a_sp a) ctx with Some v => v | None => 0 end in
  let sp_valid := match valid with None => true | Some which => mem_b (a_sp a) which end in
  if negb sp_valid || (ip <? 1073741824) || (1073741824 + 65536 <=? ip) then out_none else
  let E := mkEnv (real_callee a ctx valid) (mem_read (a_width a) stackbase stack) ip false 0 in
  match gen_walk_frame_cfi (real_ops a) Debug E (mkCfi (initaddr, init) initsize deltas) (ip - 1073741824)
                           (real_init a ctx valid) with
  | Ret (Some s) =>
      match post_real k a sp s with
      | Some s1 => Build_c06_out 1 None None (observe_real a s1) []
      | None => out_none
      end
  | Ret None => out_none
  | _ => out_panic
  end.

(* several INIT records in one symbol file (disjoint ranges, any file order): the record whose range covers the
   lookup address is used (the RangeMap lookup itself belongs to C08; with disjoint ranges it is "the one that covers") *)
Fixpoint find_record (rs : list cfi_record) (addr : Z) : option cfi_record :=
  match rs with
  | [] => None
  | r :: t => if cfi_covers r addr then Some r else find_record t addr
  end.
Definition run_mock_multi_gen (w lookup : Z) (regs : list (bytes * Z)) (membase : Z) (mem : bytes)
                              (rs : list cfi_record) (names : list bytes) : c06_out :=
  let E := mock_env w lookup regs membase mem false 0 in
  match find_record rs lookup with
  | None => out_none
  | Some r =>
      match gen_walk_frame_cfi (mock_ops w) Debug E r lookup m_init with
      | Ret (Some s) => observe_mock names s
      | Ret None => out_none
      | _ => out_panic
      end
  end.
