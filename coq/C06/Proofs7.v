(* C06/Proofs7.v — the per-architecture tables of C06/Model.v (register lists, aliases, width, sp / ip names,
   forwarded callee-saved registers) and the cut-off constants of C06/Driver.v post_real are the ones
   translate/unwind_consts.py regenerates from minidump-unwind/src/{x86,amd64,arm64}.rs and minidump/src/context.rs
   (Gen/UnwindConsts.v encodes a register name as the big-endian base-256 value of its spelling). *)
From RM Require Import C06.Model C06.Driver Gen.UnwindConsts.
Open Scope Z_scope.

Fixpoint name_bytes_aux (fuel : nat) (n : Z) (acc : bytes) : bytes :=
  match fuel with
  | O => acc
  | S f => if n =? 0 then acc else name_bytes_aux f (n / 256) (n mod 256 :: acc)
  end.
Definition name_bytes (n : Z) : bytes := name_bytes_aux 16 n [].

Definition arch_of_consts (pw : Z) (regs : list Z) (aliases : list (Z * Z)) (sp ip : Z) (saved : list Z) : arch :=
  mkArch pw (map name_bytes regs) (map (fun ab => (name_bytes (fst ab), name_bytes (snd ab))) aliases)
         (name_bytes sp) (name_bytes ip) (map name_bytes saved).

Lemma arch_tables_pinned :
  x86 = arch_of_consts x86_pw x86_registers [] x86_sp_name x86_ip_name x86_callee_saved /\
  amd64 = arch_of_consts amd64_pw amd64_registers [] amd64_sp_name amd64_ip_name amd64_callee_saved /\
  arm64 = arch_of_consts arm64_pw arm64_registers arm64_aliases arm64_cfi_sp_name arm64_cfi_ip_name arm64_callee_saved.
Proof. repeat split; reflexivity. Qed.

(* post_real: `ip < cutoff` ends the walk; pointer-authentication mask 2^apple_bits - 1 on arm64 *)
Lemma post_real_consts_pinned :
  x86_ip_cutoff = 4096 /\ amd64_ip_cutoff = 4096 /\ arm64_ip_cutoff = 4096 /\ arm64_apple_bits = 47 /\
  x86_sp_stop_le = true /\ amd64_sp_stop_le = true.
Proof. repeat split; reflexivity. Qed.
