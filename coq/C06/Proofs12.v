(* C06/Proofs12.v — the real CfiStackWalker WITHOUT the non-aliasing hypothesis: when several rule targets name the
   same machine register (arm64 `x29` / `fp`, `x30` / `lr`), the rule applied last decides, and since commit 3a7f18b
   "last" is the greatest register name in byte-lexicographic order (the derived Ord of CfiReg). *)
From Coq Require Import Lia Permutation Sorted.
From RM Require Import C06.Model C06.Proofs C06.Proofs2 C06.Proofs5 C06.Proofs9.
Open Scope Z_scope.

(* validity / value left at c by the rule that decides it *)
Definition decided (a : arch) (p : profile) (E : env) (cfa : Z) (s : rstate) (c : bytes) (e : expr) : Prop :=
  r_valid s c = match val p E (Some cfa) e with Some v => fits (a_width a) v | None => false end /\
  (forall v, val p E (Some cfa) e = Some v -> fits (a_width a) v = true -> r_ctx s c = v).

Lemma fold_real_last : forall a p E cfa l s c,
  match find_canon a c (rev l) with
  | Some (n, e) => decided a p E cfa (fold_left (stepf (real_ops a) p E cfa) l s) c e
  | None => r_ctx (fold_left (stepf (real_ops a) p E cfa) l s) c = r_ctx s c /\
            r_valid (fold_left (stepf (real_ops a) p E cfa) l s) c = r_valid s c
  end.
Proof.
  intros a p E cfa l. induction l as [|x l IH] using rev_ind; intros s c.
  - cbn. split; reflexivity.
  - rewrite rev_app_distr, fold_left_app. cbn [rev app fold_left find_canon].
    set (s' := fold_left (stepf (real_ops a) p E cfa) l s).
    destruct x as [k e]. specialize (IH s c). fold s' in IH.
    assert (Hskip : canon_of a (k, e) <> Some c ->
              r_ctx (stepf (real_ops a) p E cfa s' (k, e)) c = r_ctx s' c /\
              r_valid (stepf (real_ops a) p E cfa s' (k, e)) c = r_valid s' c).
    { intro Hc. unfold stepf. cbn [fst snd]. unfold canon_of in Hc. cbn [fst] in Hc.
      destruct k as [| |n]; try (split; reflexivity). apply real_act_other. exact Hc. }
    assert (Hother : canon_of a (k, e) <> Some c ->
              match find_canon a c (rev l) with
              | Some (n, e0) => decided a p E cfa (stepf (real_ops a) p E cfa s' (k, e)) c e0
              | None => r_ctx (stepf (real_ops a) p E cfa s' (k, e)) c = r_ctx s c /\
                        r_valid (stepf (real_ops a) p E cfa s' (k, e)) c = r_valid s c
              end).
    { intro Hc. destruct (Hskip Hc) as [A B]. destruct (find_canon a c (rev l)) as [[n e0]|].
      - unfold decided in *. rewrite A, B. exact IH.
      - rewrite A, B. exact IH. }
    destruct k as [| |n]; try (apply Hother; unfold canon_of; cbn; discriminate).
    destruct (memoize a n) as [c'|] eqn:M; [|apply Hother; unfold canon_of; cbn [fst]; rewrite M; discriminate].
    destruct (beq c' c) eqn:B; [|apply Hother; unfold canon_of; cbn [fst]; rewrite M; apply beq_neq in B; congruence].
    apply beq_eq in B. subst c'.
    unfold stepf. cbn [fst snd]. pose proof (real_act_at a s' n (val p E (Some cfa) e) c M) as R.
    unfold cellr in R. unfold decided.
    destruct (val p E (Some cfa) e) as [v|].
    + destruct (fits (a_width a) v) eqn:F; injection R as R1 R2; split; try exact R2.
      * intros v' Hv _. injection Hv as <-. exact R1.
      * intros v' Hv Hf. injection Hv as <-. rewrite F in Hf. discriminate Hf.
    + injection R as R1 R2. split; [exact R2|]. intros v' Hv. discriminate Hv.
Qed.

(* the sort of the remaining rules: ascending register name *)
Definition name_le (x y : cfireg * expr) : Prop := cfireg_ltb (fst y) (fst x) = false.

Lemma cfireg_ltb_le : forall x y, cfireg_ltb x y = true -> cfireg_ltb y x = false.
Proof. intros [| |a] [| |b]; cbn; try reflexivity; try discriminate. apply bytes_ltb_asym. Qed.
Lemma cfireg_le_trans : forall x y z, cfireg_ltb y x = false -> cfireg_ltb z y = false -> cfireg_ltb z x = false.
Proof.
  intros [| |a] [| |b] [| |c]; cbn; try reflexivity; try discriminate. apply bytes_le_trans.
Qed.

Lemma insert_rule_sorted : forall x l, StronglySorted name_le l -> StronglySorted name_le (insert_rule x l).
Proof.
  intros x l H. induction H as [|y t Ht IH Hy]; cbn [insert_rule].
  - constructor; constructor.
  - destruct (cfireg_ltb (fst y) (fst x)) eqn:E.
    + constructor; [exact IH|].
      assert (P : Permutation (insert_rule x t) (x :: t)) by apply insert_rule_perm.
      apply (Permutation_Forall (Permutation_sym P)). constructor; [apply cfireg_ltb_le; exact E|exact Hy].
    + constructor; [constructor; assumption|]. constructor; [exact E|].
      eapply Forall_impl; [|exact Hy]. intros z Hz. unfold name_le in *. eapply cfireg_le_trans; eassumption.
Qed.
Lemma sort_rules_sorted : forall l, StronglySorted name_le (sort_rules l).
Proof.
  induction l as [|x t IH]; [constructor|]. unfold sort_rules in *. cbn [fold_right]. apply insert_rule_sorted. exact IH.
Qed.

Lemma all_other_sorted : forall m, all_other m -> all_other (sort_rules m).
Proof. intros m H x Hx. apply H. apply (Permutation_in _ (sort_rules_perm m)). exact Hx. Qed.

Theorem real_alias_last_name_wins : forall a p E cfa m2 s2,
  all_other m2 ->
  StronglySorted name_le (sort_rules m2) /\ Permutation (sort_rules m2) m2 /\
  exists s3, apply_rules (real_ops a) p E cfa (sort_rules m2) s2 = Ret s3 /\
    forall c,
      match find_canon a c (rev (sort_rules m2)) with
      | Some (n, e) => decided a p E cfa s3 c e
      | None => r_ctx s3 c = r_ctx s2 c /\ r_valid s3 c = r_valid s2 c
      end.
Proof.
  intros a p E cfa m2 s2 H. split; [apply sort_rules_sorted|]. split; [apply sort_rules_perm|].
  eexists. split; [apply apply_rules_fold; apply all_other_sorted; exact H|].
  intro c. apply fold_real_last.
Qed.

(* the memory read of both walkers takes the evaluator's 64-bit address as it is: a successful read lies entirely
   inside [base, base + len) - the address is never folded into a narrower address space; only the VALUE read has
   the register width *)
Lemma mem_read_exact : forall w base data addr,
  (forall v, mem_read w base data addr = Some v ->
     base <= addr /\ addr - base + w <= blen data /\
     v = le_val (firstn (Z.to_nat w) (skipn (Z.to_nat (addr - base)) data))) /\
  (addr < base \/ blen data < addr - base + w -> mem_read w base data addr = None).
Proof.
  intros w base data addr. unfold mem_read.
  destruct ((base <=? addr) && (addr - base + w <=? blen data)) eqn:C.
  - apply Bool.andb_true_iff in C. destruct C as [C1 C2]. apply Z.leb_le in C1. apply Z.leb_le in C2.
    split; [intros v H; injection H as <-; repeat split; lia|lia].
  - split; [discriminate|reflexivity].
Qed.
