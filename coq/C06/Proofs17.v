(* C06/Proofs17.v — the order of the INIT records in the file does not matter: for ALL files (overlapping ones included)
   whose records with a range have pairwise different ranges, permuting the records leaves the record table — hence
   every lookup and every unwind step — unchanged.  (Records with EQUAL ranges are the one case where file order
   decides: the stable sort keeps the earlier one first and the later one is dropped.) *)
From Coq Require Import Lia Sorted Permutation.
From RM Require Import Base.Word C08.Model C08.Proofs C08.Tie C08.WinProofs C08.EndToEnd Gen.C08Tables Gen.CfiOps
                       C06.Model C06.GenModel C06.Proofs C06.Driver C06.GenDriver C06.FileTable C06.Proofs15 C06.Proofs16.
Open Scope Z_scope.

Section Unique.
Context {A : Type} (R : A -> A -> Prop).
Lemma sorted_perm_unique : forall l l', StronglySorted R l -> StronglySorted R l' -> Permutation l l' ->
  (forall x y, In x l -> In y l -> R x y -> R y x -> x = y) -> l = l'.
Proof.
  induction l as [|x t IH]; intros l' S1 S2 P Hanti.
  - apply Permutation_nil in P. subst. reflexivity.
  - destruct l' as [|y t']; [apply Permutation_sym, Permutation_nil in P; discriminate|].
    inversion S1 as [|? ? S1t S1h]; subst. inversion S2 as [|? ? S2t S2h]; subst.
    rewrite Forall_forall in S1h, S2h.
    assert (Exy : x = y).
    { assert (Ix : In x (y :: t')) by (apply (Permutation_in _ P); left; reflexivity).
      assert (Iy : In y (x :: t)) by (apply (Permutation_in _ (Permutation_sym P)); left; reflexivity).
      destruct Ix as [->|Ix]; [reflexivity|]. destruct Iy as [->|Iy]; [reflexivity|].
      apply Hanti; [left; reflexivity|right; exact Iy|apply S1h; exact Iy|apply S2h; exact Ix]. }
    subst y. f_equal. apply IH; [exact S1t|exact S2t|apply (Permutation_cons_inv P)|].
    intros a b Ha Hb. apply Hanti; right; assumption.
Qed.
End Unique.

Lemma range_lt_antisym : forall a b : range, range_lt a b = false -> range_lt b a = false -> a = b.
Proof.
  intros [a1 a2] [b1 b2]. unfold range_lt. cbn [fst snd]. intros H1 H2.
  apply Bool.orb_false_iff in H1. apply Bool.orb_false_iff in H2. destruct H1 as [A1 A2], H2 as [B1 B2].
  apply Z.ltb_ge in A1. apply Z.ltb_ge in B1. assert (E : a1 = b1) by lia. subst b1.
  rewrite Z.eqb_refl in A2, B2. cbn [andb] in A2, B2. apply Z.ltb_ge in A2. apply Z.ltb_ge in B2. f_equal. lia.
Qed.

Lemma nodup_keys_inj : forall (V : Type) (l : list (range * V)) x y,
  NoDup (map fst l) -> In x l -> In y l -> fst x = fst y -> x = y.
Proof.
  induction l as [|z t IH]; intros x y ND Hx Hy E; [contradiction|].
  cbn [map] in ND. inversion ND as [|? ? Hn NDt]; subst.
  destruct Hx as [->|Hx], Hy as [->|Hy]; [reflexivity| | |apply IH; assumption].
  - exfalso. apply Hn. rewrite E. apply in_map. exact Hy.
  - exfalso. apply Hn. rewrite <- E. apply in_map. exact Hx.
Qed.

Lemma sort_stable_perm_eq : forall (V : Type) (l l' : list (range * V)),
  Permutation l l' -> NoDup (map fst l) -> sort_stable range_lt l = sort_stable range_lt l'.
Proof.
  intros V l l' P ND.
  apply (sorted_perm_unique (le_keys range_lt)).
  - apply sort_sorted; [apply range_lt_asym|apply range_lt_negtrans].
  - apply sort_sorted; [apply range_lt_asym|apply range_lt_negtrans].
  - eapply Permutation_trans; [apply Permutation_sym, sort_perm|]. eapply Permutation_trans; [exact P|apply sort_perm].
  - intros x y Hx Hy R1 R2. unfold le_keys in R1, R2.
    apply (nodup_keys_inj V l); [exact ND| | |apply range_lt_antisym; assumption];
      apply (Permutation_in _ (Permutation_sym (sort_perm range_lt l))); assumption.
Qed.

Lemma keep_ranged_perm : forall (V : Type) (l l' : list (option range * V)),
  Permutation l l' -> Permutation (keep_ranged l) (keep_ranged l').
Proof.
  intros V l l' P. induction P as [|[[r|] v] l l' P IH|[[r1|] v1] [[r2|] v2] l|l l' l'' P1 IH1 P2 IH2]; cbn [keep_ranged].
  - constructor.
  - constructor. exact IH.
  - exact IH.
  - apply perm_swap.
  - apply Permutation_refl.
  - apply Permutation_refl.
  - apply Permutation_refl.
  - eapply Permutation_trans; eassumption.
Qed.

(* the ranges of the records that have one *)
Definition file_keys (rs : list cfi_record) : list range := map fst (keep_ranged (map pure_rec (file_recs rs))).

Theorem file_order_irrelevant : forall p rs rs', u64_file rs -> Permutation rs rs' -> NoDup (file_keys rs) ->
  cfi_file_table p rs = cfi_file_table p rs'.
Proof.
  intros p rs rs' H P ND.
  assert (H' : u64_file rs') by (unfold u64_file in *; eapply Permutation_Forall; eassumption).
  destruct (file_table_eq p rs H) as [-> _]. destruct (file_table_eq p rs' H') as [-> _]. f_equal.
  unfold into_rangemap_safe_p. f_equal. apply sort_stable_perm_eq; [|exact ND].
  apply keep_ranged_perm. unfold file_recs. apply Permutation_map. apply Permutation_map. exact P.
Qed.

Corollary file_walk_order_irrelevant : forall S (ops : wops S) p E rs rs' addr s, u64_file rs -> Permutation rs rs' ->
  NoDup (file_keys rs) -> gen_walk_file ops p E rs addr s = gen_walk_file ops p E rs' addr s.
Proof. intros. unfold gen_walk_file. rewrite (file_order_irrelevant p rs rs'); [reflexivity|assumption|assumption|assumption]. Qed.
