(* C06/Driver.v — entry points of the correspondence run (extracted to OCaml). *)
From RM Require Import C06.Model.
Open Scope Z_scope.

Record c06_out := {
  o_status : Z;                       (* 0 = None, 1 = Some(()), 2 = model Panic/OutOfFuel *)
  o_cfa : option Z; o_ra : option Z;
  o_regs : list (bytes * Z);          (* mock: registers set; real: valid registers *)
  o_cleared : list bytes
}.
Definition out_none := Build_c06_out 0 None None [] [].
Definition out_panic := Build_c06_out 2 None None [] [].

Fixpoint dedup (l : list bytes) : list bytes :=
  match l with
  | [] => []
  | x :: r => if mem_b x r then dedup r else x :: dedup r
  end.

Definition observe_mock (names : list bytes) (s : mstate) : c06_out :=
  let ns := dedup names in
  Build_c06_out 1 (m_cfa s) (m_ra s)
    (flat_map (fun n => match m_regs s n with SetTo v => [(n, v)] | _ => [] end) ns)
    (flat_map (fun n => match m_regs s n with Cleared => [n] | _ => [] end) ns).

Definition mock_env (w : Z) (lookup : Z) (regs : list (bytes * Z)) (membase : Z) (mem : bytes)
                    (has_gc : bool) (gcps : Z) : env :=
  mkEnv (fun n => assoc n regs) (mem_read w membase mem) lookup has_gc gcps.

(* front-end (a): names = the register names the answer is observed at *)
Definition run_mock (w lookup initaddr initsize : Z) (regs : list (bytes * Z)) (membase : Z) (mem : bytes)
                    (init : bytes) (deltas : list (Z * bytes)) (names : list bytes) : c06_out :=
  let E := mock_env w lookup regs membase mem false 0 in
  match walk_frame_cfi (mock_ops w) Debug E (mkCfi (initaddr, init) initsize deltas) lookup m_init with
  | Ret (Some s) => observe_mock names s
  | Ret None => out_none
  | _ => out_panic
  end.

Definition R_pc := [112; 99] (* pc *). Definition R_lr := [108; 114] (* lr *). Definition R_fp := [102; 112] (* fp *).
Definition arch_of (k : Z) : arch := if k =? 0 then x86 else if k =? 1 then amd64 else arm64.

Definition observe_real (a : arch) (s : rstate) : list (bytes * Z) :=
  flat_map (fun n => if r_valid s n then [(n, r_ctx s n)] else []) (a_regs a).

(* The part of <arch>::get_caller_by_cfi / get_caller_frame after the walk that decides
   whether frame 1 exists (owned by C05; mirrored here only as far as the observation needs):
   arm64 strips pointer-authentication bits (mask 2^47-1 for low module addresses) from
   pc, lr, fp; pc < 4096 ends the walk; the stack pointer must grow (arm64 context frame: not shrink). *)
Definition post_real (k : Z) (a : arch) (callee_sp : Z) (s : rstate) : option rstate :=
  let s1 := if k =? 2 then
              let m := fun n => Z.land (r_ctx s n) (2 ^ 47 - 1) in
              mkR (updz (updz (updz (r_ctx s) R_pc (m R_pc)) R_lr (m R_lr))
                        R_fp (m R_fp)) (r_valid s)
            else s in
  let ip := r_ctx s1 (a_ip a) in
  let sp := r_ctx s1 (a_sp a) in
  if ip <? 4096 then None
  else if k =? 2 then (if sp <? callee_sp then None else Some s1)
  else (if sp <=? callee_sp then None else Some s1).

(* front-end (b): module base 0x40000000; lookup = ip - base *)
Definition run_real (k : Z) (ctx : list (bytes * Z)) (valid : option (list bytes))
                    (stackbase : Z) (stack : bytes) (initaddr initsize : Z) (init : bytes)
                    (deltas : list (Z * bytes)) : c06_out :=
  let a := arch_of k in
  let ip := match assoc (a_ip a) ctx with Some v => v | None => 0 end in
  let sp := match assoc (a_sp a) ctx with Some v => v | None => 0 end in
  let sp_valid := match valid with None => true | Some which => mem_b (a_sp a) which end in
  if negb sp_valid || (ip <? 1073741824) || (1073741824 + 65536 <=? ip) then out_none else
  let E := mkEnv (real_callee a ctx valid) (mem_read (a_width a) stackbase stack) ip false 0 in
  match walk_frame_cfi (real_ops a) Debug E (mkCfi (initaddr, init) initsize deltas) (ip - 1073741824)
                       (real_init a ctx valid) with
  | Ret (Some s) =>
      match post_real k a sp s with
      | Some s1 => Build_c06_out 1 None None (observe_real a s1) []
      | None => out_none
      end
  | Ret None => out_none
  | _ => out_panic
  end.
