(* C06/Proofs8.v — the one step of parse_cfi_exprs the token-list model left trusted: the code keeps, per
   register, the SUBSTRING `&input[first.start .. last.end]` and eval_cfi_expr tokenises it again.  For every
   byte string and every run of consecutive tokens, re-tokenising the substring from the start of the first to the
   end of the last token yields exactly the tokens of the run. *)
From Coq Require Import Lia.
From RM Require Import C06.Model C06.Proofs.
Open Scope Z_scope.

Definition substr (s : bytes) (lo hi : Z) : bytes := firstn (Z.to_nat (hi - lo)) (skipn (Z.to_nat lo) s).

Lemma blen_cons' : forall c (b : bytes), blen (c :: b) = blen b + 1.
Proof. intros. unfold blen. cbn [length]. lia. Qed.

(* every token produced ends at or after the current offset *)
Lemma split_off_end_ge : forall s o cur x, In x (split_off o cur s) -> o <= t_end x.
Proof.
  induction s as [|c t IH]; intros o cur x H; cbn [split_off] in H.
  - destruct cur; [destruct H|]. destruct H as [<-|[]]. unfold t_end; cbn [t_off t_body]. rewrite blen_rev. lia.
  - destruct (is_ws c).
    + destruct cur.
      * apply IH in H. lia.
      * destruct H as [<-|H]; [unfold t_end; cbn [t_off t_body]; rewrite blen_rev; lia|]. apply IH in H. lia.
    + apply IH in H. lia.
Qed.

(* with a token under construction, the first token produced starts where that one started *)
Lemma split_off_first : forall s o cur, cur <> [] ->
  exists body rest, split_off o cur s = mkTok (o - blen cur) body :: rest.
Proof.
  induction s as [|c t IH]; intros o cur Hc; cbn [split_off].
  - destruct cur; [contradiction|]. eexists _, _; reflexivity.
  - destruct (is_ws c).
    + destruct cur; [contradiction|]. eexists _, _; reflexivity.
    + destruct (IH (o + 1) (c :: cur)) as (b & r & E); [discriminate|].
      rewrite E. rewrite blen_cons'. replace (o + 1 - (blen cur + 1)) with (o - blen cur) by lia.
      eexists _, _; reflexivity.
Qed.

(* suffix: the text from the start of a token on tokenises to that token and everything after it *)
Lemma split_off_suffix : forall s o cur l1 x l2,
  split_off o cur s = l1 ++ x :: l2 -> (l1 <> [] \/ cur = []) ->
  exists k : nat, t_off x = o + Z.of_nat k /\ split_off (t_off x) [] (skipn k s) = x :: l2.
Proof.
  induction s as [|c t IH]; intros o cur l1 x l2 H Hc; cbn [split_off] in H.
  - exfalso. destruct cur.
    + destruct l1; discriminate H.
    + destruct Hc as [Hc|Hc]; [|discriminate Hc]. destruct l1 as [|a [|b l1]]; try contradiction; discriminate H.
  - destruct (is_ws c) eqn:W.
    + destruct cur.
      * destruct (IH _ _ _ _ _ H (or_intror eq_refl)) as (k & E1 & E2).
        exists (Datatypes.S k). split; [lia|]. exact E2.
      * destruct Hc as [Hc|Hc]; [|discriminate Hc]. destruct l1 as [|a l1]; [contradiction|].
        cbn [app] in H. injection H as _ H.
        destruct (IH _ _ _ _ _ H (or_intror eq_refl)) as (k & E1 & E2).
        exists (Datatypes.S k). split; [lia|]. exact E2.
    + destruct l1 as [|a l1].
      * destruct Hc as [Hc|Hc]; [contradiction|]. subst cur. cbn [app] in H.
        destruct (split_off_first t (o + 1) [c]) as (b & r & E); [discriminate|].
        rewrite E in H. injection H as Hx Hr. subst x l2.
        exists O. cbn [t_off skipn]. rewrite blen_cons'. cbn [blen length Z.of_nat].
        replace (o + 1 - (0 + 1)) with o by lia. split; [lia|].
        cbn [split_off]. rewrite W. rewrite E. rewrite blen_cons'. cbn [blen length Z.of_nat].
        replace (o + 1 - (0 + 1)) with o by lia. reflexivity.
      * assert (Hne : a :: l1 <> []) by discriminate.
        destruct (IH _ _ _ _ _ H (or_introl Hne)) as (k & E1 & E2).
        exists (Datatypes.S k). split; [lia|]. exact E2.
Qed.

(* prefix: the text up to the end of a token tokenises to everything up to and including that token *)
Lemma split_off_prefix : forall s o cur run x post,
  split_off o cur s = run ++ x :: post ->
  split_off o cur (firstn (Z.to_nat (t_end x - o)) s) = run ++ [x].
Proof.
  induction s as [|c t IH]; intros o cur run x post H.
  - rewrite firstn_nil. cbn [split_off] in *. destruct cur.
    + destruct run; discriminate H.
    + destruct run as [|a run]; [|destruct run; discriminate H]. cbn [app] in *. injection H as H _. subst x. reflexivity.
  - cbn [split_off] in H. destruct (is_ws c) eqn:W.
    + destruct cur.
      * assert (B : o + 1 <= t_end x) by (apply (split_off_end_ge t (o + 1) []); rewrite H; apply in_or_app; right; left; reflexivity).
        replace (Z.to_nat (t_end x - o)) with (Datatypes.S (Z.to_nat (t_end x - (o + 1)))) by lia.
        cbn [firstn split_off]. rewrite W. apply (IH _ _ _ _ _ H).
      * destruct run as [|a run].
        -- cbn [app] in H. injection H as Hx _. subst x. change (rev cur ++ [z]) with (rev (z :: cur)). unfold t_end at 1. cbn [t_off t_body]. rewrite blen_rev.
           replace (o - blen (z :: cur) + blen (z :: cur) - o) with 0 by lia. cbn [Z.to_nat firstn split_off app]. reflexivity.
        -- cbn [app] in H. injection H as Ha H. subst a.
           assert (B : o + 1 <= t_end x) by (apply (split_off_end_ge t (o + 1) []); rewrite H; apply in_or_app; right; left; reflexivity).
           replace (Z.to_nat (t_end x - o)) with (Datatypes.S (Z.to_nat (t_end x - (o + 1)))) by lia.
           cbn [firstn split_off]. rewrite W. cbn [app]. f_equal. apply (IH _ _ _ _ _ H).
    + assert (B : o + 1 <= t_end x) by (apply (split_off_end_ge t (o + 1) (c :: cur)); rewrite H; apply in_or_app; right; left; reflexivity).
      replace (Z.to_nat (t_end x - o)) with (Datatypes.S (Z.to_nat (t_end x - (o + 1)))) by lia.
      cbn [firstn split_off]. rewrite W. apply (IH _ _ _ _ _ H).
Qed.

(* token bodies do not depend on the offset the tokeniser starts counting at *)
Lemma split_off_bodies_shift : forall s o o' cur,
  map t_body (split_off o cur s) = map t_body (split_off o' cur s).
Proof.
  induction s as [|c t IH]; intros o o' cur; cbn [split_off].
  - destruct cur; reflexivity.
  - destruct (is_ws c); [destruct cur; cbn [map]; [|f_equal]|]; apply IH.
Qed.

Theorem retokenise_run : forall input pre run last_ post,
  tokens input = pre ++ (run ++ [last_]) ++ post ->
  split_ws (substr input (t_off (hd last_ run)) (t_end last_)) = map t_body (run ++ [last_]).
Proof.
  intros input pre run l post H. unfold tokens in H.
  set (f := hd l run).
  assert (R : exists run', run ++ [l] = f :: run').
  { unfold f. destruct run as [|a run]; cbn; eexists; reflexivity. }
  destruct R as (run' & R). rewrite R in H. cbn [app] in H.
  destruct (split_off_suffix _ _ _ _ _ _ H (or_intror eq_refl)) as (k & E1 & E2).
  rewrite app_comm_cons, <- R in E2.
  rewrite <- app_assoc in E2. cbn [app] in E2.
  pose proof (split_off_prefix _ _ _ _ _ _ E2) as P.
  unfold substr, split_ws, tokens. replace (Z.to_nat (t_off f)) with k by lia.
  rewrite (split_off_bodies_shift _ 0 (t_off f)). rewrite P. reflexivity.
Qed.

(* ---- connection with parse_cfi_exprs: every expression kept in the rule map is such a run ---- *)
Definition expr_is_slice (input : bytes) (e : expr) : Prop :=
  exists pre run l post, tokens input = pre ++ (run ++ [l]) ++ post /\ e = map t_body (run ++ [l]).

Lemma map_insert_in : forall k v m x, In x (map_insert k v m) -> x = (k, v) \/ In x m.
Proof.
  intros k v m x. induction m as [|[k' v'] r IH]; cbn [map_insert]; intro H.
  - destruct H as [H|[]]; left; symmetry; exact H.
  - destruct (cfireg_eqb k k').
    + destruct H as [H|H]; [left; symmetry; exact H|right; right; exact H].
    + destruct H as [H|H]; [right; left; exact H|]. destruct (IH H) as [E|E]; [left; exact E|right; right; exact E].
Qed.

Definition run_inv (done : list tok) (reg : option cfireg) (first last : option tok) (acc : list bytes) : Prop :=
  match first, last with
  | None, None => acc = []
  | Some f, Some l => reg <> None /\ exists pre run, done = pre ++ run ++ [l] /\ f = hd l run /\
                                                  acc = rev (map t_body (run ++ [l]))
  | _, _ => False
  end.

Lemma commit_slices : forall input done reg first last acc out m,
  tokens input = done -> run_inv done reg first last acc ->
  commit (blen input) reg first last acc out = Ret m ->
  forall k e, In (k, e) m -> In (k, e) out \/ expr_is_slice input e.
Proof.
  intros input done reg first last acc out m Ht Hi Hc k e Hin.
  unfold commit in Hc. destruct first as [f|], last as [l|]; try discriminate Hc.
  destruct ((0 <=? t_off f) && (t_off f <=? t_end l) && (t_end l <=? blen input)); [|discriminate Hc].
  destruct reg as [r|]; [|discriminate Hc]. injection Hc as <-.
  apply map_insert_in in Hin. destruct Hin as [E|Hin]; [|left; exact Hin].
  injection E as -> ->. right.
  destruct Hi as (_ & pre & run & Hd & _ & Ha). subst acc. rewrite rev_involutive.
  exists pre, run, l, []. split; [|reflexivity]. rewrite Ht, Hd, app_nil_r. reflexivity.
Qed.

Lemma parse_loop_slices : forall toks input done reg first last acc out m,
  tokens input = done ++ toks -> run_inv done reg first last acc ->
  parse_loop (blen input) toks reg first last acc out = Ret m ->
  forall k e, In (k, e) m -> In (k, e) out \/ expr_is_slice input e.
Proof.
  induction toks as [|t r IH]; intros input done reg first last acc out m Ht Hi Hp k e Hin.
  - cbn [parse_loop] in Hp. rewrite app_nil_r in Ht.
    (* the run ends at the end of the token list *)
    unfold commit in Hp. destruct first as [f|], last as [l|]; try discriminate Hp.
    destruct ((0 <=? t_off f) && (t_off f <=? t_end l) && (t_end l <=? blen input)); [|discriminate Hp].
    destruct reg as [rg|]; [|discriminate Hp]. injection Hp as <-.
    apply map_insert_in in Hin. destruct Hin as [E|Hin]; [|left; exact Hin].
    injection E as -> ->. right.
    destruct Hi as (_ & pre & run & Hd & _ & Ha). subst acc. rewrite rev_involutive.
    exists pre, run, l, []. split; [|reflexivity]. rewrite Ht, Hd, app_nil_r. reflexivity.
  - cbn [parse_loop] in Hp.
    assert (Ht' : tokens input = (done ++ [t]) ++ r) by (rewrite <- app_assoc; exact Ht).
    destruct (strip_suffix_colon (t_body t)) as [name|].
    + destruct reg as [rg|].
      * destruct (commit (blen input) (Some rg) first last acc out) as [out'| | |] eqn:Ec; cbn [obind] in Hp; try discriminate Hp.
        assert (Hi' : run_inv (done ++ [t]) (Some (classify_reg name)) None None []) by reflexivity.
        destruct (IH _ _ _ _ _ _ _ _ Ht' Hi' Hp k e Hin) as [Ho|Hs]; [|right; exact Hs].
        (* the committed run is followed by [t :: r] *)
        unfold commit in Ec. destruct first as [f|], last as [l|]; try discriminate Ec.
        destruct ((0 <=? t_off f) && (t_off f <=? t_end l) && (t_end l <=? blen input)); [|discriminate Ec].
        injection Ec as <-.
        apply map_insert_in in Ho. destruct Ho as [E|Ho]; [|left; exact Ho].
        injection E as -> ->. right.
        destruct Hi as (_ & pre & run & Hd & _ & Ha). subst acc. rewrite rev_involutive.
        exists pre, run, l, (t :: r). split; [|reflexivity]. rewrite Ht, Hd. rewrite <- !app_assoc. reflexivity.
      * assert (Hi' : run_inv (done ++ [t]) (Some (classify_reg name)) first last acc).
        { unfold run_inv in *. destruct first, last; try exact Hi. destruct Hi as (Hn & _). exfalso. apply Hn. reflexivity. }
        exact (IH _ _ _ _ _ _ _ _ Ht' Hi' Hp k e Hin).
    + destruct reg as [rg|]; [|discriminate Hp].
      assert (Hi' : run_inv (done ++ [t]) (Some rg) (match first with None => Some t | _ => first end) (Some t) (t_body t :: acc)).
      { unfold run_inv in *. destruct first as [f|], last as [l|]; try contradiction.
        - destruct Hi as (Hn & pre & run & Hd & Hf & Ha). split; [exact Hn|].
          exists pre, (run ++ [l]). split; [rewrite Hd, <- !app_assoc; reflexivity|]. split.
          + rewrite Hf. destruct run; reflexivity.
          + rewrite Ha. rewrite (map_app t_body (run ++ [l]) [t]). rewrite rev_app_distr. reflexivity.
        - subst acc. split; [discriminate|]. exists done, []. repeat split; reflexivity. }
      exact (IH _ _ _ _ _ _ _ _ Ht' Hi' Hp k e Hin).
Qed.

Lemma parse_cfi_exprs_slices : forall input out m,
  parse_cfi_exprs input out = Ret m -> forall k e, In (k, e) m -> In (k, e) out \/ expr_is_slice input e.
Proof.
  intros input out m H. unfold parse_cfi_exprs in H.
  exact (parse_loop_slices (tokens input) input [] None None None [] out m eq_refl eq_refl H).
Qed.

Lemma parse_all_slices : forall texts out m,
  parse_all texts out = Ret m ->
  forall k e, In (k, e) m -> In (k, e) out \/ exists input, In input texts /\ expr_is_slice input e.
Proof.
  induction texts as [|t r IH]; intros out m H k e Hin; cbn [parse_all] in H.
  - injection H as <-. left; exact Hin.
  - destruct (parse_cfi_exprs t out) as [out'| | |] eqn:E; cbn [obind] in H; try discriminate H.
    destruct (IH _ _ H k e Hin) as [Ho|(input & Hi & Hs)].
    + destruct (parse_cfi_exprs_slices _ _ _ E k e Ho) as [Ho'|Hs]; [left; exact Ho'|].
      right. exists t. split; [left; reflexivity|exact Hs].
    + right. exists input. split; [right; exact Hi|exact Hs].
Qed.

(* every expression the walk evaluates is what eval_cfi_expr's own split_ascii_whitespace makes of the substring
   `&input[first.start .. last.end]` of one of the rule texts, first / last being tokens of that text *)
Theorem exprs_are_retokenised_slices : forall texts m,
  parse_all texts [] = Ret m ->
  forall k e, In (k, e) m ->
  exists input first last,
    In input texts /\ In first (tokens input) /\ In last (tokens input) /\
    e = split_ws (substr input (t_off first) (t_end last)).
Proof.
  intros texts m H k e Hin.
  destruct (parse_all_slices _ _ _ H k e Hin) as [[]|(input & Hi & pre & run & l & post & Ht & He)].
  exists input, (hd l run), l. split; [exact Hi|].
  assert (Hl : In l (tokens input)) by (rewrite Ht; apply in_or_app; right; apply in_or_app; left; apply in_or_app; right; left; reflexivity).
  assert (Hf : In (hd l run) (tokens input)).
  { rewrite Ht. apply in_or_app; right; apply in_or_app; left. destruct run; [left; reflexivity|left; reflexivity]. }
  split; [exact Hf|]. split; [exact Hl|].
  rewrite He, <- (retokenise_run input pre run l post Ht).
  reflexivity.
Qed.
