(* C06/Proofs5.v — the walk through the REAL CfiStackWalker refines [cfi_spec_real]. *)
From Coq Require Import Lia Permutation.
From RM Require Import C06.Model C06.Proofs C06.Proofs2 C06.Proofs3 C06.Proofs4 C06.Driver.
Import ListNotations.
Open Scope Z_scope.

Definition canon_of (a : arch) (x : cfireg * expr) : option bytes :=
  match fst x with ROther n => memoize a n | _ => None end.

(* what one rule leaves at the machine register c it names *)
Definition cellr (a : arch) (s : rstate) (c : bytes) (o : option Z) : Z * bool :=
  match o with
  | Some v => if fits (a_width a) v then (v, true) else (r_ctx s c, false)
  | None => (r_ctx s c, false)
  end.

Lemma real_act_at : forall a s n o c, memoize a n = Some c ->
  (r_ctx (act (real_ops a) s n o) c, r_valid (act (real_ops a) s n o) c) = cellr a s c o.
Proof.
  intros a s n o c M. rewrite real_act_spec, M. unfold cellr.
  destruct o as [v|]; [destruct (fits (a_width a) v)|]; cbn [r_ctx r_valid]; unfold updz, updb; rewrite beq_refl; reflexivity.
Qed.
Lemma real_act_other : forall a s n o c, memoize a n <> Some c ->
  r_ctx (act (real_ops a) s n o) c = r_ctx s c /\ r_valid (act (real_ops a) s n o) c = r_valid s c.
Proof.
  intros a s n o c M. rewrite real_act_spec. destruct (memoize a n) as [c'|]; [|split; reflexivity].
  assert (B : beq c c' = false) by (apply beq_neq; intro; subst; apply M; reflexivity).
  destruct o as [v|]; [destruct (fits (a_width a) v)|]; cbn [r_ctx r_valid]; unfold updz, updb; rewrite B; split; reflexivity.
Qed.

Lemma fold_real_untouched : forall a p E cfa l s c,
  (forall x, In x l -> canon_of a x <> Some c) ->
  r_ctx (fold_left (stepf (real_ops a) p E cfa) l s) c = r_ctx s c /\
  r_valid (fold_left (stepf (real_ops a) p E cfa) l s) c = r_valid s c.
Proof.
  induction l as [|[k e] r IH]; intros s c H; cbn [fold_left]; [split; reflexivity|].
  destruct (IH (stepf (real_ops a) p E cfa s (k, e)) c (fun x Hx => H x (or_intror Hx))) as [A B].
  rewrite A, B. unfold stepf. cbn [fst snd]. destruct k as [| |n]; try (split; reflexivity).
  apply real_act_other. exact (H (ROther n, e) (or_introl eq_refl)).
Qed.

Lemma find_canon_some : forall a c l n e, find_canon a c l = Some (n, e) -> In (ROther n, e) l /\ memoize a n = Some c.
Proof.
  induction l as [|[k e'] r IH]; intros n e H; cbn [find_canon] in H; [discriminate|].
  destruct k as [| |n']; try (destruct (IH n e H); split; [right|]; assumption).
  destruct (memoize a n') as [c'|] eqn:M; [|destruct (IH n e H); split; [right|]; assumption].
  destruct (beq c' c) eqn:B; [|destruct (IH n e H); split; [right|]; assumption].
  inversion H; subst. apply beq_eq in B. subst. split; [left; reflexivity|exact M].
Qed.
Lemma find_canon_none : forall a c l, find_canon a c l = None -> forall x, In x l -> canon_of a x <> Some c.
Proof.
  induction l as [|[k e'] r IH]; intros H x Hx; [contradiction|]. cbn [find_canon] in H.
  destruct Hx as [Hx|Hx].
  - subst x. unfold canon_of. cbn [fst]. destruct k as [| |n']; try discriminate.
    destruct (memoize a n') as [c'|]; [|discriminate]. destruct (beq c' c) eqn:B; [discriminate|].
    apply beq_neq in B. congruence.
  - apply IH; [|exact Hx]. destruct k as [| |n']; try exact H.
    destruct (memoize a n') as [c'|]; [|exact H]. destruct (beq c' c); [discriminate|exact H].
Qed.

Lemma fold_real_state : forall a p E cfa l s c,
  NoDup (map fst l) ->
  (forall x y, In x l -> In y l -> canon_of a x = Some c -> canon_of a y = Some c -> x = y) ->
  (r_ctx (fold_left (stepf (real_ops a) p E cfa) l s) c, r_valid (fold_left (stepf (real_ops a) p E cfa) l s) c) =
  match find_canon a c l with
  | Some (n, e) => cellr a s c (val p E (Some cfa) e)
  | None => (r_ctx s c, r_valid s c)
  end.
Proof.
  induction l as [|[k e] r IH]; intros s c Hnd Hu; cbn [fold_left find_canon]; [reflexivity|].
  cbn [map fst] in Hnd. inversion Hnd as [|? ? Hnin Hd]; subst.
  assert (Hu' : forall x y, In x r -> In y r -> canon_of a x = Some c -> canon_of a y = Some c -> x = y)
    by (intros x y Hx Hy; apply Hu; right; assumption).
  assert (Hskip : canon_of a (k, e) <> Some c ->
            (r_ctx (fold_left (stepf (real_ops a) p E cfa) r (stepf (real_ops a) p E cfa s (k, e))) c,
             r_valid (fold_left (stepf (real_ops a) p E cfa) r (stepf (real_ops a) p E cfa s (k, e))) c) =
            match find_canon a c r with
            | Some (n, e0) => cellr a s c (val p E (Some cfa) e0)
            | None => (r_ctx s c, r_valid s c)
            end).
  { intro Hc. rewrite (IH _ c Hd Hu').
    assert (Hs : r_ctx (stepf (real_ops a) p E cfa s (k, e)) c = r_ctx s c /\
                 r_valid (stepf (real_ops a) p E cfa s (k, e)) c = r_valid s c).
    { unfold stepf. cbn [fst snd]. unfold canon_of in Hc. cbn [fst] in Hc.
      destruct k as [| |n]; try (split; reflexivity). apply real_act_other. exact Hc. }
    destruct Hs as [Hs1 Hs2]. unfold cellr. rewrite Hs1, Hs2. reflexivity. }
  destruct k as [| |n]; try (apply Hskip; unfold canon_of; cbn; discriminate).
  destruct (memoize a n) as [c'|] eqn:M; [|apply Hskip; unfold canon_of; cbn [fst]; rewrite M; discriminate].
  destruct (beq c' c) eqn:B; [|apply Hskip; unfold canon_of; cbn [fst]; rewrite M; apply beq_neq in B; congruence].
  apply beq_eq in B. subst c'.
  assert (Hrest : forall x, In x r -> canon_of a x <> Some c).
  { intros x Hx Hc. assert (x = (ROther n, e)).
    { apply Hu; [right; exact Hx|left; reflexivity|exact Hc|unfold canon_of; cbn [fst]; exact M]. }
    subst x. apply Hnin. apply in_map_iff. exists (ROther n, e). split; [reflexivity|exact Hx]. }
  destruct (fold_real_untouched a p E cfa r (stepf (real_ops a) p E cfa s (ROther n, e)) c Hrest) as [A1 A2].
  rewrite A1, A2. unfold stepf. cbn [fst snd]. apply real_act_at. exact M.
Qed.

Lemma last_rule_exists : forall k ps e, In (k, e) ps -> exists e', last_rule k ps = Some e'.
Proof.
  induction ps as [|[k' e'] r IH]; intros e H; [contradiction|]. cbn [last_rule].
  destruct (last_rule k r) as [e2|] eqn:L; [eexists; reflexivity|].
  destruct H as [H|H].
  - inversion H; subst. rewrite (proj2 (cfireg_eqb_eq k k) eq_refl). eexists; reflexivity.
  - destruct (IH e H) as [e3 He3]. discriminate.
Qed.

(* distinct rule targets name distinct machine registers *)
Definition real_documented_nonaliasing (a : arch) (r : cfi_record) (addr : Z) : Prop :=
  canon_distinct a (targets (texts_of r addr)).

Theorem real_walk_refines_spec : forall a p E r addr s0,
  env_wf E -> all_documented r addr -> real_documented_nonaliasing a r addr ->
  match walk_frame_cfi (real_ops a) p E r addr s0, cfi_spec_real a E r addr s0 with
  | Ret (Some s), Some (ctx, valid) => forall c, r_ctx s c = ctx c /\ r_valid s c = valid c
  | Ret None, None => True
  | _, _ => False
  end.
Proof.
  intros a p E r addr s0 HE Hdoc Hna. unfold walk_frame_cfi, cfi_spec_real. fold (texts_of r addr).
  destruct (cfi_covers r addr); [|exact I].
  unfold all_documented in Hdoc. unfold real_documented_nonaliasing, targets in Hna.
  set (texts := texts_of r addr) in *.
  unfold walk_with_stack_cfi, walk_cfi_ord. rewrite parse_all_spec in *.
  destruct (all_pairs texts) as [ps|] eqn:Eps; cbn [try_]; [|exact I].
  specialize (Hdoc ps eq_refl). rewrite Forall_forall in Hdoc.
  set (m := fold_left ins ps []) in *.
  assert (Hm : parse_all texts [] = Ret m) by (rewrite parse_all_spec, Eps; reflexivity).
  assert (Hn : NoDup (map fst m)) by (eapply parse_all_nodup; [|exact Hm]; constructor).
  assert (Hfind : forall k, find k m = last_rule k ps).
  { intro k. unfold m. rewrite find_fold. cbn [find]. destruct (last_rule k ps); reflexivity. }
  destruct (map_remove RCfa m) as [ocfa m1] eqn:E1.
  pose proof (map_remove_find RCfa m) as F1. rewrite E1 in F1. cbn [fst] in F1. rewrite Hfind in F1.
  pose proof (map_remove_find_other RCfa RRa m) as F2. rewrite E1 in F2. cbn [snd] in F2.
  destruct (map_remove RRa m1) as [ora m2] eqn:E2.
  pose proof (map_remove_find RRa m1) as F3. rewrite E2 in F3. cbn [fst] in F3.
  rewrite F2 in F3 by discriminate. rewrite Hfind in F3. subst ocfa ora.
  destruct (last_rule RCfa ps) as [ce|] eqn:Lc; [|exact I].
  destruct (last_rule RRa ps) as [re|] eqn:Lr; [|exact I].
  assert (Dc : Forall documented ce) by (apply (Hdoc (RCfa, ce)); apply last_rule_in; exact Lc).
  assert (Dr : Forall documented re) by (apply (Hdoc (RRa, re)); apply last_rule_in; exact Lr).
  assert (Hnone : forall c : Z, @None Z = Some c -> inr c) by (intros c H; discriminate).
  rewrite (eval_val p E ce None). rewrite (eval_refines_spec p E None ce HE Hnone Dc).
  destruct (spec_eval E None ce) as [cfa|] eqn:Sc; cbn [try_]; [|exact I].
  assert (Hcfa_in : inr cfa).
  { apply (val_inr p E None ce cfa HE Hnone Dc). rewrite (eval_refines_spec p E None ce HE Hnone Dc). exact Sc. }
  assert (Hsome : forall c : Z, Some cfa = Some c -> inr c) by (intros c H; inversion H; subst; exact Hcfa_in).
  rewrite (eval_val p E re (Some cfa)). rewrite (eval_refines_spec p E (Some cfa) re HE Hsome Dr).
  destruct (spec_eval E (Some cfa) re) as [ra|] eqn:Sr; cbn [try_]; [|exact I].
  cbn [real_ops o_set_cfa o_set_ra]. unfold real_set.
  destruct (memoize a (a_sp a)) as [spc|] eqn:Msp; [|destruct (memoize a (a_ip a)); exact I].
  destruct (fits (a_width a) cfa) eqn:Fc; cbn [andb]; [|destruct (memoize a (a_ip a)); exact I].
  destruct (memoize a (a_ip a)) as [ipc|] eqn:Mip; [|exact I].
  destruct (fits (a_width a) ra) eqn:Fr; [|exact I].
  pose proof (remaining_all_other _ _ _ _ _ Hn E1 E2) as Hall.
  destruct (map_remove_spec _ _ _ _ Hn E1) as [A1 [B1 [C1 [D1 _]]]].
  destruct (map_remove_spec _ _ _ _ B1 E2) as [A2 [B2 [C2 [D2 _]]]].
  rewrite apply_rules_fold.
  2:{ intros x Hx. apply Hall. eapply Permutation_in; [apply sort_rules_perm|exact Hx]. }
  cbn [try_].
  set (s2 := mkR (updz (updz (r_ctx s0) spc cfa) ipc ra) (updb (updb (r_valid s0) spc true) ipc true)).
  (* membership in the sorted remaining rules = the rule in force for a general register *)
  assert (Hin_iff : forall n e, In (ROther n, e) (sort_rules m2) <-> last_rule (ROther n) ps = Some e).
  { intros n e. rewrite <- Hfind. rewrite (find_in (ROther n) e m Hn). split; intro H.
    - apply C1. apply C2. eapply Permutation_in; [apply sort_rules_perm|exact H].
    - eapply Permutation_in; [apply Permutation_sym; apply sort_rules_perm|].
      apply D2; [apply D1; [exact H|cbn; discriminate]|cbn; discriminate]. }
  assert (Htarget : forall n e, last_rule (ROther n) ps = Some e -> In n (other_names m)).
  { intros n e H. eapply in_other_names. apply find_in; [exact Hn|]. rewrite Hfind. exact H. }
  assert (Hsame : forall n1 n2 c, In n1 (other_names m) -> In n2 (other_names m) ->
            memoize a n1 = Some c -> memoize a n2 = Some c -> n1 = n2).
  { intros n1 n2 c H1 H2 M1 M2. destruct (beq n1 n2) eqn:B; [apply beq_eq; exact B|].
    apply beq_neq in B. destruct (Hna n1 n2 H1 H2 B) as [D|[D|D]]; congruence. }
  assert (Hnd2 : NoDup (map fst (sort_rules m2))).
  { eapply Permutation_NoDup; [apply Permutation_map; apply Permutation_sym; apply sort_rules_perm|exact B2]. }
  assert (Hu : forall c x y, In x (sort_rules m2) -> In y (sort_rules m2) ->
            canon_of a x = Some c -> canon_of a y = Some c -> x = y).
  { intros c [kx ex] [ky ey] Hx Hy Cx Cy. unfold canon_of in Cx, Cy. cbn [fst] in Cx, Cy.
    destruct kx as [| |nx]; try discriminate. destruct ky as [| |ny]; try discriminate.
    assert (nx = ny).
    { eapply Hsame; [eapply Htarget; apply Hin_iff; exact Hx|eapply Htarget; apply Hin_iff; exact Hy|exact Cx|exact Cy]. }
    subst ny. eapply nodup_fst_inj; eauto. }
  match goal with |- context [fold_left _ _ ?s0'] => change s0' with s2 end.
  intro c.
  pose proof (fold_real_state a p E cfa (sort_rules m2) s2 c Hnd2 (Hu c)) as Hst.
  assert (Hb1 : r_ctx s2 c = (if beq c ipc then ra else if beq c spc then cfa else r_ctx s0 c)) by reflexivity.
  assert (Hb2 : r_valid s2 c = (if beq c ipc then true else if beq c spc then true else r_valid s0 c)) by reflexivity.
  pose proof (f_equal fst Hst) as HA. pose proof (f_equal snd Hst) as HB. cbn [fst snd] in HA, HB.
  rewrite HA, HB. clear HA HB Hst.
  cut (match find_canon a c (sort_rules m2) with
       | Some (_, e) => cellr a s2 c (val p E (Some cfa) e)
       | None => (r_ctx s2 c, r_valid s2 c)
       end =
       match find_canon a c ps with
       | Some (n, _) =>
           match last_rule (ROther n) ps with
           | Some e =>
               match spec_eval E (Some cfa) e with
               | Some v => if fits (a_width a) v then (v, true)
                           else (if beq c ipc then ra else if beq c spc then cfa else r_ctx s0 c, false)
               | None => (if beq c ipc then ra else if beq c spc then cfa else r_ctx s0 c, false)
               end
           | None => (if beq c ipc then ra else if beq c spc then cfa else r_ctx s0 c,
                      if beq c ipc then true else if beq c spc then true else r_valid s0 c)
           end
       | None => (if beq c ipc then ra else if beq c spc then cfa else r_ctx s0 c,
                  if beq c ipc then true else if beq c spc then true else r_valid s0 c)
       end).
  { intro Hcut. rewrite Hcut. split; reflexivity. }
  destruct (find_canon a c (sort_rules m2)) as [[n e]|] eqn:Fs.
  - destruct (find_canon_some _ _ _ _ _ Fs) as [Hin Mn].
    pose proof (proj1 (Hin_iff n e) Hin) as Ln.
    destruct (find_canon a c ps) as [[n' e0]|] eqn:Fp.
    + destruct (find_canon_some _ _ _ _ _ Fp) as [Hin' Mn'].
      destruct (last_rule_exists _ _ _ Hin') as [e' Le'].
      assert (n' = n) by (eapply Hsame; [eapply Htarget; exact Le'|eapply Htarget; exact Ln|exact Mn'|exact Mn]).
      subst n'. rewrite Ln.
      assert (De : Forall documented e) by (apply (Hdoc (ROther n, e)); apply last_rule_in; exact Ln).
      assert (Hv : val p E (Some cfa) e = spec_eval E (Some cfa) e) by (apply eval_refines_spec; assumption).
      unfold cellr. rewrite Hv, Hb1. reflexivity.
    + exfalso. apply (find_canon_none _ _ _ Fp (ROther n, e)); [apply last_rule_in; exact Ln|].
      unfold canon_of. cbn [fst]. exact Mn.
  - rewrite Hb1, Hb2.
    destruct (find_canon a c ps) as [[n' e0]|] eqn:Fp; [|reflexivity].
    destruct (find_canon_some _ _ _ _ _ Fp) as [Hin' Mn'].
    destruct (last_rule_exists _ _ _ Hin') as [e' Le'].
    exfalso. apply (find_canon_none _ _ _ Fs (ROther n', e')); [apply Hin_iff; exact Le'|].
    unfold canon_of. cbn [fst]. exact Mn'.
Qed.

(* ---- what <arch>::get_caller_by_cfi / get_caller_frame hand over to walk_stack (Driver.post_real) ---- *)
(* x86 and amd64: the walker's context and validity set become the frame's, unchanged; the frame exists
   iff the instruction pointer is not in the first page and the stack pointer grew *)
Lemma handover_x86 : forall k a callee_sp s, k <> 2 ->
  match post_real k a callee_sp s with
  | Some s1 => s1 = s /\ 4096 <= r_ctx s (a_ip a) /\ callee_sp < r_ctx s (a_sp a)
  | None => r_ctx s (a_ip a) < 4096 \/ r_ctx s (a_sp a) <= callee_sp
  end.
Proof.
  intros k a csp s Hk. unfold post_real.
  replace (k =? 2) with false by (symmetry; apply Z.eqb_neq; exact Hk).
  destruct (r_ctx s (a_ip a) <? 4096) eqn:E1; [left; apply Z.ltb_lt; exact E1|].
  destruct (r_ctx s (a_sp a) <=? csp) eqn:E2; [right; apply Z.leb_le; exact E2|].
  apply Z.ltb_ge in E1. apply Z.leb_gt in E2. repeat split; lia.
Qed.
(* arm64: validity unchanged; pc, lr, fp lose their pointer-authentication bits; other registers unchanged *)
Lemma handover_arm64 : forall callee_sp s s1,
  post_real 2 arm64 callee_sp s = Some s1 ->
  (forall n, r_valid s1 n = r_valid s n) /\
  (forall n, r_ctx s1 n = if beq n R_fp || beq n R_lr || beq n R_pc then Z.land (r_ctx s n) (2 ^ 47 - 1) else r_ctx s n) /\
  4096 <= r_ctx s1 R_pc /\ callee_sp <= r_ctx s1 (a_sp arm64).
Proof.
  intros csp s s1 H. unfold post_real in H. cbn [Z.eqb Pos.eqb] in H.
  match type of H with (if ?c then _ else _) = _ => destruct c eqn:E1; [discriminate|] end.
  match type of H with (if ?c then _ else _) = _ => destruct c eqn:E2; [discriminate|] end.
  inversion H; subst s1. clear H. apply Z.ltb_ge in E1. apply Z.ltb_ge in E2. cbn [r_ctx r_valid] in *.
  split; [intro; reflexivity|]. split; [|split; [exact E1|exact E2]].
  intro n. unfold updz.
  destruct (beq n R_fp) eqn:B1; cbn [orb]; [apply beq_eq in B1; subst; reflexivity|].
  destruct (beq n R_lr) eqn:B2; cbn [orb]; [apply beq_eq in B2; subst; reflexivity|].
  destruct (beq n R_pc) eqn:B3; [apply beq_eq in B3; subst; reflexivity|reflexivity].
Qed.
