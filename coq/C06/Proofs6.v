(* C06/Proofs6.v — the interpretation of the generated tables (C06/GenModel.v over Gen/CfiOps.v) equals the
   hand-written model of C06/Model.v, for all inputs. *)
From Coq Require Import Lia.
From RM Require Import C06.Model C06.GenModel C06.Proofs C06.Proofs2 C06.Proofs3 C06.Proofs4 C06.Proofs5.
Open Scope Z_scope.

Lemma gen_eval_step_eq : forall p E cfa t st, gen_eval_step p E cfa t st = eval_step p E cfa t st.
Proof.
  intros p E cfa t st. unfold gen_eval_step, eval_step, cfi_arms.
  cbn [find_arm].
  change [43] with T_plus. change [45] with T_minus. change [42] with T_star. change [47] with T_slash.
  change [37] with T_pct. change [64] with T_at. change [94] with T_caret.
  change [46; 99; 102; 97] with T_cfa. change [46; 117; 110; 100; 101; 102] with T_undef.
  destruct (beq t T_plus). { destruct st as [|r [|l s]]; reflexivity. }
  destruct (beq t T_minus). { destruct st as [|r [|l s]]; reflexivity. }
  destruct (beq t T_star). { destruct st as [|r [|l s]]; reflexivity. }
  destruct (beq t T_slash). { destruct st as [|r [|l s]]; try reflexivity. cbn. destruct (r =? 0); reflexivity. }
  destruct (beq t T_pct). { destruct st as [|r [|l s]]; try reflexivity. cbn. destruct (r =? 0); reflexivity. }
  destruct (beq t T_at).
  { destruct st as [|r [|l s]]; [reflexivity|reflexivity|].
    cbn [run_stmts app gcond_eval gexp_eval nth obind binop].
    destruct (r =? 0); cbn [orb negb]; [reflexivity|].
    destruct (is_pow2 r); cbn [negb]; [|reflexivity].
    unfold chk_usub. destruct (0 <=? r - 1); [reflexivity|]. destruct p; reflexivity. }
  destruct (beq t T_caret). { destruct st as [|a s]; reflexivity. }
  destruct (beq t T_cfa). { cbn. destruct cfa; reflexivity. }
  destruct (beq t T_undef). { reflexivity. }
  cbn. destruct (after_dollar t); [reflexivity|]. destruct (parse_int 64 t); [reflexivity|].
  destruct (e_callee E t); reflexivity.
Qed.

Lemma gen_eval_loop_eq : forall p E cfa toks st, gen_eval_loop p E cfa toks st = eval_loop p E cfa toks st.
Proof.
  intros p E cfa toks. induction toks as [|t r IH]; intro st; [reflexivity|].
  cbn [gen_eval_loop eval_loop]. rewrite gen_eval_step_eq.
  destruct (eval_step p E cfa t st); cbn; [apply IH|reflexivity..].
Qed.

Lemma gen_eval_cfi_expr_eq : forall p E e cfa, gen_eval_cfi_expr p E e cfa = eval_cfi_expr p E e cfa.
Proof.
  intros. unfold gen_eval_cfi_expr, eval_cfi_expr. rewrite gen_eval_loop_eq.
  destruct (eval_loop p E cfa e []) as [st| | |]; cbn; try reflexivity.
  destruct st as [|v [|w s]]; reflexivity.
Qed.

Lemma gen_strip_label_eq : forall t, gen_strip_label t = strip_suffix_colon t.
Proof. reflexivity. Qed.

Lemma gen_classify_eq : forall name, gen_classify name = classify_reg name.
Proof.
  intro name. unfold gen_classify, classify_reg, cfi_classify. cbn [gen_classify_with].
  change [46; 99; 102; 97] with T_cfa. change [46; 114; 97] with T_ra.
  destruct (beq name T_cfa); [reflexivity|]. destruct (beq name T_ra); [reflexivity|].
  unfold strip_prefix_dollar. destruct name as [|x rest]; [reflexivity|]. destruct (x =? 36); reflexivity.
Qed.

Lemma gen_parse_loop_eq : forall toks len reg first last acc out,
  gen_parse_loop len toks reg first last acc out = parse_loop len toks reg first last acc out.
Proof.
  induction toks as [|t r IH]; intros; [reflexivity|].
  cbn [gen_parse_loop parse_loop]. rewrite gen_strip_label_eq.
  destruct (strip_suffix_colon (t_body t)) as [name|].
  - rewrite gen_classify_eq. destruct reg.
    + destruct (commit len (Some c) first last acc out); cbn; [apply IH|reflexivity..].
    + apply IH.
  - destruct reg; [apply IH|reflexivity].
Qed.

Lemma gen_parse_cfi_exprs_eq : forall input out, gen_parse_cfi_exprs input out = parse_cfi_exprs input out.
Proof. intros. apply gen_parse_loop_eq. Qed.

Lemma gen_parse_all_eq : forall texts out, gen_parse_all texts out = parse_all texts out.
Proof.
  induction texts as [|t r IH]; intro out; [reflexivity|].
  cbn [gen_parse_all parse_all]. rewrite gen_parse_cfi_exprs_eq.
  destruct (parse_cfi_exprs t out); cbn; [apply IH|reflexivity..].
Qed.

Section W.
Context {S : Type} (ops : wops S).

Lemma gen_apply_rule_eq : forall p E cfa s re, gen_apply_rule ops p E cfa s re = apply_rule ops p E cfa s re.
Proof.
  intros. unfold gen_apply_rule, apply_rule. destruct (fst re); try reflexivity.
  rewrite gen_eval_cfi_expr_eq. cbn.
  destruct (eval_cfi_expr p E (snd re) (Some cfa)); try reflexivity.
  all: try (destruct (o_set ops s name a); reflexivity).
Qed.

Lemma gen_apply_rules_eq : forall p E cfa l s, gen_apply_rules ops p E cfa l s = apply_rules ops p E cfa l s.
Proof.
  intros p E cfa l. induction l as [|re r IH]; intro s; [reflexivity|].
  cbn [gen_apply_rules apply_rules]. rewrite gen_apply_rule_eq.
  destruct (apply_rule ops p E cfa s re); cbn; [apply IH|reflexivity..].
Qed.

Lemma gen_walk_eq : forall p E init adds s,
  gen_walk ops p E init adds s = walk_with_stack_cfi ops p E (init :: adds) s.
Proof.
  intros. unfold gen_walk, walk_with_stack_cfi, walk_cfi_ord, cfi_walk_steps.
  cbn [parse_all]. cbn [gen_steps gen_step w_map w_sorted w_cfa_e w_ra_e w_cfa w_ra w_s].
  rewrite gen_parse_cfi_exprs_eq.
  destruct (parse_cfi_exprs init []) as [m0| | |]; cbn [try_ obind]; try reflexivity.
  cbn [w_map w_sorted w_cfa_e w_ra_e w_cfa w_ra w_s].
  rewrite gen_parse_all_eq.
  destruct (parse_all adds m0) as [m| | |]; cbn [try_ obind]; try reflexivity.
  cbn [w_map w_sorted w_cfa_e w_ra_e w_cfa w_ra w_s].
  destruct (map_remove RCfa m) as [[cfa_e|] m1]; [|reflexivity].
  cbn [w_map w_sorted w_cfa_e w_ra_e w_cfa w_ra w_s].
  destruct (map_remove RRa m1) as [[ra_e|] m2]; [|reflexivity].
  cbn [w_map w_sorted w_cfa_e w_ra_e w_cfa w_ra w_s].
  rewrite gen_eval_cfi_expr_eq.
  destruct (eval_cfi_expr p E cfa_e None) as [cfa| | |]; cbn [try_]; try reflexivity.
  cbn [w_map w_sorted w_cfa_e w_ra_e w_cfa w_ra w_s].
  rewrite gen_eval_cfi_expr_eq.
  destruct (eval_cfi_expr p E ra_e (Some cfa)) as [ra| | |]; cbn [try_]; try reflexivity.
  cbn [w_map w_sorted w_cfa_e w_ra_e w_cfa w_ra w_s].
  destruct (o_set_cfa ops s cfa) as [s1|]; [|reflexivity].
  cbn [w_map w_sorted w_cfa_e w_ra_e w_cfa w_ra w_s].
  destruct (o_set_ra ops s1 ra) as [s2|]; [|reflexivity].
  cbn [w_map w_sorted w_cfa_e w_ra_e w_cfa w_ra w_s].
  rewrite gen_apply_rules_eq. reflexivity.
Qed.
End W.

Lemma gen_take_applicable_eq : forall addr l, gen_take_applicable addr l = take_applicable addr l.
Proof. intros addr l. induction l as [|x t IH]; [reflexivity|]. cbn. rewrite IH. reflexivity. Qed.

Lemma gen_walk_frame_eq : forall S (ops : wops S) p E r addr s,
  gen_walk_frame_cfi ops p E r addr s = walk_frame_cfi ops p E r addr s.
Proof.
  intros. unfold gen_walk_frame_cfi, walk_frame_cfi. destruct (cfi_covers r addr); [|reflexivity].
  rewrite gen_take_applicable_eq. apply gen_walk_eq.
Qed.

(* ---- the property-level statements, about the generated evaluator ---- *)
Lemma gen_walk_frame_total : forall S (ops : wops S) p E r addr s,
  exists o : option S, gen_walk_frame_cfi ops p E r addr s = Ret o.
Proof. intros. rewrite gen_walk_frame_eq. apply walk_frame_total. Qed.

Lemma gen_eval_refines_spec : forall p E cfa e,
  env_wf E -> (forall c, cfa = Some c -> 0 <= c < two64) -> Forall documented e ->
  gen_eval_cfi_expr p E e cfa = match spec_eval E cfa e with Some v => Ret v | None => Fail end.
Proof.
  intros p E cfa e H1 H2 H3. rewrite gen_eval_cfi_expr_eq, eval_val.
  rewrite (eval_refines_spec p E cfa e H1 H2 H3). reflexivity.
Qed.

Lemma gen_walk_refines_spec : forall w p E r addr,
  env_wf E -> all_documented r addr ->
  match gen_walk_frame_cfi (mock_ops w) p E r addr m_init, cfi_spec w E r addr with
  | Ret (Some s), Some (cfa, ra, regs) =>
      m_cfa s = Some cfa /\ m_ra s = Some ra /\ forall n, m_regs s n = regs n
  | Ret None, None => True
  | _, _ => False
  end.
Proof. intros. rewrite gen_walk_frame_eq. apply walk_refines_spec; assumption. Qed.

Lemma gen_real_walk_refines_spec : forall a p E r addr s0,
  env_wf E -> all_documented r addr -> real_documented_nonaliasing a r addr ->
  match gen_walk_frame_cfi (real_ops a) p E r addr s0, cfi_spec_real a E r addr s0 with
  | Ret (Some s), Some (ctx, valid) => forall c, r_ctx s c = ctx c /\ r_valid s c = valid c
  | Ret None, None => True
  | _, _ => False
  end.
Proof. intros. rewrite gen_walk_frame_eq. apply real_walk_refines_spec; assumption. Qed.
