(* C06/Proofs9.v — record selection, against an independent statement of "rules at or below the address are applied
   in address order": finish_item's sort followed by walk_frame's prefix loop selects exactly the delta records whose
   address is <= the lookup address (as a multiset), in non-decreasing address order. *)
From Coq Require Import Lia Permutation Sorted.
From RM Require Import C06.Model.
Open Scope Z_scope.

Definition addr_le (a b : cfi_rules) : Prop := fst a <= fst b.
Definition at_or_below (addr : Z) (d : cfi_rules) : bool := fst d <=? addr.

Lemma insert_cfi_perm : forall x l, Permutation (insert_cfi x l) (x :: l).
Proof.
  intros x l. induction l as [|y t IH]; cbn [insert_cfi]; [apply Permutation_refl|].
  destruct (rules_ltb x y); [apply Permutation_refl|].
  eapply Permutation_trans; [apply perm_skip; exact IH|apply perm_swap].
Qed.

Lemma sort_cfi_perm : forall l, Permutation (sort_cfi l) l.
Proof.
  induction l as [|x t IH]; [apply Permutation_refl|]. unfold sort_cfi in *. cbn [fold_right].
  eapply Permutation_trans; [apply insert_cfi_perm|apply perm_skip; exact IH].
Qed.

Lemma rules_ltb_true_le : forall x y, rules_ltb x y = true -> fst x <= fst y.
Proof. intros x y H. unfold rules_ltb in H. destruct (fst x <? fst y) eqn:A; [lia|]. destruct (fst x =? fst y) eqn:B; [lia|discriminate H]. Qed.
Lemma rules_ltb_false_le : forall x y, rules_ltb x y = false -> fst y <= fst x.
Proof. intros x y H. unfold rules_ltb in H. destruct (fst x <? fst y) eqn:A; [discriminate H|]. lia. Qed.

Lemma insert_cfi_sorted : forall x l, StronglySorted addr_le l -> StronglySorted addr_le (insert_cfi x l).
Proof.
  intros x l H. induction H as [|y t Ht IH Hy]; cbn [insert_cfi].
  - constructor; constructor.
  - destruct (rules_ltb x y) eqn:E.
    + constructor; [constructor; assumption|].
      apply rules_ltb_true_le in E. constructor; [exact E|].
      eapply Forall_impl; [|exact Hy]. intros z Hz. unfold addr_le in *. lia.
    + constructor; [exact IH|]. apply rules_ltb_false_le in E.
      assert (P : Permutation (insert_cfi x t) (x :: t)) by apply insert_cfi_perm.
      apply (Permutation_Forall (Permutation_sym P)). constructor; [exact E|exact Hy].
Qed.

Lemma sort_cfi_sorted : forall l, StronglySorted addr_le (sort_cfi l).
Proof.
  induction l as [|x t IH]; [constructor|]. unfold sort_cfi in *. cbn [fold_right]. apply insert_cfi_sorted. exact IH.
Qed.

Lemma take_applicable_filter : forall addr l, StronglySorted addr_le l ->
  take_applicable addr l = filter (at_or_below addr) l.
Proof.
  intros addr l H. induction H as [|x t Ht IH Hx]; [reflexivity|].
  cbn [take_applicable filter]. unfold at_or_below at 1. destruct (fst x <=? addr) eqn:E; [rewrite IH; reflexivity|].
  symmetry. clear IH Ht. induction t as [|y t IHt]; [reflexivity|].
  inversion Hx as [|? ? Hy Ht']; subst. cbn [filter]. unfold at_or_below at 1. unfold addr_le in Hy.
  destruct (fst y <=? addr) eqn:F; [lia|]. apply IHt. exact Ht'.
Qed.

Lemma filter_perm : forall (f : cfi_rules -> bool) l l', Permutation l l' -> Permutation (filter f l) (filter f l').
Proof.
  intros f l l' H. induction H; cbn [filter].
  - apply Permutation_refl.
  - destruct (f x); [apply perm_skip|]; assumption.
  - destruct (f x), (f y); try apply Permutation_refl. apply perm_swap.
  - eapply Permutation_trans; eassumption.
Qed.

Lemma filter_sorted : forall (f : cfi_rules -> bool) l, StronglySorted addr_le l -> StronglySorted addr_le (filter f l).
Proof.
  intros f l H. induction H as [|x t Ht IH Hx]; cbn [filter]; [constructor|].
  destruct (f x); [|exact IH]. constructor; [exact IH|].
  apply Forall_forall. intros z Hz. apply filter_In in Hz. rewrite Forall_forall in Hx. apply Hx. tauto.
Qed.

Lemma selection_spec : forall addr deltas,
  let sel := take_applicable addr (sort_cfi deltas) in
  Permutation sel (filter (at_or_below addr) deltas) /\ StronglySorted addr_le sel /\
  (forall d, In d sel <-> In d deltas /\ fst d <= addr).
Proof.
  intros addr deltas sel. unfold sel. rewrite (take_applicable_filter addr _ (sort_cfi_sorted deltas)).
  split; [apply filter_perm, sort_cfi_perm|]. split; [apply filter_sorted, sort_cfi_sorted|].
  intro d. rewrite filter_In. unfold at_or_below. rewrite Z.leb_le.
  split; intros [H1 H2]; (split; [|exact H2]).
  - apply (Permutation_in _ (sort_cfi_perm deltas)). exact H1.
  - apply (Permutation_in _ (Permutation_sym (sort_cfi_perm deltas))). exact H1.
Qed.

(* StackInfoCfi::memory_range + the range lookup for one INIT record: the record covers [address, address + size)
   when that interval is non-empty and its end fits u64 *)
Lemma cfi_covers_spec : forall r addr,
  cfi_covers r addr = true <->
  c_size r <> 0 /\ fst (c_init r) + c_size r < 2 ^ 64 /\ fst (c_init r) <= addr < fst (c_init r) + c_size r.
Proof.
  intros r addr. unfold cfi_covers, checked_add. cbv zeta.
  destruct (c_size r =? 0) eqn:A; cbn [negb andb].
  - split; [discriminate|]. intros (H & _). lia.
  - destruct (fst (c_init r) + c_size r <? 2 ^ 64) eqn:B.
    + rewrite Bool.andb_true_iff, !Z.leb_le. lia.
    + split; [discriminate|]. lia.
Qed.

(* ---- the full order of the sort: (address, rule text), byte-lexicographic on the text ---- *)
Definition rules_le (a b : cfi_rules) : Prop := rules_ltb b a = false.

Lemma bytes_ltb_asym : forall a b, bytes_ltb a b = true -> bytes_ltb b a = false.
Proof.
  induction a as [|x a IH]; intros [|y b] H; cbn [bytes_ltb] in *; try reflexivity; try discriminate H.
  destruct (x <? y) eqn:A.
  - destruct (y <? x) eqn:B; [lia|]. reflexivity.
  - destruct (y <? x) eqn:B; [discriminate H|]. apply IH. exact H.
Qed.

(* a <= b and b <= c give a <= c, with "u <= v" written as bytes_ltb v u = false *)
Lemma bytes_le_trans : forall a b c, bytes_ltb b a = false -> bytes_ltb c b = false -> bytes_ltb c a = false.
Proof.
  induction a as [|x a IH]; intros b c H1 H2.
  - destruct c; reflexivity.
  - destruct b as [|y b]; [cbn in H1; discriminate H1|].
    destruct c as [|z c]; [cbn in H2; discriminate H2|].
    cbn [bytes_ltb] in *.
    destruct (y <? x) eqn:A; [discriminate H1|]. destruct (x <? y) eqn:B.
    + destruct (z <? y) eqn:C; [discriminate H2|]. destruct (z <? x) eqn:D; [lia|]. destruct (x <? z) eqn:E; [reflexivity|lia].
    + assert (x = y) by lia. subst y.
      destruct (z <? x) eqn:C; [discriminate H2|]. destruct (x <? z) eqn:D; [reflexivity|].
      eapply IH; eassumption.
Qed.

Lemma rules_ltb_le : forall x y, rules_ltb x y = true -> rules_le x y.
Proof.
  intros x y H. unfold rules_le, rules_ltb in *.
  destruct (fst x <? fst y) eqn:A.
  - destruct (fst y <? fst x) eqn:B; [lia|]. destruct (fst y =? fst x) eqn:C; [lia|reflexivity].
  - destruct (fst x =? fst y) eqn:B; [|discriminate H]. cbn [orb andb] in H.
    destruct (fst y <? fst x) eqn:C; [lia|]. rewrite Z.eqb_sym, B. cbn [orb andb]. apply bytes_ltb_asym. exact H.
Qed.

Lemma rules_le_trans : forall x y z, rules_le x y -> rules_le y z -> rules_le x z.
Proof.
  intros x y z H1 H2. unfold rules_le, rules_ltb in *.
  apply Bool.orb_false_iff in H1. apply Bool.orb_false_iff in H2. destruct H1 as [A1 B1], H2 as [A2 B2].
  apply Bool.orb_false_iff. split; [lia|].
  destruct (fst z =? fst x) eqn:E; [|reflexivity]. cbn [andb].
  assert (fst y = fst x) by lia. assert (fst z = fst y) by lia.
  rewrite (proj2 (Z.eqb_eq _ _) H) in B1. rewrite (proj2 (Z.eqb_eq _ _) H0) in B2. cbn [andb] in B1, B2.
  eapply bytes_le_trans; eassumption.
Qed.

Lemma insert_cfi_sorted_full : forall x l, StronglySorted rules_le l -> StronglySorted rules_le (insert_cfi x l).
Proof.
  intros x l H. induction H as [|y t Ht IH Hy]; cbn [insert_cfi].
  - constructor; constructor.
  - destruct (rules_ltb x y) eqn:E.
    + constructor; [constructor; assumption|].
      apply rules_ltb_le in E. constructor; [exact E|].
      eapply Forall_impl; [|exact Hy]. intros z Hz. eapply rules_le_trans; eassumption.
    + constructor; [exact IH|].
      assert (P : Permutation (insert_cfi x t) (x :: t)) by apply insert_cfi_perm.
      apply (Permutation_Forall (Permutation_sym P)). constructor; [exact E|exact Hy].
Qed.

Lemma sort_cfi_sorted_full : forall l, StronglySorted rules_le (sort_cfi l).
Proof.
  induction l as [|x t IH]; [constructor|]. unfold sort_cfi in *. cbn [fold_right]. apply insert_cfi_sorted_full. exact IH.
Qed.

Lemma filter_sorted_full : forall (f : cfi_rules -> bool) l, StronglySorted rules_le l -> StronglySorted rules_le (filter f l).
Proof.
  intros f l H. induction H as [|x t Ht IH Hx]; cbn [filter]; [constructor|].
  destruct (f x); [|exact IH]. constructor; [exact IH|].
  apply Forall_forall. intros z Hz. apply filter_In in Hz. rewrite Forall_forall in Hx. apply Hx. tauto.
Qed.

Lemma selection_sorted_full : forall addr deltas, StronglySorted rules_le (take_applicable addr (sort_cfi deltas)).
Proof.
  intros. rewrite (take_applicable_filter addr _ (sort_cfi_sorted deltas)). apply filter_sorted_full, sort_cfi_sorted_full.
Qed.

(* what [rules_le] says: address first, then the rule text byte-lexicographically *)
Lemma rules_le_spec : forall a b,
  rules_le a b <-> fst a < fst b \/ (fst a = fst b /\ bytes_ltb (snd b) (snd a) = false).
Proof.
  intros a b. unfold rules_le, rules_ltb. rewrite Bool.orb_false_iff. split.
  - intros [A B]. destruct (fst b =? fst a) eqn:E; [right; cbn [andb] in B; split; [lia|exact B]|left; lia].
  - intros [H|[H1 H2]].
    + split; [apply Z.ltb_ge; lia|]. replace (fst b =? fst a) with false by (symmetry; apply Z.eqb_neq; lia). reflexivity.
    + split; [apply Z.ltb_ge; lia|]. rewrite H1, Z.eqb_refl. exact H2.
Qed.

Lemma selection_spec_full :
  (forall addr deltas,
     let sel := take_applicable addr (sort_cfi deltas) in
     Permutation sel (filter (at_or_below addr) deltas) /\ StronglySorted addr_le sel /\
     (forall d, In d sel <-> In d deltas /\ fst d <= addr) /\
     StronglySorted rules_le sel) /\
  (forall a b, rules_le a b <-> fst a < fst b \/ (fst a = fst b /\ bytes_ltb (snd b) (snd a) = false)) /\
  (forall r addr,
     cfi_covers r addr = true <->
     c_size r <> 0 /\ fst (c_init r) + c_size r < 2 ^ 64 /\ fst (c_init r) <= addr < fst (c_init r) + c_size r).
Proof.
  refine (conj _ (conj rules_le_spec cfi_covers_spec)). intros addr deltas sel.
  destruct (selection_spec addr deltas) as (A & B & C).
  exact (conj A (conj B (conj C (selection_sorted_full addr deltas)))).
Qed.
