(* C06/Properties.v — property theorems only (each closed by [exact lemma] and followed by
   [Print Assumptions]).  Model: C06/Model.v (the code after fix commits 3a7f18b, 811f017, 2c8a29b). *)
From Coq Require Import String Permutation Morphisms Sorted.
From RM Require Import C06.Model C06.GenModel C06.Proofs C06.Proofs2 C06.Proofs3 C06.Proofs4 C06.Proofs5 C06.Proofs6 C06.Proofs7 C06.Proofs8 C06.Proofs9 C06.Proofs10 C06.Proofs11 C06.Proofs12 C06.Proofs13 C06.Proofs14 C06.Proofs15 C06.Proofs16 C06.Proofs17 C06.Driver C06.GenDriver C06.ArchDriver C06.FileTable Gen.UnwindConsts Gen.CfiOps.
From RM Require Import Base.Word C08.Model C08.Tie Gen.C08Tables.
Open Scope Z_scope.

(* No Panic and no OutOfFuel: for ALL rule texts (arbitrary byte strings), every walker (any
   state type and callbacks), both build profiles, every environment and start state.
   Covers: the slice &input[min..max] in parse_cfi_exprs, unreachable!() in
   walk_with_stack_cfi, `rhs - 1` in the '@' operator.  The loops are structural (one step per
   token), so no fuel is involved. *)
Theorem c06_total :
  forall (S : Type) (ops : wops S) (p : profile) (E : env) (texts : list bytes) (s : S),
    exists r : option S, walk_with_stack_cfi ops p E texts s = Ret r.
Proof. exact walk_total. Qed.
Print Assumptions c06_total.

(* the same with walk_frame's record lookup and rule selection in front *)
Theorem c06_total_walk_frame :
  forall (S : Type) (ops : wops S) (p : profile) (E : env) (r : cfi_record) (addr : Z) (s : S),
    exists o : option S, walk_frame_cfi ops p E r addr s = Ret o.
Proof. exact walk_frame_total. Qed.
Print Assumptions c06_total_walk_frame.

(* ... and for any visiting order of the remaining rules (the HashMap iteration of the
   code before commit 3a7f18b) *)
Theorem c06_total_any_order :
  forall (S : Type) (ops : wops S) (ord : rmap -> rmap),
    (forall l x, In x (ord l) -> In x l) ->
    forall p E texts s, exists r : option S, walk_cfi_ord ops ord p E texts s = Ret r.
Proof. exact walk_cfi_ord_total. Qed.
Print Assumptions c06_total_any_order.

(* The result does not depend on the order in which the rules other than .cfa/.ra are
   applied — PROVIDED no two distinct rule targets alias in the walker ([nonaliasing]: their
   set/clear actions commute up to the walker's observational equivalence). *)
Theorem c06_order_irrelevant :
  forall (S : Type) (ops : wops S) (eqv : S -> S -> Prop), Equivalence eqv ->
  act_proper ops eqv ->
  forall ord1 ord2 : rmap -> rmap,
  (forall l, Permutation (ord1 l) l) -> (forall l, Permutation (ord2 l) l) ->
  forall p E texts s,
  nonaliasing ops eqv (targets texts) ->
  oeqv eqv (walk_cfi_ord ops ord1 p E texts s) (walk_cfi_ord ops ord2 p E texts s).
Proof. exact order_irrelevant. Qed.
Print Assumptions c06_order_irrelevant.

(* the hypothesis always holds for the abstract (mock) walker ... *)
Theorem c06_mock_never_aliases :
  forall w names, Equivalence meqv /\ act_proper (mock_ops w) meqv /\ nonaliasing (mock_ops w) meqv names.
Proof. intros w names. exact (conj meqv_equiv (conj (mock_act_proper w) (mock_nonaliasing w names))). Qed.
Print Assumptions c06_mock_never_aliases.

(* ... for the real CfiStackWalker it holds exactly when the targets' canonical (memoized)
   names are distinct ... *)
Theorem c06_real_nonaliasing :
  forall a names, canon_distinct a names ->
    Equivalence reqv /\ act_proper (real_ops a) reqv /\ nonaliasing (real_ops a) reqv names.
Proof. intros a names H. exact (conj reqv_equiv (conj (real_act_proper a) (real_nonaliasing a names H))). Qed.
Print Assumptions c06_real_nonaliasing.

(* ... and it is needed: arm64 `x29:` / `fp:` (finding F-C13b; since 3a7f18b the code fixes the
   order by sorting the names, so the result is at least deterministic). *)
Theorem c06_alias_order_matters :
  ~ canon_distinct arm64 (targets alias_texts) /\
  match walk_cfi_ord (real_ops arm64) (fun l => l) Debug null_env alias_texts (real_init arm64 [] None),
        walk_cfi_ord (real_ops arm64) (@rev _) Debug null_env alias_texts (real_init arm64 [] None) with
  | Ret (Some a), Ret (Some b) => r_ctx a (bs "fp") = 222 /\ r_ctx b (bs "fp") = 111
  | _, _ => False
  end.
Proof. exact (conj alias_not_canon_distinct alias_order_matters). Qed.
Print Assumptions c06_alias_order_matters.

(* Failure modes, expression level: a failing token makes the whole expression fail, and each
   documented condition makes its token fail. *)
Theorem c06_failure_modes_expr :
  (forall p E cfa pre t post st,
     eval_loop p E cfa pre [] = Ret st -> eval_step p E cfa t st = Fail ->
     eval_cfi_expr p E (pre ++ t :: post) cfa = Fail) /\
  (forall p E cfa t st, is_binop t -> (length st < 2)%nat -> eval_step p E cfa t st = Fail) /\   (* stack underflow *)
  (forall p E cfa, eval_step p E cfa T_caret [] = Fail) /\
  (forall p E cfa e st, eval_loop p E cfa e [] = Ret st -> length st <> 1%nat ->
     eval_cfi_expr p E e cfa = Fail) /\                                                           (* leftover operands / empty *)
  (forall p E cfa l s, eval_step p E cfa T_slash (0 :: l :: s) = Fail) /\                         (* / 0 *)
  (forall p E cfa l s, eval_step p E cfa T_pct (0 :: l :: s) = Fail) /\                           (* % 0 *)
  (forall p E cfa r l s, is_pow2 r = false -> eval_step p E cfa T_at (r :: l :: s) = Fail) /\     (* @ non-power-of-two *)
  (forall p E cfa a s, e_mem E a = None -> eval_step p E cfa T_caret (a :: s) = Fail) /\          (* unreadable memory *)
  (forall p E cfa n st, n <> [] -> e_callee E n = None -> eval_step p E cfa (36 :: n) st = Fail) /\  (* unknown $reg *)
  (forall p E cfa t st, is_special t = false -> after_dollar t = None -> parse_int 64 t = None ->
     e_callee E t = None -> eval_step p E cfa t st = Fail) /\                                     (* unknown bare reg / junk *)
  (forall p E cfa st, eval_step p E cfa T_undef st = Fail) /\                                     (* .undef *)
  (forall p E st, eval_step p E None T_cfa st = Fail).                                            (* .cfa inside the CFA rule *)
Proof.
  exact (conj eval_fail_at (conj fm_underflow_binop (conj fm_underflow_deref (conj fm_leftover
        (conj fm_div_zero (conj fm_rem_zero (conj fm_align_not_pow2 (conj fm_unreadable
        (conj fm_unknown_dollar_reg (conj fm_unknown_bare_reg (conj fm_undef fm_cfa_in_cfa))))))))))).
Qed.
Print Assumptions c06_failure_modes_expr.

(* Failure modes, walk level: malformed text, a missing or failing .cfa / .ra rule make the
   whole walk return None (any walker, any order). *)
Theorem c06_failure_modes_mandatory :
  (forall S (ops : wops S) ord p E texts s,
     parse_all texts [] = Fail -> walk_cfi_ord ops ord p E texts s = Ret None) /\
  (forall S (ops : wops S) ord p E texts s m,
     parse_all texts [] = Ret m ->
     (fst (map_remove RCfa m) = None \/
      exists e, fst (map_remove RCfa m) = Some e /\ eval_cfi_expr p E e None = Fail) ->
     walk_cfi_ord ops ord p E texts s = Ret None) /\
  (forall S (ops : wops S) ord p E texts s m cfa_e m1 cfa,
     parse_all texts [] = Ret m -> map_remove RCfa m = (Some cfa_e, m1) ->
     eval_cfi_expr p E cfa_e None = Ret cfa ->
     (fst (map_remove RRa m1) = None \/
      exists e, fst (map_remove RRa m1) = Some e /\ eval_cfi_expr p E e (Some cfa) = Fail) ->
     walk_cfi_ord ops ord p E texts s = Ret None).
Proof. exact (conj fm_parse_fails (conj fm_cfa_mandatory fm_ra_mandatory)). Qed.
Print Assumptions c06_failure_modes_mandatory.

(* Failure modes, other registers: after a successful walk the abstract walker holds, for every
   general-register rule, exactly the value of that rule — or the register is cleared when the
   rule fails (or the walker rejects the value); registers without a rule are untouched. *)
Theorem c06_failure_modes :
  forall w p E texts s s' m,
  walk_with_stack_cfi (mock_ops w) p E texts s = Ret (Some s') -> parse_all texts [] = Ret m ->
  exists cfa ra,
    m_cfa s' = Some cfa /\ m_ra s' = Some ra /\
    (exists e, In (RCfa, e) m /\ eval_cfi_expr p E e None = Ret cfa) /\
    (exists e, In (RRa, e) m /\ eval_cfi_expr p E e (Some cfa) = Ret ra) /\
    (forall n e, In (ROther n, e) m -> m_regs s' n = mock_cell w n (val p E (Some cfa) e)) /\
    (forall n, ~ In (ROther n) (map fst m) -> m_regs s' n = m_regs s n).
Proof. exact mock_walk_result. Qed.
Print Assumptions c06_failure_modes.

(* Refinement of the documented expression semantics: on programs whose tokens are all in the
   documented alphabet, for environments and CFA values within u64, the implementation's
   evaluator equals the independent [spec_eval]. *)
Theorem c06_refines_spec_expr :
  forall p E cfa e,
    env_wf E -> (forall c, cfa = Some c -> 0 <= c < two64) -> Forall documented e ->
    val p E cfa e = spec_eval E cfa e.
Proof. exact eval_refines_spec. Qed.
Print Assumptions c06_refines_spec_expr.

(* Refinement of the documented semantics of a whole unwind step: for every INIT record with its
   delta records (in file order), every lookup address, profile, word size, callee registers and
   memory within u64 — whenever the expressions of the applicable records use documented tokens
   only — SymbolFile::walk_frame with the abstract walker yields exactly [cfi_spec]: the same
   Some/None, the same CFA and return address, and for EVERY register name the same cell (set to
   its rule's value, cleared when its rule fails, untouched without a rule).  [cfi_spec] is built
   from the independent pieces spec_pairs (right-to-left grouping into REG: EXPR), last_rule (later
   overrides earlier), spec_eval; the record selection (sort by address, prefix <= lookup) is shared
   with the implementation model. *)
Theorem c06_refines_spec :
  forall w p E r addr,
    env_wf E -> all_documented r addr ->
    match walk_frame_cfi (mock_ops w) p E r addr m_init, cfi_spec w E r addr with
    | Ret (Some s), Some (cfa, ra, regs) =>
        m_cfa s = Some cfa /\ m_ra s = Some ra /\ forall n, m_regs s n = regs n
    | Ret None, None => True
    | _, _ => False
    end.
Proof. exact walk_refines_spec. Qed.
Print Assumptions c06_refines_spec.

(* The same through the REAL CfiStackWalker (front-end B's model): for every architecture table,
   start state (the forwarded callee-saved registers), INIT + delta records, lookup address,
   in-range environment and documented tokens — and rule targets that name pairwise distinct machine
   registers ([canon_distinct], the non-aliasing hypothesis of c06_order_irrelevant) — the walk
   yields exactly [cfi_spec_real]: for EVERY canonical register c the caller's value and validity:
   sp = CFA, ip = return address, a register with a rule gets its value and becomes valid, or becomes
   invalid when the rule fails or the value does not fit the register width (memoised names, so
   `x29: .undef` invalidates fp), every other register keeps what was forwarded from the callee. *)
Theorem c06_real_walker_refines_spec :
  forall a p E r addr s0,
    env_wf E -> all_documented r addr -> real_documented_nonaliasing a r addr ->
    match walk_frame_cfi (real_ops a) p E r addr s0, cfi_spec_real a E r addr s0 with
    | Ret (Some s), Some (ctx, valid) => forall c, r_ctx s c = ctx c /\ r_valid s c = valid c
    | Ret None, None => True
    | _, _ => False
    end.
Proof. exact real_walk_refines_spec. Qed.
Print Assumptions c06_real_walker_refines_spec.

(* What walk_stack receives after the walk (get_caller_by_cfi builds the frame's context from the
   walker; get_caller_frame drops the frame when ip < 4096 or sp does not grow): on x86 / amd64 the
   walker's registers and validity set are handed over unchanged; on arm64 the validity set is
   unchanged and pc, lr, fp are masked to 47 bits. *)
Theorem c06_frame_handover :
  (forall k a callee_sp s, k <> 2 ->
     match post_real k a callee_sp s with
     | Some s1 => s1 = s /\ 4096 <= r_ctx s (a_ip a) /\ callee_sp < r_ctx s (a_sp a)
     | None => r_ctx s (a_ip a) < 4096 \/ r_ctx s (a_sp a) <= callee_sp
     end) /\
  (forall callee_sp s s1,
     post_real 2 arm64 callee_sp s = Some s1 ->
     (forall n, r_valid s1 n = r_valid s n) /\
     (forall n, r_ctx s1 n = if beq n R_fp || beq n R_lr || beq n R_pc then Z.land (r_ctx s n) (2 ^ 47 - 1) else r_ctx s n) /\
     4096 <= r_ctx s1 R_pc /\ callee_sp <= r_ctx s1 (a_sp arm64)).
Proof. exact (conj handover_x86 handover_arm64). Qed.
Print Assumptions c06_frame_handover.

(* the text-level part on its own, for ALL byte strings: parse_cfi_exprs is the grouping spec *)
Theorem c06_parse_refines_spec :
  forall texts out,
    parse_all texts out =
    match all_pairs texts with Some ps => Ret (fold_left ins ps out) | None => Fail end.
Proof. exact parse_all_spec. Qed.
Print Assumptions c06_parse_refines_spec.

(* ---- non-vacuity ---- *)
Example c06_nonvacuous_walk :
  let E := mkEnv (fun n => assoc n [(bs "rsp", 100); (bs "rax", 7)])
                 (mem_read 8 96 [1;2;3;4;5;6;7;8;9;10;11;12;13;14;15;16;17;18;19;20;21;22;23;24]) 5 false 0 in
  match walk_frame_cfi (mock_ops 8) Debug E
          (mkCfi (0, bs ".cfa: $rsp 8 + .ra: .cfa -8 + ^") 16
                 [(6, bs "$rbx: 5"); (1, bs ".cfa: $rsp 16 + $rax: .cfa -16 + ^ $rcx: 1 0 /")]) 5 m_init with
  | Ret (Some s) => m_cfa s = Some 116 /\ m_ra s = Some 1446519769809227277 /\
                    m_regs s (bs "rax") = SetTo 867798387104613893 /\ m_regs s (bs "rcx") = Cleared /\
                    m_regs s (bs "rbx") = Unset
  | _ => False
  end.
Proof. vm_compute. repeat split; reflexivity. Qed.

Example c06_nonvacuous_documented :
  Forall documented (split_ws (bs ".cfa $rsp 3 + * ^ -8 x11 @ 9223372036854775808")).
Proof.
  assert (H : forallb (fun t => match spec_lex t with SJunk => false | _ => true end)
                (split_ws (bs ".cfa $rsp 3 + * ^ -8 x11 @ 9223372036854775808")) = true)
    by (vm_compute; reflexivity).
  rewrite forallb_forall in H. apply Forall_forall. intros t Ht. specialize (H t Ht).
  unfold documented. intro E. rewrite E in H. discriminate H.
Qed.

Example c06_nonvacuous_targets :
  targets [bs ".cfa: 1 .ra: 2 $rax: 3 x11: 4"; bs "rax: .undef"] = [bs "rax"; bs "x11"] /\
  canon_distinct x86 [bs "ebx"; bs "esi"].
Proof.
  split; [vm_compute; reflexivity|].
  intros n1 n2 [H1|[H1|[]]] [H2|[H2|[]]] Hne; subst n1 n2;
    try (exfalso; apply Hne; reflexivity); right; right; vm_compute; intro H; discriminate H.
Qed.

Example c06_nonvacuous_spec :
  let E := mkEnv (fun n => assoc n [(bs "rsp", 100); (bs "rax", 7)])
                 (mem_read 8 96 [1;2;3;4;5;6;7;8;9;10;11;12;13;14;15;16;17;18;19;20;21;22;23;24]) 5 false 0 in
  let r := mkCfi (0, bs ".cfa: $rsp 8 + .ra: .cfa -8 + ^") 16
                 [(6, bs "$rbx: 5"); (1, bs ".cfa: $rsp 16 + $rax: .cfa -16 + ^ $rcx: 1 0 /")] in
  all_documented r 5 /\
  match cfi_spec 8 E r 5 with
  | Some (cfa, ra, regs) => cfa = 116 /\ ra = 1446519769809227277 /\ regs (bs "rcx") = Cleared /\
                            regs (bs "rax") = SetTo 867798387104613893 /\ regs (bs "rbx") = Unset
  | None => False
  end.
Proof.
  split; [|vm_compute; repeat split; reflexivity].
  intros ps H. vm_compute in H. inversion H; subst ps.
  repeat constructor; cbn [snd]; intro D; vm_compute in D; discriminate D.
Qed.

Example c06_nonvacuous_real :
  let ctx := [(bs "eip", 1073741924); (bs "esp", 2147483648); (bs "ebp", 5); (bs "ebx", 6); (bs "esi", 7)] in
  let E := mkEnv (real_callee x86 ctx None) (mem_read 4 2147483648 [1;0;0;0; 2;0;0;0; 3;0;0;0; 4;0;0;0]) 100 false 0 in
  let r := mkCfi (0, bs ".cfa: $esp 16 + .ra: 1073742080 $ebx: 4294967296 $esi: .cfa 8 - ^ $eax: 9") 4096 [] in
  all_documented r 100 /\ real_documented_nonaliasing x86 r 100 /\
  match cfi_spec_real x86 E r 100 (real_init x86 ctx None) with
  | Some (c, v) => c (bs "esp") = 2147483664 /\ c (bs "eip") = 1073742080 /\ v (bs "ebx") = false /\
                   c (bs "esi") = 3 /\ v (bs "esi") = true /\ v (bs "eax") = true /\ v (bs "ebp") = true /\
                   v (bs "ecx") = false
  | None => False
  end.
Proof.
  split; [|split; [|vm_compute; repeat split; reflexivity]].
  - intros ps H. vm_compute in H. inversion H; subst ps.
    repeat constructor; cbn [snd]; intro D; vm_compute in D; discriminate D.
  - unfold real_documented_nonaliasing.
    assert (T : targets (texts_of (mkCfi (0, bs ".cfa: $esp 16 + .ra: 1073742080 $ebx: 4294967296 $esi: .cfa 8 - ^ $eax: 9") 4096 []) 100)
                = [bs "ebx"; bs "esi"; bs "eax"]) by (vm_compute; reflexivity).
    rewrite T. intros n1 n2 H1 H2 Hne. cbn [In] in H1, H2.
    destruct H1 as [H1|[H1|[H1|[]]]], H2 as [H2|[H2|[H2|[]]]]; subst n1 n2;
      try (exfalso; apply Hne; reflexivity); right; right; vm_compute; intro H; discriminate H.
Qed.

(* ==== Round 5: the evaluator REGENERATED from walker.rs (Gen/CfiOps.v, translate/c06_cfi_ops.py) ====
   [gen_eval_step] interprets the `match token` arms of eval_cfi_expr (statement lists: pops, guards, pushes over
   wrapping / checked u64 operations, in source order, then the if-let chain of the `_` arm); [gen_classify] /
   [gen_strip_label] the label chain of parse_cfi_exprs; [gen_walk] the statement skeleton of walk_with_stack_cfi
   (parse order, removals, the cfa argument of each evaluation, set_cfa / set_ra, the sort, the actions of the rule
   loop).  The interpretation is the hand-written model, for ALL inputs: every theorem above is a theorem about the
   tables the translator produced from the code of this run. *)
Theorem c06_gen_model_is_model :
  (forall p E cfa t st, gen_eval_step p E cfa t st = eval_step p E cfa t st) /\
  (forall p E e cfa, gen_eval_cfi_expr p E e cfa = eval_cfi_expr p E e cfa) /\
  (forall name, gen_classify name = classify_reg name) /\
  (forall t, gen_strip_label t = strip_suffix_colon t) /\
  (forall texts out, gen_parse_all texts out = parse_all texts out) /\
  (forall S (ops : wops S) p E init adds s,
     gen_walk ops p E init adds s = walk_with_stack_cfi ops p E (init :: adds) s) /\
  (forall S (ops : wops S) p E r addr s,
     gen_walk_frame_cfi ops p E r addr s = walk_frame_cfi ops p E r addr s).
Proof.
  exact (conj gen_eval_step_eq (conj gen_eval_cfi_expr_eq (conj gen_classify_eq (conj gen_strip_label_eq
        (conj gen_parse_all_eq (conj (@gen_walk_eq) gen_walk_frame_eq)))))).
Qed.
Print Assumptions c06_gen_model_is_model.

(* no Panic from the generated evaluator: besides the slice, unreachable!() and `rhs - 1`, this covers the zero
   divisor of u64::wrapping_div / wrapping_rem (PANIC_DIV0: the guards `if rhs == 0 { return None }` of the
   generated arms are what excludes it) and ill-formed step sequences (PANIC_GEN) *)
Theorem c06_gen_total :
  forall (S : Type) (ops : wops S) (p : profile) (E : env) (r : cfi_record) (addr : Z) (s : S),
    exists o : option S, gen_walk_frame_cfi ops p E r addr s = Ret o.
Proof. exact gen_walk_frame_total. Qed.
Print Assumptions c06_gen_total.

(* the generated operator table against the documented postfix language *)
Theorem c06_gen_refines_spec_expr :
  forall p E cfa e,
    env_wf E -> (forall c, cfa = Some c -> 0 <= c < two64) -> Forall documented e ->
    gen_eval_cfi_expr p E e cfa = match spec_eval E cfa e with Some v => Ret v | None => Fail end.
Proof. exact gen_eval_refines_spec. Qed.
Print Assumptions c06_gen_refines_spec_expr.

(* c06_refines_spec for the generated evaluator (this is the function the correspondence run extracts) *)
Theorem c06_gen_refines_spec :
  forall w p E r addr,
    env_wf E -> all_documented r addr ->
    match gen_walk_frame_cfi (mock_ops w) p E r addr m_init, cfi_spec w E r addr with
    | Ret (Some s), Some (cfa, ra, regs) =>
        m_cfa s = Some cfa /\ m_ra s = Some ra /\ forall n, m_regs s n = regs n
    | Ret None, None => True
    | _, _ => False
    end.
Proof. exact gen_walk_refines_spec. Qed.
Print Assumptions c06_gen_refines_spec.

Theorem c06_gen_real_walker_refines_spec :
  forall a p E r addr s0,
    env_wf E -> all_documented r addr -> real_documented_nonaliasing a r addr ->
    match gen_walk_frame_cfi (real_ops a) p E r addr s0, cfi_spec_real a E r addr s0 with
    | Ret (Some s), Some (ctx, valid) => forall c, r_ctx s c = ctx c /\ r_valid s c = valid c
    | Ret None, None => True
    | _, _ => False
    end.
Proof. exact gen_real_walk_refines_spec. Qed.
Print Assumptions c06_gen_real_walker_refines_spec.

(* non-vacuity: the generated tables compute (every operator arm, the three branches of the `_` arm, a failing rule) *)
Example c06_nonvacuous_gen :
  let E := mkEnv (fun n => assoc n [(bs "rsp", 100); (bs "rax", 7)])
                 (mem_read 8 96 [1;2;3;4;5;6;7;8;9;10;11;12;13;14;15;16;17;18;19;20;21;22;23;24]) 5 false 0 in
  match gen_walk_frame_cfi (mock_ops 8) Debug E
          (mkCfi (0, bs ".cfa: $rsp 8 + .ra: .cfa -8 + ^") 16
                 [(6, bs "$rbx: 5"); (1, bs ".cfa: $rsp 16 + $rax: .cfa -16 + ^ $rcx: 1 0 / r9: 77 rax 3 * - 5 % 40 + 16 @ 2 /")]) 5 m_init with
  | Ret (Some s) => m_cfa s = Some 116 /\ m_ra s = Some 1446519769809227277 /\
                    m_regs s (bs "rax") = SetTo 867798387104613893 /\ m_regs s (bs "rcx") = Cleared /\
                    m_regs s (bs "rbx") = Unset /\ m_regs s (bs "r9") = SetTo 16
  | _ => False
  end.
Proof. vm_compute. repeat split; reflexivity. Qed.

(* The per-architecture tables of the real-walker model (c06_real_walker_refines_spec quantifies over them) are
   the ones translate/unwind_consts.py regenerates from the code: CpuContext::REGISTERS, the memoize_register
   aliases (x29~fp, x30~lr), size_of::<Register>(), the names given to set_cfa / set_ra, CALLEE_SAVED_REGS. *)
Theorem c06_arch_tables_pinned :
  x86 = arch_of_consts x86_pw x86_registers [] x86_sp_name x86_ip_name x86_callee_saved /\
  amd64 = arch_of_consts amd64_pw amd64_registers [] amd64_sp_name amd64_ip_name amd64_callee_saved /\
  arm64 = arch_of_consts arm64_pw arm64_registers arm64_aliases arm64_cfi_sp_name arm64_cfi_ip_name arm64_callee_saved.
Proof. exact arch_tables_pinned. Qed.
Print Assumptions c06_arch_tables_pinned.

(* The step the token-list model left trusted in rounds 1-4: parse_cfi_exprs keeps, per register, the SUBSTRING
   `&input[first.start .. last.end]` and eval_cfi_expr tokenises it again.  For ALL byte strings: re-tokenising the
   substring from the start of the first to the end of the last token of any run of consecutive tokens yields exactly
   the tokens of the run; and every expression in the rule map that parse_cfi_exprs builds is such a re-tokenised
   substring of one of the rule texts (so the token lists the model evaluates are the ones the code evaluates). *)
Theorem c06_retokenise :
  (forall input pre run last_ post,
     tokens input = pre ++ (run ++ [last_]) ++ post ->
     split_ws (substr input (t_off (hd last_ run)) (t_end last_)) = map t_body (run ++ [last_])) /\
  (forall texts m, parse_all texts [] = Ret m -> forall k e, In (k, e) m ->
     exists input first last, In input texts /\ In first (tokens input) /\ In last (tokens input) /\
       e = split_ws (substr input (t_off first) (t_end last))).
Proof. exact (conj retokenise_run exprs_are_retokenised_slices). Qed.
Print Assumptions c06_retokenise.

Example c06_nonvacuous_retokenise :
  let input := bs "  .cfa:  $rsp 	 8 +  .ra:	.cfa  -8 + ^ " in
  exists pre post,
    tokens input = pre ++ ([mkTok 9 (bs "$rsp"); mkTok 16 (bs "8")] ++ [mkTok 18 (bs "+")]) ++ post /\
    substr input 9 19 = bs "$rsp 	 8 +" /\
    split_ws (substr input 9 19) = [bs "$rsp"; bs "8"; bs "+"].
Proof. eexists [_], _. vm_compute. repeat split; reflexivity. Qed.

(* Record selection, which c06_refines_spec shares between implementation model and [cfi_spec], against an
   independent statement of "rules at or below the address are applied in address order": for every list of delta
   records (file order) and lookup address, finish_item's sort followed by walk_frame's prefix loop selects exactly
   the records with address <= lookup (as a multiset: duplicates kept), in non-decreasing address order; and an INIT
   record covers exactly the non-empty interval [address, address + size) whose end fits u64. *)
Theorem c06_selection_spec :
  (forall addr deltas,
     let sel := take_applicable addr (sort_cfi deltas) in
     Permutation sel (filter (at_or_below addr) deltas) /\ StronglySorted addr_le sel /\
     (forall d, In d sel <-> In d deltas /\ fst d <= addr) /\
     (* records with the same address: in byte-lexicographic order of their rule text (derived Ord of CfiRules) *)
     StronglySorted rules_le sel) /\
  (forall a b, rules_le a b <-> fst a < fst b \/ (fst a = fst b /\ bytes_ltb (snd b) (snd a) = false)) /\
  (forall r addr,
     cfi_covers r addr = true <->
     c_size r <> 0 /\ fst (c_init r) + c_size r < 2 ^ 64 /\ fst (c_init r) <= addr < fst (c_init r) + c_size r).
Proof. exact selection_spec_full. Qed.
Print Assumptions c06_selection_spec.

Example c06_nonvacuous_selection :
  take_applicable 20 (sort_cfi [(30, bs "a: 1"); (20, bs "b: 2"); (7, bs "c: 3"); (20, bs "a: 9"); (21, bs "d: 4")])
  = [(7, bs "c: 3"); (20, bs "a: 9"); (20, bs "b: 2")] /\
  cfi_covers (mkCfi (18446744073709551600, bs ".cfa: 1 .ra: 2") 15 []) 18446744073709551614 = true /\
  cfi_covers (mkCfi (18446744073709551600, bs ".cfa: 1 .ra: 2") 16 []) 18446744073709551614 = false.
Proof. vm_compute. repeat split; reflexivity. Qed.

(* the constants of Driver.post_real (frame hand-over after the walk) are those of the unwinders *)
Theorem c06_post_real_consts_pinned :
  x86_ip_cutoff = 4096 /\ amd64_ip_cutoff = 4096 /\ arm64_ip_cutoff = 4096 /\ arm64_apple_bits = 47 /\
  x86_sp_stop_le = true /\ amd64_sp_stop_le = true.
Proof. exact post_real_consts_pinned. Qed.
Print Assumptions c06_post_real_consts_pinned.

(* Literals ([parse_int] is shared by the implementation model and [spec_lex]): a token is a literal of value v
   exactly when it is an optional single sign followed by one or more decimal digits and nothing else, and
   -2^63 <= v <= 2^63 - 1 (so `+5`, `-0`, `00012`, `-9223372036854775808` are literals; `9223372036854775808`, `--5`,
   `+`, `1_0`, `0x10` are not and fall through to the register lookup). *)
Theorem c06_literal_spec :
  forall t v,
    parse_int 64 t = Some v <->
    exists neg ds, lit_shape t neg ds /\ ds <> [] /\ forallb is_digit ds = true /\
                   v = (if neg then - dec_val ds else dec_val ds) /\
                   (if neg then dec_val ds <= 2 ^ 63 else dec_val ds < 2 ^ 63).
Proof. exact (parse_int_spec 64). Qed.
Print Assumptions c06_literal_spec.

Example c06_nonvacuous_literal :
  parse_int 64 (bs "-9223372036854775808") = Some (-9223372036854775808) /\ parse_int 64 (bs "9223372036854775808") = None /\
  parse_int 64 (bs "+5") = Some 5 /\ parse_int 64 (bs "-0") = Some 0 /\ parse_int 64 (bs "00012") = Some 12 /\
  parse_int 64 (bs "--5") = None /\ parse_int 64 (bs "+") = None /\ parse_int 64 (bs "1_0") = None.
Proof. vm_compute. repeat split; reflexivity. Qed.

(* The tokenizer ([split_ws] = str::split_ascii_whitespace, hand-written in Model.v) against its defining equations,
   for ALL byte strings (NUL, vertical tab, bytes >= 128 are ordinary token bytes): tokens are non-empty and
   whitespace-free; a non-empty whitespace-free string is its own single token; splitting distributes over any
   whitespace byte; the whitespace bytes are exactly space, \t, \n, \x0C, \r.  (Every string is a concatenation of
   whitespace bytes and whitespace-free blocks, so these equations determine the function.) *)
Theorem c06_tokenizer_spec :
  (forall s, Forall (fun t => t <> [] /\ ws_free t) (split_ws s)) /\
  (forall t, t <> [] -> ws_free t -> split_ws t = [t]) /\
  (forall a c b, is_ws c = true -> split_ws (a ++ c :: b) = split_ws a ++ split_ws b) /\
  split_ws [] = [] /\
  (forall c, is_ws c = true <-> c = 32 \/ c = 9 \/ c = 10 \/ c = 12 \/ c = 13).
Proof. exact split_ws_spec. Qed.
Print Assumptions c06_tokenizer_spec.

Example c06_nonvacuous_tokenizer :
  split_ws [32; 0; 11; 200; 9; 12; 65; 13; 10] = [[0; 11; 200]; [65]].
Proof. vm_compute. reflexivity. Qed.

(* The real CfiStackWalker WITHOUT the non-aliasing hypothesis of c06_real_walker_refines_spec: the general-register
   rules are applied in ascending register-name order (byte-lexicographic: the derived Ord of CfiReg, commit 3a7f18b),
   and for every machine register c the LAST rule in that order whose target memoizes to c decides c: valid iff that
   rule evaluates to a value that fits the register, and then holding that value; a register no rule names keeps
   what set_cfa / set_ra / the callee forwarded.  (arm64 `x29: A fp: B`: "fp" < "x29", so x29's rule decides fp.) *)
Theorem c06_real_alias_last_name_wins :
  forall a p E cfa m2 s2,
    all_other m2 ->
    StronglySorted name_le (sort_rules m2) /\ Permutation (sort_rules m2) m2 /\
    exists s3, apply_rules (real_ops a) p E cfa (sort_rules m2) s2 = Ret s3 /\
      forall c,
        match find_canon a c (rev (sort_rules m2)) with
        | Some (n, e) => decided a p E cfa s3 c e
        | None => r_ctx s3 c = r_ctx s2 c /\ r_valid s3 c = r_valid s2 c
        end.
Proof. exact real_alias_last_name_wins. Qed.
Print Assumptions c06_real_alias_last_name_wins.

Example c06_nonvacuous_alias_sorted :
  match walk_with_stack_cfi (real_ops arm64) Debug null_env [bs ".cfa: 16 .ra: 8 x29: 111 fp: 222 lr: 5 x30: .undef"]
                            (real_init arm64 [] None) with
  | Ret (Some s) => r_ctx s (bs "fp") = 111 /\ r_valid s (bs "fp") = true /\ r_valid s (bs "lr") = false
  | _ => False
  end.
Proof. vm_compute. repeat split; reflexivity. Qed.

(* Dereference ("unreadable memory ... make the affected rule fail"): the memory image of both walkers is read at
   the evaluator's 64-bit address as it is - a read succeeds only when [addr, addr + w) lies inside the image and
   then returns the w little-endian bytes there; an address outside fails, whatever its low 32 bits are (the class of
   seeded change C06-6: an address >= 2^32 on a 32-bit context must not be folded back onto the stack). *)
Theorem c06_deref_exact :
  forall w base data addr,
    (forall v, mem_read w base data addr = Some v ->
       base <= addr /\ addr - base + w <= blen data /\
       v = le_val (firstn (Z.to_nat w) (skipn (Z.to_nat (addr - base)) data))) /\
    (addr < base \/ blen data < addr - base + w -> mem_read w base data addr = None).
Proof. exact mem_read_exact. Qed.
Print Assumptions c06_deref_exact.

Example c06_nonvacuous_deref :
  mem_read 4 2147483648 [1;0;0;0; 2;0;0;0] 2147483652 = Some 2 /\
  mem_read 4 2147483648 [1;0;0;0; 2;0;0;0] (2147483652 + 4294967296) = None.
Proof. vm_compute. split; reflexivity. Qed.

(* Several INIT records in one symbol file (front-end kind M): when the records' ranges are pairwise disjoint, the
   record used for a lookup address is the one that covers it (none: no CFI), whatever the order of the records in the
   file.  (Overlapping ranges are C08's subject: into_rangemap_safe.) *)
Theorem c06_record_lookup :
  (forall rs addr, disjoint_recs rs ->
     (forall r, find_record rs addr = Some r <-> In r rs /\ cfi_covers r addr = true) /\
     (find_record rs addr = None <-> forall r, In r rs -> cfi_covers r addr = false)) /\
  (forall rs rs' addr, Permutation rs rs' -> disjoint_recs rs -> find_record rs addr = find_record rs' addr).
Proof. exact (conj find_record_spec find_record_perm). Qed.
Print Assumptions c06_record_lookup.

(* the extracted entry points (C06/GenDriver.v, over the generated tables) equal the hand-written drivers of
   C06/Driver.v that C07's model builds on; a single-record M case is the A case *)
Theorem c06_gen_driver_is_driver :
  (forall w lookup initaddr initsize regs membase mem init deltas names,
     run_mock_gen w lookup initaddr initsize regs membase mem init deltas names =
     run_mock w lookup initaddr initsize regs membase mem init deltas names) /\
  (forall k ctx valid stackbase stack initaddr initsize init deltas,
     run_real_gen k ctx valid stackbase stack initaddr initsize init deltas =
     run_real k ctx valid stackbase stack initaddr initsize init deltas) /\
  (forall w lookup regs membase mem r names,
     run_mock_multi_gen w lookup regs membase mem [r] names =
     run_mock w lookup (fst (c_init r)) (c_size r) regs membase mem (snd (c_init r)) (c_add r) names).
Proof. exact gen_driver_is_driver. Qed.
Print Assumptions c06_gen_driver_is_driver.

(* ==== Round 5, second pass: front-end B for every context whose unwinder uses CfiStackWalker ====
   x86 / amd64 / arm64 as before, plus 32-bit ARM (aliases r11~fp r13~sp r14~lr r15~pc), MIPS (Mips32Context: the u32
   view of the one CONTEXT_MIPS — callee values are the low 32 bits of the 64-bit slots, values must fit u32) and
   MIPS64.  The three new tables are COMPUTED from the generated constants (C06/ArchDriver.v). *)

(* all six tables: canonical names are fixed points of memoize_register and lie in REGISTERS; the names given to
   set_cfa / set_ra are distinct canonical registers; CALLEE_SAVED_REGS is a subset of REGISTERS; the register width
   is between 1 and 8 bytes *)
Theorem c06_arch_tables_wellformed :
  forall k, let a := arch_of2 k in
    (forall n c, memoize a n = Some c -> In c (a_regs a) /\ memoize a c = Some c) /\
    memoize a (a_sp a) = Some (a_sp a) /\ memoize a (a_ip a) = Some (a_ip a) /\ a_sp a <> a_ip a /\
    In (a_sp a) (a_regs a) /\ In (a_ip a) (a_regs a) /\ (forall c, In c (a_saved a) -> In c (a_regs a)) /\
    0 < a_width a <= 8.
Proof. exact (fun k => conj (arch_wf_memoize _ (arch_tables_wf k)) (arch_wf_sp_ip _ (arch_tables_wf k))). Qed.
Print Assumptions c06_arch_tables_wellformed.

(* END TO END, every architecture k (0 x86, 1 amd64, 2 arm64, 3 arm, 4 mips, 5 mips64), every callee context with
   values within u64, every validity set, every stack image, every INIT + delta records with documented tokens and
   non-aliasing targets: the extracted entry point the correspondence run compares with walk_stack equals the
   documented result cfi_spec_real (CFA first and not self-referential, .ra mandatory, every other register set from
   its rule or unknown, width check, aliases resolved through memoize_register) followed by the hand-over of
   <arch>::get_caller_frame.  The guards in front: walk_stack unwinds only with a stack memory that has a range
   (stack_ok = C08's mk_range of base and length), the unwinder needs a valid stack pointer, and the instruction must
   lie in the module the symbols belong to. *)
Theorem c06_real_end_to_end :
  forall k ctx valid stackbase stack initaddr initsize init deltas,
    ctx_wf ctx -> bytes_wf stack ->
    let a := arch_of2 k in
    let ip := match assoc (a_ip a) ctx with Some v => v | None => 0 end in
    let sp := match assoc (a_sp a) ctx with Some v => v | None => 0 end in
    let r := mkCfi (initaddr, init) initsize deltas in
    let E := real_env2 k ctx valid stackbase stack ip in
    all_documented r (ip - 1073741824) -> real_documented_nonaliasing a r (ip - 1073741824) ->
    run_real2_gen k ctx valid stackbase stack initaddr initsize init deltas =
      if negb (stack_ok stackbase stack)
         || negb (match valid with None => true | Some which => mem_b (a_sp a) which end)
         || (ip <? 1073741824) || (1073741824 + 65536 <=? ip) then out_none
      else frame_of_spec k a sp (cfi_spec_real a E r (ip - 1073741824) (real_init a ctx valid)).
Proof. exact real_end_to_end. Qed.
Print Assumptions c06_real_end_to_end.

(* arm / mips / mips64 hand-over: the walker's context and validity set reach walk_stack unchanged; the frame exists
   iff pc >= 4096 and the stack pointer did not go down (the context frame may be a leaf: equality is allowed) *)
Theorem c06_frame_handover_arm_mips :
  forall k a callee_sp s, 3 <= k ->
    match post_real2 k a callee_sp s with
    | Some s1 => s1 = s /\ 4096 <= r_ctx s (a_ip a) /\ callee_sp <= r_ctx s (a_sp a)
    | None => r_ctx s (a_ip a) < 4096 \/ r_ctx s (a_sp a) < callee_sp
    end.
Proof. exact handover_arm_mips. Qed.
Print Assumptions c06_frame_handover_arm_mips.

(* the observation (values of the valid registers among REGISTERS) loses nothing: the validity set of the documented
   result never leaves REGISTERS when it starts from the forwarded callee-saved registers *)
Theorem c06_real_observation_complete :
  forall k E r addr ctx valid c v,
    cfi_spec_real (arch_of2 k) E r addr (real_init (arch_of2 k) ctx valid) = Some (c, v) ->
    forall n, v n = true -> In n (a_regs (arch_of2 k)).
Proof.
  exact (fun k E r addr ctx valid c v H =>
    spec_real_valid_in_regs _ E r addr _ c v (arch_tables_wf k) (real_init_valid_in_regs _ ctx valid (arch_tables_wf k)) H).
Qed.
Print Assumptions c06_real_observation_complete.

(* on the architectures of rounds 1-5 the new entry point is the old one (which C07 builds on) *)
Theorem c06_real_entry_point_extends :
  forall k ctx valid stackbase stack initaddr initsize init deltas, k < 3 -> stack_ok stackbase stack = true ->
    run_real2_gen k ctx valid stackbase stack initaddr initsize init deltas =
    run_real_gen k ctx valid stackbase stack initaddr initsize init deltas.
Proof. exact run_real2_old. Qed.
Print Assumptions c06_real_entry_point_extends.

(* walk_stack's own precondition: a stack memory without a range — empty, or base + size beyond u64 — ends the walk
   before any frame is unwound, whatever the call frame information says *)
Theorem c06_no_stack_no_frame :
  forall k ctx valid stackbase stack initaddr initsize init deltas,
    (blen stack = 0 \/ two64 <= stackbase + blen stack) ->
    run_real2_gen k ctx valid stackbase stack initaddr initsize init deltas = out_none.
Proof. exact no_stack_no_frame. Qed.
Print Assumptions c06_no_stack_no_frame.

(* the register width check and the alias resolution of CfiStackWalker, on every architecture table:
   set_caller_register(name, v) (and set_cfa / set_ra, which are the same write to the sp / ip register) succeeds iff
   memoize_register knows the name and v fits size_of::<Register>() bytes; it then makes exactly the memoized register
   valid with value v and touches no other register; on failure walk_with_stack_cfi clears the register (811f017) *)
Theorem c06_width_check_and_aliases :
  forall a s n v,
    match o_set (real_ops a) s n v with
    | Some s' => exists c, memoize a n = Some c /\ v < 2 ^ (8 * a_width a) /\
                   r_ctx s' c = v /\ r_valid s' c = true /\
                   forall c', c' <> c -> r_ctx s' c' = r_ctx s c' /\ r_valid s' c' = r_valid s c'
    | None => memoize a n = None \/ 2 ^ (8 * a_width a) <= v
    end.
Proof. exact real_set_spec. Qed.
Print Assumptions c06_width_check_and_aliases.

(* non-vacuity: the computed tables *)
Example c06_nonvacuous_arch2 :
  arm = mkArch 4 (map bs ["r0"; "r1"; "r2"; "r3"; "r4"; "r5"; "r6"; "r7"; "r8"; "r9"; "r10"; "r12"; "fp"; "sp"; "lr"; "pc"]%string)
               [(bs "r11", bs "fp"); (bs "r13", bs "sp"); (bs "r14", bs "lr"); (bs "r15", bs "pc")] (bs "sp") (bs "pc")
               (map bs ["r4"; "r5"; "r6"; "r7"; "r8"; "r9"; "r10"; "fp"]%string) /\
  mips32 = mkArch 4 (map bs ["gp"; "sp"; "fp"; "ra"; "pc"; "s0"; "s1"; "s2"; "s3"; "s4"; "s5"; "s6"; "s7"]%string) []
               (bs "sp") (bs "pc") (map bs ["s0"; "s1"; "s2"; "s3"; "s4"; "s5"; "s6"; "s7"; "gp"; "sp"; "fp"]%string) /\
  mips64 = mkArch 8 (a_regs mips32) [] (bs "sp") (bs "pc") (a_saved mips32) /\
  memoize arm (bs "r11") = Some (bs "fp") /\ memoize arm (bs "r15") = Some (bs "pc") /\ memoize arm (bs "r16") = None /\
  memoize mips32 (bs "r11") = None.
Proof. vm_compute. repeat split; reflexivity. Qed.

(* non-vacuity of c06_real_end_to_end, 32-bit ARM: an alias as rule target (r11 = fp, read from the stack), a value
   that does not fit u32 (r0 stays unknown), `.undef` (r5 forwarded by default, now unknown); the answer is the one
   walk_stack gave for this input *)
Example c06_nonvacuous_end_to_end_arm :
  let ctx := [(bs "pc", 1073742080); (bs "sp", 2147483648); (bs "fp", 2147483680); (bs "r4", 11); (bs "r5", 12); (bs "r0", 14)] in
  let stack := [1;2;3;4;5;6;7;8;9;10;11;12;13;14;15;16] in
  let init := bs ".cfa: sp 16 + .ra: 1073742080 r4: 7 r11: .cfa 8 - ^ r0: 4294967296 r5: .undef" in
  let r := mkCfi (0, init) 4096 [] in
  ctx_wf ctx /\ bytes_wf stack /\ all_documented r 256 /\ real_documented_nonaliasing arm r 256 /\
  let o := run_real2_gen 3 ctx None 2147483648 stack 0 4096 init [] in
  o_status o = 1 /\
  o_regs o = [(bs "r4", 7); (bs "r6", 0); (bs "r7", 0); (bs "r8", 0); (bs "r9", 0); (bs "r10", 0);
              (bs "fp", 202050057); (bs "sp", 2147483664); (bs "pc", 1073742080)].
Proof.
  split; [intros n v H; cbn [In] in H; repeat (destruct H as [H|H]; [injection H as _ <-; vm_compute; split; [discriminate|reflexivity]|]); contradiction|].
  split; [intros b H; cbn [In] in H; repeat (destruct H as [<-|H]; [vm_compute; split; [discriminate|reflexivity]|]); contradiction|].
  split; [|split; [|vm_compute; split; reflexivity]].
  - intros ps H. vm_compute in H. inversion H; subst ps.
    repeat constructor; cbn [snd]; intro D; vm_compute in D; discriminate D.
  - unfold real_documented_nonaliasing.
    assert (T : targets (texts_of (mkCfi (0, bs ".cfa: sp 16 + .ra: 1073742080 r4: 7 r11: .cfa 8 - ^ r0: 4294967296 r5: .undef") 4096 []) 256)
                = [bs "r4"; bs "r11"; bs "r0"; bs "r5"]) by (vm_compute; reflexivity).
    rewrite T. intros n1 n2 H1 H2 Hne. cbn [In] in H1, H2.
    destruct H1 as [H1|[H1|[H1|[H1|[]]]]], H2 as [H2|[H2|[H2|[H2|[]]]]]; subst n1 n2;
      try (exfalso; apply Hne; reflexivity); right; right; vm_compute; intro H; discriminate H.
Qed.

(* MIPS, 32-bit view: the evaluator sees the low 32 bits of a callee register (s0 = 2^32 + 3 reads as 3), the caller
   context keeps the 64-bit slot of a forwarded register; sp is among the forwarded registers and is overwritten by
   the CFA; the answers are those walk_stack gave for these inputs (a one-byte stack memory; with an empty one no frame) *)
Example c06_nonvacuous_end_to_end_mips :
  let ctx := [(bs "pc", 1073742080); (bs "sp", 2147483648); (bs "fp", 5); (bs "s0", 4294967299); (bs "gp", 77); (bs "ra", 9)] in
  let init := bs ".cfa: sp 16 + .ra: 1073742080 s1: s0 1 +" in
  let r := mkCfi (0, init) 4096 [] in
  ctx_wf ctx /\ all_documented r 256 /\ real_documented_nonaliasing mips32 r 256 /\
  o_regs (run_real2_gen 4 ctx (Some [bs "pc"; bs "sp"; bs "s0"]) 2147483648 [0] 0 4096 init []) =
    [(bs "sp", 2147483664); (bs "pc", 1073742080); (bs "s0", 4294967299); (bs "s1", 4)] /\
  o_regs (run_real2_gen 5 ctx (Some [bs "pc"; bs "sp"; bs "s0"]) 2147483648 [0] 0 4096 init []) =
    [(bs "sp", 2147483664); (bs "pc", 1073742080); (bs "s0", 4294967299); (bs "s1", 4294967300)] /\
  o_status (run_real2_gen 4 ctx (Some [bs "pc"; bs "sp"; bs "s0"]) 2147483648 [] 0 4096 init []) = 0.
Proof.
  split; [intros n v H; cbn [In] in H; repeat (destruct H as [H|H]; [injection H as _ <-; vm_compute; split; [discriminate|reflexivity]|]); contradiction|].
  split; [|split; [|vm_compute; repeat split; reflexivity]].
  - intros ps H. vm_compute in H. inversion H; subst ps.
    repeat constructor; cbn [snd]; intro D; vm_compute in D; discriminate D.
  - unfold real_documented_nonaliasing.
    assert (T : targets (texts_of (mkCfi (0, bs ".cfa: sp 16 + .ra: 1073742080 s1: s0 1 +") 4096 []) 256) = [bs "s1"]) by (vm_compute; reflexivity).
    rewrite T. intros n1 n2 H1 H2 Hne. cbn [In] in H1, H2.
    destruct H1 as [H1|[]], H2 as [H2|[]]; subst n1 n2. exfalso; apply Hne; reflexivity.
Qed.

(* ==== Round 5, second pass: SEVERAL INIT records in one file, through C08's generated parser tables ====
   C06/FileTable.v: finish_item files each record under StackInfoCfi::memory_range() (Gen/C08Tables.v
   g_mr_StackInfoCfi), the parser-local into_rangemap_safe + RangeMap::try_from_iter build the table
   (g_record_table / g_build_parser), walk_frame finds the record with RangeMap::get (C08's rm_get: the real binary
   search) and walks it.  Rounds 1-5 modelled "the record that covers" for pairwise disjoint records only. *)

(* for ALL files (u64 addresses and sizes, any overlaps, duplicates, empty or overflowing ranges), both profiles:
   the table is built without a panic (the `- 1` of memory_range, Range::new, try_from_iter(..).unwrap()), is sorted
   and non-overlapping; a lookup returns only a record OF THE FILE (with finish_item's sort applied) whose own range
   covers the address — so a record of size 0, or whose end address leaves u64, is never returned; and a record that
   every other record lies beside (or has no range at all) is returned at every address it covers *)
Theorem c06_file_table :
  forall p rs, u64_file rs ->
    exists t, cfi_file_table p rs = Ret t /\
      StronglySorted (fun a b => snd (fst a) < fst (fst b)) t /\
      (forall x v, rm_get t x = Some v -> exists r0, In r0 rs /\ v = finished r0 /\ cfi_covers r0 x = true) /\
      (forall r1 r0 r2 x, rs = r1 ++ r0 :: r2 -> cfi_covers r0 x = true ->
         (forall r', In r' (r1 ++ r2) -> beside r0 r') -> rm_get t x = Some (finished r0)).
Proof. exact file_table_spec. Qed.
Print Assumptions c06_file_table.

(* the unwind step over a whole file: never a panic; it is None or the walk (c06_gen_refines_spec,
   c06_gen_real_walker_refines_spec speak about it) of a record of the file that covers the address; None when no
   record covers; the walk of r0 when r0 covers and all other records lie beside it *)
Theorem c06_file_walk :
  forall (S : Type) (ops : wops S) p E,
    (forall rs addr s, u64_file rs -> exists o, gen_walk_file ops p E rs addr s = Ret o) /\
    (forall rs addr s, u64_file rs ->
       gen_walk_file ops p E rs addr s = Ret None \/
       exists r0, In r0 rs /\ cfi_covers r0 addr = true /\
                  gen_walk_file ops p E rs addr s = gen_walk_frame_cfi ops p E r0 addr s) /\
    (forall rs addr s, u64_file rs -> (forall r0, In r0 rs -> cfi_covers r0 addr = false) ->
       gen_walk_file ops p E rs addr s = Ret None) /\
    (forall r1 r0 r2 addr s, u64_file (r1 ++ r0 :: r2) -> cfi_covers r0 addr = true ->
       (forall r', In r' (r1 ++ r2) -> beside r0 r') ->
       gen_walk_file ops p E (r1 ++ r0 :: r2) addr s = gen_walk_frame_cfi ops p E r0 addr s).
Proof.
  exact (fun S ops p E => conj (file_walk_total S ops p E) (conj (file_walk_sound S ops p E)
           (conj (file_walk_none S ops p E) (file_walk_isolated S ops p E)))).
Qed.
Print Assumptions c06_file_walk.

(* on duplicate-free files with pairwise disjoint records the table lookup is "the record that covers"
   (GenDriver.find_record, c06_record_lookup) — the model of the first pass of this round *)
Theorem c06_file_walk_disjoint :
  forall (S : Type) (ops : wops S) p E rs addr s, u64_file rs -> NoDup rs -> disjoint_recs rs ->
    gen_walk_file ops p E rs addr s =
    match find_record rs addr with Some r => gen_walk_frame_cfi ops p E r addr s | None => Ret None end.
Proof. exact file_walk_disjoint. Qed.
Print Assumptions c06_file_walk_disjoint.

(* OVERLAPPING INIT records (malformed input the documentation is silent about; what the code does): the record with
   the smallest (start, end) key — among records that have a range; on equal keys the one earlier in the file — is
   found at every address it covers, whatever overlaps it, and the unwind step is its walk.  (into_rangemap_safe
   sorts by range and drops the later of two overlapping records as a whole; c06_nonvacuous_file_overlap shows an
   address that only a dropped record covers finding nothing.) *)
Theorem c06_overlap_first_key_wins :
  forall (S : Type) (ops : wops S) p E r1 r0 r2 addr s, u64_file (r1 ++ r0 :: r2) ->
    cfi_covers r0 addr = true ->
    (forall r', In r' r1 -> has_range r' -> key_lt r0 r') ->
    (forall r', In r' r2 -> has_range r' -> ~ key_lt r' r0) ->
    (exists t, cfi_file_table p (r1 ++ r0 :: r2) = Ret t /\ rm_get t addr = Some (finished r0)) /\
    gen_walk_file ops p E (r1 ++ r0 :: r2) addr s = gen_walk_frame_cfi ops p E r0 addr s.
Proof.
  exact (fun S ops p E r1 r0 r2 addr s H Hc H1 H2 =>
    conj (file_first_wins p r1 r0 r2 addr H Hc H1 H2) (file_walk_first_wins S ops p E r1 r0 r2 addr s H Hc H1 H2)).
Qed.
Print Assumptions c06_overlap_first_key_wins.

(* the documented result for a whole FILE (abstract walker): when every other record lies beside the covering record
   r0, or r0 has the smallest key, the unwind step over the file equals cfi_spec of r0 — Some/None, CFA, return
   address and the cell of every register name (c06_gen_refines_spec lifted from one record to the record table) *)
Theorem c06_file_refines_spec :
  forall w p E r1 r0 r2 addr, u64_file (r1 ++ r0 :: r2) -> cfi_covers r0 addr = true ->
    ((forall r', In r' (r1 ++ r2) -> beside r0 r') \/
     ((forall r', In r' r1 -> has_range r' -> key_lt r0 r') /\ (forall r', In r' r2 -> has_range r' -> ~ key_lt r' r0))) ->
    env_wf E -> all_documented r0 addr ->
    match gen_walk_file (mock_ops w) p E (r1 ++ r0 :: r2) addr m_init, cfi_spec w E r0 addr with
    | Ret (Some s), Some (cfa, ra, regs) => m_cfa s = Some cfa /\ m_ra s = Some ra /\ forall n, m_regs s n = regs n
    | Ret None, None => True
    | _, _ => False
    end.
Proof. exact file_refines_spec. Qed.
Print Assumptions c06_file_refines_spec.

(* an INIT record without a range — size 0, or address + size beyond u64 (so also a record whose LAST byte is 2^64-1) —
   is invisible: the record table, hence every lookup and every unwind step, is that of the file without it *)
Theorem c06_rangeless_records_invisible :
  forall (S : Type) (ops : wops S) p E r1 r r2 addr s, u64_file (r1 ++ r :: r2) ->
    (c_size r = 0 \/ two64 <= fst (c_init r) + c_size r) ->
    cfi_file_table p (r1 ++ r :: r2) = cfi_file_table p (r1 ++ r2) /\
    gen_walk_file ops p E (r1 ++ r :: r2) addr s = gen_walk_file ops p E (r1 ++ r2) addr s.
Proof.
  exact (fun S ops p E r1 r r2 addr s H Hn =>
    conj (rangeless_invisible p r1 r r2 H Hn) (rangeless_invisible_walk S ops p E r1 r r2 addr s H Hn)).
Qed.
Print Assumptions c06_rangeless_records_invisible.

(* the order of the INIT records in the file does not matter — for ALL files, overlapping ones included, whose records
   with a range have pairwise different ranges: permuting the records leaves the record table, every lookup and every
   unwind step unchanged.  (Two records with the SAME range are the one case where file order decides.) *)
Theorem c06_file_order_irrelevant :
  forall (S : Type) (ops : wops S) p E rs rs' addr s, u64_file rs -> Permutation rs rs' -> NoDup (file_keys rs) ->
    cfi_file_table p rs = cfi_file_table p rs' /\
    gen_walk_file ops p E rs addr s = gen_walk_file ops p E rs' addr s.
Proof.
  exact (fun S ops p E rs rs' addr s H P ND =>
    conj (file_order_irrelevant p rs rs' H P ND) (file_walk_order_irrelevant S ops p E rs rs' addr s H P ND)).
Qed.
Print Assumptions c06_file_order_irrelevant.

(* non-vacuity, and what happens to OVERLAPPING INIT records (the answers are those of the real code): A = [16,47],
   B = [40,71] overlaps A, C has size 0, D = [2^64-16, 2^64-1] (end + 1 leaves u64), E = [72,79].  A wins the overlap;
   B is dropped as a whole — address 60, which only B covers, finds nothing; C and D are never found; E is found;
   the file order does not matter here *)
Example c06_nonvacuous_file_overlap :
  let A := mkCfi (16, bs ".cfa: 16 .ra: 8") 32 [] in
  let B := mkCfi (40, bs ".cfa: 24 .ra: 5") 32 [] in
  let C := mkCfi (100, bs ".cfa: 32 .ra: 5") 0 [] in
  let D := mkCfi (18446744073709551600, bs ".cfa: 40 .ra: 5") 16 [] in
  let E := mkCfi (72, bs ".cfa: 48 .ra: 5") 8 [] in
  u64_file [A; B; C; D; E] /\ file_keys [A; B; C; D; E] = [(16, 47); (40, 71); (72, 79)] /\ NoDup (file_keys [A; B; C; D; E]) /\
  forall rs, rs = [A; B; C; D; E] \/ rs = [E; D; B; C; A] ->
    map (fun x => o_cfa (run_mock_file_gen 8 x [] 0 [] rs [])) [15; 20; 45; 48; 60; 72; 79; 80; 100; 18446744073709551608] =
    [None; Some 16; Some 16; None; None; Some 48; Some 48; None; None; None].
Proof.
  split; [|split; [vm_compute; reflexivity|split]].
  - repeat constructor; vm_compute; try discriminate; reflexivity.
  - assert (K : file_keys [mkCfi (16, bs ".cfa: 16 .ra: 8") 32 []; mkCfi (40, bs ".cfa: 24 .ra: 5") 32 []; mkCfi (100, bs ".cfa: 32 .ra: 5") 0 [];
                           mkCfi (18446744073709551600, bs ".cfa: 40 .ra: 5") 16 []; mkCfi (72, bs ".cfa: 48 .ra: 5") 8 []]
                = [(16, 47); (40, 71); (72, 79)]) by (vm_compute; reflexivity).
    cbv zeta. rewrite K. repeat constructor; cbn [In]; intro Hx; repeat (destruct Hx as [Hx|Hx]; [discriminate Hx|]); exact Hx.
  - intros rs [->| ->]; vm_compute; reflexivity.
Qed.
