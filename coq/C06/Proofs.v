(* C06/Proofs.v — lemmas about the STACK CFI model (totality, order, failure modes). *)
From Coq Require Import String Ascii Lia Permutation Morphisms Setoid.
From RM Require Import C06.Model.
Import ListNotations.
Open Scope Z_scope.

(* ---- the byte constants of Model.v are the texts they stand for ---- *)
Fixpoint bs (s : string) : bytes :=
  match s with
  | EmptyString => []
  | String c r => Z.of_N (N_of_ascii c) :: bs r
  end.
Lemma consts_ok :
  T_plus = bs "+" /\ T_minus = bs "-" /\ T_star = bs "*" /\ T_slash = bs "/" /\ T_pct = bs "%" /\
  T_at = bs "@" /\ T_caret = bs "^" /\ T_cfa = bs ".cfa" /\ T_ra = bs ".ra" /\ T_undef = bs ".undef" /\
  a_regs x86 = map bs ["eip"; "esp"; "ebp"; "ebx"; "esi"; "edi"; "eax"; "ecx"; "edx"; "eflags"]%string /\
  a_saved x86 = map bs ["ebp"; "ebx"; "edi"; "esi"]%string /\ a_sp x86 = bs "esp" /\ a_ip x86 = bs "eip" /\
  a_regs amd64 = map bs ["rax"; "rdx"; "rcx"; "rbx"; "rsi"; "rdi"; "rbp"; "rsp"; "r8"; "r9"; "r10"; "r11";
                         "r12"; "r13"; "r14"; "r15"; "rip"]%string /\
  a_saved amd64 = map bs ["rbx"; "rbp"; "r12"; "r13"; "r14"; "r15"]%string /\
  a_sp amd64 = bs "rsp" /\ a_ip amd64 = bs "rip" /\
  a_regs arm64 = map bs ["x0"; "x1"; "x2"; "x3"; "x4"; "x5"; "x6"; "x7"; "x8"; "x9"; "x10"; "x11"; "x12";
                         "x13"; "x14"; "x15"; "x16"; "x17"; "x18"; "x19"; "x20"; "x21"; "x22"; "x23"; "x24";
                         "x25"; "x26"; "x27"; "x28"; "fp"; "lr"; "sp"; "pc"]%string /\
  a_alias arm64 = [(bs "x29", bs "fp"); (bs "x30", bs "lr")] /\
  a_saved arm64 = map bs ["x19"; "x20"; "x21"; "x22"; "x23"; "x24"; "x25"; "x26"; "x27"; "x28"; "fp"]%string /\
  a_sp arm64 = bs "sp" /\ a_ip arm64 = bs "pc".
Proof. repeat split; reflexivity. Qed.

(* ---- byte-string equality ---- *)
Lemma beq_eq : forall a b, beq a b = true <-> a = b.
Proof.
  induction a as [|x a IH]; destruct b as [|y b]; cbn [beq]; split; intro H; try discriminate; auto.
  - apply andb_prop in H. destruct H as [H1 H2]. apply Z.eqb_eq in H1. apply IH in H2. congruence.
  - inversion H; subst. rewrite Z.eqb_refl. cbn. apply IH. reflexivity.
Qed.
Lemma beq_refl : forall a, beq a a = true.
Proof. intro a. apply beq_eq. reflexivity. Qed.
Lemma beq_neq : forall a b, beq a b = false <-> a <> b.
Proof.
  intros a b. split; intro H.
  - intro E. apply beq_eq in E. congruence.
  - destruct (beq a b) eqn:E; auto. apply beq_eq in E. contradiction.
Qed.
Lemma cfireg_eqb_eq : forall a b, cfireg_eqb a b = true <-> a = b.
Proof.
  destruct a, b; cbn; split; intro H; try discriminate; auto.
  - apply beq_eq in H. congruence.
  - inversion H. apply beq_refl.
Qed.
Lemma cfireg_eqb_neq : forall a b, cfireg_eqb a b = false <-> a <> b.
Proof.
  intros a b. split; intro H.
  - intro E. apply cfireg_eqb_eq in E. congruence.
  - destruct (cfireg_eqb a b) eqn:E; auto. apply cfireg_eqb_eq in E. contradiction.
Qed.

(* the tokens eval_cfi_expr matches literally *)
Definition is_special (t : bytes) : bool :=
  existsb (beq t) [T_plus; T_minus; T_star; T_slash; T_pct; T_at; T_caret; T_cfa; T_undef].

(* ---- outcomes that are neither Panic nor OutOfFuel ---- *)
Definition ok {A} (x : outcome A) : Prop :=
  match x with Ret _ => True | Fail => True | _ => False end.

Lemma ok_bind : forall A B (x : outcome A) (f : A -> outcome B),
  ok x -> (forall a, x = Ret a -> ok (f a)) -> ok (obind x f).
Proof. intros A B x f Hx Hf. destruct x; cbn in *; auto. Qed.

(* ---- tokeniser: offsets are ordered and inside the input ---- *)
Fixpoint toks_wf (lo hi : Z) (l : list tok) : Prop :=
  match l with
  | [] => lo <= hi
  | t :: r => lo <= t_off t /\ toks_wf (t_end t) hi r
  end.

Lemma blen_nonneg : forall b, 0 <= blen b.
Proof. intro b. unfold blen. lia. Qed.
Lemma blen_cons : forall c b, blen (c :: b) = blen b + 1.
Proof. intros. unfold blen. cbn [length]. lia. Qed.
Lemma blen_rev : forall b, blen (rev b) = blen b.
Proof. intro b. unfold blen. rewrite rev_length. reflexivity. Qed.

Lemma toks_wf_le : forall l lo hi, toks_wf lo hi l -> lo <= hi.
Proof.
  induction l as [|t r IH]; cbn; intros lo hi H; auto.
  destruct H as [H1 H2]. apply IH in H2. unfold t_end in H2. pose proof (blen_nonneg (t_body t)). lia.
Qed.
Lemma toks_wf_weaken : forall l lo lo' hi, lo' <= lo -> toks_wf lo hi l -> toks_wf lo' hi l.
Proof. destruct l; cbn; intros; [lia|]. destruct H0. split; [lia|auto]. Qed.

Lemma blen_nil : blen [] = 0.
Proof. reflexivity. Qed.

Lemma split_off_wf : forall s o cur,
  toks_wf (o - blen cur) (o + blen s) (split_off o cur s).
Proof.
  induction s as [|c t IH]; intros o cur; cbn [split_off].
  - destruct cur as [|x cur'].
    + cbn [toks_wf]. rewrite blen_nil. lia.
    + cbn [toks_wf]. unfold t_end. cbn [t_off t_body]. rewrite blen_rev, blen_nil.
      pose proof (blen_nonneg (x :: cur')). lia.
  - rewrite blen_cons. destruct (is_ws c).
    + destruct cur as [|x cur'].
      * specialize (IH (o + 1) []). rewrite blen_nil in *.
        replace (o + (blen t + 1)) with (o + 1 + blen t) by lia.
        eapply toks_wf_weaken; [|exact IH]. lia.
      * cbn [toks_wf]. unfold t_end. cbn [t_off t_body]. rewrite blen_rev. split; [lia|].
        specialize (IH (o + 1) []). rewrite blen_nil in IH.
        replace (o + (blen t + 1)) with (o + 1 + blen t) by lia.
        eapply toks_wf_weaken; [|exact IH]. lia.
    + specialize (IH (o + 1) (c :: cur)). rewrite blen_cons in IH.
      replace (o + (blen t + 1)) with (o + 1 + blen t) by lia.
      replace (o - blen cur) with (o + 1 - (blen cur + 1)) by lia. exact IH.
Qed.

Lemma tokens_wf : forall s, toks_wf 0 (blen s) (tokens s).
Proof.
  intro s. unfold tokens. pose proof (split_off_wf s 0 []) as H.
  rewrite blen_nil in H. replace (0 - 0) with 0 in H by lia. replace (0 + blen s) with (blen s) in H by lia. exact H.
Qed.

(* ---- parse_cfi_exprs never panics ---- *)
Definition st_wf (lo : Z) (first last : option tok) : Prop :=
  match first, last with
  | None, None => True
  | Some f, Some l => 0 <= t_off f /\ t_off f <= t_end l /\ t_end l <= lo
  | _, _ => False
  end.

Lemma commit_ok : forall len reg first last acc out lo,
  st_wf lo first last -> lo <= len -> ok (commit len reg first last acc out).
Proof.
  intros len reg first last acc out lo Hst Hlo. unfold commit.
  destruct first as [f|], last as [l|]; cbn in Hst; try exact I; try contradiction.
  destruct Hst as [H1 [H2 H3]].
  replace (0 <=? t_off f) with true by (symmetry; apply Z.leb_le; lia).
  replace (t_off f <=? t_end l) with true by (symmetry; apply Z.leb_le; lia).
  replace (t_end l <=? len) with true by (symmetry; apply Z.leb_le; lia).
  cbn. destruct reg; exact I.
Qed.

Lemma parse_loop_ok : forall toks len reg first last acc out lo,
  0 <= lo -> toks_wf lo len toks -> st_wf lo first last ->
  ok (parse_loop len toks reg first last acc out).
Proof.
  induction toks as [|t r IH]; intros len reg first last acc out lo Hlo0 Hwf Hst; cbn [parse_loop].
  - eapply commit_ok; eauto.
  - cbn [toks_wf] in Hwf. destruct Hwf as [Ht Hr].
    pose proof (toks_wf_le _ _ _ Hr) as Hle.
    assert (Hend : t_off t <= t_end t) by (unfold t_end; pose proof (blen_nonneg (t_body t)); lia).
    destruct (strip_suffix_colon (t_body t)) as [name|].
    + destruct reg as [rg|].
      * apply ok_bind.
        -- eapply commit_ok; eauto. lia.
        -- intros out' _. eapply (IH len _ None None [] out' (t_end t)); [lia|exact Hr|exact I].
      * eapply (IH len _ first last acc out (t_end t)); [lia|exact Hr|].
        destruct first as [f|], last as [l|]; cbn in *; auto. lia.
    + destruct reg as [rg|]; [|exact I].
      eapply (IH len _ _ _ _ out (t_end t)); [lia|exact Hr|].
      destruct first as [f|], last as [l|]; cbn in *; try contradiction; lia.
Qed.

Lemma parse_cfi_exprs_ok : forall input out, ok (parse_cfi_exprs input out).
Proof.
  intros. unfold parse_cfi_exprs. eapply (parse_loop_ok _ _ _ _ _ _ _ 0); [lia|apply tokens_wf|exact I].
Qed.

Lemma parse_all_ok : forall texts out, ok (parse_all texts out).
Proof.
  induction texts as [|t r IH]; intro out; cbn [parse_all]; [exact I|].
  apply ok_bind; [apply parse_cfi_exprs_ok|]. intros; apply IH.
Qed.

(* ---- eval_cfi_expr never panics ---- *)
Lemma is_pow2_pos : forall r, is_pow2 r = true -> 0 < r.
Proof. intros r H. unfold is_pow2 in H. apply andb_prop in H. destruct H as [H _]. apply Z.ltb_lt in H. exact H. Qed.

Lemma binop_ok : forall st f, (forall l r, ok (f l r)) -> ok (binop st f).
Proof.
  intros st f Hf. unfold binop. destruct st as [|r [|l s]]; try exact I.
  apply ok_bind; [apply Hf|]. intros; exact I.
Qed.
Lemma push_opt_ok : forall o st, ok (push_opt o st).
Proof. destruct o; intros; exact I. Qed.

Lemma eval_step_ok : forall p E cfa t st, ok (eval_step p E cfa t st).
Proof.
  intros p E cfa t st. unfold eval_step.
  destruct (beq t T_plus). { apply binop_ok. intros; exact I. }
  destruct (beq t T_minus). { apply binop_ok. intros; exact I. }
  destruct (beq t T_star). { apply binop_ok. intros; exact I. }
  destruct (beq t T_slash). { apply binop_ok. intros l r. destruct (r =? 0); exact I. }
  destruct (beq t T_pct). { apply binop_ok. intros l r. destruct (r =? 0); exact I. }
  destruct (beq t T_at).
  { apply binop_ok. intros l r. destruct (r =? 0) eqn:E0; cbn [orb]; [exact I|].
    destruct (is_pow2 r) eqn:Ep; cbn [negb]; [|exact I].
    apply is_pow2_pos in Ep. unfold chk_usub.
    replace (0 <=? r - 1) with true by (symmetry; apply Z.leb_le; lia). exact I. }
  destruct (beq t T_caret). { destruct st; [exact I|apply push_opt_ok]. }
  destruct (beq t T_cfa). { apply push_opt_ok. }
  destruct (beq t T_undef). { exact I. }
  destruct (after_dollar t). { apply push_opt_ok. }
  destruct (parse_int 64 t). { exact I. }
  apply push_opt_ok.
Qed.

Lemma eval_loop_ok : forall p E cfa toks st, ok (eval_loop p E cfa toks st).
Proof.
  induction toks as [|t r IH]; intro st; cbn [eval_loop]; [exact I|].
  apply ok_bind; [apply eval_step_ok|]. intros; apply IH.
Qed.
Lemma eval_ok : forall p E e cfa, ok (eval_cfi_expr p E e cfa).
Proof.
  intros. unfold eval_cfi_expr. apply ok_bind; [apply eval_loop_ok|].
  intros st _. destruct st as [|v [|]]; exact I.
Qed.

(* the value of a rule: Some v / None (the rule fails) *)
Definition val (p : profile) (E : env) (cfa : option Z) (e : expr) : option Z :=
  match eval_cfi_expr p E e cfa with Ret v => Some v | _ => None end.
Lemma eval_val : forall p E e cfa,
  eval_cfi_expr p E e cfa = match val p E cfa e with Some v => Ret v | None => Fail end.
Proof.
  intros. unfold val. pose proof (eval_ok p E e cfa) as H.
  destruct (eval_cfi_expr p E e cfa); cbn in *; auto; contradiction.
Qed.

(* ---- the rule map keeps distinct keys ---- *)
Lemma map_insert_keys : forall k v m x, In x (map fst (map_insert k v m)) -> x = k \/ In x (map fst m).
Proof.
  induction m as [|[k' v'] r IH]; cbn [map_insert]; intros x H.
  - cbn in H. destruct H as [H|[]]; auto.
  - destruct (cfireg_eqb k k') eqn:E.
    + apply cfireg_eqb_eq in E; subst. cbn in *. destruct H; auto.
    + cbn in *. destruct H as [H|H]; auto. apply IH in H. destruct H; auto.
Qed.
Lemma map_insert_nodup : forall k v m, NoDup (map fst m) -> NoDup (map fst (map_insert k v m)).
Proof.
  induction m as [|[k' v'] r IH]; cbn [map_insert]; intro H.
  - cbn. constructor; [intros []|constructor].
  - destruct (cfireg_eqb k k') eqn:E.
    + apply cfireg_eqb_eq in E; subst. exact H.
    + cbn in *. inversion H as [|? ? Hn Hd]; subst. constructor; [|apply IH; exact Hd].
      intro Hin. apply map_insert_keys in Hin. destruct Hin as [Hin|Hin]; [|contradiction].
      subst. apply cfireg_eqb_neq in E. congruence.
Qed.

Lemma commit_nodup : forall len reg first last acc out out',
  NoDup (map fst out) -> commit len reg first last acc out = Ret out' -> NoDup (map fst out').
Proof.
  intros len reg first last acc out out' Hn H. unfold commit in H.
  destruct first, last; try discriminate.
  destruct ((0 <=? t_off t) && (t_off t <=? t_end t0) && (t_end t0 <=? len)); try discriminate.
  destruct reg; try discriminate. inversion H; subst. apply map_insert_nodup; exact Hn.
Qed.

Lemma parse_loop_nodup : forall toks len reg first last acc out out',
  NoDup (map fst out) -> parse_loop len toks reg first last acc out = Ret out' -> NoDup (map fst out').
Proof.
  induction toks as [|t r IH]; intros len reg first last acc out out' Hn H; cbn [parse_loop] in H.
  - eapply commit_nodup; eauto.
  - destruct (strip_suffix_colon (t_body t)).
    + destruct reg.
      * destruct (commit len (Some c) first last acc out) eqn:Ec; cbn [obind] in H; try discriminate.
        eapply IH; [|exact H]. eapply commit_nodup; eauto.
      * eapply IH; eauto.
    + destruct reg; [|discriminate]. eapply IH; eauto.
Qed.

Lemma parse_all_nodup : forall texts out out',
  NoDup (map fst out) -> parse_all texts out = Ret out' -> NoDup (map fst out').
Proof.
  induction texts as [|t r IH]; intros out out' Hn H; cbn [parse_all] in H.
  - inversion H; subst; exact Hn.
  - destruct (parse_cfi_exprs t out) eqn:Ep; cbn [obind] in H; try discriminate.
    eapply IH; [|exact H]. unfold parse_cfi_exprs in Ep. eapply parse_loop_nodup; eauto.
Qed.

Lemma map_remove_spec : forall k m o m',
  NoDup (map fst m) -> map_remove k m = (o, m') ->
  ~ In k (map fst m') /\ NoDup (map fst m') /\ (forall x, In x m' -> In x m) /\
  (forall x, In x m -> fst x <> k -> In x m') /\
  (match o with Some e => In (k, e) m | None => ~ In k (map fst m) end).
Proof.
  induction m as [|[k' v'] r IH]; intros o m' Hn H; cbn [map_remove] in H.
  - inversion H; subst. cbn. repeat split; auto; try constructor; intros; contradiction.
  - cbn in Hn. inversion Hn as [|? ? Hnin Hd]; subst.
    destruct (cfireg_eqb k k') eqn:E.
    + apply cfireg_eqb_eq in E; subst. inversion H; subst. repeat split; auto.
      * intros x Hx; right; exact Hx.
      * intros x [Hx|Hx] Hne; [subst; cbn in Hne; congruence|exact Hx].
      * left; reflexivity.
    + destruct (map_remove k r) as [o1 r1] eqn:Er. inversion H; subst.
      destruct (IH o r1 Hd eq_refl) as [A [B [C [D F]]]].
      apply cfireg_eqb_neq in E. repeat split.
      * cbn. intros [Hx|Hx]; [congruence|contradiction].
      * cbn. constructor; [|exact B]. intro Hin. apply Hnin.
        apply in_map_iff in Hin. destruct Hin as [x [Hx1 Hx2]]. apply C in Hx2.
        apply in_map_iff. exists x; auto.
      * intros x [Hx|Hx]; [left; exact Hx|right; apply C; exact Hx].
      * intros x [Hx|Hx] Hne; [left; exact Hx|right; apply D; auto].
      * destruct o; [right; exact F|]. cbn. intros [Hx|Hx]; [congruence|contradiction].
Qed.

Definition all_other (l : rmap) : Prop := forall x, In x l -> exists n, fst x = ROther n.

Lemma remaining_all_other : forall m o1 m1 o2 m2,
  NoDup (map fst m) -> map_remove RCfa m = (o1, m1) -> map_remove RRa m1 = (o2, m2) -> all_other m2.
Proof.
  intros m o1 m1 o2 m2 Hn H1 H2.
  destruct (map_remove_spec _ _ _ _ Hn H1) as [A1 [B1 [C1 _]]].
  destruct (map_remove_spec _ _ _ _ B1 H2) as [A2 [B2 [C2 _]]].
  intros x Hx. destruct (fst x) eqn:Ef.
  - exfalso. apply A1. apply in_map_iff. exists x. split; auto.
  - exfalso. apply A2. apply in_map_iff. exists x. split; auto.
  - eexists; reflexivity.
Qed.

(* ---- apply_rules as a fold of register actions ---- *)
Section Acts.
Context {S : Type} (ops : wops S).

(* what one rule does to the caller state: set, or clear when the rule fails or the walker rejects *)
Definition act (s : S) (n : bytes) (o : option Z) : S :=
  match o with
  | Some v => match o_set ops s n v with Some s' => s' | None => o_clear ops s n end
  | None => o_clear ops s n
  end.
Definition stepf (p : profile) (E : env) (cfa : Z) (s : S) (re : cfireg * expr) : S :=
  match fst re with
  | ROther n => act s n (val p E (Some cfa) (snd re))
  | _ => s
  end.

Lemma apply_rule_act : forall p E cfa s n e,
  apply_rule ops p E cfa s (ROther n, e) = Ret (act s n (val p E (Some cfa) e)).
Proof.
  intros. unfold apply_rule. cbn [fst snd]. rewrite eval_val. unfold act.
  destruct (val p E (Some cfa) e); [destruct (o_set ops s n z)|]; reflexivity.
Qed.

Lemma apply_rules_fold : forall p E cfa l s,
  all_other l -> apply_rules ops p E cfa l s = Ret (fold_left (stepf p E cfa) l s).
Proof.
  induction l as [|[k e] r IH]; intros s H; cbn [apply_rules fold_left]; [reflexivity|].
  destruct (H (k, e) (or_introl eq_refl)) as [n Hn]. cbn in Hn. subst k.
  rewrite apply_rule_act. cbn [obind]. unfold stepf at 2. cbn [fst snd].
  apply IH. intros x Hx. apply H. right; exact Hx.
Qed.
End Acts.

(* ---- totality of the walk ---- *)
Lemma walk_cfi_ord_total : forall S (ops : wops S) (ord : rmap -> rmap),
  (forall l x, In x (ord l) -> In x l) ->
  forall p E texts s, exists r, walk_cfi_ord ops ord p E texts s = Ret r.
Proof.
  intros S ops ord Hord p E texts s. unfold walk_cfi_ord.
  pose proof (parse_all_ok texts []) as Hp.
  destruct (parse_all texts []) as [m| | |] eqn:Em; cbn in Hp; try contradiction; cbn [try_]; [|eexists; reflexivity].
  assert (Hn : NoDup (map fst m)) by (eapply parse_all_nodup; [|exact Em]; constructor).
  destruct (map_remove RCfa m) as [ocfa m1] eqn:E1.
  destruct ocfa as [cfa_e|]; [|eexists; reflexivity].
  destruct (map_remove RRa m1) as [ora m2] eqn:E2.
  destruct ora as [ra_e|]; [|eexists; reflexivity].
  rewrite (eval_val p E cfa_e None).
  destruct (val p E None cfa_e) as [cfa|]; cbn [try_]; [|eexists; reflexivity].
  rewrite (eval_val p E ra_e (Some cfa)).
  destruct (val p E (Some cfa) ra_e) as [ra|]; cbn [try_]; [|eexists; reflexivity].
  destruct (o_set_cfa ops s cfa) as [s1|]; [|eexists; reflexivity].
  destruct (o_set_ra ops s1 ra) as [s2|]; [|eexists; reflexivity].
  rewrite apply_rules_fold.
  - cbn [try_]. eexists; reflexivity.
  - intros x Hx. apply Hord in Hx. eapply remaining_all_other; eauto.
Qed.

(* sort_rules is a permutation *)
Lemma insert_rule_perm : forall x l, Permutation (insert_rule x l) (x :: l).
Proof.
  induction l as [|y t IH]; cbn [insert_rule]; [apply Permutation_refl|].
  destruct (cfireg_ltb (fst y) (fst x)); [|apply Permutation_refl].
  eapply Permutation_trans; [apply perm_skip; exact IH|apply perm_swap].
Qed.
Lemma sort_rules_perm : forall l, Permutation (sort_rules l) l.
Proof.
  induction l as [|x t IH]; cbn; [constructor|].
  eapply Permutation_trans; [apply insert_rule_perm|]. apply perm_skip. exact IH.
Qed.

Lemma walk_total : forall S (ops : wops S) p E texts s,
  exists r, walk_with_stack_cfi ops p E texts s = Ret r.
Proof.
  intros. unfold walk_with_stack_cfi. apply walk_cfi_ord_total.
  intros l x Hx. eapply Permutation_in; [apply sort_rules_perm|exact Hx].
Qed.
Lemma walk_frame_total : forall S (ops : wops S) p E r addr s,
  exists o, walk_frame_cfi ops p E r addr s = Ret o.
Proof.
  intros. unfold walk_frame_cfi. destruct (cfi_covers r addr); [apply walk_total|eexists; reflexivity].
Qed.
