(* C06/Proofs16.v — OVERLAPPING INIT records: the record with the smallest (start, end) key is found at every address
   it covers, whatever overlaps it (into_rangemap_safe sorts by range and keeps the first of two overlapping
   records; ties keep file order). *)
From Coq Require Import Lia Sorted Permutation.
From RM Require Import Base.Word C08.Model C08.Proofs C08.Tie C08.WinProofs C08.EndToEnd Gen.C08Tables Gen.CfiOps
                       C06.Model C06.GenModel C06.Proofs C06.Proofs3 C06.Proofs4 C06.Proofs6 C06.Proofs9 C06.Driver C06.GenDriver C06.FileTable C06.Proofs15.
Open Scope Z_scope.

Section First.
Context {V : Type} (eqb : V -> V -> bool).
Hypothesis eqb_eq : forall a b, eqb a b = true <-> a = b.

Lemma sort_head : forall (l1 : list (range * V)) x l2,
  Forall (fun y => range_lt (fst x) (fst y) = true) l1 ->
  Forall (fun y => range_lt (fst y) (fst x) = false) l2 ->
  exists rest, sort_stable range_lt (l1 ++ x :: l2) = x :: rest.
Proof.
  induction l1 as [|a l1 IH]; intros x l2 H1 H2.
  - cbn [app sort_stable fold_right]. fold (sort_stable range_lt l2). exists (sort_stable range_lt l2).
    apply insert_front. eapply Permutation_Forall; [apply sort_perm|exact H2].
  - inversion H1 as [|? ? Ha H1']; subst. destruct (IH x l2 H1' H2) as [rest E].
    cbn [app sort_stable fold_right]. fold (sort_stable range_lt (l1 ++ x :: l2)). rewrite E.
    cbn [insert_stable]. rewrite Ha. eexists. reflexivity.
Qed.

Lemma first_wins : forall (l1 : list (range * V)) r0 v0 l2 x,
  wf_ranges (l1 ++ (r0, v0) :: l2) ->
  Forall (fun y => range_lt r0 (fst y) = true) l1 ->
  Forall (fun y => range_lt (fst y) r0 = false) l2 ->
  contains r0 x = true ->
  rm_get (into_rangemap_safe_p eqb (l1 ++ (r0, v0) :: l2)) x = Some v0.
Proof.
  intros l1 r0 v0 l2 x Hwf H1 H2 Hc.
  destruct (sorted_disjoint_p eqb _ Hwf) as [Hsd Hw].
  destruct (sort_head l1 (r0, v0) l2 H1 H2) as [rest E].
  eapply spans_get; try eassumption.
  unfold into_rangemap_safe_p, merge_sorted. rewrite E. cbn [fold_left merge_step].
  apply Exists_rev. apply fold_merge_keeps. left. unfold spans. cbn [fst snd]. repeat split; lia.
Qed.
End First.

(* the sort key of a record that has a range: (start, end) = (address, address + size - 1) *)
Definition has_range (r : cfi_record) : Prop := c_size r <> 0 /\ fst (c_init r) + c_size r < two64.
Definition key_lt (a b : cfi_record) : Prop :=
  fst (c_init a) < fst (c_init b) \/ (fst (c_init a) = fst (c_init b) /\ c_size a < c_size b).

Definition pure_rec (e : Z * Z * cfi_record) : option range * cfi_record := let '(b, s, v) := e in (mk_range b s, v).

Lemma file_table_eq : forall p rs, u64_file rs ->
  cfi_file_table p rs = Ret (into_rangemap_safe_p cfi_rec_eqb (keep_ranged (map pure_rec (file_recs rs)))) /\
  wf_ranges (keep_ranged (map pure_rec (file_recs rs))).
Proof.
  intros p rs H. pose proof (u64_file_recs rs H) as Hu.
  assert (Hl : omap (fun e => let '(b, s, v) := e in do r <- g_mr_StackInfoCfi p b s; Ret (r, v)) (file_recs rs)
               = Ret (map pure_rec (file_recs rs))).
  { apply (omap_pure _ pure_rec (fun e => u64 (fst (fst e)) /\ u64 (snd (fst e)))); [|exact Hu].
    intros [[b s] v] [Hb Hs]. cbn [fst snd] in *. rewrite g_mr_StackInfoCfi_eq by assumption. reflexivity. }
  assert (Hwf : wf_ranges (keep_ranged (map pure_rec (file_recs rs)))).
  { unfold wf_ranges. apply Forall_forall. intros [r v] Hin. cbn [fst]. apply keep_ranged_in in Hin.
    apply in_map_iff in Hin. destruct Hin as [[[b s] v'] [E Hin]]. cbn in E. inversion E; subst.
    unfold u64_recs in Hu. rewrite Forall_forall in Hu. destruct (Hu _ Hin) as [Hb Hs]. cbn [fst snd] in *.
    exact (mk_range_wf64 b s r Hb Hs H1). }
  split; [|exact Hwf].
  unfold cfi_file_table, g_record_table. rewrite Hl. cbn [obind]. apply g_build_parser_total. exact Hwf.
Qed.

Lemma kept_key : forall (P : range -> Prop) (Q : cfi_record -> Prop) rs,
  (forall r', In r' rs -> has_range r' -> Q r') ->
  (forall r', Q r' -> has_range r' -> P (fst (c_init r'), fst (c_init r') + c_size r' - 1)) ->
  Forall (fun y => P (fst y)) (keep_ranged (map pure_rec (file_recs rs))).
Proof.
  intros P Q rs HQ HP. apply Forall_forall. intros [r v] Hin. cbn [fst]. apply keep_ranged_in in Hin.
  apply in_map_iff in Hin. destruct Hin as [[[b s] v'] [E Hin]]. cbn in E. inversion E as [[Hr Hv]].
  unfold file_recs in Hin. apply in_map_iff in Hin. destruct Hin as [r' [E' Hr']]. inversion E'; subst b s v'.
  apply mk_range_shape in Hr. destruct Hr as [-> [Hn Hlt]].
  apply HP; [apply HQ; [exact Hr'|split; assumption]|split; assumption].
Qed.

Theorem file_first_wins : forall p r1 r0 r2 x, u64_file (r1 ++ r0 :: r2) -> cfi_covers r0 x = true ->
  (forall r', In r' r1 -> has_range r' -> key_lt r0 r') ->
  (forall r', In r' r2 -> has_range r' -> ~ key_lt r' r0) ->
  exists t, cfi_file_table p (r1 ++ r0 :: r2) = Ret t /\ rm_get t x = Some (finished r0).
Proof.
  intros p r1 r0 r2 x H Hc H1 H2. destruct (file_table_eq p _ H) as [Ht Hwf].
  eexists. split; [exact Ht|].
  apply cfi_covers_spec in Hc. rewrite <- two64_val in Hc. destruct Hc as [Hs0 [Hlt0 Hx]].
  assert (U0 : u64 (fst (c_init r0)) /\ u64 (c_size r0)).
  { unfold u64_file in H. rewrite Forall_forall in H. apply H. apply in_or_app. right. left. reflexivity. }
  assert (Hr0 : mk_range (fst (c_init r0)) (c_size r0) = Some (fst (c_init r0), fst (c_init r0) + c_size r0 - 1)).
  { apply mk_range_some; [destruct U0 as [_ [? _]]; lia|lia]. }
  assert (El : keep_ranged (map pure_rec (file_recs (r1 ++ r0 :: r2))) =
               keep_ranged (map pure_rec (file_recs r1)) ++
               ((fst (c_init r0), fst (c_init r0) + c_size r0 - 1), finished r0) :: keep_ranged (map pure_rec (file_recs r2))).
  { unfold file_recs. rewrite !map_app, keep_ranged_app. cbn [map keep_ranged pure_rec]. rewrite Hr0. reflexivity. }
  revert Hwf. rewrite El. intro Hwf.
  apply (first_wins cfi_rec_eqb); [exact Hwf| | |unfold contains; cbn [fst snd]; apply andb_true_intro; split; apply Z.leb_le; lia].
  - apply (kept_key (fun k => range_lt (fst (c_init r0), fst (c_init r0) + c_size r0 - 1) k = true) (key_lt r0) r1 H1).
    intros r' [K|[K1 K2]] _; unfold range_lt; cbn [fst snd]; apply Bool.orb_true_iff;
      [left; apply Z.ltb_lt; exact K|right; apply andb_true_intro; split; [apply Z.eqb_eq; exact K1|apply Z.ltb_lt; lia]].
  - apply (kept_key (fun k => range_lt k (fst (c_init r0), fst (c_init r0) + c_size r0 - 1) = false) (fun r' => ~ key_lt r' r0) r2 H2).
    intros r' K _. unfold range_lt. cbn [fst snd]. apply Bool.orb_false_iff. unfold key_lt in K.
    split; [apply Z.ltb_ge; lia|].
    destruct (fst (c_init r') =? fst (c_init r0)) eqn:Eq; [|reflexivity]. apply Z.eqb_eq in Eq. cbn [andb]. apply Z.ltb_ge. lia.
Qed.

(* and its walk *)
Theorem file_walk_first_wins : forall S (ops : wops S) p E r1 r0 r2 addr s, u64_file (r1 ++ r0 :: r2) ->
  cfi_covers r0 addr = true ->
  (forall r', In r' r1 -> has_range r' -> key_lt r0 r') ->
  (forall r', In r' r2 -> has_range r' -> ~ key_lt r' r0) ->
  gen_walk_file ops p E (r1 ++ r0 :: r2) addr s = gen_walk_frame_cfi ops p E r0 addr s.
Proof.
  intros S ops p E r1 r0 r2 addr s H Hc H1 H2. destruct (file_first_wins p r1 r0 r2 addr H Hc H1 H2) as [t [Ht Hg]].
  unfold gen_walk_file. rewrite Ht, Hg. apply walk_of_finished. exact Hc.
Qed.

(* the documented result for a FILE: when the covering record has every other record beside it, or has the smallest
   key, the unwind step over the file is cfi_spec of that record *)
Theorem file_refines_spec : forall w p E r1 r0 r2 addr, u64_file (r1 ++ r0 :: r2) -> cfi_covers r0 addr = true ->
  ((forall r', In r' (r1 ++ r2) -> beside r0 r') \/
   ((forall r', In r' r1 -> has_range r' -> key_lt r0 r') /\ (forall r', In r' r2 -> has_range r' -> ~ key_lt r' r0))) ->
  C06.Proofs3.env_wf E -> C06.Proofs4.all_documented r0 addr ->
  match gen_walk_file (mock_ops w) p E (r1 ++ r0 :: r2) addr m_init, cfi_spec w E r0 addr with
  | Ret (Some s), Some (cfa, ra, regs) => m_cfa s = Some cfa /\ m_ra s = Some ra /\ forall n, m_regs s n = regs n
  | Ret None, None => True
  | _, _ => False
  end.
Proof.
  intros w p E r1 r0 r2 addr H Hc Hsel Hwf Hd.
  assert (Ew : gen_walk_file (mock_ops w) p E (r1 ++ r0 :: r2) addr m_init = gen_walk_frame_cfi (mock_ops w) p E r0 addr m_init).
  { destruct Hsel as [Hb|[H1 H2]]; [apply file_walk_isolated|apply file_walk_first_wins]; assumption. }
  rewrite Ew. apply gen_walk_refines_spec; assumption.
Qed.

(* an INIT record without a range (size 0, or address + size beyond u64) is invisible: the table of the file is the
   table of the file without it, so every lookup and every unwind step is unchanged *)
Theorem rangeless_invisible : forall p r1 r r2, u64_file (r1 ++ r :: r2) ->
  (c_size r = 0 \/ two64 <= fst (c_init r) + c_size r) ->
  cfi_file_table p (r1 ++ r :: r2) = cfi_file_table p (r1 ++ r2).
Proof.
  intros p r1 r r2 H Hn.
  assert (H' : u64_file (r1 ++ r2)).
  { unfold u64_file in *. apply Forall_app in H. destruct H as [A B]. inversion B; subst. apply Forall_app. split; assumption. }
  destruct (file_table_eq p _ H) as [-> _]. destruct (file_table_eq p _ H') as [-> _]. do 2 f_equal.
  unfold file_recs. rewrite !map_app, !keep_ranged_app. cbn [map keep_ranged pure_rec].
  assert (Hr : mk_range (fst (c_init r)) (c_size r) = None).
  { unfold mk_range, checked_add. destruct (c_size r =? 0) eqn:E0; [reflexivity|].
    destruct Hn as [Hn|Hn]; [apply Z.eqb_neq in E0; contradiction|].
    destruct (fst (c_init r) + c_size r <? 2 ^ 64) eqn:E1; [|reflexivity].
    apply Z.ltb_lt in E1. rewrite two64_val in Hn. lia. }
  rewrite Hr. reflexivity.
Qed.

Corollary rangeless_invisible_walk : forall S (ops : wops S) p E r1 r r2 addr s, u64_file (r1 ++ r :: r2) ->
  (c_size r = 0 \/ two64 <= fst (c_init r) + c_size r) ->
  gen_walk_file ops p E (r1 ++ r :: r2) addr s = gen_walk_file ops p E (r1 ++ r2) addr s.
Proof. intros. unfold gen_walk_file. rewrite (rangeless_invisible p r1 r r2); [reflexivity|assumption|assumption]. Qed.
