From Coq Require Extraction.
From Coq Require Import ExtrOcamlBasic.
From RM Require Import C06.Driver C06.GenDriver C06.ArchDriver C06.FileTable.
Extraction "c06_model.ml" run_mock_gen run_mock_multi_gen run_mock_file_gen run_real_gen run_real2_gen o_status o_cfa o_ra o_regs o_cleared.
