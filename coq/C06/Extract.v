From Coq Require Extraction.
From Coq Require Import ExtrOcamlBasic.
From RM Require Import C06.Driver.
Extraction "c06_model.ml" run_mock run_real o_status o_cfa o_ra o_regs o_cleared.
