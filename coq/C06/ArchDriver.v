(* C06/ArchDriver.v — front-end B for ALL contexts whose unwinder goes through CfiStackWalker: x86 / amd64 / arm64
   (C06/Driver.v, unchanged) plus 32-bit ARM, MIPS (the u32 view Mips32Context) and MIPS64.  The three new
   architecture tables are COMPUTED from the generated constants (Gen/UnwindConsts.v: REGISTERS, memoize_register
   aliases, the names given to set_cfa / set_ra, CALLEE_SAVED_REGS; Gen/CfiOps.v: size_of::<Register>()).
   Definitions only; extracted. *)
From RM Require Import C08.Model C06.Model C06.GenModel C06.Driver C06.GenDriver C06.Proofs7 Gen.UnwindConsts Gen.CfiOps.
Open Scope Z_scope.

Definition arm : arch :=
  arch_of_consts cfi_arm_reg_bytes arm_registers arm_aliases arm_cfi_sp_name arm_cfi_ip_name arm_callee_saved.
Definition mips32 : arch :=
  arch_of_consts cfi_mips32_reg_bytes mips_registers [] mips_sp_name mips_ip_name mips_callee_saved.
Definition mips64 : arch :=
  arch_of_consts cfi_mips64_reg_bytes mips_registers [] mips_sp_name mips_ip_name mips_callee_saved.

(* k: 0 x86, 1 amd64, 2 arm64 (as Driver.arch_of), 3 arm, 4 mips (32-bit view), 5 mips64 *)
Definition arch_of2 (k : Z) : arch :=
  if k =? 3 then arm else if k =? 4 then mips32 else if k =? 5 then mips64 else arch_of k.

(* Mips32Context::get_register_always = `self.0.get_register_always(reg) as u32`: the evaluator sees the low 32 bits
   of the 64-bit slot; the caller context itself is a clone of the 64-bit slots (real_init keeps them whole) *)
Definition real_callee2 (k : Z) (a : arch) (ctx : list (bytes * Z)) (valid : option (list bytes)) : bytes -> option Z :=
  if k =? 4 then
    fun n => match real_callee a ctx valid n with Some v => Some (v mod 2 ^ cfi_mips32_callee_bits) | None => None end
  else real_callee a ctx valid.

(* arm.rs / mips.rs get_caller_frame after the walk: ip < 4096 ends the walk; the stack pointer may stay where it
   was for a context frame (leaf function) but must not go down.  No pointer-authentication mask. *)
Definition post_real2 (k : Z) (a : arch) (callee_sp : Z) (s : rstate) : option rstate :=
  if k <? 3 then post_real k a callee_sp s
  else if r_ctx s (a_ip a) <? 4096 then None
  else if r_ctx s (a_sp a) <? callee_sp then None
  else Some s.

Definition real_env2 (k : Z) (ctx : list (bytes * Z)) (valid : option (list bytes)) (stackbase : Z) (stack : bytes) (ip : Z) : env :=
  let a := arch_of2 k in
  mkEnv (real_callee2 k a ctx valid) (mem_read (a_width a) stackbase stack) ip false 0.

(* walk_stack unwinds only with a stack memory that has a range: `stack_memory.memory_range()` = C08's [mk_range]
   (Gen/C08Tables.v g_mr_MinidumpMemoryBase, c08_gen_memory_ranges): not empty, base + size within u64 *)
Definition stack_ok (stackbase : Z) (stack : bytes) : bool :=
  match mk_range stackbase (blen stack) with Some _ => true | None => false end.

Definition run_real2_gen (k : Z) (ctx : list (bytes * Z)) (valid : option (list bytes))
                         (stackbase : Z) (stack : bytes) (initaddr initsize : Z) (init : bytes)
                         (deltas : list (Z * bytes)) : c06_out :=
  let a := arch_of2 k in
  let ip := match assoc (a_ip a) ctx with Some v => v | None => 0 end in
  let sp := match assoc (a_sp a) ctx with Some v => v | None => 0 end in
  let sp_valid := match valid with None => true | Some which => mem_b (a_sp a) which end in
  if negb (stack_ok stackbase stack) then out_none else
  if negb sp_valid || (ip <? 1073741824) || (1073741824 + 65536 <=? ip) then out_none else
  match gen_walk_frame_cfi (real_ops a) Debug (real_env2 k ctx valid stackbase stack ip)
                           (mkCfi (initaddr, init) initsize deltas) (ip - 1073741824) (real_init a ctx valid) with
  | Ret (Some s) =>
      match post_real2 k a sp s with
      | Some s1 => Build_c06_out 1 None None (observe_real a s1) []
      | None => out_none
      end
  | Ret None => out_none
  | _ => out_panic
  end.
