(* C06/Proofs13.v — several INIT records: with pairwise disjoint ranges the record used for a lookup address is
   "the one that covers it", independent of the order of the records in the file. *)
From Coq Require Import Lia Permutation.
From RM Require Import C06.Model C06.GenModel C06.Driver C06.GenDriver C06.Proofs6.
Open Scope Z_scope.

Definition disjoint_recs (rs : list cfi_record) : Prop :=
  forall r1 r2 addr, In r1 rs -> In r2 rs -> cfi_covers r1 addr = true -> cfi_covers r2 addr = true -> r1 = r2.

Lemma find_record_some : forall rs addr r, find_record rs addr = Some r -> In r rs /\ cfi_covers r addr = true.
Proof.
  induction rs as [|x t IH]; intros addr r H; cbn [find_record] in H; [discriminate|].
  destruct (cfi_covers x addr) eqn:C.
  - injection H as <-. split; [left; reflexivity|exact C].
  - destruct (IH _ _ H) as [A B]. split; [right; exact A|exact B].
Qed.
Lemma find_record_none : forall rs addr, find_record rs addr = None -> forall r, In r rs -> cfi_covers r addr = false.
Proof.
  induction rs as [|x t IH]; intros addr H r Hr; [contradiction|]. cbn [find_record] in H.
  destruct (cfi_covers x addr) eqn:C; [discriminate|]. destruct Hr as [<-|Hr]; [exact C|apply (IH _ H _ Hr)].
Qed.

Lemma find_record_spec : forall rs addr, disjoint_recs rs ->
  (forall r, find_record rs addr = Some r <-> In r rs /\ cfi_covers r addr = true) /\
  (find_record rs addr = None <-> forall r, In r rs -> cfi_covers r addr = false).
Proof.
  intros rs addr D. split.
  - intro r. split; [apply find_record_some|]. intros [Hin Hc].
    destruct (find_record rs addr) as [r'|] eqn:F.
    + destruct (find_record_some _ _ _ F) as [A B]. f_equal. apply (D r' r addr A Hin B Hc).
    + rewrite (find_record_none _ _ F r Hin) in Hc. discriminate Hc.
  - split; [apply find_record_none|]. intro H.
    destruct (find_record rs addr) as [r'|] eqn:F; [|reflexivity].
    destruct (find_record_some _ _ _ F) as [A B]. rewrite (H r' A) in B. discriminate B.
Qed.

Lemma find_record_perm : forall rs rs' addr, Permutation rs rs' -> disjoint_recs rs ->
  find_record rs addr = find_record rs' addr.
Proof.
  intros rs rs' addr P D.
  assert (D' : disjoint_recs rs').
  { intros r1 r2 a H1 H2. apply D; apply (Permutation_in _ (Permutation_sym P)); assumption. }
  destruct (find_record rs addr) as [r|] eqn:F.
  - symmetry. apply (proj1 (find_record_spec rs' addr D')). destruct (find_record_some _ _ _ F) as [A B].
    split; [apply (Permutation_in _ P A)|exact B].
  - symmetry. apply (proj2 (find_record_spec rs' addr D')). intros r Hr.
    apply (find_record_none _ _ F). apply (Permutation_in _ (Permutation_sym P) Hr).
Qed.

(* the extracted entry points (GenDriver, over the generated tables) are the hand-written drivers of C06/Driver.v
   (which C07 builds on) *)
Lemma gen_driver_is_driver :
  (forall w lookup initaddr initsize regs membase mem init deltas names,
     run_mock_gen w lookup initaddr initsize regs membase mem init deltas names =
     run_mock w lookup initaddr initsize regs membase mem init deltas names) /\
  (forall k ctx valid stackbase stack initaddr initsize init deltas,
     run_real_gen k ctx valid stackbase stack initaddr initsize init deltas =
     run_real k ctx valid stackbase stack initaddr initsize init deltas) /\
  (forall w lookup regs membase mem r names,
     run_mock_multi_gen w lookup regs membase mem [r] names =
     run_mock w lookup (fst (c_init r)) (c_size r) regs membase mem (snd (c_init r)) (c_add r) names).
Proof.
  split; [|split].
  - intros. unfold run_mock_gen, run_mock. rewrite C06.Proofs6.gen_walk_frame_eq. reflexivity.
  - intros. unfold run_real_gen, run_real. cbv zeta. rewrite C06.Proofs6.gen_walk_frame_eq. reflexivity.
  - intros. unfold run_mock_multi_gen, run_mock. cbn [find_record].
    destruct r as [[ia it] sz ad]. cbn [c_init c_size c_add fst snd].
    destruct (cfi_covers (mkCfi (ia, it) sz ad) lookup) eqn:C.
    + rewrite C06.Proofs6.gen_walk_frame_eq. reflexivity.
    + unfold walk_frame_cfi. rewrite C. reflexivity.
Qed.
