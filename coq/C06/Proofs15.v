(* C06/Proofs15.v — several STACK CFI INIT records in one file (C06/FileTable.v), tied to C08's generated parser
   tables: building the record table never panics; a lookup returns only a record of the file whose own range
   covers the address (records of size 0 or whose end leaves u64 are never returned and never shadow another record);
   a record that overlaps no other is found at every address it covers; and the walk of the file is the walk of the
   record found.  On files whose records are pairwise disjoint this is the "one that covers" model of GenDriver. *)
From Coq Require Import Lia Sorted.
From RM Require Import Base.Word C08.Model C08.Proofs C08.Tie C08.EndToEnd Gen.C08Tables Gen.CfiOps
                       C06.Model C06.GenModel C06.Proofs C06.Proofs6 C06.Proofs9 C06.Proofs13 C06.Driver C06.GenDriver C06.FileTable.
Open Scope Z_scope.

Lemma rules_eqb_eq : forall a b, rules_eqb a b = true <-> a = b.
Proof.
  intros [a1 a2] [b1 b2]. unfold rules_eqb. cbn [fst snd]. rewrite Bool.andb_true_iff, Z.eqb_eq, beq_eq.
  split; [intros [-> ->]; reflexivity|intro H; inversion H; split; reflexivity].
Qed.
Lemma rules_list_eqb_eq : forall a b, rules_list_eqb a b = true <-> a = b.
Proof.
  induction a as [|x a IH]; destruct b as [|y b]; cbn [rules_list_eqb]; try (split; [discriminate|intro H; discriminate H]).
  - split; reflexivity.
  - rewrite Bool.andb_true_iff, rules_eqb_eq, IH. split; [intros [-> ->]; reflexivity|intro H; inversion H; split; reflexivity].
Qed.
Lemma cfi_rec_eqb_eq : forall a b, cfi_rec_eqb a b = true <-> a = b.
Proof.
  intros [ai asz aa] [bi bsz ba]. unfold cfi_rec_eqb. cbn [c_init c_size c_add].
  rewrite !Bool.andb_true_iff, rules_eqb_eq, Z.eqb_eq, rules_list_eqb_eq.
  split; [intros [[-> ->] ->]; reflexivity|intro H; inversion H; repeat split; reflexivity].
Qed.

(* what the parser can produce: u64 addresses, u32 sizes (within u64 is all the theorems need) *)
Definition u64_file (rs : list cfi_record) : Prop := Forall (fun r => u64 (fst (c_init r)) /\ u64 (c_size r)) rs.

Lemma u64_file_recs : forall rs, u64_file rs -> u64_recs (file_recs rs).
Proof.
  intros rs H. unfold u64_recs, file_recs. apply Forall_forall. intros e Hin. apply in_map_iff in Hin.
  destruct Hin as [r [<- Hr]]. cbn [fst snd]. unfold u64_file in H. rewrite Forall_forall in H. apply (H r Hr).
Qed.

Lemma covers_finished : forall r x, cfi_covers (finished r) x = cfi_covers r x.
Proof. intros. reflexivity. Qed.

(* [r'] cannot interfere with [r0]: it has no range (size 0 / end beyond u64) or lies entirely beside it *)
Definition beside (r0 r' : cfi_record) : Prop :=
  c_size r' = 0 \/ two64 <= fst (c_init r') + c_size r' \/
  fst (c_init r') + c_size r' <= fst (c_init r0) \/ fst (c_init r0) + c_size r0 <= fst (c_init r').

Theorem file_table_spec : forall p rs, u64_file rs ->
  exists t, cfi_file_table p rs = Ret t /\
    StronglySorted (fun a b => snd (fst a) < fst (fst b)) t /\
    (forall x v, rm_get t x = Some v -> exists r0, In r0 rs /\ v = finished r0 /\ cfi_covers r0 x = true) /\
    (forall r1 r0 r2 x, rs = r1 ++ r0 :: r2 -> cfi_covers r0 x = true ->
       (forall r', In r' (r1 ++ r2) -> beside r0 r') -> rm_get t x = Some (finished r0)).
Proof.
  intros p rs H.
  destruct (records_end_to_end cfi_record cfi_rec_eqb g_mr_StackInfoCfi cfi_rec_eqb_eq
              (or_intror (or_introl eq_refl)) p (file_recs rs) (u64_file_recs rs H)) as [t [Ht [Hs [Hsound Hiso]]]].
  exists t. split; [exact Ht|]. split; [exact Hs|]. split.
  - intros x v Hg. destruct (Hsound x v Hg) as [b [s [Hin [Hs0 [Hlt Hx]]]]].
    unfold file_recs in Hin. apply in_map_iff in Hin. destruct Hin as [r0 [E Hr0]]. inversion E; subst b s v.
    exists r0. split; [exact Hr0|]. split; [reflexivity|]. apply cfi_covers_spec. rewrite <- two64_val. lia.
  - intros r1 r0 r2 x E Hc Hb. apply cfi_covers_spec in Hc. rewrite <- two64_val in Hc.
    apply (Hiso (file_recs r1) (fst (c_init r0)) (c_size r0) (finished r0) (file_recs r2) x); try lia.
    + rewrite E. unfold file_recs. rewrite map_app. reflexivity.
    + intros b' s' v' Hin. unfold file_recs in Hin. rewrite <- map_app in Hin. apply in_map_iff in Hin.
      destruct Hin as [r' [E' Hr']]. inversion E'; subst b' s' v'. apply (Hb r' Hr').
Qed.

(* the walk of the file = the walk of the record the lookup finds *)
Lemma walk_of_finished : forall S (ops : wops S) p E r0 addr s, cfi_covers r0 addr = true ->
  gen_walk ops p E (snd (c_init (finished r0))) (map snd (gen_take_applicable addr (c_add (finished r0)))) s =
  gen_walk_frame_cfi ops p E r0 addr s.
Proof. intros S ops p E r0 addr s H. unfold gen_walk_frame_cfi. rewrite H. reflexivity. Qed.

Theorem file_walk_sound : forall S (ops : wops S) p E rs addr s, u64_file rs ->
  gen_walk_file ops p E rs addr s = Ret None \/
  exists r0, In r0 rs /\ cfi_covers r0 addr = true /\
             gen_walk_file ops p E rs addr s = gen_walk_frame_cfi ops p E r0 addr s.
Proof.
  intros S ops p E rs addr s H. destruct (file_table_spec p rs H) as [t [Ht [_ [Hsound _]]]].
  unfold gen_walk_file. rewrite Ht. destruct (rm_get t addr) as [v|] eqn:G; [|left; reflexivity].
  destruct (Hsound addr v G) as [r0 [Hin [-> Hc]]]. right. exists r0. split; [exact Hin|]. split; [exact Hc|].
  apply walk_of_finished. exact Hc.
Qed.

Theorem file_walk_none : forall S (ops : wops S) p E rs addr s, u64_file rs ->
  (forall r0, In r0 rs -> cfi_covers r0 addr = false) -> gen_walk_file ops p E rs addr s = Ret None.
Proof.
  intros S ops p E rs addr s H Hn. destruct (file_walk_sound S ops p E rs addr s H) as [E0|[r0 [Hin [Hc _]]]]; [exact E0|].
  rewrite (Hn r0 Hin) in Hc. discriminate Hc.
Qed.

Theorem file_walk_isolated : forall S (ops : wops S) p E r1 r0 r2 addr s, u64_file (r1 ++ r0 :: r2) ->
  cfi_covers r0 addr = true -> (forall r', In r' (r1 ++ r2) -> beside r0 r') ->
  gen_walk_file ops p E (r1 ++ r0 :: r2) addr s = gen_walk_frame_cfi ops p E r0 addr s.
Proof.
  intros S ops p E r1 r0 r2 addr s H Hc Hb. destruct (file_table_spec p _ H) as [t [Ht [_ [_ Hiso]]]].
  unfold gen_walk_file. rewrite Ht. rewrite (Hiso r1 r0 r2 addr eq_refl Hc Hb). apply walk_of_finished. exact Hc.
Qed.

Theorem file_walk_total : forall S (ops : wops S) p E rs addr s, u64_file rs ->
  exists o, gen_walk_file ops p E rs addr s = Ret o.
Proof.
  intros S ops p E rs addr s H. destruct (file_walk_sound S ops p E rs addr s H) as [E0|[r0 [_ [_ E0]]]].
  - exists None. exact E0.
  - rewrite E0. destruct (gen_walk_frame_total S ops p E r0 addr s) as [o Ho]. exists o. exact Ho.
Qed.

(* pairwise disjoint, duplicate-free files: the table lookup is "the record that covers" of GenDriver.find_record *)
Lemma disjoint_beside : forall rs, disjoint_recs rs -> forall r0 r', In r0 rs -> In r' rs -> r0 <> r' ->
  u64 (fst (c_init r0)) -> u64 (fst (c_init r')) -> u64 (c_size r0) -> u64 (c_size r') ->
  c_size r0 <> 0 -> fst (c_init r0) + c_size r0 < two64 -> beside r0 r'.
Proof.
  intros rs D r0 r' H0 H' Hne [A0 _] [A' _] [S0 _] [S' _] Hs Hlt. unfold beside.
  destruct (Z.eq_dec (c_size r') 0) as [|Hs']; [left; assumption|].
  destruct (Z_le_gt_dec two64 (fst (c_init r') + c_size r')) as [|Hlt']; [right; left; assumption|].
  destruct (Z_le_gt_dec (fst (c_init r') + c_size r') (fst (c_init r0))) as [|G1]; [right; right; left; assumption|].
  destruct (Z_le_gt_dec (fst (c_init r0) + c_size r0) (fst (c_init r'))) as [|G2]; [right; right; right; assumption|].
  exfalso. apply Hne. set (x := Z.max (fst (c_init r0)) (fst (c_init r'))).
  apply (D r0 r' x H0 H'); apply cfi_covers_spec; rewrite <- two64_val; unfold x; lia.
Qed.

Theorem file_walk_disjoint : forall S (ops : wops S) p E rs addr s, u64_file rs -> NoDup rs -> disjoint_recs rs ->
  gen_walk_file ops p E rs addr s =
  match find_record rs addr with Some r => gen_walk_frame_cfi ops p E r addr s | None => Ret None end.
Proof.
  intros S ops p E rs addr s H ND D. destruct (find_record rs addr) as [r0|] eqn:F.
  - destruct (find_record_some _ _ _ F) as [Hin Hc]. destruct (in_split _ _ Hin) as [r1 [r2 E0]]. subst rs.
    apply file_walk_isolated; [exact H|exact Hc|]. intros r' Hr'.
    assert (Hne : r0 <> r').
    { intro; subst r'. apply NoDup_remove_2 in ND. apply ND. exact Hr'. }
    assert (Hin' : In r' (r1 ++ r0 :: r2)) by (apply in_app_or in Hr'; apply in_or_app; destruct Hr'; [left|right; right]; assumption).
    unfold u64_file in H. rewrite Forall_forall in H. destruct (H r0 Hin) as [A0 S0]. destruct (H r' Hin') as [A' S'].
    apply cfi_covers_spec in Hc. rewrite <- two64_val in Hc.
    apply (disjoint_beside _ D r0 r' Hin Hin' Hne A0 A' S0 S'); lia.
  - apply file_walk_none; [exact H|]. apply find_record_none. exact F.
Qed.
