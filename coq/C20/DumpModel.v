(* C20/DumpModel.v — executable model of the --dump mode: print_minidump_dump (minidump-stackwalk/src/main.rs) as an
   interpreter over the program that translate/c20_dump_sequence.py regenerates from the source (Gen/C20DumpProg.v).
   Definitions only.

   A minidump is seen through what `get_stream::<T>()` / `get_raw_stream(..)` answer for each stream kind (both are pure
   lookups): Ok, Err(StreamNotFound), or another error (a stream that is there but cannot be read).  The output is a sequence
   of SECTIONS, one per printer call; what a printer writes for its stream is runtime behaviour of the library (compared byte
   for byte with the library called in-process), the model decides WHICH printers run, in which order, on which stream, and
   what an io error in the middle leaves behind. *)
From Coq Require Import List ZArith Bool.
Import ListNotations.
From RM Require Import C20.Model C20.ClapSpec C20.DumpSpec.
Local Open Scope str_scope.

Inductive sstatus := SPresent | SMissing | SBroken.
Definition dump_view := str -> sstatus.

Inductive section :=
| SecHeader                  (* Minidump::print: header and stream directory *)
| SecStream (t : str)        (* <t>::print of the stream of type t (also when it is printed through the unified memory list) *)
| SecLit (lit : str)         (* fixed text *)
| SecRaw (name : str).       (* print_raw_stream(name, ..) *)

Definition section_eqb (a b : section) : bool :=
  match a, b with
  | SecHeader, SecHeader => true
  | SecStream x, SecStream y | SecLit x, SecLit y | SecRaw x, SecRaw y => str_eqb x y
  | _, _ => false
  end.

(* the local variables that hold a loaded stream: name -> the stream type it holds, if any *)
Definition dvars := list (str * option str).
Fixpoint lookup (vs : dvars) (v : str) : option str :=
  match vs with
  | [] => None
  | (n, x) :: r => if str_eqb n v then x else lookup r v
  end.
Definition assign (vs : dvars) (v : str) (x : option str) : dvars := (v, x) :: vs.

Definition present (view : dump_view) (t : str) : bool := match view t with SPresent => true | _ => false end.

(* one statement: the variables afterwards and the sections it prints *)
Definition dstep_sem (view : dump_view) (vs : dvars) (s : dstep) : dvars * list section :=
  match s with
  | SHeader => (vs, [SecHeader])
  | SLoad v t => (assign vs v (if present view t then Some t else None), [])
  | SUnify d a b =>
      match lookup vs a with
      | Some t => (assign (assign vs a None) d (Some t), [])                    (* a.take() is Some: or_else is not evaluated *)
      | None => (assign (assign (assign vs a None) b None) d (lookup vs b), []) (* b.take() *)
      end
  | SPrintGet t => (vs, if present view t then [SecStream t] else [])
  | SPrintVar v => (vs, match lookup vs v with Some t => [SecStream t] | None => [] end)
  | SPrintGetOrLit t lit => (vs, match view t with SPresent => [SecStream t] | SMissing => [] | SBroken => [SecLit lit] end)
  | SRaw n => (vs, if present view n then [SecRaw n] else [])
  end.

Fixpoint dprog_sem (view : dump_view) (vs : dvars) (prog : list dstep) : list section :=
  match prog with
  | [] => []
  | s :: r => let '(vs', out) := dstep_sem view vs s in out ++ dprog_sem view vs' r
  end.
(* the printer calls of `--dump` on a minidump seen as [view], in order *)
Definition sections (prog : list dstep) (view : dump_view) : list section := dprog_sem view [] prog.

(* ---- writing: each printer call streams to the sink and returns an io::Result; `?` ends the function at the first error.
   [wr k] = result of the k-th printer call, [cut k] = how many bytes of its text a failing call had already written *)
Definition bytes := list Z.
Fixpoint write_all (rd : section -> bytes) (wr : nat -> io_res) (cut : nat -> nat) (k : nat) (secs : list section)
  : bytes * io_res :=
  match secs with
  | [] => ([], IoOk)
  | s :: r =>
      match wr k with
      | IoOk => let '(b, res) := write_all rd wr cut (S k) r in (rd s ++ b, res)
      | res => (firstn (cut k) (rd s), res)
      end
  end.
Definition dump_text (rd : section -> bytes) (secs : list section) : bytes := flat_map rd secs.

(* ---- the table the manual of the old minidump_dump implies: which printers run, in this order *)
Definition when_present (view : dump_view) (t : str) : list section := if present view t then [SecStream t] else [].
Definition when_raw (view : dump_view) (n : str) : list section := if present view n then [SecRaw n] else [].
Definition documented_sections (view : dump_view) : list section :=
  [SecHeader] ++
  when_present view "MinidumpThreadList" ++ when_present view "MinidumpModuleList" ++
  when_present view "MinidumpUnloadedModuleList" ++ when_present view "MinidumpHandleDataStream" ++
  (* the memory of the process: the 64-bit list if there is one, else the plain list; the plain list also when both exist *)
  (if present view "MinidumpMemory64List" then [SecStream "MinidumpMemory64List"] ++ when_present view "MinidumpMemoryList"
   else when_present view "MinidumpMemoryList") ++
  when_present view "MinidumpMemoryInfoList" ++ when_present view "MinidumpException" ++ when_present view "MinidumpAssertion" ++
  when_present view "MinidumpSystemInfo" ++ when_present view "MinidumpMiscInfo" ++ when_present view "MinidumpThreadNames" ++
  when_present view "MinidumpBreakpadInfo" ++
  (match view "MinidumpCrashpadInfo" with
   | SPresent => [SecStream "MinidumpCrashpadInfo"] | SMissing => []
   | SBroken => [SecLit "MinidumpCrashpadInfo cannot print invalid data"] end) ++
  when_present view "MinidumpMacCrashInfo" ++ when_present view "MinidumpMacBootargs" ++
  when_raw view "LinuxCmdLine" ++ when_raw view "LinuxEnviron" ++ when_raw view "LinuxLsbRelease" ++
  when_raw view "LinuxProcStatus" ++ when_raw view "LinuxCpuInfo" ++ when_raw view "LinuxMaps" ++
  when_raw view "MozLinuxLimits" ++ when_raw view "MozSoftErrors".

(* the stream types print_minidump_dump has a printer call for *)
Definition typed_kinds : list str :=
  ["MinidumpSystemInfo"; "MinidumpMemoryList"; "MinidumpMemory64List"; "MinidumpMiscInfo"; "MinidumpThreadList";
   "MinidumpModuleList"; "MinidumpUnloadedModuleList"; "MinidumpHandleDataStream"; "MinidumpMemoryInfoList";
   "MinidumpException"; "MinidumpAssertion"; "MinidumpThreadNames"; "MinidumpBreakpadInfo"; "MinidumpCrashpadInfo";
   "MinidumpMacCrashInfo"; "MinidumpMacBootargs"].
Definition raw_kinds : list str :=
  ["LinuxCmdLine"; "LinuxEnviron"; "LinuxLsbRelease"; "LinuxProcStatus"; "LinuxCpuInfo"; "LinuxMaps"; "MozLinuxLimits"; "MozSoftErrors"].
Definition count_sec (s : section) (l : list section) : nat := length (filter (section_eqb s) l).
