(* C20/Sinks.v — the file sinks of minidump-stackwalk as a state machine over a file system that has a
   state BEFORE the run, and the mapping from the command line to the symbol supplier.  Definitions only.

   Part 1 (sinks).  main.rs opens --log-file, the --cyborg file and --output-file with
   std::fs::File::create (pinned from the source by translate/c20_wiring.py: Gen/C20Wiring.v,
   Wiring.v), i.e. OpenOptions::new().write(true).create(true).truncate(true): the file is created if
   absent and emptied if present; the handle's cursor starts at 0 and every write puts its bytes at the
   cursor.  [replay] runs the trace of effects of Model.run over an arbitrary initial file system.

   Part 2 (symbols).  symbols_paths = cli.symbols_path ++ cli.symbols_path_legacy, handed unchanged to
   http_symbol_supplier (when a --symbols-url is given) or simple_symbol_supplier; clap collects the
   occurrences of a multi-valued argument in command-line order. *)
From RM Require Export C20.Model.
Open Scope Z_scope.

(* ------------------------------------------------------------------ part 1: files *)
Definition bytes := list Z.

(* std::fs::OpenOptions, the three switches that decide what an existing file's content becomes *)
Record open_mode := { om_create : bool; om_truncate : bool; om_append : bool }.
(* File::create(path) *)
Definition file_create : open_mode := {| om_create := true; om_truncate := true; om_append := false |}.

(* what a "create the file, private to its owner" helper without .truncate(true) would be *)
Definition no_truncate : open_mode := {| om_create := true; om_truncate := false; om_append := false |}.

Definition fsys := path -> option bytes.            (* None: no such file *)
Definition cursors := path -> option nat.           (* the open handle of a path, if any: its position *)
Definition upd {A} (m : path -> A) (p : path) (a : A) : path -> A := fun q => if q =? p then a else m q.

Record fstate := { fs_files : fsys; fs_cur : cursors }.

(* open(2) with the given switches; None = ENOENT (no O_CREAT and no file) *)
Definition open_file (m : open_mode) (s : fstate) (p : path) : option fstate :=
  match fs_files s p with
  | None => if om_create m then Some {| fs_files := upd (fs_files s) p (Some []); fs_cur := upd (fs_cur s) p (Some 0%nat) |}
            else None
  | Some old => Some {| fs_files := upd (fs_files s) p (Some (if om_truncate m then [] else old));
                        fs_cur := upd (fs_cur s) p (Some 0%nat) |}
  end.

(* write(2) of [data] at position [pos] of a file holding [old] (pos <= length old in every reachable state) *)
Definition write_at (old : bytes) (pos : nat) (data : bytes) : bytes :=
  firstn pos old ++ data ++ skipn (pos + length data) old.

Definition write_file (m : open_mode) (s : fstate) (p : path) (data : bytes) : fstate :=
  match fs_cur s p, fs_files s p with
  | Some pos, Some old =>
      let pos' := if om_append m then length old else pos in
      {| fs_files := upd (fs_files s) p (Some (write_at old pos' data));
         fs_cur := upd (fs_cur s) p (Some (pos' + length data)%nat) |}
  | _, _ => s
  end.

(* what the printers put on a sink: the whole rendering when the call returns Ok, some prefix of it when it fails *)
Record rendering := {
  r_bytes : renderer -> bytes;
  r_prefix : writer -> renderer -> bytes
}.

Definition step_event (m : open_mode) (rd : rendering) (s : fstate) (ev : event) : fstate :=
  match ev with
  | Create p => match open_file m s p with Some s' => s' | None => s end
  | Written (File p) r => write_file m s p (r_bytes rd r)
  | WriteFailed (File p) r => write_file m s p (r_prefix rd (File p) r)
  | _ => s
  end.

Definition replay (m : open_mode) (rd : rendering) (s : fstate) (tr : list event) : fstate :=
  fold_left (step_event m rd) tr s.

(* the file system a run leaves behind, given the one it found; no handle is open at the start *)
Definition fs_after (m : open_mode) (rd : rendering) (s0 : fsys) (tr : list event) : fsys :=
  fs_files (replay m rd {| fs_files := s0; fs_cur := fun _ => None |} tr).

Definition writer_eqb (a b : writer) : bool :=
  match a, b with
  | Stdout, Stdout => true
  | File p, File q => p =? q
  | _, _ => false
  end.
(* the reports a plan sends to one writer, in order *)
Definition sink_reports (w : writer) (ws : list (writer * renderer)) : list renderer :=
  map snd (filter (fun wr => writer_eqb (fst wr) w) ws).

(* ------------------------------------------------------------------ part 2: argv -> symbol supplier *)
Definition url := Z.
Inductive argv_item :=
| ASymbolsPath (p : path)        (* --symbols-path p  /  --symbols-path=p *)
| APositional (p : path)         (* a positional argument behind the minidump *)
| ASymbolsUrl (u : url)          (* --symbols-url u *)
| AOther.                        (* anything else *)

(* struct Cli, the symbol part (clap: a Vec field holds its occurrences in command-line order) *)
Record sym_cli := {
  sc_symbols_path : list path;
  sc_symbols_path_legacy : list path;
  sc_symbols_url : list url;
  sc_symbols_cache : option path;
  sc_symbols_tmp : option path;
  sc_timeout : Z
}.

Fixpoint flag_paths (argv : list argv_item) : list path :=
  match argv with
  | [] => []
  | ASymbolsPath p :: t => p :: flag_paths t
  | _ :: t => flag_paths t
  end.
Fixpoint positional_paths (argv : list argv_item) : list path :=
  match argv with
  | [] => []
  | APositional p :: t => p :: positional_paths t
  | _ :: t => positional_paths t
  end.
Fixpoint url_args (argv : list argv_item) : list url :=
  match argv with
  | [] => []
  | ASymbolsUrl u :: t => u :: url_args t
  | _ :: t => url_args t
  end.
Definition parse_sym (argv : list argv_item) (cache tmp : option path) (timeout : Z) : sym_cli :=
  {| sc_symbols_path := flag_paths argv; sc_symbols_path_legacy := positional_paths argv;
     sc_symbols_url := url_args argv; sc_symbols_cache := cache; sc_symbols_tmp := tmp; sc_timeout := timeout |}.

Inductive dir_ref :=
| GivenDir (p : path)
| TempDir                         (* std::env::temp_dir() *)
| TempDirCache.                   (* temp_dir.join("rust-minidump-cache") *)

Inductive supplier :=
| NoSupplier
| SimpleSupplier (paths : list path)                                                   (* simple_symbol_supplier(paths) *)
| HttpSupplier (paths : list path) (urls : list url) (cache tmp : dir_ref) (timeout : Z). (* http_symbol_supplier(..) *)

(* let mut symbols_paths = cli.symbols_path; symbols_paths.extend(cli.symbols_path_legacy); *)
Definition merged_paths (c : sym_cli) : list path := sc_symbols_path c ++ sc_symbols_path_legacy c.

Definition nonempty {A} (l : list A) : bool := match l with [] => false | _ => true end.

Definition supplier_of (c : sym_cli) : supplier :=
  if nonempty (sc_symbols_url c) then
    HttpSupplier (merged_paths c) (sc_symbols_url c)
                 (match sc_symbols_cache c with Some p => GivenDir p | None => TempDirCache end)
                 (match sc_symbols_tmp c with Some p => GivenDir p | None => TempDir end)
                 (sc_timeout c)
  else if nonempty (merged_paths c) then SimpleSupplier (merged_paths c)
  else NoSupplier.

Definition supplier_paths (s : supplier) : list path :=
  match s with NoSupplier => [] | SimpleSupplier ps => ps | HttpSupplier ps _ _ _ _ => ps end.
Definition supplier_urls (s : supplier) : list url :=
  match s with HttpSupplier _ us _ _ _ => us | _ => [] end.

(* SimpleSymbolSupplier::locate_file (and the local part of the HTTP supplier): the paths are tried in
   order, the first one that holds the module's symbols is used *)
Definition locate (has : path -> bool) (paths : list path) : option path := find has paths.

(* the store a command line's symbols for one module are taken from *)
Definition store_used (has : path -> bool) (argv : list argv_item) : option path :=
  locate has (supplier_paths (supplier_of (parse_sym argv None None 1000))).
