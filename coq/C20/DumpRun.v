(* C20/DumpRun.v — the three models put together for `minidump-stackwalk --dump [--brief] --output-file out <dump>`:
   main()'s effects (C20/Model.v), the output file as a state machine over the file system the run found (C20/Sinks.v) and
   print_minidump_dump as the program regenerated from main.rs (C20/DumpModel.v). *)
From Coq Require Import List ZArith Bool Lia.
Import ListNotations.
From RM Require Import C20.Model C20.Sinks C20.SinksProofs C20.ClapSpec C20.DumpSpec C20.DumpModel C20.DumpProofs.
Open Scope Z_scope.

Definition dump_flags (brief : bool) (out : option path) (feat : feature) (rec voff : bool) : flags :=
  {| f_human := false; f_json := false; f_cyborg := None; f_dump := true; f_help_md := false; f_pretty := false;
     f_brief := brief; f_features := feat; f_recover := rec; f_output_file := out; f_log_file := None; f_verbose_off := voff |}.

Lemma write_all_ok_text : forall rd wr cut secs k,
  snd (write_all rd wr cut k secs) = IoOk -> fst (write_all rd wr cut k secs) = dump_text rd secs.
Proof.
  intros rd wr cut secs k H. destruct (write_all_prefix rd wr cut secs k) as [dn [rest [part [H1 [H2 [H3 _]]]]]].
  specialize (H3 H). destruct H3 as [Hr Hp]. subst rest part. rewrite H2, H1, !app_nil_r. reflexivity.
Qed.

Lemma dump_run_end_to_end : forall (brief : bool) out feat rec voff view rdr wr cut e (s0 : fsys),
  e_read e = true -> e_create e out = IoOk ->
  let secs := sections PROG view in
  let r := if brief then DumpBrief else Dump in
  let res := write_all rdr wr cut 0 secs in
  e_write e (File out) r = snd res ->
  let rd := {| r_bytes := fun _ => dump_text rdr secs; r_prefix := fun _ _ => fst res |} in
  let f := dump_flags brief (Some out) feat rec voff in
  fs_after file_create rd s0 (fst (run f e)) out = Some (fst res) /\
  snd (run f e) = (match snd res with IoErr => 1 | _ => 0 end) /\
  (exists tail, dump_text rdr secs = fst res ++ tail) /\
  (snd res = IoOk -> fst res = dump_text rdr secs).
Proof.
  intros brief out feat rec voff view rdr wr cut e s0 Hr Hc secs r res Hw rd f.
  split; [|split; [|split; [exact (write_all_is_prefix_of_dump rdr wr cut secs)|exact (write_all_ok_text rdr wr cut secs 0%nat)]]].
  - unfold f, dump_flags, run, decide, exec, steps, fs_after, replay. unfold r in Hw. subst rd res.
    pose proof (write_all_ok_text rdr wr cut secs 0%nat) as Hok.
    generalize dependent (write_all rdr wr cut 0 secs). generalize (dump_text rdr secs). intros TXT W Hw Hok.
    destruct brief; cbn; rewrite Hr; cbn; rewrite Hc; cbn; rewrite Hw;
      destruct (snd W) eqn:E; cbn; unfold open_file, write_file; cbn; destruct (s0 out); cbn;
      unfold upd; rewrite ?Z.eqb_refl; cbn; rewrite ?Z.eqb_refl; cbn;
      unfold write_at; cbn; rewrite ?skipn_nil, ?app_nil_r; try reflexivity; rewrite (Hok eq_refl); reflexivity.
  - unfold f, dump_flags, run, decide, exec, steps. unfold r in Hw. subst res.
    generalize dependent (write_all rdr wr cut 0 secs). intros W Hw.
    destruct brief; cbn; rewrite Hr; cbn; rewrite Hc; cbn; rewrite Hw; destruct (snd W); reflexivity.
Qed.
