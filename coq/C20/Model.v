(* C20/Model.v — executable model of minidump-stackwalk's decision logic
   (minidump-stackwalk/src/main.rs).  Definitions only.

   Modelled:
     * the clap ArgGroup "output-format" {json, human, cyborg, dump, help_markdown}
       (at most one member; otherwise clap's usage error, status 2)          main.rs:59-65
     * the output-mode munging (human default, cyborg = human + json,
       --pretty / --brief validity)                                           main.rs:355-380
     * feature selection and option overrides                                 main.rs:382-392
     * writer selection and dispatch to the printers                          main.rs:407-523
     * the order of effects of main_result and the exit status of main        main.rs:274-283
   Not modelled (runtime): clap's tokenisation, what the printers write, colouring,
   the interactive progress display, --use-local-debuginfo, --symbols-url.
   Paths are abstract identifiers. *)
From RM Require Export Base.Word.
Open Scope Z_scope.

Definition path := Z.

Inductive feature := StableBasic | StableAll | UnstableAll.

(* the parsed command line (struct Cli), restricted to what decides output and status *)
Record flags := {
  f_human : bool;
  f_json : bool;
  f_cyborg : option path;
  f_dump : bool;
  f_help_md : bool;
  f_pretty : bool;
  f_brief : bool;
  f_features : feature;
  f_recover : bool;               (* --recover-function-args *)
  f_output_file : option path;
  f_log_file : option path;
  f_verbose_off : bool            (* --verbose=off: the logger prints nothing *)
}.

Inductive reject :=
| UsageConflict        (* clap: two members of the output-format group; status 2 *)
| PrettyWithoutJson    (* "Humans must be hideous!"; status 1 *)
| BriefWithoutHuman.   (* "Robots cannot be brief!"; status 1 *)

Inductive writer := Stdout | File (p : path).
Inductive renderer :=
| Human | HumanBrief             (* ProcessState::print / print_brief *)
| Json (pretty : bool)           (* ProcessState::print_json(pretty) *)
| Dump | DumpBrief               (* print_minidump_dump(brief) *)
| HelpDoc.                       (* print_help_markdown *)

(* ProcessorOptions handed to process_minidump_with_options *)
Record proc_opts := { po_base : feature; po_recover : bool }.

(* what ProcessorOptions::{stable_basic, stable_all, unstable_all} set *)
Definition preset_recover (ft : feature) : bool :=
  match ft with UnstableAll => true | _ => false end.

Record plan := {
  p_writer : writer;                       (* primary output *)
  p_primary : list renderer;               (* printed to the primary output, in order *)
  p_secondary : option (path * renderer);  (* the --cyborg file *)
  p_creates : list path;                   (* File::create calls, in order *)
  p_process : bool;                        (* process_minidump_with_options runs *)
  p_opts : proc_opts
}.

Inductive decision :=
| Rejected (r : reject)
| HelpMarkdown
| Plan (p : plan).

Definition b2z (b : bool) : Z := if b then 1 else 0.
Definition is_some {A} (o : option A) : bool := match o with Some _ => true | None => false end.

(* members of the ArgGroup present on the command line *)
Definition group_count (f : flags) : Z :=
  b2z (f_json f) + b2z (f_human f) + b2z (is_some (f_cyborg f)) + b2z (f_dump f) + b2z (f_help_md f).

Definition opt_list {A} (o : option A) : list A := match o with Some a => [a] | None => [] end.

Definition decide (f : flags) : decision :=
  if 1 <? group_count f then Rejected UsageConflict
  else if f_help_md f then HelpMarkdown
  else
    let raw_dump := f_dump f in
    let json0 := f_json f in
    let human0 := negb json0 && negb raw_dump in
    let human := if is_some (f_cyborg f) then true else human0 in
    let json := if is_some (f_cyborg f) then true else json0 in
    if f_pretty f && negb json then Rejected PrettyWithoutJson
    else if f_brief f && negb (human || raw_dump) then Rejected BriefWithoutHuman
    else
      let opts := {| po_base := f_features f;
                     (* options.recover_function_args |= cli.recover_function_args  (main.rs:392) *)
                     po_recover := preset_recover (f_features f) || f_recover f |} in
      let w := match f_output_file f with Some p => File p | None => Stdout end in
      let creates := opt_list (f_cyborg f) ++ opt_list (f_output_file f) in
      if raw_dump then
        Plan {| p_writer := w; p_primary := [if f_brief f then DumpBrief else Dump];
                p_secondary := None; p_creates := creates; p_process := false; p_opts := opts |}
      else
        let hum := if human then [if f_brief f then HumanBrief else Human] else [] in
        let jprim := if json && negb (is_some (f_cyborg f)) then [Json (f_pretty f)] else [] in
        let sec := if json then match f_cyborg f with Some c => Some (c, Json (f_pretty f)) | None => None end
                   else None in
        Plan {| p_writer := w; p_primary := hum ++ jprim; p_secondary := sec;
                p_creates := creates; p_process := true; p_opts := opts |}.

(* ------------------------------------------------------------------ execution *)
(* results of the operations main_result performs on the outside world *)
Inductive io_res := IoOk | IoErr | IoBrokenPipe.

Record env := {
  e_create : path -> io_res;               (* File::create *)
  e_read : bool;                           (* Minidump::read_path is Ok *)
  e_process : bool;                        (* process_minidump_with_options is Ok *)
  e_write : writer -> renderer -> io_res;  (* the printer's io::Result *)
  e_partial : writer -> renderer -> bool   (* a failing printer call had already put bytes on the sink
                                              (the printers stream: write!/writeln! straight to the File or
                                              the line-buffered stdout; nothing is staged) *)
}.

Inductive channel := Logger | Stderr.      (* error!(..) goes through the logger, "Error: {e}" is eprintln! *)
Inductive event :=
| Create (p : path)
| Written (w : writer) (r : renderer)      (* printer returned Ok *)
| WriteFailed (w : writer) (r : renderer)  (* printer returned Err (possibly after a partial write) *)
| Diag (c : channel)
| PanicEv.                                 (* was: print_help_markdown(..).expect(..); no longer produced since the fix of F-C20e *)

(* how main() ends for an io::Error of main_result *)
Definition io_exit (r : io_res) : list event * Z :=
  match r with
  | IoBrokenPipe => ([], 0)
  | _ => ([Diag Stderr], 1)
  end.

Fixpoint do_creates (e : env) (ps : list path) (k : list event * Z) : list event * Z :=
  match ps with
  | [] => k
  | p :: ps' =>
      match e_create e p with
      | IoOk => let '(tr, c) := do_creates e ps' k in (Create p :: tr, c)
      | r => io_exit r
      end
  end.

Fixpoint do_writes (e : env) (ws : list (writer * renderer)) : list event * Z :=
  match ws with
  | [] => ([], 0)
  | (w, r) :: ws' =>
      match e_write e w r with
      | IoOk => let '(tr, c) := do_writes e ws' in (Written w r :: tr, c)
      | res => let '(tr, c) := io_exit res in (WriteFailed w r :: tr, c)
      end
  end.

Definition steps (p : plan) : list (writer * renderer) :=
  map (fun r => (p_writer p, r)) (p_primary p) ++
  match p_secondary p with Some (c, r) => [(File c, r)] | None => [] end.

Definition exec (p : plan) (e : env) : list event * Z :=
  if negb (e_read e) then ([Diag Logger], 1)
  else do_creates e (p_creates p)
         (if p_process p && negb (e_process e) then ([Diag Logger], 1)
          else do_writes e (steps p)).

(* the whole of main(): trace of effects and process exit status *)
Definition run (f : flags) (e : env) : list event * Z :=
  match decide f with
  | Rejected UsageConflict => ([Diag Stderr], 2)
  | d =>
      do_creates e (opt_list (f_log_file f))
        (match d with
         | Rejected _ => ([Diag Logger], 1)
         | HelpMarkdown =>
             (* print_help_markdown(&mut std::io::stdout())?; return Ok(());   (F-C20e, fixed: was .expect(..), a panic) *)
             do_writes e [(Stdout, HelpDoc)]
         | Plan p => exec p e
         end)
  end.
