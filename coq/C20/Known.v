(* C20/Known.v — the two known findings of C20 as executable classifiers over (flags, environment).  Definitions only; the
   proofs that each is true EXACTLY for the runs that violate the clause are in C20/Findings.v.  The extracted driver prints both
   for every case, and the plugin accepts a violation as "known" only if the classifier says so. *)
From RM Require Import C20.Model.
Open Scope Z_scope.

Definition io_ok (r : io_res) : bool := match r with IoOk => true | _ => false end.
Definition io_err (r : io_res) : bool := match r with IoErr => true | _ => false end.
Definition creates_ok (e : env) (ps : list path) : bool := forallb (fun p => io_ok (e_create e p)) ps.

(* ------------------------------------------------------------------ F-C20b *)
(* the run ends in one of main.rs's three `error!(..); std::process::exit(1)` tails *)
Definition ends_by_logger (f : flags) (e : env) : bool :=
  match decide f with
  | Rejected UsageConflict => false
  | HelpMarkdown => false
  | Rejected _ => creates_ok e (opt_list (f_log_file f))
  | Plan p => creates_ok e (opt_list (f_log_file f)) &&
              (negb (e_read e) || (creates_ok e (p_creates p) && p_process p && negb (e_process e)))
  end.
Definition known_b (f : flags) (e : env) : bool := f_verbose_off f && ends_by_logger f e.

(* ------------------------------------------------------------------ F-C20d *)
(* the first failing printer call is an io error (not a broken pipe) and report bytes are on the primary output by then:
   (B) the one report of the primary output fails after a prefix was streamed, or
   (A) it was written completely and the --cyborg file's JSON then fails *)
Definition known_d (f : flags) (e : env) : bool :=
  match decide f with
  | Plan p =>
      creates_ok e (opt_list (f_log_file f)) && e_read e && creates_ok e (p_creates p) &&
      (negb (p_process p) || e_process e) &&
      match p_primary p with
      | [r] =>
          match e_write e (p_writer p) r with
          | IoErr => e_partial e (p_writer p) r
          | IoBrokenPipe => false
          | IoOk => match p_secondary p with
                    | Some (c, rj) => io_err (e_write e (File c) rj)
                    | None => false
                    end
          end
      | _ => false
      end
  | _ => false
  end.

