(* C20/DumpSeq.v — the call sequence of print_minidump_dump (main.rs) that the harness's copy and the
   oracle's "--dump = the library's raw dump" rest on, pinned against the sequence regenerated from
   the source on every run (Gen/C20DumpSeq.v, translate/c20_dump_sequence.py; the translator also
   compares it with the copy in harness/src/bin/c20.rs and aborts if they differ). *)
From Coq Require Import String List.
Import ListNotations.
From RM Require Gen.C20DumpSeq.
Local Open Scope string_scope.

Definition pinned_dump_seq : list string := [
  "print:dump(output)";
  "get:MinidumpSystemInfo";
  "get:MinidumpMemoryList";
  "get:MinidumpMemory64List";
  "get:MinidumpMiscInfo";
  "unified:memory64_list.take().map(UnifiedMemoryList::Memory64).or_else(||memory_list.take().map(UnifiedMemoryList::Memory))";
  "get:MinidumpThreadList";
  "print:thread_list(output,unified_memory.as_ref(),system_info.as_ref(),misc_info.as_ref(),brief)";
  "get:MinidumpModuleList";
  "print:module_list(output)";
  "get:MinidumpUnloadedModuleList";
  "print:module_list(output)";
  "get:MinidumpHandleDataStream";
  "print:handles(output)";
  "print:memory_list(output,brief)";
  "print:memory_list(output,brief)";
  "print:memory64_list(output,brief)";
  "get:MinidumpMemoryInfoList";
  "print:memory_info_list(output)";
  "get:MinidumpException";
  "print:exception(output,system_info.as_ref(),misc_info.as_ref())";
  "get:MinidumpAssertion";
  "print:assertion(output)";
  "print:system_info(output)";
  "print:misc_info(output)";
  "get:MinidumpThreadNames";
  "print:thread_names(output)";
  "get:MinidumpBreakpadInfo";
  "print:breakpad_info(output)";
  "get:MinidumpCrashpadInfo";
  "print:crashpad_info(output)";
  "lit:MinidumpCrashpadInfo cannot print invalid data";
  "get:MinidumpMacCrashInfo";
  "print:mac_info(output)";
  "get:MinidumpMacBootargs";
  "print:mac_bootargs(output)";
  "raw:LinuxCmdLine";
  "raw:LinuxEnviron";
  "raw:LinuxLsbRelease";
  "raw:LinuxProcStatus";
  "raw:LinuxCpuInfo";
  "raw:LinuxMaps";
  "raw:MozLinuxLimits";
  "raw:MozSoftErrors"
].

Lemma dump_seq_pinned : RM.Gen.C20DumpSeq.DUMP_SEQ = pinned_dump_seq.
Proof. reflexivity. Qed.
