(* C20/Clap.v — executable model of what `Cli::parse()` (clap 4.5 derive, no subcommands, no short options of its
   own, no inference of abbreviated names) does with the argument vector of minidump-stackwalk, interpreted over the
   grammar table that translate/c20_cli.py regenerates from `struct Cli` (Gen/C20Cli.v), and of the way main_result
   turns the parsed values into the flag record of C20/Model.v.  Definitions only.

   Modelled (clap_builder-4.5.32 parser/parser.rs, builder/value_parser.rs, builder/possible_value.rs):
     * tokens are taken left to right; `--` ends option parsing; `--name`, `--name=value`; names are matched exactly;
       `--help` / `-h..` / `--version` / `-V..` end the process with status 0 AT THE MOMENT THEY ARE MET (errors in
       earlier tokens win, later tokens are never looked at);
     * a flag takes no `=value` and may be given once; a single-valued option may be given once; its value is the
       `=`-attached one or the next token, which must not look like an option (`-x`, `--x`, `--`; a lone `-` is a value);
     * every value goes through the option's value parser when it is met: PathBuf refuses the empty value, u64 is
       str::parse::<u64>, an enumerated parser accepts exactly its possible values — or any ASCII-case variant of
       them with ignore_case = true — and hands the value on AS TYPED;
     * after the last token: at most one member of the ArgGroup, the required positional present; any violation is
       a usage error (status 2, message on standard error, nothing else happens).
   Panic sites of the code that consume parsed values, kept as outcomes (never totalised):
     * `.map(|v| LevelFilter::from_str(&v).unwrap())` inside the parser (tracing-core-0.1.33 metadata.rs:775);
     * `match &*cli.features { "stable-basic" => .. , _ => unimplemented!() }` in main_result. *)
From Coq Require Import Ascii List ZArith Bool.
Import ListNotations.
From RM Require Import C20.Model C20.ClapSpec.
Local Open Scope str_scope.

(* ------------------------------------------------------------------ strings *)
Definition lower_ascii (c : ascii) : ascii :=
  let n := nat_of_ascii c in
  if (Nat.leb 65 n && Nat.leb n 90)%bool then ascii_of_nat (n + 32) else c.
Fixpoint lower (s : str) : str :=
  match s with SNil => SNil | SCons c r => SCons (lower_ascii c) (lower r) end.
(* str::eq_ignore_ascii_case *)
Definition eq_ignore_ascii_case (a b : str) : bool := str_eqb (lower a) (lower b).

Definition is_digit (c : ascii) : bool := let n := nat_of_ascii c in (Nat.leb 48 n && Nat.leb n 57)%bool.
Fixpoint digits_value (s : str) (acc : Z) : option Z :=
  match s with
  | SNil => Some acc
  | SCons c r => if is_digit c then digits_value r (acc * 10 + Z.of_nat (nat_of_ascii c - 48))%Z else None
  end.
(* <unsigned>::from_str: an optional '+', then at least one decimal digit; None also stands for overflow, decided by the caller *)
Definition parse_unsigned (s : str) : option Z :=
  match s with
  | SNil => None
  | SCons "+" SNil => None
  | SCons "+" r => digits_value r 0
  | _ => digits_value s 0
  end.

Definition vp_accepts (vp : vparser) (v : str) : bool :=
  match vp with
  | VString => true
  | VPath => negb (str_eqb v "")
  | VU64 => match parse_unsigned v with Some n => (n <? 2 ^ 64)%Z | None => false end
  | VPossible pv ic =>
      negb (str_eqb v "") &&
      existsb (fun name => if ic then eq_ignore_ascii_case name v else str_eqb name v) pv
  end.

(* ------------------------------------------------------------------ the parser *)
Inductive presult :=
| PUsage                                   (* clap error: message on stderr, exit status 2 *)
| PHelp                                    (* --help / -h: help on stdout, exit status 0 *)
| PVersion                                 (* --version / -V *)
| PParsed (vals : list (str * str)). (* (field, value) in command-line order; a flag has the value "" *)

Definition starts_dash (s : str) : bool := match s with SCons "-" _ => true | _ => false end.
Definition looks_like_option (s : str) : bool := starts_dash s && negb (str_eqb s "-").
Definition long_body (s : str) : option str :=
  match s with SCons "-" (SCons "-" r) => Some r | _ => None end.
Fixpoint split_eq (s : str) : str * option str :=
  match s with
  | SNil => (SNil, None)
  | SCons c r => if Ascii.eqb c "=" then (SNil, Some r)
                  else let '(n, v) := split_eq r in (SCons c n, v)
  end.

Definition find_long (spec : list arg_spec) (name : str) : option arg_spec :=
  find (fun a => negb (str_eqb (a_long a) "") && str_eqb (a_long a) name) spec.
Definition is_positional (a : arg_spec) : bool :=
  match a_kind a with KPos | KPosMulti => true | _ => false end.
Definition has_field (acc : list (str * str)) (fld : str) : bool :=
  existsb (fun fv => str_eqb (fst fv) fld) acc.
(* the positional that receives the next free word: the required one first, then the repeatable one *)
Definition next_positional (spec : list arg_spec) (acc : list (str * str)) : option arg_spec :=
  match find (fun a => match a_kind a with KPos => negb (has_field acc (a_field a)) | _ => false end) spec with
  | Some a => Some a
  | None => find (fun a => match a_kind a with KPosMulti => true | _ => false end) spec
  end.

Definition single (k : akind) : bool := match k with KFlag | KOpt => true | _ => false end.
(* one occurrence with its value: the value parser, and "cannot be used multiple times" *)
Definition push (a : arg_spec) (v : str) (acc : list (str * str)) : option (list (str * str)) :=
  if negb (vp_accepts (a_vp a) v) then None
  else if single (a_kind a) && has_field acc (a_field a) then None
  else Some (acc ++ [(a_field a, v)])%list.

Definition short_action (s : str) : presult :=
  match s with
  | SCons "-" (SCons "h" _) => PHelp
  | SCons "-" (SCons "V" _) => PVersion
  | _ => PUsage
  end.

Fixpoint scan (spec : list arg_spec) (argv : list str) (trailing : bool) (acc : list (str * str)) : presult :=
  match argv with
  | [] => PParsed acc
  | t :: rest =>
      let positional :=
        match next_positional spec acc with
        | None => PUsage
        | Some a => match push a t acc with None => PUsage | Some acc' => scan spec rest trailing acc' end
        end in
      if trailing then positional
      else if str_eqb t "--" then scan spec rest true acc
      else match long_body t with
      | Some body =>
          let '(name, oval) := split_eq body in
          if str_eqb name "help" then match oval with None => PHelp | Some _ => PUsage end
          else if str_eqb name "version" then match oval with None => PVersion | Some _ => PUsage end
          else match find_long spec name with
          | None => PUsage
          | Some a =>
              match a_kind a with
              | KFlag =>
                  match oval with
                  | Some _ => PUsage
                  | None => match push a "" acc with None => PUsage | Some acc' => scan spec rest trailing acc' end
                  end
              | _ =>
                  match oval with
                  | Some v => match push a v acc with None => PUsage | Some acc' => scan spec rest trailing acc' end
                  | None =>
                      match rest with
                      | [] => PUsage
                      | v :: rest' =>
                          if looks_like_option v then PUsage
                          else match push a v acc with None => PUsage | Some acc' => scan spec rest' trailing acc' end
                      end
                  end
              end
          end
      | None =>
          if looks_like_option t then short_action t else positional
      end
  end.

Definition group_members_present (group : list str) (acc : list (str * str)) : nat :=
  length (filter (has_field acc) group).
Definition required_present (spec : list arg_spec) (acc : list (str * str)) : bool :=
  forallb (fun a => match a_kind a with KPos => has_field acc (a_field a) | _ => true end) spec.

Definition parse (spec : list arg_spec) (group : list str) (argv : list str) : presult :=
  match scan spec argv false [] with
  | PParsed acc =>
      if Nat.ltb 1 (group_members_present group acc) then PUsage
      else if negb (required_present spec acc) then PUsage
      else PParsed acc
  | r => r
  end.

(* ------------------------------------------------------------------ from the parsed values to main_result *)
Definition values_of (acc : list (str * str)) (fld : str) : list str :=
  map snd (filter (fun fv => str_eqb (fst fv) fld) acc).
Definition value_of (defaults : list (str * str)) (acc : list (str * str)) (fld : str) : option str :=
  match values_of acc fld with
  | v :: _ => Some v
  | [] => match find (fun d => str_eqb (fst d) fld) defaults with Some d => Some (snd d) | None => None end
  end.

(* tracing_core::LevelFilter::from_str: a number 0..5, or a level name in any ASCII case, or "" *)
Definition level_names : list str := ["error"; "warn"; "info"; "debug"; "trace"; "off"].
Definition level_from_str (s : str) : option str :=
  match (match parse_unsigned s with
         | Some n => nth_error ["off"; "error"; "warn"; "info"; "debug"; "trace"] (Z.to_nat n)
         | None => None end) with
  | Some l => Some l
  | None => if str_eqb s "" then Some "error"
            else find (fun name => eq_ignore_ascii_case s name) level_names
  end.

(* match &*cli.features { <arms regenerated by translate/c20_wiring.py> , _ => unimplemented!() } *)
Definition feature_of_preset (ctor : str) : option feature :=
  if str_eqb ctor "stable_basic" then Some StableBasic
  else if str_eqb ctor "stable_all" then Some StableAll
  else if str_eqb ctor "unstable_all" then Some UnstableAll
  else None.
Definition features_match (arms : list (str * str)) (s : str) : option feature :=
  match find (fun arm => str_eqb (fst arm) s) arms with
  | Some arm => feature_of_preset (snd arm)
  | None => None
  end.

Inductive cli_outcome :=
| CliUsage | CliHelp | CliVersion
| CliPanicVerbose                           (* LevelFilter::from_str(&v).unwrap() inside Cli::parse() *)
| CliPanicFeatures (f : flags)              (* unimplemented!(): reached only if main_result gets as far as the match *)
| CliFlags (f : flags).

(* [pid] names the paths: the model of main() works with abstract path identifiers *)
Definition flags_of (pid : str -> path) (defaults : list (str * str)) (acc : list (str * str))
           (ft : feature) (verbose : str) : flags :=
  let opt fld := match values_of acc fld with v :: _ => Some (pid v) | [] => None end in
  {| f_human := has_field acc "human"; f_json := has_field acc "json"; f_cyborg := opt "cyborg";
     f_dump := has_field acc "dump"; f_help_md := has_field acc "help_markdown";
     f_pretty := has_field acc "pretty"; f_brief := has_field acc "brief"; f_features := ft;
     f_recover := has_field acc "recover_function_args";
     f_output_file := opt "output_file"; f_log_file := opt "log_file";
     f_verbose_off := str_eqb verbose "off" |}.

Definition interpret (pid : str -> path) (defaults : list (str * str)) (arms : list (str * str))
           (r : presult) : cli_outcome :=
  match r with
  | PUsage => CliUsage
  | PHelp => CliHelp
  | PVersion => CliVersion
  | PParsed acc =>
      match value_of defaults acc "verbose" with
      | None => CliPanicVerbose             (* no default: clap would refuse the declaration *)
      | Some vs =>
          match level_from_str vs with
          | None => CliPanicVerbose
          | Some level =>
              match value_of defaults acc "features" with
              | None => CliPanicFeatures (flags_of pid defaults acc StableBasic level)
              | Some fs =>
                  match features_match arms fs with
                  | None => CliPanicFeatures (flags_of pid defaults acc StableBasic level)
                  | Some ft => CliFlags (flags_of pid defaults acc ft level)
                  end
              end
          end
      end
  end.

(* ------------------------------------------------------------------ the whole process, from argv *)
Inductive cli_event :=
| ClapMessage (to_stdout : bool)      (* help / version text on stdout, or a usage error on stderr *)
| MainEv (ev : event)                 (* an effect of main_result (C20/Model.v) *)
| PanicUnwrap                         (* status 101 *)
| PanicUnimplemented.                 (* status 101 *)

Definition lift (r : list event * Z) : list cli_event * Z := (map MainEv (fst r), snd r).

Definition run_outcome (o : cli_outcome) (e : env) : list cli_event * Z :=
  match o with
  | CliUsage => ([ClapMessage false], 2)
  | CliHelp | CliVersion => ([ClapMessage true], 0)      (* clap ignores the result of printing and exits 0 *)
  | CliPanicVerbose => ([PanicUnwrap], 101)
  | CliFlags f => lift (run f e)
  | CliPanicFeatures f =>
      (* main_result in the code's order: log file, --help-markdown, the --pretty / --brief rejections, THEN the match *)
      match decide f with
      | Plan _ =>
          let '(tr, c) := do_creates e (opt_list (f_log_file f)) ([], 101) in
          ((map MainEv tr ++ (if (c =? 101)%Z then [PanicUnimplemented] else []))%list, c)
      | _ => lift (run f e)
      end
  end.

Definition run_argv (pid : str -> path) (spec : list arg_spec) (group : list str)
           (defaults arms : list (str * str)) (argv : list str) (e : env) : list cli_event * Z :=
  run_outcome (interpret pid defaults arms (parse spec group argv)) e.
