(* C20/Properties.v — property theorems only.
   partial: the decision logic and effect order of main() are modelled and proved; clap's
   tokenisation, the printers' bytes, process exit and colouring are exercised by the
   correspondence run against the built binary. *)
From Coq Require Import Lia.
From RM Require Import C20.Model C20.Proofs C20.Sinks C20.SinksProofs.
From RM Require Gen.C20DumpSeq C20.DumpSeq Gen.C20Wiring C20.Wiring Gen.C20Cli.
From RM Require Import C20.ClapSpec C20.Clap C20.ClapProofs C20.ClapSinks C20.ClapSymbols C20.Findings.
From RM Require Import C20.DumpSpec C20.DumpModel C20.DumpProofs C20.DumpRun.
From RM Require Gen.C20DumpProg.
Open Scope Z_scope.

(* Every flag record is rejected, is the hidden --help-markdown, or has a plan.  [flags] has
   2^10 * 3 * (option path)^3 inhabitants; the proof is a case analysis over all of them. *)
Theorem c20_total : forall f,
  (exists r, decide f = Rejected r) \/ (decide f = HelpMarkdown /\ f_help_md f = true) \/
  (exists p, decide f = Plan p /\ f_help_md f = false).
Proof. exact total. Qed.
Print Assumptions c20_total.

(* The documented table.  accepted = at most one of --json/--human/--cyborg/--dump and no
   --help-markdown.  Writer: --output-file if given, else standard output.
     --dump                -> raw dump (brief with --brief), no processing
     --json                -> JSON (pretty with --pretty)
     --cyborg c            -> human report (brief with --brief) on the primary output, JSON
                              (pretty with --pretty) in c; c is created before the output file
     --human or none       -> human report (brief with --brief)                                *)
Theorem c20_plan_table : forall f, accepted f ->
  (f_dump f = true -> f_pretty f = false ->
     exists p, decide f = Plan p /\ p_writer p = writer_of f /\
               p_primary p = [if f_brief f then DumpBrief else Dump] /\
               p_secondary p = None /\ p_process p = false /\
               p_creates p = opt_list (f_output_file f)) /\
  (f_json f = true -> f_brief f = false ->
     exists p, decide f = Plan p /\ p_writer p = writer_of f /\
               p_primary p = [Json (f_pretty f)] /\
               p_secondary p = None /\ p_process p = true /\
               p_creates p = opt_list (f_output_file f)) /\
  (forall c, f_cyborg f = Some c ->
     exists p, decide f = Plan p /\ p_writer p = writer_of f /\
               p_primary p = [if f_brief f then HumanBrief else Human] /\
               p_secondary p = Some (c, Json (f_pretty f)) /\ p_process p = true /\
               p_creates p = c :: opt_list (f_output_file f)) /\
  (f_json f = false -> f_dump f = false -> f_cyborg f = None -> f_pretty f = false ->
     exists p, decide f = Plan p /\ p_writer p = writer_of f /\
               p_primary p = [if f_brief f then HumanBrief else Human] /\
               p_secondary p = None /\ p_process p = true /\
               p_creates p = opt_list (f_output_file f)).
Proof. exact plan_table. Qed.
Print Assumptions c20_plan_table.

(* whatever the flags: a plan prints exactly one report on the primary output, on the writer
   chosen by --output-file, and a second one only into the --cyborg file, as JSON *)
Theorem c20_single_primary : forall f p, decide f = Plan p ->
  (exists r, p_primary p = [r] /\ r <> HelpDoc) /\
  p_writer p = writer_of f /\
  p_creates p = opt_list (f_cyborg f) ++ opt_list (f_output_file f) /\
  (forall c r, p_secondary p = Some (c, r) -> f_cyborg f = Some c /\ r = Json (f_pretty f)) /\
  (f_cyborg f <> None -> p_secondary p <> None).
Proof. intros f p H. split; [exact (single_primary f p H)|exact (plan_writer f p H)]. Qed.
Print Assumptions c20_single_primary.

(* the rejected combinations, exactly *)
Theorem c20_rejections : forall f,
  (decide f = Rejected UsageConflict <-> 1 < group_count f) /\
  (decide f = Rejected PrettyWithoutJson <->
     group_count f <= 1 /\ f_help_md f = false /\ f_pretty f = true /\ f_json f = false /\ f_cyborg f = None) /\
  (decide f = Rejected BriefWithoutHuman <->
     group_count f <= 1 /\ f_help_md f = false /\ f_brief f = true /\ f_json f = true).
Proof. exact rejections. Qed.
Print Assumptions c20_rejections.

(* ... and a rejected run ends with status 1 or 2, a diagnostic, no report written anywhere and
   no file created except the log file, whatever the environment does *)
Theorem c20_rejected_no_report : forall f e r, decide f = Rejected r -> creates_not_pipe e ->
  (snd (run f e) = 1 \/ snd (run f e) = 2) /\
  existsb is_diag (fst (run f e)) = true /\
  existsb is_render (fst (run f e)) = false /\
  (forall p, In (Create p) (fst (run f e)) -> f_log_file f = Some p).
Proof. exact rejected_no_report. Qed.
Print Assumptions c20_rejected_no_report.

(* exit status: 0, 1 or 2 and nothing else; 2 exactly for clap's group conflict *)
Theorem c20_exit_status : forall f e,
  (snd (run f e) = 0 \/ snd (run f e) = 1 \/ snd (run f e) = 2) /\
  (snd (run f e) = 2 <-> 1 < group_count f).
Proof. exact exit_codes_all. Qed.
Print Assumptions c20_exit_status.

(* the hidden --help-markdown included: 0, 1 or 2 for EVERY flag record and EVERY environment.  Until round 5 this carried a
   fourth disjunct "101 with --help-markdown on a failing standard output": print_help_markdown(..).expect(..) was a panic
   (`minidump-stackwalk --help-markdown x | head -c 10` ended with status 101), finding F-C20e, fixed by propagating the error *)
Theorem c20_exit_status_help : forall f e,
  snd (run f e) = 0 \/ snd (run f e) = 1 \/ snd (run f e) = 2.
Proof. exact exit_codes_help. Qed.
Print Assumptions c20_exit_status_help.

(* without io failures: status 0 iff a plan exists, the dump reads and (unless --dump) processes;
   the effects are then: create log file, create cyborg file, create output file, write every
   planned report in order — nothing else *)
Theorem c20_success_iff : forall f e, clean e -> f_help_md f = false ->
  (snd (run f e) = 0 <->
   exists p, decide f = Plan p /\ e_read e = true /\ (p_process p = true -> e_process e = true)) /\
  (forall p, decide f = Plan p -> e_read e = true -> (p_process p = true -> e_process e = true) ->
     run f e = (map Create (opt_list (f_log_file f)) ++ map Create (p_creates p) ++
                map (fun wr => Written (fst wr) (snd wr)) (steps p), 0)).
Proof. exact success_iff. Qed.
Print Assumptions c20_success_iff.

(* read error / processing error / rejection: status 1 (2), a diagnostic, nothing rendered *)
Theorem c20_failure_no_report : forall f e, clean e -> f_help_md f = false -> snd (run f e) <> 0 ->
  (snd (run f e) = 1 \/ snd (run f e) = 2) /\
  existsb is_diag (fst (run f e)) = true /\
  existsb is_render (fst (run f e)) = false.
Proof. exact failure_no_report. Qed.
Print Assumptions c20_failure_no_report.

(* any environment: a non-zero status always comes with a diagnostic *)
Theorem c20_failure_has_diag : forall f e,
  snd (run f e) <> 0 -> existsb is_diag (fst (run f e)) = true.
Proof. exact failure_has_diag_all. Qed.
Print Assumptions c20_failure_has_diag.

(* ... and the diagnostic is visible: "Error: .." on standard error, or a logger message on standard
   error / in the --log-file (opened before) — unless the logger is silenced.  Known finding F-C20b:
   with --verbose=off a failing run prints nothing (hypothesis [f_verbose_off f = false]; witness below) *)
Theorem c20_failure_diag_visible : forall f e, f_verbose_off f = false -> f_help_md f = false ->
  snd (run f e) <> 0 ->
  diag_visible f (fst (run f e)) /\
  (forall lp, f_log_file f = Some lp -> In (Diag Logger) (fst (run f e)) -> In (Create lp) (fst (run f e))).
Proof.
  intros f e Hv Hh Hne. split; [exact (failure_diag_visible f e Hv Hh Hne)|].
  intros lp. exact (logger_diag_after_log_open f e lp).
Qed.
Print Assumptions c20_failure_diag_visible.

Theorem c20_silent_failure_known_witness : exists f e,
  f_verbose_off f = true /\ f_help_md f = false /\ snd (run f e) = 1 /\ ~ diag_visible f (fst (run f e)).
Proof. exact silent_failure_witness. Qed.
Print Assumptions c20_silent_failure_known_witness.

(* a failed write is a broken pipe (status 0, silently) or an io error (status 1, "Error: .." on stderr) *)
Theorem c20_io_error_status : forall f e w r,
  In (WriteFailed w r) (fst (run f e)) ->
  (e_write e w r = IoBrokenPipe /\ snd (run f e) = 0) \/
  (e_write e w r = IoErr /\ snd (run f e) = 1 /\ In (Diag Stderr) (fst (run f e))).
Proof. exact io_error_status_all. Qed.
Print Assumptions c20_io_error_status.

(* io faults, sink by sink.  (1) any environment: a failing run in which no printer call failed
   (read / processing error, rejection, any File::create failure: missing directory, directory,
   read-only file) renders nothing on any sink. *)
Theorem c20_failure_no_partial_report_partial : forall f e, f_help_md f = false -> snd (run f e) <> 0 ->
  (forall w r, ~ In (WriteFailed w r) (fst (run f e))) ->
  existsb is_render (fst (run f e)) = false.
Proof. exact failure_no_partial_report_partial. Qed.
Print Assumptions c20_failure_no_partial_report_partial.

(* (2) bytes on the primary output of a failing run arise only from a mid-report io error: an io
   error (not a broken pipe) on a printer call that had itself already streamed a prefix, or that
   came after a complete report on the primary output (the --cyborg file failing after the human
   report).  Known finding F-C20c: the text of the property ("status 1 ... and nothing on the
   primary output") does not hold for these runs; [midreport_io_error] is the Known_ class. *)
Theorem c20_dirty_primary_only_midreport : forall f e, f_help_md f = false -> snd (run f e) <> 0 ->
  sink_dirty e (writer_of f) (fst (run f e)) -> midreport_io_error f e.
Proof. exact dirty_primary_only_midreport. Qed.
Print Assumptions c20_dirty_primary_only_midreport.

(* (3) the refuted form, with both witnesses: cyborg file fails after the complete human report on
   standard output; a single JSON report fails after a prefix reached the output file *)
Theorem c20_failure_no_partial_report_refuted :
  (exists f e, accepted f /\ snd (run f e) = 1 /\ (forall w r, e_partial e w r = false) /\
               In (Written (writer_of f) Human) (fst (run f e))) /\
  (exists f e, accepted f /\ snd (run f e) = 1 /\ f_cyborg f = None /\
               sink_dirty e (writer_of f) (fst (run f e))).
Proof. exact failure_no_partial_report_refuted. Qed.
Print Assumptions c20_failure_no_partial_report_refuted.

(* any environment: status 0 means every planned report was written, or a broken pipe ended the run *)
Theorem c20_zero_means_done_or_pipe : forall f e, f_help_md f = false -> snd (run f e) = 0 ->
  (exists p, decide f = Plan p /\ e_read e = true /\
             fst (run f e) = map Create (opt_list (f_log_file f)) ++ map Create (p_creates p) ++
                             map (fun wr => Written (fst wr) (snd wr)) (steps p)) \/
  pipe_broke e.
Proof. exact zero_means_done_or_pipe. Qed.
Print Assumptions c20_zero_means_done_or_pipe.

(* feature selection: the preset named by --features, overloaded by the explicit flag;
   "unstable-all enables: --recover-function-args" (README).  Refuted on the pinned code
   (options.recover_function_args = cli.recover_function_args overwrote the preset: witness
   --features unstable-all without --recover-function-args); holds since the fix F-C20a. *)
Theorem c20_features_table : forall f p, decide f = Plan p ->
  p_opts p = documented_opts f /\
  po_base (p_opts p) = f_features f /\
  (po_recover (p_opts p) = true <-> f_features f = UnstableAll \/ f_recover f = true).
Proof. intros f p H. split; [exact (plan_opts f p H)|exact (features_table f p H)]. Qed.
Print Assumptions c20_features_table.

(* --dump: the sequence of stream lookups and printer calls of print_minidump_dump, regenerated from
   main.rs on every run, is the pinned one (44 steps, incl. the lazy choice of the unified memory list) — and, checked by the translator, the one the
   harness replays in-process *)
Theorem c20_dump_sequence_pinned : RM.Gen.C20DumpSeq.DUMP_SEQ = RM.C20.DumpSeq.pinned_dump_seq.
Proof. exact RM.C20.DumpSeq.dump_seq_pinned. Qed.
Print Assumptions c20_dump_sequence_pinned.

(* ---- round 4: the sinks over a file system that has a state BEFORE the run (Sinks.v part 1) ----
   fs_after m rd s0 tr = the files after the trace tr, started on the files s0, every sink opened with the
   switches m; file_create = File::create = create + truncate, which is how main.rs opens all three sinks
   (c20_every_sink_truncates, from the regenerated Gen/C20Wiring.v). *)

(* an output file receives what standard output would, WHATEVER the path held before the run (absent, empty,
   shorter, longer, an older report): status 0 and no broken pipe => the file is exactly the primary report *)
Theorem c20_output_file_is_report_whatever_before : forall f e pl p rd (s0 : fsys),
  f_help_md f = false -> decide f = Plan pl ->
  f_output_file f = Some p -> f_cyborg f <> Some p -> f_log_file f <> Some p ->
  snd (run f e) = 0 -> ~ pipe_broke e ->
  fs_after file_create rd s0 (fst (run f e)) p = Some (concat (map (r_bytes rd) (p_primary pl))).
Proof.
  intros f e pl p rd s0 Hh Hd Ho Hc _ H0 Hp.
  rewrite (file_after_success f e pl p rd s0 Hh H0 Hp Hd).
  - rewrite (reports_output_file f pl p Hd Ho Hc). reflexivity.
  - apply in_or_app. right. rewrite (proj1 (proj2 (plan_writer f pl Hd))), Ho. apply in_or_app. right. left. reflexivity.
Qed.
Print Assumptions c20_output_file_is_report_whatever_before.

(* likewise the --cyborg file: exactly the JSON rendering, whatever it held *)
Theorem c20_cyborg_file_is_json_whatever_before : forall f e pl c rd (s0 : fsys),
  f_help_md f = false -> decide f = Plan pl ->
  f_cyborg f = Some c -> f_output_file f <> Some c -> f_log_file f <> Some c ->
  snd (run f e) = 0 -> ~ pipe_broke e ->
  fs_after file_create rd s0 (fst (run f e)) c = Some (r_bytes rd (Json (f_pretty f))).
Proof.
  intros f e pl c rd s0 Hh Hd Hc Ho _ H0 Hp.
  rewrite (file_after_success f e pl c rd s0 Hh H0 Hp Hd).
  - rewrite (reports_cyborg_file f pl c Hd Hc Ho). cbn [map concat]. rewrite app_nil_r. reflexivity.
  - apply in_or_app. right. rewrite (proj1 (proj2 (plan_writer f pl Hd))), Hc. left. reflexivity.
Qed.
Print Assumptions c20_cyborg_file_is_json_whatever_before.

(* any trace, any two file systems: a path the run opens ends up the same in both *)
Theorem c20_sink_content_independent_of_prestate : forall rd p tr (s0 s0' : fsys),
  In (Create p) tr -> fs_after file_create rd s0 tr p = fs_after file_create rd s0' tr p.
Proof. exact prestate_irrelevant. Qed.
Print Assumptions c20_sink_content_independent_of_prestate.

(* and a path the run does not open keeps what it held (failing runs before the File::create calls, other files) *)
Theorem c20_unopened_path_untouched : forall m rd p tr (s0 : fsys),
  ~ In (Create p) tr -> fs_after m rd s0 tr p = s0 p.
Proof. exact untouched. Qed.
Print Assumptions c20_unopened_path_untouched.

(* the truncation is what the two theorems above rest on: the same trace over a longer file, opened with
   create but without truncate, leaves the report followed by the old tail *)
Theorem c20_truncate_needed :
  let rd := {| r_bytes := fun _ => [7; 7]; r_prefix := fun _ _ => [] |} in
  let s0 : fsys := fun _ => Some [1; 2; 3; 4; 5] in
  let tr := [Create 1; Written (File 1) Human] in
  fs_after file_create rd s0 tr 1 = Some [7; 7] /\
  fs_after no_truncate rd s0 tr 1 = Some [7; 7; 3; 4; 5].
Proof. exact truncate_needed. Qed.
Print Assumptions c20_truncate_needed.

(* the shapes of main_result the model takes as given, regenerated from the source on every run *)
Theorem c20_wiring_pinned :
  RM.Gen.C20Wiring.SINK_OPENS = RM.C20.Wiring.pinned_sink_opens /\
  RM.Gen.C20Wiring.SYM_MERGE = RM.C20.Wiring.pinned_sym_merge /\
  RM.Gen.C20Wiring.HTTP_ARGS = RM.C20.Wiring.pinned_http_args /\
  RM.Gen.C20Wiring.SIMPLE_ARGS = RM.C20.Wiring.pinned_simple_args /\
  RM.Gen.C20Wiring.CACHE_DEFAULT = RM.C20.Wiring.pinned_cache_default /\
  RM.Gen.C20Wiring.TMP_DEFAULT = RM.C20.Wiring.pinned_tmp_default /\
  RM.Gen.C20Wiring.FEATURE_ARMS = RM.C20.Wiring.pinned_feature_arms /\
  RM.Gen.C20Wiring.OPTION_OVERRIDES = RM.C20.Wiring.pinned_option_overrides /\
  RM.Gen.C20Wiring.PROCESS_ARGS = RM.C20.Wiring.pinned_process_args.
Proof. exact RM.C20.Wiring.wiring_pinned. Qed.
Print Assumptions c20_wiring_pinned.

(* the order of the steps of main_result and the argument of every std::process::exit, regenerated from the source *)
Theorem c20_main_steps_pinned :
  RM.Gen.C20Wiring.MAIN_STEPS = RM.C20.Wiring.pinned_main_steps /\
  RM.Gen.C20Wiring.EXIT_CALLS = RM.C20.Wiring.pinned_exit_calls.
Proof. exact RM.C20.Wiring.main_steps_pinned. Qed.
Print Assumptions c20_main_steps_pinned.

Theorem c20_every_sink_truncates : forall s m,
  In (s, m) RM.C20.Wiring.code_sink_modes -> m = Some file_create.
Proof. exact RM.C20.Wiring.every_sink_truncates. Qed.
Print Assumptions c20_every_sink_truncates.

(* ---- round 4: from the command line to the symbol supplier (Sinks.v part 2) ---- *)

(* the supplier receives every --symbols-path value in command-line order followed by every positional path in
   command-line order, and the --symbols-url values in command-line order: nothing dropped, added or reordered *)
Theorem c20_symbol_paths_in_given_order : forall argv cache tmp t,
  supplier_paths (supplier_of (parse_sym argv cache tmp t)) = flag_paths argv ++ positional_paths argv /\
  supplier_urls (supplier_of (parse_sym argv cache tmp t)) = url_args argv.
Proof. exact paths_in_given_order. Qed.
Print Assumptions c20_symbol_paths_in_given_order.

(* two paths given in the same style are searched in the order given *)
Theorem c20_same_style_order_preserved : forall pre mid post a b cache tmp t,
  let argv1 := pre ++ ASymbolsPath a :: mid ++ ASymbolsPath b :: post in
  let argv2 := pre ++ APositional a :: mid ++ APositional b :: post in
  (exists l1 l2 l3, supplier_paths (supplier_of (parse_sym argv1 cache tmp t)) = l1 ++ a :: l2 ++ b :: l3) /\
  (exists l1 l2 l3, supplier_paths (supplier_of (parse_sym argv2 cache tmp t)) = l1 ++ a :: l2 ++ b :: l3).
Proof. exact same_style_order. Qed.
Print Assumptions c20_same_style_order_preserved.

(* the symbols of a module come from the FIRST path, in that order, that has them *)
Theorem c20_first_given_path_wins : forall has argv p,
  store_used has argv = Some p <->
  exists before after, flag_paths argv ++ positional_paths argv = before ++ p :: after /\
  has p = true /\ forall q, In q before -> has q = false.
Proof. exact first_given_path_wins. Qed.
Print Assumptions c20_first_given_path_wins.

(* which supplier is built, and where --symbols-cache / --symbols-tmp / their defaults and the timeout go *)
Theorem c20_supplier_kind : forall c,
  (sc_symbols_url c <> [] -> exists cache tmp,
      supplier_of c = HttpSupplier (merged_paths c) (sc_symbols_url c) cache tmp (sc_timeout c) /\
  cache = match sc_symbols_cache c with Some p => GivenDir p | None => TempDirCache end /\
  tmp = match sc_symbols_tmp c with Some p => GivenDir p | None => TempDir end) /\
  (sc_symbols_url c = [] -> merged_paths c <> [] -> supplier_of c = SimpleSupplier (merged_paths c)) /\
  (sc_symbols_url c = [] -> merged_paths c = [] -> supplier_of c = NoSupplier).
Proof. exact supplier_kind. Qed.
Print Assumptions c20_supplier_kind.

(* ---- round 5: from the argument vector to main()'s flag record (clap's parser over the grammar table that
   translate/c20_cli.py regenerates from `struct Cli`: CLI, GROUP, DEFAULTS, ARMS = Gen/C20Cli.v) ---- *)

(* `--features`: every value the regenerated value parser lets through has an arm in the regenerated
   `match &*cli.features { .. , _ => unimplemented!() }`: the default arm is unreachable.  With ignore_case = true on
   the option (or a possible value without an arm) this statement no longer type-checks against Gen/C20Cli.v. *)
Theorem c20_features_value_never_unimplemented : forall s,
  vp_accepts (vp_of_field "features"%str) s = true -> features_match ARMS s <> None.
Proof. exact features_value_has_arm. Qed.
Print Assumptions c20_features_value_never_unimplemented.

(* `--verbose`: `LevelFilter::from_str(&v).unwrap()` inside the value parser never fails - whatever the ignore_case setting of
   the option, because from_str itself ignores the ASCII case; a possible value that is not a level name breaks this *)
Theorem c20_verbose_value_never_unwraps : forall s,
  vp_accepts (vp_of_field "verbose"%str) s = true -> level_from_str s <> None.
Proof. exact verbose_value_has_level. Qed.
Print Assumptions c20_verbose_value_never_unwraps.

(* the class of seeded C20-8, as a theorem: a case-insensitive enumerated parser in front of a case-sensitive match *)
Theorem c20_ignore_case_reaches_default_arm :
  exists s, vp_accepts (VPossible ["stable-basic"; "stable-all"; "unstable-all"]%str true) s = true /\
            features_match [("stable-basic", "stable_basic"); ("stable-all", "stable_all"); ("unstable-all", "unstable_all")]%str s = None.
Proof. exact ignore_case_reaches_default_arm. Qed.
Print Assumptions c20_ignore_case_reaches_default_arm.

(* what an accepted command line guarantees, for ANY grammar table: every value in the parsed record went through the
   value parser of an option of that name, at most one member of the group is present, the required positional is *)
Theorem c20_parsed_values_validated : forall spec group argv out, parse spec group argv = PParsed out ->
  Forall (valid_entry spec) out /\ (group_members_present group out <= 1)%nat /\ required_present spec out = true.
Proof. exact parse_valid. Qed.
Print Assumptions c20_parsed_values_validated.

(* a flag or a single-valued option given twice (in any spelling, anywhere on the command line) never reaches main():
   in the record of an accepted command line each of them occurs at most once *)
Theorem c20_single_options_at_most_once : forall argv out, parse CLI GROUP argv = PParsed out ->
  forall a, In a CLI -> single (a_kind a) = true -> (length (values_of out (a_field a)) <= 1)%nat.
Proof. exact cli_single_once. Qed.
Print Assumptions c20_single_options_at_most_once.

(* `--name=value` and `--name value` are the same command line, for every valued option of the regenerated table, at every
   place of the argument vector (the value must not look like an option: `-x`, `--x`; a lone `-` is a value) *)
Theorem c20_eq_form_same_as_space_form : forall name v rest acc a,
  find_long CLI name = Some a -> a_kind a <> KFlag -> looks_like_option v = false ->
  scan CLI (long_eq_form name v :: rest) false acc = scan CLI (long_form name :: v :: rest) false acc.
Proof. exact cli_eq_form_same_as_space_form. Qed.
Print Assumptions c20_eq_form_same_as_space_form.

(* the manual's reading of a command line IS what the parser computes.  A command line read item by item (--flag, --name=value,
   --name value, a positional word), each item given the meaning the manual gives it (item_effect: the option exists, takes (no)
   value, was not given before if it may be given once, the value passes its value parser and, in the space form, does not look like
   an option; a word goes to the next free positional), in ANY order and mix of forms: the tokenizer turns the rendered vector into
   exactly the record of those effects *)
Theorem c20_manual_reading_is_parsed : forall items out, items_effect CLI [] items = Some out ->
  (group_members_present GROUP out <= 1)%nat -> required_present CLI out = true ->
  parse CLI GROUP (render items) = PParsed out.
Proof. exact (manual_reading_is_parsed CLI GROUP). Qed.
Print Assumptions c20_manual_reading_is_parsed.

(* help / version take effect where they stand: behind any readable prefix, whatever follows and whatever is still missing;
   an unknown option in front of them wins *)
Theorem c20_help_where_it_stands : forall items out post, items_effect CLI [] items = Some out ->
  parse CLI GROUP (render items ++ "--help"%str :: post) = PHelp /\
  parse CLI GROUP (render items ++ "-h"%str :: post) = PHelp /\
  parse CLI GROUP (render items ++ "--version"%str :: post) = PVersion /\
  parse CLI GROUP (render items ++ "-V"%str :: post) = PVersion.
Proof. exact (help_where_it_stands CLI GROUP). Qed.
Print Assumptions c20_help_where_it_stands.

Theorem c20_unknown_option_rejected : forall items out name post, items_effect CLI [] items = Some out ->
  plain_name name = true -> name <> ""%str -> find_long CLI name = None ->
  parse CLI GROUP (render items ++ long_form name :: post) = PUsage.
Proof. exact (unknown_option_rejected CLI GROUP). Qed.
Print Assumptions c20_unknown_option_rejected.

(* behind `--` every token is a positional word, whatever it looks like (`-- --json` names a minidump called --json) *)
Theorem c20_after_dashdash_positional : forall items acc ws out,
  items_effect CLI [] items = Some acc -> words_effect CLI acc ws = Some out ->
  (group_members_present GROUP out <= 1)%nat -> required_present CLI out = true ->
  parse CLI GROUP (render items ++ "--"%str :: ws) = PParsed out.
Proof. exact (after_dashdash_positional CLI GROUP). Qed.
Print Assumptions c20_after_dashdash_positional.

(* a Vec field of struct Cli collects its occurrences in command-line order, and so they reach the symbol supplier: read off
   the command line item by item, the paths the supplier receives are the --symbols-path values (either form) in the order given,
   then the positional words behind the first (the minidump); the URLs are the --symbols-url values in the order given.  This
   closes the gap between the argument vector and c20_symbol_paths_in_given_order (which starts from an abstract argv). *)
Theorem c20_symbol_arguments_in_order : forall items out, items_effect CLI [] items = Some out ->
  values_of out "symbols_path"%str = opt_values "symbols-path"%str items /\
  values_of out "symbols_url"%str = opt_values "symbols-url"%str items /\
  values_of out "minidump"%str = firstn 1 (words items) /\
  values_of out "symbols_path_legacy"%str = tl (words items).
Proof. exact symbol_arguments_in_order. Qed.
Print Assumptions c20_symbol_arguments_in_order.

Theorem c20_argv_symbol_sources : forall pid items out, items_effect CLI [] items = Some out ->
  supplier_paths (supplier_of (sym_cli_of pid out)) =
    map pid (opt_values "symbols-path"%str items) ++ map pid (tl (words items)) /\
  supplier_urls (supplier_of (sym_cli_of pid out)) = map pid (opt_values "symbols-url"%str items).
Proof. exact argv_symbol_sources. Qed.
Print Assumptions c20_argv_symbol_sources.

(* end to end, from the command line to main(): a command line read item by item (any order, any mix of forms, options in front
   of or behind the minidump) and accepted by the parser runs main() on exactly the flag record the manual's reading gives - each
   flag is set iff it is given, --cyborg / --output-file / --log-file carry the value given.  With c20_plan_table, c20_rejections,
   c20_success_iff .. (all stated over flag records) this carries the documented table over to argument vectors. *)
Theorem c20_argv_to_flags : forall pid items out e, items_effect CLI [] items = Some out ->
  parse CLI GROUP (render items) = PParsed out ->
  exists f, stackwalk pid (render items) e = lift (run f e) /\
    f_human f = given "human"%str items /\ f_json f = given "json"%str items /\ f_dump f = given "dump"%str items /\
    f_help_md f = given "help-markdown"%str items /\ f_pretty f = given "pretty"%str items /\ f_brief f = given "brief"%str items /\
    f_recover f = given "recover-function-args"%str items /\
    f_cyborg f = option_map pid (first_value "cyborg"%str items) /\
    f_output_file f = option_map pid (first_value "output-file"%str items) /\
    f_log_file f = option_map pid (first_value "log-file"%str items).
Proof. exact argv_to_flags. Qed.
Print Assumptions c20_argv_to_flags.

(* rejections, where they stand (behind any readable prefix, whatever follows - a later --help included): a flag or single-valued
   option the prefix already holds, in either form and with any value; a value the option's value parser refuses, in either form *)
Theorem c20_repeated_option_rejected : forall items out name a post,
  items_effect CLI [] items = Some out -> plain_name name = true -> find_long CLI name = Some a ->
  single (a_kind a) = true -> has_field out (a_field a) = true ->
  parse CLI GROUP (render items ++ long_form name :: post) = PUsage /\
  (forall v, parse CLI GROUP (render items ++ long_eq_form name v :: post) = PUsage).
Proof. exact (repeated_option_rejected CLI GROUP). Qed.
Print Assumptions c20_repeated_option_rejected.

Theorem c20_invalid_value_rejected : forall items out name a v post,
  items_effect CLI [] items = Some out -> plain_name name = true -> find_long CLI name = Some a ->
  a_kind a <> KFlag -> vp_accepts (a_vp a) v = false ->
  parse CLI GROUP (render items ++ long_eq_form name v :: post) = PUsage /\
  parse CLI GROUP (render items ++ long_form name :: v :: post) = PUsage.
Proof. exact (invalid_value_rejected CLI GROUP). Qed.
Print Assumptions c20_invalid_value_rejected.

(* the code as it is: --features takes exactly its three documented spellings; EVERY other value (another case, cut short, a
   blank, a quote ..) is a usage error wherever it stands - so by c20_argv_outcomes no sink is opened and no report byte written *)
Theorem c20_features_near_miss_rejected : forall items out v post, items_effect CLI [] items = Some out ->
  ~ In v ["stable-basic"; "stable-all"; "unstable-all"]%str ->
  parse CLI GROUP (render items ++ long_eq_form "features"%str v :: post) = PUsage /\
  parse CLI GROUP (render items ++ "--features"%str :: v :: post) = PUsage.
Proof. exact cli_near_miss_rejected. Qed.
Print Assumptions c20_features_near_miss_rejected.

(* every argument vector, every environment: the process ends through clap (usage error: status 2, one message on
   standard error, NOTHING else happens - no sink is opened, no report byte; help / version: status 0, text on standard
   output, no sink opened - not even the --log-file) or reaches main()'s logic with a flag record *)
Theorem c20_argv_outcomes : forall pid argv e,
  (parse CLI GROUP argv = PUsage /\ stackwalk pid argv e = ([ClapMessage false], 2)) \/
  ((parse CLI GROUP argv = PHelp \/ parse CLI GROUP argv = PVersion) /\ stackwalk pid argv e = ([ClapMessage true], 0)) \/
  (exists acc f, parse CLI GROUP argv = PParsed acc /\ interpret pid DEFAULTS ARMS (PParsed acc) = CliFlags f /\
                 stackwalk pid argv e = lift (run f e)).
Proof. exact stackwalk_cases. Qed.
Print Assumptions c20_argv_outcomes.

(* never by panic, at full strength: for EVERY argument vector and EVERY environment no panic site is reached (unwrap in the
   --verbose parser, unimplemented!() behind --features; --help-markdown's expect is gone, F-C20e) and the exit status is 0, 1 or 2 *)
Theorem c20_argv_never_panics : forall pid argv e,
  existsb is_cli_panic (fst (stackwalk pid argv e)) = false /\
  (snd (stackwalk pid argv e) = 0 \/ snd (stackwalk pid argv e) = 1 \/ snd (stackwalk pid argv e) = 2).
Proof. exact argv_never_panics. Qed.
Print Assumptions c20_argv_never_panics.

(* every sink is opened before the first report byte, in every mode and every environment: in the trace of main() no
   File::create comes after a printer call (seeded C20-7 moved one behind the human report) *)
Theorem c20_sinks_opened_before_first_report_byte : forall f e l1 p l2,
  fst (run f e) = l1 ++ Create p :: l2 -> forall ev, In ev l1 -> is_render ev = false.
Proof. intros f e. exact (opens_first_spec _ (sinks_opened_before_first_report_byte f e)). Qed.
Print Assumptions c20_sinks_opened_before_first_report_byte.

(* hence: a --log-file / --cyborg / --output-file path that cannot be created (missing parent, a directory, no
   permission, a symlink loop) means no report byte on ANY sink, and not a panic *)
Theorem c20_uncreatable_sink_no_report : forall f e pl p, decide f = Plan pl ->
  In p (opt_list (f_log_file f) ++ p_creates pl) -> e_create e p <> IoOk ->
  existsb is_render (fst (run f e)) = false /\ snd (run f e) <> 101.
Proof. exact uncreatable_sink_no_report. Qed.
Print Assumptions c20_uncreatable_sink_no_report.

(* the diagnostics: a run prints at most one; the logger's fatal message (what a --log-file receives at the default level) has
   exactly three causes - main's own rejection of --pretty / --brief, a dump that does not read, a dump that does not process *)
Theorem c20_at_most_one_diagnostic : forall f e, (count_diag (fst (run f e)) <= 1)%nat.
Proof. exact at_most_one_diagnostic. Qed.
Print Assumptions c20_at_most_one_diagnostic.

Theorem c20_logger_diagnostic_cause : forall f e, In (Diag Logger) (fst (run f e)) ->
  (exists r, decide f = Rejected r /\ r <> UsageConflict) \/
  (exists p, decide f = Plan p /\ (e_read e = false \/ (e_read e = true /\ p_process p = true /\ e_process e = false))).
Proof. exact logger_diag_cause. Qed.
Print Assumptions c20_logger_diagnostic_cause.

(* ---- non-vacuity ---- *)
Example c20_nonvacuous_prestate :
  let f := {| f_human := false; f_json := true; f_cyborg := None; f_dump := false; f_help_md := false;
              f_pretty := false; f_brief := false; f_features := StableBasic; f_recover := false;
              f_output_file := Some 1; f_log_file := None; f_verbose_off := false |} in
  let e := {| e_create := fun _ => IoOk; e_read := true; e_process := true; e_write := fun _ _ => IoOk; e_partial := fun _ _ => false |} in
  let rd := {| r_bytes := fun r => match r with Json false => [10; 11] | _ => [0] end; r_prefix := fun _ _ => [] |} in
  let s0 : fsys := fun p => if p =? 1 then Some [90; 91; 92; 93; 94; 95] else None in
  snd (run f e) = 0 /\
  fs_after file_create rd s0 (fst (run f e)) 1 = Some [10; 11] /\
  fs_after no_truncate rd s0 (fst (run f e)) 1 = Some [10; 11; 92; 93; 94; 95].
Proof. repeat split. Qed.

Example c20_nonvacuous_symbol_order :
  let argv := [AOther; APositional 3; ASymbolsPath 2; APositional 1; ASymbolsUrl 9; ASymbolsPath 3] in
  supplier_paths (supplier_of (parse_sym argv None None 1000)) = [2; 3; 3; 1] /\
  supplier_urls (supplier_of (parse_sym argv None None 1000)) = [9] /\
  store_used (fun p => negb (p =? 2)) argv = Some 3 /\
  store_used (fun _ => true) [APositional 3; APositional 1] = Some 3.
Proof. repeat split. Qed.


Example c20_nonvacuous_cyborg :
  let f := {| f_human := false; f_json := false; f_cyborg := Some 2; f_dump := false; f_help_md := false;
              f_pretty := true; f_brief := true; f_features := StableBasic; f_recover := false;
              f_output_file := Some 1; f_log_file := None; f_verbose_off := false |} in
  let e := {| e_create := fun _ => IoOk; e_read := true; e_process := true; e_write := fun _ _ => IoOk; e_partial := fun _ _ => false |} in
  accepted f /\ clean e /\
  run f e = ([Create 2; Create 1; Written (File 1) HumanBrief; Written (File 2) (Json true)], 0).
Proof. split; [split; [vm_compute; discriminate|reflexivity]|]. split; [split; reflexivity|reflexivity]. Qed.

Example c20_nonvacuous_unstable_all :
  exists p, decide {| f_human := false; f_json := false; f_cyborg := None; f_dump := false; f_help_md := false;
                      f_pretty := false; f_brief := false; f_features := UnstableAll; f_recover := false;
                      f_output_file := None; f_log_file := None; f_verbose_off := false |} = Plan p /\
            po_recover (p_opts p) = true.
Proof. eexists. split; reflexivity. Qed.

Example c20_nonvacuous_failures :
  let f := {| f_human := false; f_json := true; f_cyborg := None; f_dump := false; f_help_md := false;
              f_pretty := false; f_brief := false; f_features := StableAll; f_recover := false;
              f_output_file := Some 1; f_log_file := None; f_verbose_off := false |} in
  let e r p w := {| e_create := fun _ => IoOk; e_read := r; e_process := p; e_write := fun _ _ => w; e_partial := fun _ _ => false |} in
  run f (e false true IoOk) = ([Diag Logger], 1) /\
  run f (e true false IoOk) = ([Create 1; Diag Logger], 1) /\
  run f (e true true IoErr) = ([Create 1; WriteFailed (File 1) (Json false); Diag Stderr], 1) /\
  run f (e true true IoBrokenPipe) = ([Create 1; WriteFailed (File 1) (Json false)], 0).
Proof. repeat split. Qed.

Example c20_nonvacuous_argv :
  let pid := fun s => if str_eqb s "o.txt"%str then 1 else if str_eqb s "c.json"%str then 2 else 3 in
  let e := {| e_create := fun _ => IoOk; e_read := true; e_process := true; e_write := fun _ _ => IoOk; e_partial := fun _ _ => false |} in
  let ebad := {| e_create := fun p => if p =? 2 then IoErr else IoOk; e_read := true; e_process := true; e_write := fun _ _ => IoOk; e_partial := fun _ _ => false |} in
  stackwalk pid ["--cyborg"; "c.json"; "--features=unstable-all"; "--brief"; "a.dmp"; "--output-file"; "o.txt"; "syms"]%str e =
    ([MainEv (Create 2); MainEv (Create 1); MainEv (Written (File 1) HumanBrief); MainEv (Written (File 2) (Json false))], 0) /\
  stackwalk pid ["--cyborg"; "c.json"; "a.dmp"]%str ebad = ([MainEv (Diag Stderr)], 1) /\
  stackwalk pid ["--features"; "Stable-All"; "a.dmp"]%str e = ([ClapMessage false], 2) /\
  stackwalk pid ["--features=stable-all "; "a.dmp"]%str e = ([ClapMessage false], 2) /\
  stackwalk pid ["--json"; "--json"; "a.dmp"]%str e = ([ClapMessage false], 2) /\
  stackwalk pid ["--verbose"; "trace"; "--verbose=trace"; "a.dmp"]%str e = ([ClapMessage false], 2) /\
  stackwalk pid ["--json"; "--human"; "a.dmp"]%str e = ([ClapMessage false], 2) /\
  stackwalk pid ["--log-file"; "l.txt"; "--json"; "--human"; "--help"; "--bogus"]%str e = ([ClapMessage true], 0) /\
  stackwalk pid ["--bogus"; "--help"]%str e = ([ClapMessage false], 2) /\
  stackwalk pid ["--output-file"; "--json"; "a.dmp"]%str e = ([ClapMessage false], 2) /\
  stackwalk pid ["--"; "--json"]%str e = ([MainEv (Written Stdout Human)], 0) /\
  stackwalk pid ["--pretty"; "a.dmp"]%str e = ([MainEv (Diag Logger)], 1).
Proof. repeat split. Qed.

Example c20_nonvacuous_manual_reading :
  let items := [IOptSp "cyborg" "c.json"; IOptEq "features" "unstable-all"; IFlag "brief"; IWord "a.dmp";
                IOptSp "output-file" "o.txt"; IWord "syms"; IOptEq "symbols-path" "more"; IOptSp "symbols-path" "-"]%str in
  let out := [("cyborg", "c.json"); ("features", "unstable-all"); ("brief", ""); ("minidump", "a.dmp"); ("output_file", "o.txt");
              ("symbols_path_legacy", "syms"); ("symbols_path", "more"); ("symbols_path", "-")]%str in
  items_effect CLI [] items = Some out /\
  render items = ["--cyborg"; "c.json"; "--features=unstable-all"; "--brief"; "a.dmp"; "--output-file"; "o.txt"; "syms";
                  "--symbols-path=more"; "--symbols-path"; "-"]%str /\
  parse CLI GROUP (render items) = PParsed out /\
  parse CLI GROUP (render items ++ ["--help"; "--bogus"]%str) = PHelp /\
  supplier_paths (supplier_of (sym_cli_of (fun s => if str_eqb s "more"%str then 5 else if str_eqb s "-"%str then 6 else 7) out)) = [5; 6; 7] /\
  items_effect CLI [] [IFlag "json"; IFlag "json"; IWord "a.dmp"]%str = None /\
  items_effect CLI [] [IOptEq "features" "Stable-All"; IWord "a.dmp"]%str = None /\
  find_long CLI "feature"%str = None.
Proof. repeat split. Qed.

(* ---- round 5, second pass ---- *)

(* the two known findings as EXACT classes (C20/Findings.v): an executable classifier over (flags, environment) that is true
   exactly for the runs that violate the clause - every flag record, every environment.
   F-C20b: a failing run whose diagnostic is visible nowhere  <->  --verbose=off and the run ends in one of main.rs's three
   `error!(..); exit(1)` tails (a rejected --pretty / --brief combination, a read error, a processing error; the log file, if
   any, could be created).  No other failing run is silent: usage errors and io errors go straight to standard error. *)
Theorem c20_silent_failure_exactly_known_b : forall f e,
  (snd (run f e) <> 0 /\ ~ diag_visible f (fst (run f e))) <-> known_b f e = true.
Proof. exact silent_failure_iff. Qed.
Print Assumptions c20_silent_failure_exactly_known_b.

Theorem c20_known_b_reading : forall f e, known_b f e = true ->
  f_verbose_off f = true /\
  ((exists r, decide f = Rejected r /\ r <> UsageConflict) \/
   (exists p, decide f = Plan p /\
      (e_read e = false \/ (e_read e = true /\ p_process p = true /\ e_process e = false /\ creates_ok e (p_creates p) = true)))) /\
  creates_ok e (opt_list (f_log_file f)) = true.
Proof. exact known_b_reading. Qed.
Print Assumptions c20_known_b_reading.

(* F-C20d: a failing run that leaves report bytes on the primary output  <->  every sink was created, the dump was read (and
   processed), and the FIRST failing printer call is an io error (not a broken pipe) that is either (B) the primary report's own
   call after it had streamed a prefix, or (A) the --cyborg file's JSON after the primary report was written completely *)
Theorem c20_dirty_failure_exactly_known_d : forall f e, f_help_md f = false ->
  (snd (run f e) <> 0 /\ sink_dirty e (writer_of f) (fst (run f e))) <-> known_d f e = true.
Proof. exact dirty_failure_iff. Qed.
Print Assumptions c20_dirty_failure_exactly_known_d.

Theorem c20_known_d_reading : forall f e, known_d f e = true ->
  exists p r, decide f = Plan p /\ p_primary p = [r] /\ e_read e = true /\
    ((e_write e (p_writer p) r = IoErr /\ e_partial e (p_writer p) r = true) \/
     (e_write e (p_writer p) r = IoOk /\ exists c rj, p_secondary p = Some (c, rj) /\ e_write e (File c) rj = IoErr)).
Proof. exact known_d_reading. Qed.
Print Assumptions c20_known_d_reading.

(* ... and such a run does say so: status 1 with `Error: ..` on standard error *)
Theorem c20_known_d_status : forall f e, f_help_md f = false -> known_d f e = true ->
  snd (run f e) = 1 /\ In (Diag Stderr) (fst (run f e)).
Proof. exact known_d_status. Qed.
Print Assumptions c20_known_d_status.

(* from the argument vector to the HTTP symbol supplier: --symbols-cache / --symbols-tmp / --symbols-download-timeout-secs read
   off the command line are what http_symbol_supplier receives, with the documented defaults (temp_dir/rust-minidump-cache,
   temp_dir, 1000 s) when not given; the HTTP supplier iff a --symbols-url is given *)
Theorem c20_argv_http_arguments : forall pid items out, items_effect CLI [] items = Some out ->
  sc_symbols_cache (sym_cli_of pid out) = option_map pid (first_value "symbols-cache"%str items) /\
  sc_symbols_tmp (sym_cli_of pid out) = option_map pid (first_value "symbols-tmp"%str items) /\
  sc_timeout (sym_cli_of pid out) =
    match first_value "symbols-download-timeout-secs"%str items with Some s => secs_of s | None => 1000%Z end.
Proof. exact argv_http_arguments. Qed.
Print Assumptions c20_argv_http_arguments.

Theorem c20_argv_supplier : forall pid items out, items_effect CLI [] items = Some out ->
  let paths := (map pid (opt_values "symbols-path"%str items) ++ map pid (tl (words items)))%list in
  let urls := map pid (opt_values "symbols-url"%str items) in
  supplier_of (sym_cli_of pid out) =
    match urls with
    | _ :: _ =>
        HttpSupplier paths urls
          (match first_value "symbols-cache"%str items with Some d => GivenDir (pid d) | None => TempDirCache end)
          (match first_value "symbols-tmp"%str items with Some d => GivenDir (pid d) | None => TempDir end)
          (match first_value "symbols-download-timeout-secs"%str items with Some s => secs_of s | None => 1000%Z end)
    | [] => match paths with _ :: _ => SimpleSupplier paths | [] => NoSupplier end
    end.
Proof. exact argv_supplier. Qed.
Print Assumptions c20_argv_supplier.

(* ... and from the TOKEN VECTOR itself: Cli::parse() on the rendered command line yields the record that supplier is built from *)
Theorem c20_tokens_to_supplier : forall pid items out, items_effect CLI [] items = Some out ->
  (group_members_present GROUP out <= 1)%nat -> required_present CLI out = true ->
  exists acc, parse CLI GROUP (render items) = PParsed acc /\
    supplier_of (sym_cli_of pid acc) =
      match map pid (opt_values "symbols-url"%str items) with
      | _ :: _ =>
          HttpSupplier (map pid (opt_values "symbols-path"%str items) ++ map pid (tl (words items)))%list
            (map pid (opt_values "symbols-url"%str items))
            (match first_value "symbols-cache"%str items with Some d => GivenDir (pid d) | None => TempDirCache end)
            (match first_value "symbols-tmp"%str items with Some d => GivenDir (pid d) | None => TempDir end)
            (match first_value "symbols-download-timeout-secs"%str items with Some s => secs_of s | None => 1000%Z end)
      | [] => match (map pid (opt_values "symbols-path"%str items) ++ map pid (tl (words items)))%list with
              | _ :: _ => SimpleSupplier (map pid (opt_values "symbols-path"%str items) ++ map pid (tl (words items)))%list
              | [] => NoSupplier end
      end.
Proof. exact tokens_to_supplier. Qed.
Print Assumptions c20_tokens_to_supplier.

(* ---- the --dump mode (print_minidump_dump, main.rs) as a program regenerated from the source (Gen/C20DumpProg.v) and
   interpreted by C20/DumpModel.v; a minidump is seen through what get_stream::<T>() / get_raw_stream answer per stream kind.
   The printers that run, in order, for EVERY such view: *)
Theorem c20_dump_sections_table : forall view,
  sections RM.Gen.C20DumpProg.DUMP_PROG view = documented_sections view.
Proof. exact sections_table. Qed.
Print Assumptions c20_dump_sections_table.

(* every stream kind of the 16 typed and 8 raw ones is printed exactly once when it can be read and not at all otherwise
   (also the two memory lists, whatever combination of them exists: the take() / or_else logic loses and duplicates nothing) *)
Theorem c20_dump_each_stream_once : forall view,
  (forall t, In t typed_kinds ->
     count_sec (SecStream t) (sections RM.Gen.C20DumpProg.DUMP_PROG view) = if present view t then 1%nat else 0%nat) /\
  (forall n, In n raw_kinds ->
     count_sec (SecRaw n) (sections RM.Gen.C20DumpProg.DUMP_PROG view) = if present view n then 1%nat else 0%nat).
Proof. intro view. split; [exact (typed_stream_once view)|exact (raw_stream_once view)]. Qed.
Print Assumptions c20_dump_each_stream_once.

(* ... and nothing else is printed *)
Theorem c20_dump_only_documented_sections : forall view s,
  In s (sections RM.Gen.C20DumpProg.DUMP_PROG view) -> section_ok view s.
Proof. exact only_documented_sections. Qed.
Print Assumptions c20_dump_only_documented_sections.

(* `if let Some(memory64_list) = memory64_list { .. }` (statement 12 of the regenerated program) is dead code *)
Theorem c20_dump_memory64_branch_dead :
  nth_error RM.Gen.C20DumpProg.DUMP_PROG 12 = Some (SPrintVar "memory64_list"%str) /\
  forall view, sections PROG_without_memory64_branch view = sections RM.Gen.C20DumpProg.DUMP_PROG view.
Proof. split; [exact memory64_branch_is_step_12|exact memory64_branch_dead]. Qed.
Print Assumptions c20_dump_memory64_branch_dead.

(* io errors in the middle of the dump, any number of sections, any failing call: what reached the sink is whole sections in
   order and then the beginning of the one whose printer failed - a prefix of the complete dump (F-C20d, class B, for --dump);
   with no failing call it is the complete dump *)
Theorem c20_dump_io_error_leaves_prefix : forall rd wr cut secs,
  (exists tail, dump_text rd secs = fst (write_all rd wr cut 0 secs) ++ tail) /\
  ((forall j, wr j = IoOk) -> write_all rd wr cut 0 secs = (dump_text rd secs, IoOk)) /\
  (snd (write_all rd wr cut 0 secs) <> IoOk ->
     exists done s rest, secs = done ++ s :: rest /\
       fst (write_all rd wr cut 0 secs) = dump_text rd done ++ firstn (cut (length done)) (rd s) /\
       snd (write_all rd wr cut 0 secs) = wr (length done) /\ forall j, (j < length done)%nat -> wr j = IoOk).
Proof.
  intros rd wr cut secs. split; [exact (write_all_is_prefix_of_dump rd wr cut secs)|].
  split; [exact (write_all_ok rd wr cut secs 0)|].
  intro Hne. destruct (write_all_prefix rd wr cut secs 0) as [dn [rest [part [H1 [H2 [_ H4]]]]]].
  destruct (H4 Hne) as [s [rest' [A [B [C D]]]]]. exists dn, s, rest'. subst rest part. cbn in *. repeat split; assumption.
Qed.
Print Assumptions c20_dump_io_error_leaves_prefix.

(* the three models put together for `minidump-stackwalk --dump [--brief] --output-file out <dump>` (any --features / --verbose, any
   minidump view, any text per printer, any io behaviour of the sink, ANY file system found): the output file holds exactly what the
   printer calls of the regenerated program wrote before the first failing one - the complete dump when none fails - and the status
   is 1 exactly for an io error that is not a broken pipe *)
Theorem c20_dump_run_end_to_end : forall (brief : bool) out feat rec voff view rdr wr cut e (s0 : fsys),
  e_read e = true -> e_create e out = IoOk ->
  let secs := sections RM.Gen.C20DumpProg.DUMP_PROG view in
  let r := if brief then DumpBrief else Dump in
  let res := write_all rdr wr cut 0 secs in
  e_write e (File out) r = snd res ->
  let rd := {| r_bytes := fun _ => dump_text rdr secs; r_prefix := fun _ _ => fst res |} in
  let f := dump_flags brief (Some out) feat rec voff in
  fs_after file_create rd s0 (fst (run f e)) out = Some (fst res) /\
  snd (run f e) = (match snd res with IoErr => 1 | _ => 0 end) /\
  (exists tail, dump_text rdr secs = fst res ++ tail) /\
  (snd res = IoOk -> fst res = dump_text rdr secs).
Proof. exact dump_run_end_to_end. Qed.
Print Assumptions c20_dump_run_end_to_end.

Example c20_nonvacuous_findings :
  let fb := {| f_human := false; f_json := false; f_cyborg := None; f_dump := false; f_help_md := false;
               f_pretty := true; f_brief := false; f_features := StableBasic; f_recover := false;
               f_output_file := None; f_log_file := Some 3; f_verbose_off := true |} in
  let e0 := {| e_create := fun _ => IoOk; e_read := true; e_process := true; e_write := fun _ _ => IoOk; e_partial := fun _ _ => false |} in
  let fd := {| f_human := false; f_json := false; f_cyborg := Some 2; f_dump := false; f_help_md := false;
               f_pretty := false; f_brief := true; f_features := StableBasic; f_recover := false;
               f_output_file := Some 1; f_log_file := None; f_verbose_off := false |} in
  let ed := {| e_create := fun _ => IoOk; e_read := true; e_process := true;
               e_write := fun w _ => match w with File 2 => IoErr | _ => IoOk end; e_partial := fun _ _ => false |} in
  let ep := {| e_create := fun _ => IoOk; e_read := true; e_process := true;
               e_write := fun w _ => match w with File 2 => IoBrokenPipe | _ => IoOk end; e_partial := fun _ _ => false |} in
  known_b fb e0 = true /\ run fb e0 = ([Create 3; Diag Logger], 1) /\ known_d fb e0 = false /\
  known_d fd ed = true /\ run fd ed = ([Create 2; Create 1; Written (File 1) HumanBrief; WriteFailed (File 2) (Json false); Diag Stderr], 1) /\
  known_d fd ep = false /\ snd (run fd ep) = 0 /\ known_b fd ed = false.
Proof. repeat split. Qed.

Example c20_nonvacuous_dump :
  let view : dump_view := fun t =>
    if existsb (str_eqb t) ["MinidumpSystemInfo"; "MinidumpThreadList"; "MinidumpModuleList"; "MinidumpMemoryList";
                            "MinidumpMemory64List"; "MinidumpException"; "LinuxMaps"]%str then SPresent
    else if str_eqb t "MinidumpCrashpadInfo"%str then SBroken else SMissing in
  let rd : section -> bytes := fun s => match s with SecHeader => [1; 2] | SecStream _ => [3; 4; 5] | SecLit _ => [6] | SecRaw _ => [7; 8] end in
  sections RM.Gen.C20DumpProg.DUMP_PROG view =
    [SecHeader; SecStream "MinidumpThreadList"; SecStream "MinidumpModuleList"; SecStream "MinidumpMemory64List";
     SecStream "MinidumpMemoryList"; SecStream "MinidumpException"; SecStream "MinidumpSystemInfo";
     SecLit "MinidumpCrashpadInfo cannot print invalid data"; SecRaw "LinuxMaps"]%str /\
  write_all rd (fun k => if Nat.eqb k 2 then IoErr else IoOk) (fun _ => 1%nat) 0 (sections RM.Gen.C20DumpProg.DUMP_PROG view) =
    ([1; 2; 3; 4; 5; 3], IoErr) /\
  length RM.Gen.C20DumpProg.DUMP_PROG = 31%nat.
Proof. repeat split. Qed.

Example c20_nonvacuous_http_arguments :
  let items := [IOptSp "symbols-url" "http://a/"; IWord "a.dmp"; IOptEq "symbols-cache" "c"; IWord "syms";
                IOptSp "symbols-download-timeout-secs" "007"; IOptEq "symbols-url" "http://b/"]%str in
  let pid := fun s => if str_eqb s "c"%str then 5 else if str_eqb s "syms"%str then 6 else if str_eqb s "http://a/"%str then 7 else 8 in
  exists out, items_effect CLI [] items = Some out /\
    supplier_of (sym_cli_of pid out) = HttpSupplier [6] [7; 8] (GivenDir 5) TempDir 7.
Proof. eexists. split; [reflexivity|reflexivity]. Qed.
