(* C20/DumpSpec.v — the vocabulary in which translate/c20_dump_sequence.py writes down print_minidump_dump
   (minidump-stackwalk/src/main.rs, the --dump mode) as a program.  Definitions only. *)
From RM Require Import C20.ClapSpec.

Inductive dstep :=
| SHeader                                  (* dump.print(output)?; *)
| SLoad (var stream : str)                 (* let [mut] var = dump.get_stream::<stream>().ok(); *)
| SUnify (dest first second : str)         (* let dest = first.take().map(Memory64).or_else(|| second.take().map(Memory)); *)
| SPrintGet (stream : str)                 (* if let Ok(x) = dump.get_stream::<stream>() { x.print(..)?; } *)
| SPrintVar (var : str)                    (* if let Some(x) = var { x.print(..)?; } *)
| SPrintGetOrLit (stream lit : str)        (* match dump.get_stream::<stream>() { Ok(x) => x.print(output)?,
                                                Err(Error::StreamNotFound) => (), Err(_) => write!(output, lit)?, } *)
| SRaw (name : str).                       (* if let Ok(contents) = dump.get_raw_stream(name as u32) { print_raw_stream(..)?; } *)
