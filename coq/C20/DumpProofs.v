(* C20/DumpProofs.v — lemmas about the --dump mode (C20/DumpModel.v) over the program regenerated from main.rs. *)
From Coq Require Import List ZArith Bool Lia.
Import ListNotations.
From RM Require Import C20.Model C20.ClapSpec C20.DumpSpec C20.DumpModel.
From RM Require Gen.C20DumpProg.
Local Open Scope str_scope.

Definition PROG := RM.Gen.C20DumpProg.DUMP_PROG.

(* the four streams that are loaded into variables decide the control flow; everything else is one lookup per statement *)
Ltac loaded_cases view :=
  unfold present;
  destruct (view "MinidumpSystemInfo"), (view "MinidumpMemoryList"), (view "MinidumpMemory64List"), (view "MinidumpMiscInfo").

Lemma sections_table : forall view, sections PROG view = documented_sections view.
Proof.
  intro view. unfold sections, PROG, RM.Gen.C20DumpProg.DUMP_PROG, documented_sections, when_present, when_raw.
  cbn [dprog_sem dstep_sem]. rewrite app_nil_r. loaded_cases view; vm_compute; reflexivity.
Qed.

(* ---- every stream that can be read is printed exactly once, one that cannot is not printed *)
Lemma count_app : forall s a b, count_sec s (a ++ b) = (count_sec s a + count_sec s b)%nat.
Proof. intros. unfold count_sec. rewrite filter_app, app_length. reflexivity. Qed.
Lemma count_if : forall s (c : bool) a b, count_sec s (if c then a else b) = if c then count_sec s a else count_sec s b.
Proof. intros. destruct c; reflexivity. Qed.
Lemma count_when_present : forall s view x,
  count_sec s (when_present view x) = if section_eqb s (SecStream x) then (if present view x then 1 else 0)%nat else 0%nat.
Proof.
  intros. unfold when_present, count_sec. destruct (present view x); cbn; [|destruct (section_eqb s (SecStream x)); reflexivity].
  destruct (section_eqb s (SecStream x)); reflexivity.
Qed.
Lemma count_when_raw : forall s view x,
  count_sec s (when_raw view x) = if section_eqb s (SecRaw x) then (if present view x then 1 else 0)%nat else 0%nat.
Proof.
  intros. unfold when_raw, count_sec. destruct (present view x); cbn; [|destruct (section_eqb s (SecRaw x)); reflexivity].
  destruct (section_eqb s (SecRaw x)); reflexivity.
Qed.

Ltac view_cases :=
  repeat match goal with |- context [match ?v ?x with SPresent => _ | SMissing => _ | SBroken => _ end] => destruct (v x) end.

Lemma typed_stream_once : forall view t, In t typed_kinds ->
  count_sec (SecStream t) (sections PROG view) = if present view t then 1%nat else 0%nat.
Proof.
  intros view t Hin. rewrite sections_table. unfold documented_sections.
  rewrite !count_app, count_if, !count_app, !count_when_present, !count_when_raw.
  unfold typed_kinds in Hin. cbn [In] in Hin.
  repeat (destruct Hin as [Hin|Hin]; [subst t; unfold present; vm_compute; view_cases; reflexivity|]). destruct Hin.
Qed.
Lemma raw_stream_once : forall view n, In n raw_kinds ->
  count_sec (SecRaw n) (sections PROG view) = if present view n then 1%nat else 0%nat.
Proof.
  intros view t Hin. rewrite sections_table. unfold documented_sections.
  rewrite !count_app, count_if, !count_app, !count_when_present, !count_when_raw.
  unfold raw_kinds in Hin. cbn [In] in Hin.
  repeat (destruct Hin as [Hin|Hin]; [subst t; unfold present; vm_compute; view_cases; reflexivity|]). destruct Hin.
Qed.

(* nothing else is printed: every section is the header, a readable stream of one of the 16 typed kinds, a raw stream that
   is there, or the one fixed text (exactly when the Crashpad stream is there but unreadable) *)
Definition section_ok (view : dump_view) (s : section) : Prop :=
  match s with
  | SecHeader => True
  | SecStream t => In t typed_kinds /\ view t = SPresent
  | SecRaw n => In n raw_kinds /\ view n = SPresent
  | SecLit _ => view "MinidumpCrashpadInfo" = SBroken
  end.
Lemma in_when_present : forall view x s, In s (when_present view x) -> s = SecStream x /\ view x = SPresent.
Proof.
  intros view x s. unfold when_present, present. destruct (view x); cbn; intros H; try contradiction.
  destruct H as [H|[]]. split; [symmetry; exact H|reflexivity].
Qed.
Lemma in_when_raw : forall view x s, In s (when_raw view x) -> s = SecRaw x /\ view x = SPresent.
Proof.
  intros view x s. unfold when_raw, present. destruct (view x); cbn; intros H; try contradiction.
  destruct H as [H|[]]. split; [symmetry; exact H|reflexivity].
Qed.
Lemma only_documented_sections : forall view s, In s (sections PROG view) -> section_ok view s.
Proof.
  intros view s H. rewrite sections_table in H. unfold documented_sections in H.
  repeat (apply in_app_or in H; destruct H as [H|H]);
    try (apply in_when_present in H; destruct H as [-> Hv]; cbn; split; [unfold typed_kinds; cbn; tauto|exact Hv]);
    try (apply in_when_raw in H; destruct H as [-> Hv]; cbn; split; [unfold raw_kinds; cbn; tauto|exact Hv]).
  - destruct H as [<-|[]]. exact I.
  - unfold present in H. destruct (view "MinidumpMemory64List") eqn:E64.
    + apply in_app_or in H. destruct H as [[<-|[]]|H]; [cbn; split; [unfold typed_kinds; cbn; tauto|exact E64]|].
      apply in_when_present in H. destruct H as [-> Hv]. cbn. split; [unfold typed_kinds; cbn; tauto|exact Hv].
    + apply in_when_present in H. destruct H as [-> Hv]. cbn. split; [unfold typed_kinds; cbn; tauto|exact Hv].
    + apply in_when_present in H. destruct H as [-> Hv]. cbn. split; [unfold typed_kinds; cbn; tauto|exact Hv].
  - destruct (view "MinidumpCrashpadInfo") eqn:E; cbn in H; try contradiction; destruct H as [<-|[]]; cbn.
    + split; [unfold typed_kinds; cbn; tauto|exact E].
    + exact E.
Qed.

(* the statement `if let Some(memory64_list) = memory64_list { .. }` never prints: memory64_list.take() has emptied the
   variable (dead code; the 64-bit list is printed through the unified list) *)
Definition PROG_without_memory64_branch := firstn 12 PROG ++ skipn 13 PROG.
Lemma memory64_branch_is_step_12 : nth_error PROG 12 = Some (SPrintVar "memory64_list").
Proof. reflexivity. Qed.
Lemma memory64_branch_dead : forall view, sections PROG_without_memory64_branch view = sections PROG view.
Proof.
  intro view. rewrite sections_table.
  unfold sections, PROG_without_memory64_branch, PROG, RM.Gen.C20DumpProg.DUMP_PROG, documented_sections, when_present, when_raw.
  cbn [firstn skipn app dprog_sem dstep_sem]. rewrite app_nil_r. loaded_cases view; vm_compute; reflexivity.
Qed.

(* ---- io errors in the middle of the dump *)
Lemma write_all_ok : forall rd wr cut secs k, (forall j, wr j = IoOk) ->
  write_all rd wr cut k secs = (dump_text rd secs, IoOk).
Proof.
  intros rd wr cut secs. induction secs as [|s r IH]; intros k H; cbn; [reflexivity|].
  rewrite (H k), (IH (S k) H). reflexivity.
Qed.
(* whatever happens, what reached the sink is a prefix of the complete dump: whole sections in order, then possibly the
   beginning of the next one *)
Lemma write_all_prefix : forall rd wr cut secs k,
  exists done rest part, secs = done ++ rest /\
    fst (write_all rd wr cut k secs) = dump_text rd done ++ part /\
    (snd (write_all rd wr cut k secs) = IoOk -> rest = [] /\ part = []) /\
    (snd (write_all rd wr cut k secs) <> IoOk ->
       exists s rest', rest = s :: rest' /\ part = firstn (cut (k + length done)%nat) (rd s) /\
                       snd (write_all rd wr cut k secs) = wr (k + length done)%nat /\
                       forall j, (j < length done)%nat -> wr (k + j)%nat = IoOk).
Proof.
  intros rd wr cut secs. induction secs as [|s r IH]; intros k; cbn.
  - exists [], [], []. repeat split; try reflexivity. intros H; congruence.
  - destruct (wr k) eqn:Ek.
    + destruct (IH (S k)) as [dn [rest [part [H1 [H2 [H3 H4]]]]]].
      destruct (write_all rd wr cut (S k) r) as [b res] eqn:Ew. cbn [fst snd] in *.
      exists (s :: dn), rest, part. split; [cbn; rewrite H1; reflexivity|]. split; [cbn; rewrite H2, app_assoc; reflexivity|].
      split; [exact H3|]. intros Hne. destruct (H4 Hne) as [s' [rest' [A [B [C D]]]]].
      exists s', rest'. cbn [length]. replace (k + S (length dn))%nat with (S k + length dn)%nat by lia.
      repeat split; try assumption. intros j Hj. destruct j as [|j]; [rewrite Nat.add_0_r; exact Ek|].
      replace (k + S j)%nat with (S k + j)%nat by lia. apply D. lia.
    + exists [], (s :: r), (firstn (cut k) (rd s)). cbn. rewrite Nat.add_0_r.
      split; [reflexivity|]. split; [reflexivity|]. split; [intros H; discriminate H|].
      intros _. exists s, r. repeat split; try reflexivity; try (symmetry; exact Ek). intros j Hj. lia.
    + exists [], (s :: r), (firstn (cut k) (rd s)). cbn. rewrite Nat.add_0_r.
      split; [reflexivity|]. split; [reflexivity|]. split; [intros H; discriminate H|].
      intros _. exists s, r. repeat split; try reflexivity; try (symmetry; exact Ek). intros j Hj. lia.
Qed.
Lemma firstn_prefix : forall (A : Type) n (l : list A), exists t, l = firstn n l ++ t.
Proof. intros A n l. exists (skipn n l). symmetry. apply firstn_skipn. Qed.
Lemma write_all_is_prefix_of_dump : forall rd wr cut secs,
  exists tail, dump_text rd secs = fst (write_all rd wr cut 0 secs) ++ tail.
Proof.
  intros rd wr cut secs. destruct (write_all_prefix rd wr cut secs 0) as [dn [rest [part [H1 [H2 [H3 H4]]]]]].
  rewrite H2, H1. unfold dump_text. rewrite flat_map_app.
  destruct (snd (write_all rd wr cut 0 secs)) eqn:E.
  - destruct (H3 eq_refl) as [-> ->]. exists []. unfold dump_text. cbn. rewrite !app_nil_r. reflexivity.
  - destruct H4 as [s [rest' [-> [-> _]]]]; [discriminate|]. cbn [flat_map].
    destruct (firstn_prefix _ (cut (0 + length dn)%nat) (rd s)) as [t Ht].
    exists (t ++ flat_map rd rest'). rewrite <- !app_assoc. f_equal. rewrite app_assoc, <- Ht. reflexivity.
  - destruct H4 as [s [rest' [-> [-> _]]]]; [discriminate|]. cbn [flat_map].
    destruct (firstn_prefix _ (cut (0 + length dn)%nat) (rd s)) as [t Ht].
    exists (t ++ flat_map rd rest'). rewrite <- !app_assoc. f_equal. rewrite app_assoc, <- Ht. reflexivity.
Qed.
