(* C20/Findings.v — the two known findings of C20 as EXACT classes: an executable classifier over (flags, environment)
   for each, and the proof that it is true exactly for the runs that violate the clause of the property.
     F-C20b  a failing run whose diagnostic is visible nowhere  <->  known_b f e
     F-C20d  a failing run that leaves report bytes on the primary output  <->  known_d f e
   Both for every flag record and every environment (no bound, no "accepted" hypothesis beyond what is stated). *)
From Coq Require Import Lia.
From RM Require Import C20.Model C20.Proofs.
From RM Require Export C20.Known.
Open Scope Z_scope.

(* ------------------------------------------------------------------ boolean readings of the trace predicates *)
Definition is_stderr_diag (ev : event) : bool := match ev with Diag Stderr => true | _ => false end.
Definition is_logger_diag (ev : event) : bool := match ev with Diag Logger => true | _ => false end.
Definition weqb (a b : writer) : bool :=
  match a, b with Stdout, Stdout => true | File p, File q => p =? q | _, _ => false end.
Definition dirty_ev (e : env) (w : writer) (ev : event) : bool :=
  match ev with
  | Written w' _ => weqb w w'
  | WriteFailed w' r => weqb w w' && e_partial e w' r
  | _ => false
  end.

Lemma weqb_eq : forall a b, weqb a b = true <-> a = b.
Proof.
  destruct a as [|p], b as [|q]; cbn; split; intro H; try reflexivity; try discriminate.
  - apply Z.eqb_eq in H. subst. reflexivity.
  - inversion H. apply Z.eqb_refl.
Qed.

Lemma in_stderr : forall tr, In (Diag Stderr) tr <-> existsb is_stderr_diag tr = true.
Proof.
  intro tr. rewrite existsb_exists. split.
  - intro H. exists (Diag Stderr). split; [exact H|reflexivity].
  - intros [ev [H1 H2]]. destruct ev as [| | |[]|]; try discriminate. exact H1.
Qed.
Lemma in_logger : forall tr, In (Diag Logger) tr <-> existsb is_logger_diag tr = true.
Proof.
  intro tr. rewrite existsb_exists. split.
  - intro H. exists (Diag Logger). split; [exact H|reflexivity].
  - intros [ev [H1 H2]]. destruct ev as [| | |[]|]; try discriminate. exact H1.
Qed.
Lemma dirty_bool : forall e w tr, sink_dirty e w tr <-> existsb (dirty_ev e w) tr = true.
Proof.
  intros e w tr. unfold sink_dirty. rewrite existsb_exists. split.
  - intros [r [H|[H Hp]]].
    + exists (Written w r). split; [exact H|]. cbn. apply weqb_eq. reflexivity.
    + exists (WriteFailed w r). split; [exact H|]. cbn. rewrite Hp. rewrite (proj2 (weqb_eq w w) eq_refl). reflexivity.
  - intros [ev [H1 H2]]. destruct ev as [|w' r|w' r| |]; try discriminate; cbn in H2.
    + apply weqb_eq in H2. subst w'. exists r. left. exact H1.
    + apply andb_true_iff in H2. destruct H2 as [A B]. apply weqb_eq in A. subst w'. exists r. right. split; assumption.
Qed.
Lemma visible_bool : forall f tr,
  diag_visible f tr <-> existsb is_stderr_diag tr || (existsb is_logger_diag tr && negb (f_verbose_off f)) = true.
Proof.
  intros f tr. unfold diag_visible. rewrite in_stderr, in_logger, orb_true_iff, andb_true_iff, negb_true_iff. tauto.
Qed.

(* ------------------------------------------------------------------ the shape of a plan, for the case analysis *)
Lemma plan_shape : forall f p, decide f = Plan p ->
  exists r, p_primary p = [r] /\ p_writer p = writer_of f /\
            p_creates p = opt_list (f_cyborg f) ++ opt_list (f_output_file f) /\
            (p_secondary p = None \/ exists c rj, p_secondary p = Some (c, rj)).
Proof.
  intros f p H. destruct (single_primary f p H) as [r [Hr _]]. destruct (plan_writer f p H) as [Hw [Hc _]].
  exists r. repeat split; try assumption. destruct (p_secondary p) as [[c rj]|]; [right; exists c, rj; reflexivity|left; reflexivity].
Qed.

Ltac env_cases :=
  repeat match goal with
         | |- context [e_create ?e ?p] => let E := fresh "Ec" in destruct (e_create e p) eqn:E; cbn
         | |- context [e_read ?e] => let E := fresh "Er" in destruct (e_read e) eqn:E; cbn
         | |- context [e_process ?e] => let E := fresh "Ep" in destruct (e_process e) eqn:E; cbn
         | |- context [e_write ?e ?w ?r] => let E := fresh "Ew" in destruct (e_write e w r) eqn:E; cbn
         | |- context [e_partial ?e ?w ?r] => let E := fresh "Ea" in destruct (e_partial e w r) eqn:E; cbn
         | |- context [p_process ?p] => let E := fresh "Epp" in destruct (p_process p) eqn:E; cbn
         | |- context [weqb ?a ?b] => let E := fresh "Eq" in destruct (weqb a b) eqn:E; cbn
         end.

(* the run as a pure computation on the two booleans that matter *)
Definition failed (k : list event * Z) : bool := negb (snd k =? 0).

Lemma silent_failure_bool : forall f e,
  failed (run f e) &&
  negb (existsb is_stderr_diag (fst (run f e)) || (existsb is_logger_diag (fst (run f e)) && negb (f_verbose_off f)))
  = known_b f e.
Proof.
  intros f e. unfold known_b, ends_by_logger, failed. rewrite run_shape.
  destruct (decide f) as [[| |]| |p] eqn:Hd.
  - cbn. destruct (f_verbose_off f); reflexivity.
  - destruct (f_log_file f) as [lp|]; destruct (f_verbose_off f); cbn; env_cases; reflexivity.
  - destruct (f_log_file f) as [lp|]; destruct (f_verbose_off f); cbn; env_cases; reflexivity.
  - destruct (f_log_file f) as [lp|]; destruct (f_verbose_off f); cbn; env_cases; reflexivity.
  - destruct (plan_shape f p Hd) as [r [Hr [Hw [Hc Hs]]]].
    unfold exec, steps. rewrite Hr, Hw, Hc. clear Hr Hw Hc Hd.
    destruct Hs as [Hs|[c [rj Hs]]]; rewrite Hs; clear Hs;
      destruct (f_log_file f) as [lp|]; destruct (f_cyborg f) as [cy|]; destruct (f_output_file f) as [o|];
      destruct (f_verbose_off f); cbn; env_cases; reflexivity.
Qed.

Lemma dirty_failure_bool : forall f e, f_help_md f = false ->
  failed (run f e) && existsb (dirty_ev e (writer_of f)) (fst (run f e)) = known_d f e.
Proof.
  intros f e Hh. unfold known_d, failed. rewrite run_shape.
  destruct (decide f) as [[| |]| |p] eqn:Hd.
  - reflexivity.
  - destruct (f_log_file f) as [lp|]; cbn; env_cases; reflexivity.
  - destruct (f_log_file f) as [lp|]; cbn; env_cases; reflexivity.
  - destruct (total f) as [[rj Hr]|[[_ Hm]|[p [Hp _]]]]; congruence.
  - destruct (plan_shape f p Hd) as [r [Hr [Hw [Hc Hs]]]].
    unfold exec, steps. rewrite Hr, Hw, Hc. clear Hr Hw Hc Hd.
    destruct Hs as [Hs|[c [rj Hs]]]; rewrite Hs; clear Hs; unfold writer_of;
      destruct (f_log_file f) as [lp|]; destruct (f_cyborg f) as [cy|]; destruct (f_output_file f) as [o|];
      cbn; env_cases; rewrite ?Z.eqb_refl; cbn; try reflexivity; try congruence.
Qed.

Lemma failed_iff : forall k, failed k = true <-> snd k <> 0.
Proof. intro k. unfold failed. rewrite negb_true_iff, Z.eqb_neq. tauto. Qed.

(* F-C20b, exactly: a failing run prints its diagnostic nowhere  <->  --verbose=off and the run ends in one of the three
   error!(..) tails (a rejected --pretty / --brief combination, a read error, a processing error) *)
Lemma silent_failure_iff : forall f e,
  (snd (run f e) <> 0 /\ ~ diag_visible f (fst (run f e))) <-> known_b f e = true.
Proof.
  intros f e. rewrite <- silent_failure_bool, andb_true_iff, negb_true_iff, failed_iff, visible_bool.
  split; intros [A B]; (split; [exact A|]).
  - destruct (_ || _); [exfalso; apply B; reflexivity|reflexivity].
  - rewrite B. discriminate.
Qed.

(* F-C20d, exactly *)
Lemma dirty_failure_iff : forall f e, f_help_md f = false ->
  (snd (run f e) <> 0 /\ sink_dirty e (writer_of f) (fst (run f e))) <-> known_d f e = true.
Proof.
  intros f e Hh. rewrite <- (dirty_failure_bool f e Hh), andb_true_iff, failed_iff, dirty_bool. tauto.
Qed.

(* what the class says in words *)
Lemma known_d_reading : forall f e, known_d f e = true ->
  exists p r, decide f = Plan p /\ p_primary p = [r] /\ e_read e = true /\
    ((e_write e (p_writer p) r = IoErr /\ e_partial e (p_writer p) r = true) \/
     (e_write e (p_writer p) r = IoOk /\ exists c rj, p_secondary p = Some (c, rj) /\ e_write e (File c) rj = IoErr)).
Proof.
  intros f e H. unfold known_d in H. destruct (decide f) as [| |p]; try discriminate.
  destruct (p_primary p) as [|r [|]] eqn:Hr; try (rewrite !andb_false_r in H; discriminate).
  exists p, r. split; [reflexivity|]. split; [exact Hr|].
  apply andb_true_iff in H. destruct H as [H Hm]. apply andb_true_iff in H. destruct H as [H _].
  apply andb_true_iff in H. destruct H as [H _]. apply andb_true_iff in H. destruct H as [_ Hrd].
  split; [exact Hrd|].
  destruct (e_write e (p_writer p) r) eqn:Ew.
  - right. split; [reflexivity|]. destruct (p_secondary p) as [[c rj]|]; [|discriminate]. exists c, rj. split; [reflexivity|].
    destruct (e_write e (File c) rj); try discriminate. reflexivity.
  - left. split; [reflexivity|exact Hm].
  - discriminate.
Qed.

(* no broken-pipe run, no creation failure, no read / processing error, no rejection is in the class; and a run in the class
   has status 1 with `Error: ..` on standard error *)
Lemma known_d_status : forall f e, f_help_md f = false -> known_d f e = true ->
  snd (run f e) = 1 /\ In (Diag Stderr) (fst (run f e)).
Proof.
  intros f e Hh H. apply (dirty_failure_iff f e Hh) in H. destruct H as [Hne Hd].
  destruct (dirty_primary_only_midreport f e Hh Hne Hd) as [w [r [Hin [He _]]]].
  destruct (io_error_status f e w r Hh Hin) as [[A _]|[_ [B C]]]; [congruence|]. split; assumption.
Qed.

(* the class of F-C20b in words *)
Lemma known_b_reading : forall f e, known_b f e = true ->
  f_verbose_off f = true /\
  ((exists r, decide f = Rejected r /\ r <> UsageConflict) \/
   (exists p, decide f = Plan p /\
      (e_read e = false \/ (e_read e = true /\ p_process p = true /\ e_process e = false /\ creates_ok e (p_creates p) = true)))) /\
  creates_ok e (opt_list (f_log_file f)) = true.
Proof.
  intros f e H. unfold known_b in H. apply andb_true_iff in H. destruct H as [Hv H]. split; [exact Hv|].
  unfold ends_by_logger in H. destruct (decide f) as [[| |]| |p] eqn:Hd; try discriminate.
  - split; [left; exists PrettyWithoutJson; split; [reflexivity|discriminate]|exact H].
  - split; [left; exists BriefWithoutHuman; split; [reflexivity|discriminate]|exact H].
  - apply andb_true_iff in H. destruct H as [Hl H]. split; [|exact Hl]. right. exists p. split; [reflexivity|].
    destruct (e_read e); cbn in H; [|left; reflexivity]. right.
    apply andb_true_iff in H. destruct H as [H Hp]. apply andb_true_iff in H. destruct H as [Hc Hpp].
    apply negb_true_iff in Hp. repeat split; assumption.
Qed.
