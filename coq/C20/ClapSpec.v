(* C20/ClapSpec.v — the vocabulary in which translate/c20_cli.py writes down the command-line grammar of
   minidump-stackwalk (`#[derive(Parser)] struct Cli`, main.rs).  Definitions only (and the decidable equality of
   the text type).  Text is the model's own list-of-characters type [str] with "..." literals (String Notation), so
   that the extracted driver does not define a type called `string`. *)
From Coq.Strings Require Import Ascii Byte.
From Coq Require Import List Bool.
Import ListNotations.

Inductive str := SNil | SCons (c : ascii) (r : str).
Fixpoint str_of_bytes (l : list byte) : str :=
  match l with [] => SNil | b :: r => SCons (ascii_of_byte b) (str_of_bytes r) end.
Fixpoint bytes_of_str (s : str) : list byte :=
  match s with SNil => [] | SCons c r => byte_of_ascii c :: bytes_of_str r end.
Declare Scope str_scope.
Delimit Scope str_scope with str.
Bind Scope str_scope with str.
String Notation str str_of_bytes bytes_of_str : str_scope.

Fixpoint str_eqb (a b : str) : bool :=
  match a, b with
  | SNil, SNil => true
  | SCons c a', SCons d b' => Ascii.eqb c d && str_eqb a' b'
  | _, _ => false
  end.
Lemma str_eqb_eq : forall a b, str_eqb a b = true <-> a = b.
Proof.
  induction a as [|c a IH]; destruct b as [|d b]; cbn; split; intro H; try reflexivity; try discriminate.
  - apply andb_true_iff in H. destruct H as [H1 H2]. apply Ascii.eqb_eq in H1. apply IH in H2. subst. reflexivity.
  - inversion H; subst. apply andb_true_iff. split; [apply Ascii.eqb_eq; reflexivity|apply IH; reflexivity].
Qed.
Lemma str_eqb_refl : forall a, str_eqb a a = true.
Proof. intro a. apply str_eqb_eq. reflexivity. Qed.

(* clap value parsers that occur in struct Cli *)
Inductive vparser :=
| VString                                          (* String: any UTF-8 value, the empty one too *)
| VPath                                            (* PathBuf: PathBufValueParser refuses the empty value *)
| VU64                                             (* u64: str::parse::<u64> *)
| VPossible (pv : list str) (ignore_case : bool).  (* value_parser = [..] / PossibleValuesParser::new([..]) + Arg::ignore_case *)

Inductive akind :=
| KFlag          (* bool field: ArgAction::SetTrue, takes no value *)
| KOpt           (* Option<T> / T with a default: ArgAction::Set, one value, at most one occurrence *)
| KMulti         (* Vec<T> with a long name: ArgAction::Append, one value per occurrence *)
| KPos           (* the required positional (T) *)
| KPosMulti.     (* the trailing repeatable positional (Vec<T>) *)

Record arg_spec := { a_field : str; a_long : str; a_kind : akind; a_vp : vparser }.
