(* C20/SinksProofs.v — lemmas about the sink state machine (Sinks.v part 1) and the argv -> supplier map (part 2). *)
From Coq Require Import Lia.
From RM Require Import C20.Model C20.Proofs C20.Sinks.
Open Scope Z_scope.

(* ------------------------------------------------------------------ one path at a time *)
Definition lstate := (option bytes * option nat)%type.
Definition loc (s : fstate) (p : path) : lstate := (fs_files s p, fs_cur s p).

Definition open_loc (m : open_mode) (l : lstate) : lstate :=
  match fst l with
  | None => if om_create m then (Some [], Some 0%nat) else l
  | Some old => (Some (if om_truncate m then [] else old), Some 0%nat)
  end.
Definition write_loc (m : open_mode) (l : lstate) (data : bytes) : lstate :=
  match snd l, fst l with
  | Some pos, Some old =>
      let pos' := if om_append m then length old else pos in
      (Some (write_at old pos' data), Some (pos' + length data)%nat)
  | _, _ => l
  end.
Definition step_loc (m : open_mode) (rd : rendering) (p : path) (l : lstate) (ev : event) : lstate :=
  match ev with
  | Create q => if q =? p then open_loc m l else l
  | Written (File q) r => if q =? p then write_loc m l (r_bytes rd r) else l
  | WriteFailed (File q) r => if q =? p then write_loc m l (r_prefix rd (File q) r) else l
  | _ => l
  end.

Lemma upd_eq : forall A (f : path -> A) p a, upd f p a p = a.
Proof. intros. unfold upd. rewrite Z.eqb_refl. reflexivity. Qed.
Lemma upd_neq : forall A (f : path -> A) p q a, p <> q -> upd f q a p = f p.
Proof. intros. unfold upd. destruct (Z.eqb_spec p q); [contradiction|reflexivity]. Qed.

Lemma loc_open : forall m s q p,
  loc (match open_file m s q with Some s' => s' | None => s end) p =
  if q =? p then open_loc m (loc s p) else loc s p.
Proof.
  intros m s q p. unfold open_file, open_loc, loc.
  destruct (Z.eqb_spec q p) as [->|N].
  - cbn [fst snd]. destruct (fs_files s p) eqn:E.
    + cbn [fs_files fs_cur]. rewrite !upd_eq. reflexivity.
    + destruct (om_create m); cbn [fs_files fs_cur]; [rewrite !upd_eq; reflexivity|rewrite E; reflexivity].
  - assert (N' : p <> q) by congruence.
    destruct (fs_files s q); [|destruct (om_create m)]; cbn [fs_files fs_cur]; rewrite ?upd_neq by exact N'; reflexivity.
Qed.

Lemma loc_write : forall m s q p data,
  loc (write_file m s q data) p = if q =? p then write_loc m (loc s p) data else loc s p.
Proof.
  intros m s q p data. unfold write_file, write_loc, loc.
  destruct (Z.eqb_spec q p) as [->|N].
  - cbn [fst snd]. destruct (fs_cur s p) eqn:Ec, (fs_files s p) eqn:Ef; cbn [fs_files fs_cur]; rewrite ?upd_eq, ?Ec, ?Ef; reflexivity.
  - assert (N' : p <> q) by congruence.
    destruct (fs_cur s q) eqn:Ec, (fs_files s q) eqn:Ef; cbn [fs_files fs_cur]; rewrite ?upd_neq by exact N'; reflexivity.
Qed.

Lemma loc_step : forall m rd s ev p, loc (step_event m rd s ev) p = step_loc m rd p (loc s p) ev.
Proof.
  intros m rd s ev p. destruct ev as [q|w r|w r|c|]; cbn [step_event step_loc]; try reflexivity.
  - apply loc_open.
  - destruct w; [reflexivity|apply loc_write].
  - destruct w; [reflexivity|apply loc_write].
Qed.

Lemma loc_replay : forall m rd tr s p,
  loc (replay m rd s tr) p = fold_left (step_loc m rd p) tr (loc s p).
Proof.
  intros m rd tr. unfold replay. induction tr as [|ev tr IH]; intros s p; [reflexivity|].
  cbn [fold_left]. rewrite IH, loc_step. reflexivity.
Qed.

Lemma fs_after_loc : forall m rd s0 tr p,
  fs_after m rd s0 tr p = fst (fold_left (step_loc m rd p) tr (s0 p, None)).
Proof. intros. unfold fs_after. change (fs_files ?s p) with (fst (loc s p)). rewrite loc_replay. reflexivity. Qed.

(* ------------------------------------------------------------------ File::create: what was there before does not matter *)
Definition fresh : lstate := (Some [], Some 0%nat).

Lemma open_create_fresh : forall l, open_loc file_create l = fresh.
Proof. intros [[old|] c]; reflexivity. Qed.

Lemma prestate_irrelevant_loc : forall rd p tr l l',
  In (Create p) tr ->
  fold_left (step_loc file_create rd p) tr l = fold_left (step_loc file_create rd p) tr l'.
Proof.
  intros rd p tr. induction tr as [|ev tr IH]; intros l l' Hin; [destruct Hin|].
  cbn [fold_left]. destruct Hin as [->|Hin].
  - cbn [step_loc]. rewrite Z.eqb_refl, !open_create_fresh. reflexivity.
  - apply IH. exact Hin.
Qed.

Lemma prestate_irrelevant : forall rd p tr s0 s0',
  In (Create p) tr -> fs_after file_create rd s0 tr p = fs_after file_create rd s0' tr p.
Proof. intros. rewrite !fs_after_loc. f_equal. apply prestate_irrelevant_loc. assumption. Qed.

(* a path the run never opens keeps its content *)
Lemma untouched_loc : forall m rd p tr l,
  ~ In (Create p) tr -> snd l = None -> fold_left (step_loc m rd p) tr l = l.
Proof.
  intros m rd p tr. induction tr as [|ev tr IH]; intros l Hn Hc; [reflexivity|].
  cbn [fold_left].
  assert (E : step_loc m rd p l ev = l).
  { destruct ev as [q|w r|w r|c|]; cbn [step_loc]; try reflexivity.
    - destruct (Z.eqb_spec q p) as [->|]; [exfalso; apply Hn; left; reflexivity|reflexivity].
    - destruct w; [reflexivity|]. destruct (p0 =? p); [|reflexivity]. unfold write_loc. rewrite Hc. reflexivity.
    - destruct w; [reflexivity|]. destruct (p0 =? p); [|reflexivity]. unfold write_loc. rewrite Hc. reflexivity. }
  rewrite E. apply IH; [|exact Hc]. intros H. apply Hn. right. exact H.
Qed.

Lemma untouched : forall m rd p tr s0, ~ In (Create p) tr -> fs_after m rd s0 tr p = s0 p.
Proof. intros. rewrite fs_after_loc, untouched_loc; [reflexivity|assumption|reflexivity]. Qed.

(* ------------------------------------------------------------------ the trace of a successful run *)
Lemma fold_creates : forall rd p ps l,
  fold_left (step_loc file_create rd p) (map Create ps) l =
  if existsb (fun q => q =? p) ps then fresh else l.
Proof.
  intros rd p ps. induction ps as [|q ps IH]; intros l; [reflexivity|].
  cbn [map fold_left existsb step_loc]. rewrite IH.
  destruct (q =? p); cbn [orb]; [rewrite open_create_fresh|]; destruct (existsb (fun q0 => q0 =? p) ps); reflexivity.
Qed.

Lemma write_at_end : forall c data, write_at c (length c) data = c ++ data.
Proof.
  intros. unfold write_at. rewrite firstn_all, skipn_all2 by lia. rewrite app_nil_r. reflexivity.
Qed.

Definition written (wr : writer * renderer) : event := Written (fst wr) (snd wr).

Lemma fold_writes : forall rd p ws c,
  fold_left (step_loc file_create rd p) (map written ws) (Some c, Some (length c)) =
  (Some (c ++ concat (map (r_bytes rd) (sink_reports (File p) ws))),
   Some (length (c ++ concat (map (r_bytes rd) (sink_reports (File p) ws))))).
Proof.
  intros rd p ws. unfold sink_reports. induction ws as [|[w r] ws IH]; intros c.
  - cbn. rewrite app_nil_r. reflexivity.
  - cbn [map fold_left written fst snd step_loc filter]. destruct w as [|q].
    + cbn [writer_eqb]. apply IH.
    + cbn [writer_eqb]. destruct (q =? p).
      * unfold write_loc. cbn [fst snd om_append file_create]. rewrite write_at_end.
        replace (length c + length (r_bytes rd r))%nat with (length (c ++ r_bytes rd r)) by (rewrite app_length; reflexivity).
        rewrite IH. cbn [map concat snd]. rewrite !app_assoc. reflexivity.
      * apply IH.
Qed.

Lemma in_existsb_path : forall p ps, In p ps -> existsb (fun q => q =? p) ps = true.
Proof. intros. apply existsb_exists. exists p. split; [assumption|apply Z.eqb_refl]. Qed.

(* status 0 without a broken pipe: every file the run opened holds exactly the reports sent to it, whatever it held before *)
Lemma file_after_success : forall f e pl p rd s0,
  f_help_md f = false -> snd (run f e) = 0 -> ~ pipe_broke e -> decide f = Plan pl ->
  In p (opt_list (f_log_file f) ++ p_creates pl) ->
  fs_after file_create rd s0 (fst (run f e)) p =
  Some (concat (map (r_bytes rd) (sink_reports (File p) (steps pl)))).
Proof.
  intros f e pl p rd s0 Hh H0 Hnp Hd Hin.
  destruct (zero_means_done_or_pipe f e Hh H0) as [[p' [Hd' [_ Htr]]]|Hp]; [|contradiction].
  rewrite Hd in Hd'. inversion Hd'; subst p'. rewrite Htr, fs_after_loc.
  rewrite app_assoc, <- map_app, fold_left_app, fold_creates, (in_existsb_path _ _ Hin).
  change (fun wr : writer * renderer => Written (fst wr) (snd wr)) with written.
  change fresh with (Some (@nil Z), Some (length (@nil Z))). rewrite fold_writes. reflexivity.
Qed.

(* what a plan sends to the output file and to the cyborg file *)
Lemma reports_output_file : forall f pl p, decide f = Plan pl -> f_output_file f = Some p -> f_cyborg f <> Some p ->
  sink_reports (File p) (steps pl) = p_primary pl.
Proof.
  intros f pl p Hd Ho Hc.
  destruct (single_primary f pl Hd) as [r [Hr _]].
  destruct (plan_writer f pl Hd) as [Hw [_ [Hs _]]].
  unfold steps, sink_reports. rewrite Hr, Hw. unfold writer_of. rewrite Ho. cbn [map app filter fst writer_eqb].
  rewrite Z.eqb_refl. destruct (p_secondary pl) as [[c r']|] eqn:Es; [|reflexivity].
  destruct (Hs c r' eq_refl) as [Hc' _]. cbn [filter fst writer_eqb].
  destruct (Z.eqb_spec c p) as [->|]; [congruence|reflexivity].
Qed.

Lemma reports_cyborg_file : forall f pl c, decide f = Plan pl -> f_cyborg f = Some c -> f_output_file f <> Some c ->
  sink_reports (File c) (steps pl) = [Json (f_pretty f)].
Proof.
  intros f pl c Hd Hc Ho.
  destruct (single_primary f pl Hd) as [r [Hr _]].
  destruct (plan_writer f pl Hd) as [Hw [_ [Hs Hn]]].
  unfold steps, sink_reports. rewrite Hr, Hw. unfold writer_of.
  destruct (p_secondary pl) as [[c' r']|] eqn:Es; [|exfalso; apply Hn; congruence].
  destruct (Hs c' r' eq_refl) as [Hc' ->]. assert (c' = c) by congruence. subst c'.
  destruct (f_output_file f) as [q|]; cbn [map app filter fst snd writer_eqb].
  - destruct (Z.eqb_spec q c) as [->|]; [congruence|]. cbn [filter fst writer_eqb]. rewrite Z.eqb_refl. reflexivity.
  - rewrite Z.eqb_refl. reflexivity.
Qed.

(* ------------------------------------------------------------------ a sink opened without truncation keeps the old tail *)
Lemma truncate_needed :
  let rd := {| r_bytes := fun _ => [7; 7]; r_prefix := fun _ _ => [] |} in
  let s0 : fsys := fun _ => Some [1; 2; 3; 4; 5] in
  let tr := [Create 1; Written (File 1) Human] in
  fs_after file_create rd s0 tr 1 = Some [7; 7] /\
  fs_after no_truncate rd s0 tr 1 = Some [7; 7; 3; 4; 5].
Proof. split; reflexivity. Qed.

(* ------------------------------------------------------------------ part 2: argv -> supplier *)
Lemma flag_paths_app : forall a b, flag_paths (a ++ b) = flag_paths a ++ flag_paths b.
Proof. induction a as [|[p|p|u|] a IH]; intros b; cbn; rewrite ?IH; reflexivity. Qed.
Lemma positional_paths_app : forall a b, positional_paths (a ++ b) = positional_paths a ++ positional_paths b.
Proof. induction a as [|[p|p|u|] a IH]; intros b; cbn; rewrite ?IH; reflexivity. Qed.
Lemma url_args_app : forall a b, url_args (a ++ b) = url_args a ++ url_args b.
Proof. induction a as [|[p|p|u|] a IH]; intros b; cbn; rewrite ?IH; reflexivity. Qed.

Lemma supplier_paths_of : forall c, supplier_paths (supplier_of c) = merged_paths c.
Proof.
  intros c. unfold supplier_of. destruct (nonempty (sc_symbols_url c)); [reflexivity|].
  destruct (merged_paths c); reflexivity.
Qed.
Lemma supplier_urls_of : forall c, supplier_urls (supplier_of c) = sc_symbols_url c.
Proof.
  intros c. unfold supplier_of. destruct (sc_symbols_url c) eqn:E; cbn [nonempty]; [|reflexivity].
  destruct (nonempty (merged_paths c)); reflexivity.
Qed.

(* the paths reach the supplier in the order given: all --symbols-path values in command-line order, then all
   positional ones in command-line order; nothing dropped, duplicated or reordered *)
Lemma paths_in_given_order : forall argv cache tmp t,
  supplier_paths (supplier_of (parse_sym argv cache tmp t)) = flag_paths argv ++ positional_paths argv /\
  supplier_urls (supplier_of (parse_sym argv cache tmp t)) = url_args argv.
Proof. intros. rewrite supplier_paths_of, supplier_urls_of. split; reflexivity. Qed.

Definition only_flags (argv : list argv_item) : Prop := positional_paths argv = [].
Definition only_positionals (argv : list argv_item) : Prop := flag_paths argv = [].

(* the order of two paths given in the same style is their order on the command line *)
Lemma same_style_order : forall pre mid post a b cache tmp t,
  let argv1 := pre ++ ASymbolsPath a :: mid ++ ASymbolsPath b :: post in
  let argv2 := pre ++ APositional a :: mid ++ APositional b :: post in
  (exists l1 l2 l3, supplier_paths (supplier_of (parse_sym argv1 cache tmp t)) = l1 ++ a :: l2 ++ b :: l3) /\
  (exists l1 l2 l3, supplier_paths (supplier_of (parse_sym argv2 cache tmp t)) = l1 ++ a :: l2 ++ b :: l3).
Proof.
  intros. split.
  - exists (flag_paths pre), (flag_paths mid), (flag_paths post ++ positional_paths argv1).
    rewrite (proj1 (paths_in_given_order _ _ _ _)). unfold argv1.
    rewrite flag_paths_app. cbn [flag_paths]. rewrite flag_paths_app. cbn [flag_paths].
    rewrite <- !app_assoc. cbn [app]. rewrite <- !app_assoc. reflexivity.
  - exists (flag_paths argv2 ++ positional_paths pre), (positional_paths mid), (positional_paths post).
    rewrite (proj1 (paths_in_given_order _ _ _ _)). unfold argv2 at 2.
    rewrite positional_paths_app. cbn [positional_paths]. rewrite positional_paths_app. cbn [positional_paths].
    rewrite <- !app_assoc. reflexivity.
Qed.

(* first match wins: the store used is the first path, in that order, that holds the module *)
Lemma first_given_path_wins : forall has argv p,
  store_used has argv = Some p <->
  exists before after, flag_paths argv ++ positional_paths argv = before ++ p :: after /\
                       has p = true /\ forall q, In q before -> has q = false.
Proof.
  intros has argv p. unfold store_used, locate. rewrite (proj1 (paths_in_given_order _ _ _ _)).
  generalize (flag_paths argv ++ positional_paths argv). intros l. split.
  - induction l as [|x l IH]; [discriminate|]. cbn [find]. destruct (has x) eqn:E.
    + intros H. inversion H; subst. exists [], l. repeat split; [exact E|intros q []].
    + intros H. destruct (IH H) as [b [a [E1 [E2 E3]]]]. exists (x :: b), a. rewrite E1. repeat split; [exact E2|].
      intros q [<-|Hq]; [exact E|apply E3; exact Hq].
  - intros [b [a [-> [Hp Hb]]]]. induction b as [|x b IH]; cbn [app find].
    + rewrite Hp. reflexivity.
    + rewrite (Hb x (or_introl eq_refl)). apply IH. intros q Hq. apply Hb. right. exact Hq.
Qed.

(* a supplier is built exactly when there is something to search; URLs select the HTTP supplier *)
Lemma supplier_kind : forall c,
  (sc_symbols_url c <> [] -> exists cache tmp,
      supplier_of c = HttpSupplier (merged_paths c) (sc_symbols_url c) cache tmp (sc_timeout c) /\
      cache = match sc_symbols_cache c with Some p => GivenDir p | None => TempDirCache end /\
      tmp = match sc_symbols_tmp c with Some p => GivenDir p | None => TempDir end) /\
  (sc_symbols_url c = [] -> merged_paths c <> [] -> supplier_of c = SimpleSupplier (merged_paths c)) /\
  (sc_symbols_url c = [] -> merged_paths c = [] -> supplier_of c = NoSupplier).
Proof.
  intros c. unfold supplier_of. repeat split.
  - intros H. destruct (sc_symbols_url c); [congruence|]. cbn [nonempty]. eexists _, _. repeat split.
  - intros -> H. cbn [nonempty]. destruct (merged_paths c); [congruence|reflexivity].
  - intros -> ->. reflexivity.
Qed.
