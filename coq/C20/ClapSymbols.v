(* C20/ClapSymbols.v — from the argument vector to the HTTP symbol supplier: --symbols-cache, --symbols-tmp and
   --symbols-download-timeout-secs, read off the command line item by item, are what http_symbol_supplier receives
   (with the documented defaults when an option is not given). *)
From Coq Require Import Ascii List ZArith Bool Lia.
Import ListNotations.
From RM Require Import C20.Model C20.ClapSpec C20.Clap C20.Proofs C20.ClapProofs C20.Sinks C20.SinksProofs C20.ClapSinks.
Local Open Scope str_scope.

Lemma filled_cache : filled_by "symbols_cache" "symbols-cache". Proof. filled. Qed.
Lemma filled_tmp : filled_by "symbols_tmp" "symbols-tmp". Proof. filled. Qed.
Lemma filled_timeout : filled_by "symbols_download_timeout_secs" "symbols-download-timeout-secs". Proof. filled. Qed.

(* the number a --symbols-download-timeout-secs value denotes (the u64 value parser has accepted it) *)
Definition secs_of (s : str) : Z := match parse_unsigned s with Some n => n | None => 0%Z end.

Lemma argv_http_arguments : forall pid items out, items_effect CLI [] items = Some out ->
  sc_symbols_cache (sym_cli_of pid out) = option_map pid (first_value "symbols-cache" items) /\
  sc_symbols_tmp (sym_cli_of pid out) = option_map pid (first_value "symbols-tmp" items) /\
  sc_timeout (sym_cli_of pid out) =
    match first_value "symbols-download-timeout-secs" items with Some s => secs_of s | None => 1000%Z end.
Proof.
  intros pid items out H. unfold sym_cli_of, first_value, value_of. cbn [sc_symbols_cache sc_symbols_tmp sc_timeout].
  rewrite (values_from _ _ filled_cache items [] out H), (values_from _ _ filled_tmp items [] out H),
          (values_from _ _ filled_timeout items [] out H).
  cbn [values_of filter map app].
  destruct (opt_values "symbols-cache" items), (opt_values "symbols-tmp" items),
           (opt_values "symbols-download-timeout-secs" items); repeat split; reflexivity.
Qed.

(* the supplier main() builds, from the command line: the HTTP supplier iff a --symbols-url is given, with the paths
   (--symbols-path values, then positionals) and URLs in command-line order, the cache and tmp directories given or their
   documented defaults, and the timeout given or 1000 seconds *)
Lemma argv_supplier : forall pid items out, items_effect CLI [] items = Some out ->
  let paths := (map pid (opt_values "symbols-path" items) ++ map pid (tl (words items)))%list in
  let urls := map pid (opt_values "symbols-url" items) in
  supplier_of (sym_cli_of pid out) =
    match urls with
    | _ :: _ =>
        HttpSupplier paths urls
          (match first_value "symbols-cache" items with Some d => GivenDir (pid d) | None => TempDirCache end)
          (match first_value "symbols-tmp" items with Some d => GivenDir (pid d) | None => TempDir end)
          (match first_value "symbols-download-timeout-secs" items with Some s => secs_of s | None => 1000%Z end)
    | [] => match paths with _ :: _ => SimpleSupplier paths | [] => NoSupplier end
    end.
Proof.
  intros pid items out H paths urls.
  destruct (argv_http_arguments pid items out H) as [Hc [Ht Hs]].
  destruct (symbol_arguments_in_order items out H) as [H1 [H2 [_ H4]]].
  unfold supplier_of, merged_paths. rewrite Hc, Ht, Hs.
  cbn [sym_cli_of sc_symbols_path sc_symbols_path_legacy sc_symbols_url]. rewrite H1, H2, H4.
  fold urls. fold paths. destruct urls as [|u us]; cbn [nonempty].
  - destruct paths; reflexivity.
  - destruct (first_value "symbols-cache" items), (first_value "symbols-tmp" items); reflexivity.
Qed.

(* ... from the TOKEN VECTOR: what Cli::parse() makes of the rendered command line is the record the supplier is built from *)
Lemma tokens_to_supplier : forall pid items out, items_effect CLI [] items = Some out ->
  (group_members_present GROUP out <= 1)%nat -> required_present CLI out = true ->
  exists acc, parse CLI GROUP (render items) = PParsed acc /\
    supplier_of (sym_cli_of pid acc) =
      match map pid (opt_values "symbols-url" items) with
      | _ :: _ =>
          HttpSupplier (map pid (opt_values "symbols-path" items) ++ map pid (tl (words items)))%list
            (map pid (opt_values "symbols-url" items))
            (match first_value "symbols-cache" items with Some d => GivenDir (pid d) | None => TempDirCache end)
            (match first_value "symbols-tmp" items with Some d => GivenDir (pid d) | None => TempDir end)
            (match first_value "symbols-download-timeout-secs" items with Some s => secs_of s | None => 1000%Z end)
      | [] => match (map pid (opt_values "symbols-path" items) ++ map pid (tl (words items)))%list with
              | _ :: _ => SimpleSupplier (map pid (opt_values "symbols-path" items) ++ map pid (tl (words items)))%list
              | [] => NoSupplier end
      end.
Proof.
  intros pid items out H Hg Hr. exists out. split; [exact (manual_reading_is_parsed CLI GROUP items out H Hg Hr)|].
  exact (argv_supplier pid items out H).
Qed.
