(* C20/Wiring.v — the shapes of main_result that Sinks.v is written against, pinned to what
   translate/c20_wiring.py regenerates from minidump-stackwalk/src/main.rs on every run (Gen/C20Wiring.v).
   The translator aborts on anything it does not recognise (an OpenOptions, a statement that touches
   symbols_paths between its construction and the supplier constructors, a new options.* override). *)
From Coq Require Import String List.
Import ListNotations.
From RM Require Gen.C20Wiring.
From RM Require Import C20.Sinks.
Local Open Scope string_scope.

(* the constructor of each file sink, in the order the code opens them *)
Definition pinned_sink_opens : list (string * string) :=
  [("log_file", "File::create"); ("cyborg", "File::create"); ("output_file", "File::create")].
(* let mut symbols_paths = <first>; symbols_paths.extend(<second>); *)
Definition pinned_sym_merge : list string := ["cli.symbols_path"; "cli.symbols_path_legacy"].
Definition pinned_http_args : list string := ["symbols_paths"; "cli.symbols_url"; "symbols_cache"; "symbols_tmp"; "timeout"].
Definition pinned_simple_args : list string := ["symbols_paths"].
Definition pinned_feature_arms : list (string * string) :=
  [("stable-basic", "stable_basic"); ("stable-all", "stable_all"); ("unstable-all", "unstable_all")].
Definition pinned_option_overrides : list (string * string * string) :=
  [("evil_json", "=", "cli.evil_json.as_deref()");
   ("recover_function_args", "|=", "cli.recover_function_args");
   ("stat_reporter", "=", "processor_stats.as_ref()")].

Definition pinned_cache_default : string := "temp_dir.join(rust-minidump-cache)".
Definition pinned_tmp_default : string := "temp_dir".
Definition pinned_process_args : string := "&dump,&provider,options".

(* std::fs::File::create = OpenOptions::new().write(true).create(true).truncate(true) (std documentation) *)
Definition mode_of_constructor (c : string) : option open_mode :=
  if String.eqb c "File::create" then Some file_create else None.
(* the open mode of every sink of the code as it is now *)
Definition code_sink_modes : list (string * option open_mode) :=
  map (fun sc => (fst sc, mode_of_constructor (snd sc))) RM.Gen.C20Wiring.SINK_OPENS.

(* the same, without strings, for the extracted driver *)
Definition code_truncates : bool := forallb (fun b => b) RM.Gen.C20Wiring.SINK_TRUNCATES.
Lemma sink_truncates_consistent :
  RM.Gen.C20Wiring.SINK_TRUNCATES = map (fun sc => String.eqb (snd sc) "File::create") RM.Gen.C20Wiring.SINK_OPENS.
Proof. reflexivity. Qed.

Lemma wiring_pinned :
  RM.Gen.C20Wiring.SINK_OPENS = pinned_sink_opens /\
  RM.Gen.C20Wiring.SYM_MERGE = pinned_sym_merge /\
  RM.Gen.C20Wiring.HTTP_ARGS = pinned_http_args /\
  RM.Gen.C20Wiring.SIMPLE_ARGS = pinned_simple_args /\
  RM.Gen.C20Wiring.CACHE_DEFAULT = pinned_cache_default /\
  RM.Gen.C20Wiring.TMP_DEFAULT = pinned_tmp_default /\
  RM.Gen.C20Wiring.FEATURE_ARMS = pinned_feature_arms /\
  RM.Gen.C20Wiring.OPTION_OVERRIDES = pinned_option_overrides /\
  RM.Gen.C20Wiring.PROCESS_ARGS = pinned_process_args.
Proof. repeat split; reflexivity. Qed.

Lemma every_sink_truncates : forall s m, In (s, m) code_sink_modes -> m = Some file_create.
Proof.
  intros s m H. unfold code_sink_modes in H. rewrite (proj1 wiring_pinned) in H. cbn in H.
  repeat (destruct H as [H|H]; [inversion H; reflexivity|]). destruct H.
Qed.

(* the landmarks of main_result in source order: this is the order of effects C20/Model.v's [run] / [exec] and C20/Clap.v's
   [run_outcome] are written in (clap first; the log file; --help-markdown before the validity tests; the tests before the
   --features match; read_path before the sinks are opened; the cyborg file before the output file; --dump before processing;
   the human report before the JSON one), and every std::process::exit of main.rs has the argument 1 *)
Definition pinned_main_steps : list string :=
  ["parse"; "log_create"; "panic_hook"; "help_markdown"; "mode_munging"; "cyborg_desugar"; "pretty_check"; "brief_check";
   "features_match"; "overrides"; "read_path"; "cyborg_create"; "output_create"; "dump_dispatch"; "process"; "print_human";
   "print_json"; "process_error"; "read_error"].
Definition pinned_exit_calls : list string := ["1"; "1"; "1"; "1"; "1"; "1"].
Lemma main_steps_pinned :
  RM.Gen.C20Wiring.MAIN_STEPS = pinned_main_steps /\ RM.Gen.C20Wiring.EXIT_CALLS = pinned_exit_calls.
Proof. split; reflexivity. Qed.
