(* C20/ClapProofs.v — lemmas about the model of clap's parser (C20/Clap.v), for ANY grammar table, and their
   instances for the table regenerated from struct Cli (Gen/C20Cli.v). *)
From Coq Require Import Ascii List ZArith Bool Lia.
Import ListNotations.
From RM Require Import C20.Model C20.ClapSpec C20.Clap C20.Proofs.
From RM Require Gen.C20Cli.
Local Open Scope str_scope.

(* ------------------------------------------------------------------ value parsers vs the code that consumes the value *)
Lemma possible_exact_in : forall pv s, vp_accepts (VPossible pv false) s = true -> In s pv /\ s <> "".
Proof.
  intros pv s H. unfold vp_accepts in H. apply andb_true_iff in H. destruct H as [Hne H].
  apply existsb_exists in H. destruct H as [name [Hin Heq]]. apply str_eqb_eq in Heq. subst.
  split; [assumption|]. intro E. rewrite E in Hne. discriminate.
Qed.

(* an exact enumerated parser whose every possible value has a match arm never reaches the default arm *)
Lemma possible_exact_covered : forall pv arms,
  forallb (fun v => match features_match arms v with Some _ => true | None => false end) pv = true ->
  forall s, vp_accepts (VPossible pv false) s = true -> features_match arms s <> None.
Proof.
  intros pv arms Hall s H. apply possible_exact_in in H. destruct H as [Hin _].
  rewrite forallb_forall in Hall. specialize (Hall s Hin). destruct (features_match arms s); congruence.
Qed.

Lemma possible_exact_levels : forall pv,
  forallb (fun v => match level_from_str v with Some _ => true | None => false end) pv = true ->
  forall s, vp_accepts (VPossible pv false) s = true -> level_from_str s <> None.
Proof.
  intros pv Hall s H. apply possible_exact_in in H. destruct H as [Hin _].
  rewrite forallb_forall in Hall. specialize (Hall s Hin). destruct (level_from_str s); congruence.
Qed.

Lemma str_eqb_sym : forall a b, str_eqb a b = str_eqb b a.
Proof.
  intros a b. destruct (str_eqb a b) eqn:E.
  - apply str_eqb_eq in E. subst. symmetry. apply str_eqb_refl.
  - destruct (str_eqb b a) eqn:E2; [|reflexivity]. apply str_eqb_eq in E2. subst. rewrite str_eqb_refl in E. discriminate.
Qed.

(* a character whose lower-case form is a letter is neither a digit nor '+' *)
Lemma letter_not_numeric : forall c l r, In l ["e"; "w"; "i"; "d"; "t"; "o"]%char -> lower_ascii c = l ->
  parse_unsigned (SCons c r) = None.
Proof.
  intros c l r Hl Hc.
  destruct c as [b0 b1 b2 b3 b4 b5 b6 b7].
  destruct b0, b1, b2, b3, b4, b5, b6, b7; cbn in Hc; subst l; cbn in Hl;
    repeat (destruct Hl as [Hl|Hl]; [discriminate Hl|]); try (destruct Hl); reflexivity.
Qed.

Lemma level_name_any_case : forall name s, In name level_names -> eq_ignore_ascii_case name s = true ->
  level_from_str s <> None.
Proof.
  intros name s Hin He. unfold eq_ignore_ascii_case in He. apply str_eqb_eq in He.
  assert (Hnum : parse_unsigned s = None).
  { destruct s as [|c r].
    - cbn in Hin. repeat (destruct Hin as [Hin|Hin]; [subst name; discriminate He|]). destruct Hin.
    - cbn in Hin. cbn [lower] in He.
      repeat (destruct Hin as [Hin|Hin];
              [subst name; cbn in He; inversion He as [[Hc Hr]]; eapply letter_not_numeric; [|symmetry; exact Hc]; cbn; tauto|]).
      destruct Hin. }
  unfold level_from_str. rewrite Hnum.
  destruct (str_eqb s "") eqn:Es; [discriminate|].
  destruct (find (fun n => eq_ignore_ascii_case s n) level_names) eqn:Ef; [discriminate|].
  exfalso. pose proof (find_none _ _ Ef name Hin) as Hn. cbn beta in Hn.
  unfold eq_ignore_ascii_case in Hn. rewrite str_eqb_sym, He, str_eqb_refl in Hn. discriminate.
Qed.

(* an enumerated parser all of whose values are level names never hands LevelFilter::from_str a value it cannot parse -
   with or without ignore_case (from_str itself ignores the ASCII case) *)
Lemma possible_levels_any_case : forall pv ic,
  forallb (fun v => existsb (str_eqb v) level_names) pv = true ->
  forall s, vp_accepts (VPossible pv ic) s = true -> level_from_str s <> None.
Proof.
  intros pv ic Hall s H. unfold vp_accepts in H. apply andb_true_iff in H. destruct H as [_ H].
  apply existsb_exists in H. destruct H as [name [Hin Hm]].
  rewrite forallb_forall in Hall. specialize (Hall name Hin).
  apply existsb_exists in Hall. destruct Hall as [n' [Hn' E]]. apply str_eqb_eq in E. subst n'.
  destruct ic.
  - eapply level_name_any_case; eauto.
  - apply str_eqb_eq in Hm. subst s. eapply level_name_any_case; eauto. unfold eq_ignore_ascii_case. apply str_eqb_refl.
Qed.

(* ------------------------------------------------------------------ what a successful parse guarantees *)
Section Spec.
Variable spec : list arg_spec.

Definition valid_entry (fv : str * str) : Prop :=
  exists a, In a spec /\ a_field a = fst fv /\ vp_accepts (a_vp a) (snd fv) = true.

Lemma push_valid : forall a v acc acc', In a spec -> push a v acc = Some acc' ->
  Forall valid_entry acc -> Forall valid_entry acc'.
Proof.
  intros a v acc acc' Hin H Hacc. unfold push in H.
  destruct (vp_accepts (a_vp a) v) eqn:Hv; cbn in H; [|discriminate].
  destruct (single (a_kind a) && has_field acc (a_field a)); [discriminate|].
  inversion H; subst. apply Forall_app. split; [assumption|].
  constructor; [|constructor]. exists a. auto.
Qed.

Lemma find_long_in : forall name a, find_long spec name = Some a -> In a spec.
Proof. intros name a H. apply find_some in H. tauto. Qed.
Lemma next_positional_in : forall acc a, next_positional spec acc = Some a -> In a spec.
Proof.
  intros acc a H. unfold next_positional in H.
  destruct (find _ spec) eqn:E.
  - inversion H; subst. apply find_some in E. tauto.
  - apply find_some in H. tauto.
Qed.

(* any property of the accumulated record that every accepted occurrence preserves holds of the parsed record *)
Lemma scan_inv_n : forall (Inv : list (str * str) -> Prop),
  (forall a v acc acc', In a spec -> push a v acc = Some acc' -> Inv acc -> Inv acc') ->
  forall n argv trailing acc out, (length argv <= n)%nat ->
  Inv acc -> scan spec argv trailing acc = PParsed out -> Inv out.
Proof.
  intros Inv Hpush. induction n; intros argv trailing acc out Hlen Hacc H.
  - destruct argv; [|cbn in Hlen; lia]. cbn in H. inversion H; subst; assumption.
  - destruct argv as [|t rest]; [cbn in H; inversion H; subst; assumption|].
    cbn in Hlen. cbn [scan] in H.
    assert (Hpos : forall r,
      match next_positional spec acc with
      | None => PUsage
      | Some a => match push a t acc with None => PUsage | Some acc' => scan spec rest r acc' end
      end = PParsed out -> Inv out).
    { intros r Hp. destruct (next_positional spec acc) eqn:En; [|discriminate].
      destruct (push a t acc) eqn:Ep; [|discriminate].
      eapply IHn; [| |exact Hp]; [lia|]. eapply Hpush; eauto using next_positional_in. }
    destruct trailing; [apply (Hpos true); exact H|].
    destruct (str_eqb t "--"); [eapply IHn; [| |exact H]; [lia|assumption]|].
    destruct (long_body t) as [body|].
    + destruct (split_eq body) as [name oval].
      destruct (str_eqb name "help"); [destruct oval; discriminate|].
      destruct (str_eqb name "version"); [destruct oval; discriminate|].
      destruct (find_long spec name) as [a|] eqn:Ef; [|discriminate].
      apply find_long_in in Ef.
      destruct (a_kind a).
      * destruct oval; [discriminate|]. destruct (push a "" acc) eqn:Ep; [|discriminate].
        eapply IHn; [| |exact H]; [lia|]. eapply Hpush; eauto.
      * destruct oval as [v|].
        -- destruct (push a v acc) eqn:Ep; [|discriminate].
           eapply IHn; [| |exact H]; [lia|]. eapply Hpush; eauto.
        -- destruct rest as [|v rest']; [discriminate|].
           destruct (looks_like_option v); [discriminate|].
           destruct (push a v acc) eqn:Ep; [|discriminate].
           eapply IHn; [| |exact H]; [cbn in Hlen; lia|]. eapply Hpush; eauto.
      * destruct oval as [v|].
        -- destruct (push a v acc) eqn:Ep; [|discriminate].
           eapply IHn; [| |exact H]; [lia|]. eapply Hpush; eauto.
        -- destruct rest as [|v rest']; [discriminate|].
           destruct (looks_like_option v); [discriminate|].
           destruct (push a v acc) eqn:Ep; [|discriminate].
           eapply IHn; [| |exact H]; [cbn in Hlen; lia|]. eapply Hpush; eauto.
      * destruct oval as [v|].
        -- destruct (push a v acc) eqn:Ep; [|discriminate].
           eapply IHn; [| |exact H]; [lia|]. eapply Hpush; eauto.
        -- destruct rest as [|v rest']; [discriminate|].
           destruct (looks_like_option v); [discriminate|].
           destruct (push a v acc) eqn:Ep; [|discriminate].
           eapply IHn; [| |exact H]; [cbn in Hlen; lia|]. eapply Hpush; eauto.
      * destruct oval as [v|].
        -- destruct (push a v acc) eqn:Ep; [|discriminate].
           eapply IHn; [| |exact H]; [lia|]. eapply Hpush; eauto.
        -- destruct rest as [|v rest']; [discriminate|].
           destruct (looks_like_option v); [discriminate|].
           destruct (push a v acc) eqn:Ep; [|discriminate].
           eapply IHn; [| |exact H]; [cbn in Hlen; lia|]. eapply Hpush; eauto.
    + destruct (looks_like_option t).
      * unfold short_action in H. destruct t as [|c1 t1]; [discriminate|].
        destruct t1 as [|c2 t2]; repeat (match type of H with context [match ?x with _ => _ end] => destruct x end; try discriminate).
      * apply (Hpos false); exact H.
Qed.

Lemma scan_valid_n : forall n argv trailing acc out, (length argv <= n)%nat ->
  Forall valid_entry acc -> scan spec argv trailing acc = PParsed out -> Forall valid_entry out.
Proof. intros n argv trailing acc out. apply (scan_inv_n (Forall valid_entry)). intros; eapply push_valid; eauto. Qed.

(* a flag / a single-valued option occurs at most once in the parsed record: a repeated one is a usage error *)
Definition fields_unique : Prop := forall a a', In a spec -> In a' spec -> a_field a = a_field a' -> a = a'.
Definition once (acc : list (str * str)) : Prop :=
  forall a, In a spec -> single (a_kind a) = true -> (length (values_of acc (a_field a)) <= 1)%nat.

Lemma values_of_app : forall acc f v fld,
  values_of (acc ++ [(f, v)]) fld = (values_of acc fld ++ (if str_eqb f fld then [v] else []))%list.
Proof.
  intros. unfold values_of. rewrite filter_app, map_app. cbn. destruct (str_eqb f fld); reflexivity.
Qed.
Lemma has_field_false_values : forall acc fld, has_field acc fld = false -> values_of acc fld = [].
Proof.
  induction acc as [|[f v] acc IH]; intros fld H; [reflexivity|]. unfold has_field in H. cbn in H.
  apply orb_false_iff in H. destruct H as [H1 H2]. unfold values_of. cbn. rewrite H1. apply IH. exact H2.
Qed.
Lemma push_once : fields_unique -> forall a v acc acc', In a spec -> push a v acc = Some acc' -> once acc -> once acc'.
Proof.
  intros Hu a v acc acc' Hin H Hacc a' Ha' Hs. unfold push in H.
  destruct (vp_accepts (a_vp a) v); cbn in H; [|discriminate].
  destruct (single (a_kind a) && has_field acc (a_field a)) eqn:E; [discriminate|].
  inversion H; subst acc'. rewrite values_of_app.
  destruct (str_eqb (a_field a) (a_field a')) eqn:Ef.
  - apply str_eqb_eq in Ef. assert (a = a') by (apply Hu; assumption). subst a'.
    rewrite Hs in E. cbn in E. rewrite (has_field_false_values _ _ E). cbn. auto.
  - rewrite app_nil_r. apply Hacc; assumption.
Qed.
Lemma parse_once : fields_unique -> forall group argv out, parse spec group argv = PParsed out -> once out.
Proof.
  intros Hu group argv out H. unfold parse in H.
  destruct (scan spec argv false []) eqn:Es; try discriminate.
  destruct (Nat.ltb 1 (group_members_present group vals)); [discriminate|].
  destruct (required_present spec vals); cbn in H; [|discriminate]. inversion H; subst.
  eapply (scan_inv_n once); [intros; eapply push_once; eauto|reflexivity| |exact Es].
  intros a _ _. cbn. auto.
Qed.

(* every value that reaches main_result went through the value parser of an option of that name *)
Lemma parse_valid : forall group argv out, parse spec group argv = PParsed out ->
  Forall valid_entry out /\ (group_members_present group out <= 1)%nat /\ required_present spec out = true.
Proof.
  intros group argv out H. unfold parse in H.
  destruct (scan spec argv false []) eqn:Es; try discriminate.
  destruct (Nat.ltb 1 (group_members_present group vals)) eqn:Eg; [discriminate|].
  destruct (required_present spec vals) eqn:Er; cbn in H; [|discriminate].
  inversion H; subst. split; [|split].
  - eapply scan_valid_n; [reflexivity| |exact Es]. constructor.
  - apply Nat.ltb_ge in Eg. exact Eg.
  - exact Er.
Qed.
End Spec.

(* ------------------------------------------------------------------ a rejected / help / version command line *)
Lemma usage_runs_nothing : forall pid spec group defaults arms argv e,
  parse spec group argv = PUsage ->
  run_argv pid spec group defaults arms argv e = ([ClapMessage false], 2%Z).
Proof. intros. unfold run_argv. rewrite H. reflexivity. Qed.

Lemma help_version_run_nothing : forall pid spec group defaults arms argv e,
  parse spec group argv = PHelp \/ parse spec group argv = PVersion ->
  run_argv pid spec group defaults arms argv e = ([ClapMessage true], 0%Z).
Proof. intros. unfold run_argv. destruct H as [H|H]; rewrite H; reflexivity. Qed.


(* ------------------------------------------------------------------ the regenerated grammar of minidump-stackwalk *)
Definition CLI : list arg_spec := RM.Gen.C20Cli.CLI_ARGS.
Definition GROUP : list str := RM.Gen.C20Cli.CLI_GROUP.
Definition DEFAULTS : list (str * str) := RM.Gen.C20Cli.CLI_DEFAULTS.
Definition ARMS : list (str * str) := RM.Gen.C20Cli.CLI_FEATURE_ARMS.
Definition vp_of_field (fld : str) : vparser :=
  match find (fun a => str_eqb (a_field a) fld) CLI with Some a => a_vp a | None => VString end.
Definition stackwalk (pid : str -> path) (argv : list str) (e : env) : list cli_event * Z :=
  run_argv pid CLI GROUP DEFAULTS ARMS argv e.

Fixpoint fields_nodup (l : list arg_spec) : bool :=
  match l with
  | [] => true
  | a :: r => negb (existsb (fun b => str_eqb (a_field a) (a_field b)) r) && fields_nodup r
  end.
Lemma fields_nodup_unique : forall l, fields_nodup l = true -> fields_unique l.
Proof.
  induction l as [|x l IH]; intros H a a' Ha Ha' Hf; [destruct Ha|].
  cbn in H. apply andb_true_iff in H. destruct H as [Hx Hl]. apply negb_true_iff in Hx.
  assert (Hno : forall b, In b l -> a_field x <> a_field b).
  { intros b Hb E. assert (existsb (fun b => str_eqb (a_field x) (a_field b)) l = true); [|congruence].
    apply existsb_exists. exists b. split; [exact Hb|]. apply str_eqb_eq. exact E. }
  destruct Ha as [Ha|Ha], Ha' as [Ha'|Ha']; subst.
  - reflexivity.
  - exfalso. eapply Hno; eauto.
  - exfalso. eapply Hno; eauto.
  - apply IH; assumption.
Qed.
Lemma cli_fields_unique : fields_unique CLI.
Proof. apply fields_nodup_unique. reflexivity. Qed.

(* a flag or single-valued option of minidump-stackwalk given twice never reaches main(): it is a usage error *)
Lemma cli_single_once : forall argv out, parse CLI GROUP argv = PParsed out ->
  forall a, In a CLI -> single (a_kind a) = true -> (length (values_of out (a_field a)) <= 1)%nat.
Proof. intros argv out H. exact (parse_once CLI cli_fields_unique GROUP argv out H). Qed.

(* `--features`: every value clap lets through has an arm in `match &*cli.features` *)
Lemma features_value_has_arm : forall s,
  vp_accepts (vp_of_field "features") s = true -> features_match ARMS s <> None.
Proof.
  assert (E : exists pv, vp_of_field "features" = VPossible pv false /\
                         forallb (fun v => match features_match ARMS v with Some _ => true | None => false end) pv = true)
    by (eexists; split; reflexivity).
  destruct E as [pv [E1 E2]]. rewrite E1. apply possible_exact_covered. exact E2.
Qed.

(* `--verbose`: LevelFilter::from_str(&v).unwrap() never sees a value it cannot parse *)
Lemma verbose_value_has_level : forall s,
  vp_accepts (vp_of_field "verbose") s = true -> level_from_str s <> None.
Proof.
  assert (E : exists pv ic, vp_of_field "verbose" = VPossible pv ic /\
                            forallb (fun v => existsb (str_eqb v) level_names) pv = true)
    by (do 2 eexists; split; reflexivity).
  destruct E as [pv [ic [E1 E2]]]. rewrite E1. apply possible_levels_any_case. exact E2.
Qed.

(* what goes wrong when the enumerated parser ignores case and the consumer does not (seeded C20-8's class) *)
Lemma ignore_case_reaches_default_arm :
  exists s, vp_accepts (VPossible ["stable-basic"; "stable-all"; "unstable-all"] true) s = true /\
            features_match [("stable-basic", "stable_basic"); ("stable-all", "stable_all"); ("unstable-all", "unstable_all")] s = None.
Proof. exists "Stable-All". split; reflexivity. Qed.

Lemma cli_field_vp : forall a fld, In a CLI -> a_field a = fld -> fld = "features" \/ fld = "verbose" ->
  a_vp a = vp_of_field fld.
Proof.
  intros a fld Hin Hf Hor. unfold CLI, RM.Gen.C20Cli.CLI_ARGS in Hin. cbn in Hin.
  repeat (destruct Hin as [Hin|Hin]; [subst a; cbn in Hf; subst fld; destruct Hor as [Hor|Hor]; try discriminate Hor; reflexivity|]).
  destruct Hin.
Qed.

Lemma values_of_in : forall acc fld v, In v (values_of acc fld) -> In (fld, v) acc.
Proof.
  intros acc fld v H. unfold values_of in H. apply in_map_iff in H. destruct H as [[f0 v0] [Hs Hin]].
  cbn in Hs. subst. apply filter_In in Hin. destruct Hin as [Hin Heq]. cbn in Heq. apply str_eqb_eq in Heq. subst. exact Hin.
Qed.

Lemma parsed_value_accepted : forall group argv acc fld v, parse CLI group argv = PParsed acc ->
  fld = "features" \/ fld = "verbose" -> value_of DEFAULTS acc fld = Some v ->
  vp_accepts (vp_of_field fld) v = true.
Proof.
  intros group argv acc fld v Hp Hor Hv. apply parse_valid in Hp. destruct Hp as [Hall _].
  unfold value_of in Hv. destruct (values_of acc fld) as [|v0 r] eqn:E.
  - destruct Hor; subst fld; cbn in Hv; inversion Hv; subst; reflexivity.
  - inversion Hv; subst v0. assert (Hin : In (fld, v) acc) by (apply values_of_in; rewrite E; left; reflexivity).
    rewrite Forall_forall in Hall. destruct (Hall _ Hin) as [a [Ha [Hf Hacc]]]. cbn in Hf, Hacc.
    rewrite <- (cli_field_vp a fld Ha Hf Hor). exact Hacc.
Qed.

(* a command line that clap accepts reaches main_result's logic with a flag record: neither panic site is reachable *)
Lemma parsed_gives_flags : forall pid argv acc, parse CLI GROUP argv = PParsed acc ->
  exists f, interpret pid DEFAULTS ARMS (PParsed acc) = CliFlags f.
Proof.
  intros pid argv acc Hp. unfold interpret.
  destruct (value_of DEFAULTS acc "verbose") as [vs|] eqn:Ev.
  2:{ unfold value_of in Ev. destruct (values_of acc "verbose"); cbn in Ev; discriminate. }
  pose proof (verbose_value_has_level vs (parsed_value_accepted _ _ _ _ _ Hp (or_intror eq_refl) Ev)) as Hl.
  destruct (level_from_str vs) as [level|]; [|congruence].
  destruct (value_of DEFAULTS acc "features") as [fs|] eqn:Ef.
  2:{ unfold value_of in Ef. destruct (values_of acc "features"); cbn in Ef; discriminate. }
  pose proof (features_value_has_arm fs (parsed_value_accepted _ _ _ _ _ Hp (or_introl eq_refl) Ef)) as Hf.
  destruct (features_match ARMS fs) as [ft|]; [|congruence]. eexists; reflexivity.
Qed.

Definition is_cli_panic (ev : cli_event) : bool :=
  match ev with PanicUnwrap | PanicUnimplemented => true | _ => false end.

Lemma stackwalk_cases : forall pid argv e,
  (parse CLI GROUP argv = PUsage /\ stackwalk pid argv e = ([ClapMessage false], 2%Z)) \/
  ((parse CLI GROUP argv = PHelp \/ parse CLI GROUP argv = PVersion) /\ stackwalk pid argv e = ([ClapMessage true], 0%Z)) \/
  (exists acc f, parse CLI GROUP argv = PParsed acc /\ interpret pid DEFAULTS ARMS (PParsed acc) = CliFlags f /\
                 stackwalk pid argv e = lift (run f e)).
Proof.
  intros pid argv e. unfold stackwalk, run_argv.
  destruct (parse CLI GROUP argv) as [| | |acc] eqn:Hp.
  - left. split; reflexivity.
  - right; left. split; [left|]; reflexivity.
  - right; left. split; [right|]; reflexivity.
  - right; right. destruct (parsed_gives_flags pid argv acc Hp) as [f Hf]. exists acc, f.
    split; [reflexivity|]. split; [exact Hf|]. rewrite Hf. reflexivity.
Qed.

Lemma argv_never_panics : forall pid argv e,
  existsb is_cli_panic (fst (stackwalk pid argv e)) = false /\
  (snd (stackwalk pid argv e) = 0 \/ snd (stackwalk pid argv e) = 1 \/ snd (stackwalk pid argv e) = 2)%Z.
Proof.
  intros pid argv e.
  destruct (stackwalk_cases pid argv e) as [[_ H]|[[_ H]|[acc [f [_ [_ H]]]]]]; rewrite H; cbn [fst snd].
  - split; [reflexivity|]. right; right; reflexivity.
  - split; [reflexivity|]. left; reflexivity.
  - unfold lift. cbn [fst snd]. split.
    + induction (fst (run f e)) as [|ev tr IH]; [reflexivity|]. cbn. exact IH.
    + exact (exit_codes_help f e).
Qed.

(* ------------------------------------------------------------------ every sink is opened before the first report byte *)
Definition is_create (ev : event) : bool := match ev with Create _ => true | _ => false end.
Definition no_create (tr : list event) : bool := forallb (fun ev => negb (is_create ev)) tr.
Fixpoint opens_first (tr : list event) : bool :=
  match tr with
  | [] => true
  | ev :: r => if is_render ev then no_create r else opens_first r
  end.

Lemma opens_first_spec : forall tr, opens_first tr = true ->
  forall l1 p l2, tr = (l1 ++ Create p :: l2)%list -> forall ev, In ev l1 -> is_render ev = false.
Proof.
  induction tr as [|x tr IH]; intros H l1 p l2 E ev Hin.
  - destruct l1; discriminate.
  - destruct l1 as [|y l1]; [destruct Hin|]. cbn in E. inversion E; subst y tr. cbn in H.
    destruct (is_render x) eqn:Ex.
    + exfalso. unfold no_create in H. rewrite forallb_forall in H.
      assert (Hc : In (Create p) (l1 ++ Create p :: l2)%list) by (apply in_or_app; right; left; reflexivity).
      specialize (H _ Hc). discriminate.
    + destruct Hin as [Hin|Hin]; [subst; exact Ex|]. eapply IH; eauto.
Qed.

Lemma io_exit_no_create : forall r, no_create (fst (io_exit r)) = true.
Proof. destruct r; reflexivity. Qed.
Lemma do_writes_no_create : forall e ws, no_create (fst (do_writes e ws)) = true.
Proof.
  induction ws as [|[w r] ws IH]; [reflexivity|]. cbn.
  destruct (e_write e w r); [destruct (do_writes e ws); exact IH| |]; reflexivity.
Qed.
Lemma no_create_opens_first : forall tr, no_create tr = true -> opens_first tr = true.
Proof.
  induction tr as [|x tr IH]; [reflexivity|]. cbn. intro H. apply andb_true_iff in H. destruct H as [_ H].
  destruct (is_render x); auto.
Qed.
Lemma do_creates_opens_first : forall e ps k, opens_first (fst k) = true -> opens_first (fst (do_creates e ps k)) = true.
Proof.
  induction ps as [|p ps IH]; intros k Hk; [exact Hk|]. cbn.
  destruct (e_create e p); [destruct (do_creates e ps k) eqn:E; cbn; specialize (IH k Hk); rewrite E in IH; exact IH| |]; reflexivity.
Qed.

Lemma sinks_opened_before_first_report_byte : forall f e, opens_first (fst (run f e)) = true.
Proof.
  intros f e. unfold run. destruct (decide f) as [r| |p].
  - destruct r; try reflexivity; apply do_creates_opens_first; reflexivity.
  - apply do_creates_opens_first. apply no_create_opens_first. apply do_writes_no_create.
  - apply do_creates_opens_first. unfold exec. destruct (negb (e_read e)); [reflexivity|].
    apply do_creates_opens_first. destruct (p_process p && negb (e_process e)); [reflexivity|].
    apply no_create_opens_first. apply do_writes_no_create.
Qed.

(* a sink that cannot be opened: no report byte anywhere, whatever the mode *)
Lemma do_creates_uncreatable : forall e ps k p, In p ps -> e_create e p <> IoOk ->
  existsb is_render (fst (do_creates e ps k)) = false.
Proof.
  induction ps as [|q ps IH]; intros k p Hin Hne; [destruct Hin|]. cbn.
  destruct (e_create e q) eqn:Eq; try reflexivity.
  destruct Hin as [Hin|Hin]; [subst; congruence|].
  specialize (IH k p Hin Hne). destruct (do_creates e ps k). cbn in *. exact IH.
Qed.
Lemma do_creates_keeps_clean : forall e ps k, existsb is_render (fst k) = false ->
  existsb is_render (fst (do_creates e ps k)) = false.
Proof.
  induction ps as [|q ps IH]; intros k Hk; [exact Hk|]. cbn.
  destruct (e_create e q); try reflexivity. specialize (IH k Hk). destruct (do_creates e ps k). exact IH.
Qed.

Lemma uncreatable_sink_no_report : forall f e pl p, decide f = Plan pl ->
  In p (opt_list (f_log_file f) ++ p_creates pl)%list -> e_create e p <> IoOk ->
  existsb is_render (fst (run f e)) = false /\ snd (run f e) <> 101%Z.
Proof.
  intros f e pl p Hd Hin Hne. split.
  - unfold run. rewrite Hd. apply in_app_or in Hin. destruct Hin as [Hin|Hin].
    + eapply do_creates_uncreatable; eauto.
    + apply do_creates_keeps_clean. unfold exec. destruct (negb (e_read e)); [reflexivity|].
      eapply do_creates_uncreatable; eauto.
  - unfold run. rewrite Hd.
    pose proof (do_creates_code e (opt_list (f_log_file f)) (exec pl e) (exec_code pl e)) as Hc.
    destruct Hc as [Hc|Hc]; rewrite Hc; discriminate.
Qed.

(* ------------------------------------------------------------------ which diagnostic, and how many *)
Definition count_diag (tr : list event) : nat := length (filter is_diag tr).

Lemma io_exit_one_diag : forall r, (count_diag (fst (io_exit r)) <= 1)%nat.
Proof. destruct r; cbn; auto. Qed.
Lemma do_creates_one_diag : forall e ps k, (count_diag (fst k) <= 1)%nat -> (count_diag (fst (do_creates e ps k)) <= 1)%nat.
Proof.
  induction ps as [|p ps IH]; intros k Hk; [exact Hk|]. cbn.
  destruct (e_create e p); [specialize (IH k Hk); destruct (do_creates e ps k); exact IH| |]; cbn; auto.
Qed.
Lemma do_writes_one_diag : forall e ws, (count_diag (fst (do_writes e ws)) <= 1)%nat.
Proof.
  induction ws as [|[w r] ws IH]; [cbn; auto|]. cbn.
  destruct (e_write e w r); [destruct (do_writes e ws); exact IH| |]; cbn; auto.
Qed.
Lemma at_most_one_diagnostic : forall f e, (count_diag (fst (run f e)) <= 1)%nat.
Proof.
  intros f e. unfold run. destruct (decide f) as [r| |p].
  - destruct r; [cbn; auto| |]; apply do_creates_one_diag; cbn; auto.
  - apply do_creates_one_diag. apply do_writes_one_diag.
  - apply do_creates_one_diag. unfold exec. destruct (negb (e_read e)); [cbn; auto|].
    apply do_creates_one_diag. destruct (p_process p && negb (e_process e)); [cbn; auto|]. apply do_writes_one_diag.
Qed.

Lemma logger_diag_do_creates : forall e ps k, In (Diag Logger) (fst (do_creates e ps k)) -> In (Diag Logger) (fst k).
Proof.
  induction ps as [|p ps IH]; intros k H; [exact H|]. cbn in H.
  destruct (e_create e p).
  - specialize (IH k). destruct (do_creates e ps k). cbn in *. destruct H as [H|H]; [discriminate|auto].
  - cbn in H. destruct H as [H|[]]. discriminate.
  - destruct H.
Qed.
Lemma logger_diag_do_writes : forall e ws, ~ In (Diag Logger) (fst (do_writes e ws)).
Proof.
  induction ws as [|[w r] ws IH]; [intros []|]. cbn.
  destruct (e_write e w r).
  - destruct (do_writes e ws). cbn in *. intros [H|H]; [discriminate|auto].
  - cbn. intros [H|[H|[]]]; discriminate.
  - cbn. intros [H|[]]; discriminate.
Qed.

(* the logger's fatal message has exactly three causes: main's own rejection of --pretty / --brief, a dump that does not
   read, a dump that does not process *)
Lemma logger_diag_cause : forall f e, In (Diag Logger) (fst (run f e)) ->
  (exists r, decide f = Rejected r /\ r <> UsageConflict) \/
  (exists p, decide f = Plan p /\ (e_read e = false \/ (e_read e = true /\ p_process p = true /\ e_process e = false))).
Proof.
  intros f e H. unfold run in H. destruct (decide f) as [r| |p] eqn:Ed.
  - destruct r; [cbn in H; destruct H as [H|[]]; discriminate| |]; left; eexists; split; try reflexivity; discriminate.
  - apply logger_diag_do_creates in H. exfalso. eapply logger_diag_do_writes; eauto.
  - right. exists p. split; [reflexivity|]. apply logger_diag_do_creates in H. unfold exec in H.
    destruct (e_read e); cbn in H; [|left; reflexivity]. right. split; [reflexivity|].
    apply logger_diag_do_creates in H.
    destruct (p_process p); destruct (e_process e); cbn in H; auto;
      exfalso; eapply logger_diag_do_writes; eauto.
Qed.

(* ------------------------------------------------------------------ `--name=value` is `--name value` *)
Fixpoint str_app (a b : str) : str := match a with SNil => b | SCons c r => SCons c (str_app r b) end.
Fixpoint has_eq (s : str) : bool := match s with SNil => false | SCons c r => Ascii.eqb c "=" || has_eq r end.
Definition long_form (name : str) : str := SCons "-" (SCons "-" name).
Definition long_eq_form (name v : str) : str := SCons "-" (SCons "-" (str_app name (SCons "=" v))).

Lemma split_eq_plain : forall name, has_eq name = false -> split_eq name = (name, None).
Proof.
  induction name as [|c r IH]; intro H; [reflexivity|]. cbn in *. apply orb_false_iff in H. destruct H as [H1 H2].
  rewrite H1, (IH H2). reflexivity.
Qed.
Lemma split_eq_joined : forall name v, has_eq name = false -> split_eq (str_app name (SCons "=" v)) = (name, Some v).
Proof.
  induction name as [|c r IH]; intros v H; [reflexivity|]. cbn in *. apply orb_false_iff in H. destruct H as [H1 H2].
  rewrite H1, (IH v H2). reflexivity.
Qed.

Lemma eq_form_same_as_space_form : forall spec name v rest acc a,
  find_long spec name = Some a -> a_kind a <> KFlag -> has_eq name = false ->
  name <> "help" -> name <> "version" -> looks_like_option v = false ->
  scan spec (long_eq_form name v :: rest) false acc = scan spec (long_form name :: v :: rest) false acc.
Proof.
  intros spec name v rest acc a Hf Hk He Hh Hv Hl.
  assert (Hne : name <> "").
  { intro E. subst. unfold find_long in Hf. apply find_some in Hf. destruct Hf as [_ Hf].
    apply andb_true_iff in Hf. destruct Hf as [H1 H2]. apply str_eqb_eq in H2. rewrite H2 in H1. discriminate. }
  assert (Hh' : str_eqb name "help" = false) by (destruct (str_eqb name "help") eqn:E; [apply str_eqb_eq in E; contradiction|reflexivity]).
  assert (Hv' : str_eqb name "version" = false) by (destruct (str_eqb name "version") eqn:E; [apply str_eqb_eq in E; contradiction|reflexivity]).
  assert (Hd1 : str_eqb (long_eq_form name v) "--" = false).
  { unfold long_eq_form. destruct name; reflexivity. }
  assert (Hd2 : str_eqb (long_form name) "--" = false).
  { unfold long_form. destruct name; [contradiction|reflexivity]. }
  cbn [scan]. rewrite Hd1, Hd2.
  change (long_body (long_eq_form name v)) with (Some (str_app name (SCons "=" v))).
  change (long_body (long_form name)) with (Some name).
  cbv iota. rewrite (split_eq_joined name v He), (split_eq_plain name He).
  rewrite Hh', Hv', Hf. destruct (a_kind a); try contradiction; rewrite Hl; reflexivity.
Qed.

Lemma cli_long_names_plain : forall name a, find_long CLI name = Some a ->
  has_eq name = false /\ name <> "help" /\ name <> "version".
Proof.
  intros name a H. unfold find_long in H. apply find_some in H. destruct H as [Hin H].
  apply andb_true_iff in H. destruct H as [_ H]. apply str_eqb_eq in H. subst name.
  unfold CLI, RM.Gen.C20Cli.CLI_ARGS in Hin. cbn in Hin.
  repeat (destruct Hin as [Hin|Hin]; [subst a; cbn; repeat split; discriminate|]). destruct Hin.
Qed.
Lemma cli_eq_form_same_as_space_form : forall name v rest acc a,
  find_long CLI name = Some a -> a_kind a <> KFlag -> looks_like_option v = false ->
  scan CLI (long_eq_form name v :: rest) false acc = scan CLI (long_form name :: v :: rest) false acc.
Proof.
  intros name v rest acc a Hf Hk Hl. destruct (cli_long_names_plain name a Hf) as [He [Hh Hv]].
  eapply eq_form_same_as_space_form; eauto.
Qed.

(* ------------------------------------------------------------------ a declarative reading of the command line *)
(* an argument vector, item by item, as the manual describes it *)
Inductive item :=
| IFlag (name : str)               (* --name *)
| IOptEq (name v : str)            (* --name=value *)
| IOptSp (name v : str)            (* --name value *)
| IWord (v : str).                 (* a positional word *)

Definition render_item (it : item) : list str :=
  match it with
  | IFlag name => [long_form name]
  | IOptEq name v => [long_eq_form name v]
  | IOptSp name v => [long_form name; v]
  | IWord v => [v]
  end.
Definition render (items : list item) : list str := flat_map render_item items.

Definition plain_name (name : str) : bool :=
  negb (has_eq name) && negb (str_eqb name "help") && negb (str_eqb name "version").

(* what the manual says each item means, given what was already read: the option it names exists, takes (no) value, was not
   given before if it may be given once, the value passes the option's value parser and (space form) does not look like an
   option; a word goes to the next free positional *)
Definition item_effect (spec : list arg_spec) (acc : list (str * str)) (it : item) : option (list (str * str)) :=
  match it with
  | IFlag name =>
      if plain_name name then
        match find_long spec name with
        | Some a => match a_kind a with KFlag => push a "" acc | _ => None end
        | None => None
        end
      else None
  | IOptEq name v =>
      if plain_name name then
        match find_long spec name with
        | Some a => match a_kind a with KFlag => None | _ => push a v acc end
        | None => None
        end
      else None
  | IOptSp name v =>
      if plain_name name && negb (looks_like_option v) then
        match find_long spec name with
        | Some a => match a_kind a with KFlag => None | _ => push a v acc end
        | None => None
        end
      else None
  | IWord v =>
      if looks_like_option v then None
      else match next_positional spec acc with Some a => push a v acc | None => None end
  end.
Fixpoint items_effect (spec : list arg_spec) (acc : list (str * str)) (items : list item) : option (list (str * str)) :=
  match items with
  | [] => Some acc
  | it :: r => match item_effect spec acc it with Some acc' => items_effect spec acc' r | None => None end
  end.

Lemma plain_name_facts : forall name, plain_name name = true ->
  has_eq name = false /\ str_eqb name "help" = false /\ str_eqb name "version" = false.
Proof.
  intros name H. unfold plain_name in H. apply andb_true_iff in H. destruct H as [H H3].
  apply andb_true_iff in H. destruct H as [H1 H2].
  apply negb_true_iff in H1. apply negb_true_iff in H2. apply negb_true_iff in H3. auto.
Qed.
Lemma find_long_nonempty : forall spec name a, find_long spec name = Some a -> name <> "".
Proof.
  intros spec name a Hf E. subst. unfold find_long in Hf. apply find_some in Hf. destruct Hf as [_ Hf].
  apply andb_true_iff in Hf. destruct Hf as [H1 H2]. apply str_eqb_eq in H2. rewrite H2 in H1. discriminate.
Qed.
Lemma long_form_not_dashes : forall name, name <> "" -> str_eqb (long_form name) "--" = false.
Proof. intros name H. unfold long_form. destruct name; [contradiction|reflexivity]. Qed.
Lemma long_eq_form_not_dashes : forall name v, str_eqb (long_eq_form name v) "--" = false.
Proof. intros name v. unfold long_eq_form. destruct name; reflexivity. Qed.

(* a word that does not look like an option is neither `--`, nor a long option, nor a short one *)
Lemma word_is_positional : forall v, looks_like_option v = false -> str_eqb v "--" = false /\ long_body v = None.
Proof.
  intros v H. unfold looks_like_option in H.
  destruct v as [|c r]; [split; reflexivity|].
  destruct (Ascii.eqb c "-") eqn:Ec.
  - apply Ascii.eqb_eq in Ec. subst c. cbn in H. destruct r as [|c2 r2]; [split; reflexivity|]. cbn in H. discriminate.
  - assert (c <> "-"%char) by (intro E; subst; rewrite Ascii.eqb_refl in Ec; discriminate).
    split.
    + cbn. rewrite Ec. reflexivity.
    + unfold long_body. destruct c as [[] [] [] [] [] [] [] []]; try reflexivity. contradiction H0. reflexivity.
Qed.

(* one item: the scanner does to the rendering of an item exactly what the manual says the item means *)
Lemma scan_item : forall spec acc it acc', item_effect spec acc it = Some acc' ->
  forall tail, scan spec (render_item it ++ tail) false acc = scan spec tail false acc'.
Proof.
  intros spec acc it acc' H tail. destruct it as [name|name v|name v|v]; cbn [item_effect] in H.
  - destruct (plain_name name) eqn:Hp; [|discriminate]. destruct (plain_name_facts _ Hp) as [He [Hh Hv]].
    destruct (find_long spec name) as [a|] eqn:Hf; [|discriminate].
    pose proof (find_long_nonempty _ _ _ Hf) as Hne.
    cbn [render_item app]. cbn [scan]. rewrite (long_form_not_dashes _ Hne).
    change (long_body (long_form name)) with (Some name). cbv iota.
    rewrite (split_eq_plain name He), Hh, Hv, Hf.
    destruct (a_kind a); try discriminate. rewrite H. reflexivity.
  - destruct (plain_name name) eqn:Hp; [|discriminate]. destruct (plain_name_facts _ Hp) as [He [Hh Hv]].
    destruct (find_long spec name) as [a|] eqn:Hf; [|discriminate].
    cbn [render_item app]. cbn [scan]. rewrite (long_eq_form_not_dashes name v).
    change (long_body (long_eq_form name v)) with (Some (str_app name (SCons "=" v))). cbv iota.
    rewrite (split_eq_joined name v He), Hh, Hv, Hf.
    destruct (a_kind a); try discriminate; rewrite H; reflexivity.
  - destruct (plain_name name) eqn:Hp; [|discriminate]. destruct (plain_name_facts _ Hp) as [He [Hh Hv]].
    destruct (looks_like_option v) eqn:Hl; [discriminate|]. cbn [negb andb] in H.
    destruct (find_long spec name) as [a|] eqn:Hf; [|discriminate].
    pose proof (find_long_nonempty _ _ _ Hf) as Hne.
    cbn [render_item app]. cbn [scan]. rewrite (long_form_not_dashes _ Hne).
    change (long_body (long_form name)) with (Some name). cbv iota.
    rewrite (split_eq_plain name He), Hh, Hv, Hf.
    destruct (a_kind a); try discriminate; rewrite Hl, H; reflexivity.
  - destruct (looks_like_option v) eqn:Hl; [discriminate|].
    destruct (word_is_positional v Hl) as [Hd Hb].
    destruct (next_positional spec acc) as [a|] eqn:Hn; [|discriminate].
    cbn [render_item app]. cbn [scan]. rewrite Hd, Hb, Hl, Hn, H. reflexivity.
Qed.

Lemma scan_items : forall spec items acc out, items_effect spec acc items = Some out ->
  forall tail, scan spec (render items ++ tail) false acc = scan spec tail false out.
Proof.
  induction items as [|it r IH]; intros acc out H tail; cbn in H.
  - inversion H; subst. reflexivity.
  - destruct (item_effect spec acc it) as [acc'|] eqn:E; [|discriminate].
    unfold render. cbn [flat_map]. rewrite <- app_assoc. rewrite (scan_item _ _ _ _ E). apply IH. exact H.
Qed.

(* the manual's reading of a command line IS what the parser computes: any list of items whose effects are defined - in
   any order, `=` or space form, in front of or behind the positionals - parses to exactly the record of those effects *)
Lemma manual_reading_is_parsed : forall spec group items out, items_effect spec [] items = Some out ->
  (group_members_present group out <= 1)%nat -> required_present spec out = true ->
  parse spec group (render items) = PParsed out.
Proof.
  intros spec group items out H Hg Hr. unfold parse.
  pose proof (scan_items spec items [] out H []) as Hs. rewrite app_nil_r in Hs. rewrite Hs. cbn [scan].
  apply Nat.ltb_ge in Hg. rewrite Hg, Hr. reflexivity.
Qed.

(* help / version take effect where they stand: behind any readable prefix, whatever follows, whatever is still missing *)
Lemma help_where_it_stands : forall spec group items out post, items_effect spec [] items = Some out ->
  parse spec group (render items ++ "--help" :: post) = PHelp /\
  parse spec group (render items ++ "-h" :: post) = PHelp /\
  parse spec group (render items ++ "--version" :: post) = PVersion /\
  parse spec group (render items ++ "-V" :: post) = PVersion.
Proof.
  intros spec group items out post H. unfold parse.
  repeat split; rewrite (scan_items spec items [] out H); reflexivity.
Qed.

(* and a usage error in the prefix wins over a later help flag *)
Lemma unknown_option_rejected : forall spec group items out name post, items_effect spec [] items = Some out ->
  plain_name name = true -> name <> "" -> find_long spec name = None ->
  parse spec group (render items ++ long_form name :: post) = PUsage.
Proof.
  intros spec group items out name post H Hp Hne Hf. unfold parse. rewrite (scan_items spec items [] out H).
  destruct (plain_name_facts _ Hp) as [He [Hh Hv]].
  cbn [scan]. rewrite (long_form_not_dashes _ Hne).
  change (long_body (long_form name)) with (Some name). cbv iota.
  rewrite (split_eq_plain name He), Hh, Hv, Hf. reflexivity.
Qed.

(* a flag or a single-valued option that the readable prefix already holds is a usage error where it is repeated - in
   either form, whatever its value, whatever follows (a later --help included) *)
Lemma push_repeated : forall a v acc, single (a_kind a) = true -> has_field acc (a_field a) = true -> push a v acc = None.
Proof.
  intros a v acc Hs Hh. unfold push. destruct (vp_accepts (a_vp a) v); cbn; [|reflexivity]. rewrite Hs, Hh. reflexivity.
Qed.
Lemma repeated_option_rejected : forall spec group items out name a post,
  items_effect spec [] items = Some out -> plain_name name = true -> find_long spec name = Some a ->
  single (a_kind a) = true -> has_field out (a_field a) = true ->
  parse spec group (render items ++ long_form name :: post) = PUsage /\
  (forall v, parse spec group (render items ++ long_eq_form name v :: post) = PUsage).
Proof.
  intros spec group items out name a post H Hp Hf Hs Hh.
  destruct (plain_name_facts _ Hp) as [He [Hhl Hv]].
  pose proof (find_long_nonempty _ _ _ Hf) as Hne.
  split.
  - unfold parse. rewrite (scan_items spec items [] out H). cbn [scan]. rewrite (long_form_not_dashes _ Hne).
    change (long_body (long_form name)) with (Some name). cbv iota.
    rewrite (split_eq_plain name He), Hhl, Hv, Hf.
    destruct (a_kind a) eqn:Ek; try discriminate Hs.
    + rewrite (push_repeated a "" out); [reflexivity| rewrite Ek; reflexivity | exact Hh].
    + destruct post as [|v post']; [reflexivity|]. destruct (looks_like_option v); [reflexivity|].
      rewrite (push_repeated a v out); [reflexivity| rewrite Ek; reflexivity | exact Hh].
  - intro v. unfold parse. rewrite (scan_items spec items [] out H). cbn [scan]. rewrite (long_eq_form_not_dashes name v).
    change (long_body (long_eq_form name v)) with (Some (str_app name (SCons "=" v))). cbv iota.
    rewrite (split_eq_joined name v He), Hhl, Hv, Hf.
    destruct (a_kind a) eqn:Ek; try discriminate Hs; [reflexivity|].
    rewrite (push_repeated a v out); [reflexivity| rewrite Ek; reflexivity | exact Hh].
Qed.

(* a value its option's value parser refuses is a usage error where it stands, in either form *)
Lemma push_invalid : forall a v acc, vp_accepts (a_vp a) v = false -> push a v acc = None.
Proof. intros a v acc H. unfold push. rewrite H. reflexivity. Qed.
Lemma invalid_value_rejected : forall spec group items out name a v post,
  items_effect spec [] items = Some out -> plain_name name = true -> find_long spec name = Some a ->
  a_kind a <> KFlag -> vp_accepts (a_vp a) v = false ->
  parse spec group (render items ++ long_eq_form name v :: post) = PUsage /\
  parse spec group (render items ++ long_form name :: v :: post) = PUsage.
Proof.
  intros spec group items out name a v post H Hp Hf Hk Hv.
  destruct (plain_name_facts _ Hp) as [He [Hhl Hvl]].
  pose proof (find_long_nonempty _ _ _ Hf) as Hne.
  split; unfold parse; rewrite (scan_items spec items [] out H); cbn [scan].
  - rewrite (long_eq_form_not_dashes name v).
    change (long_body (long_eq_form name v)) with (Some (str_app name (SCons "=" v))). cbv iota.
    rewrite (split_eq_joined name v He), Hhl, Hvl, Hf.
    destruct (a_kind a); try contradiction; rewrite (push_invalid a v out Hv); reflexivity.
  - rewrite (long_form_not_dashes _ Hne).
    change (long_body (long_form name)) with (Some name). cbv iota.
    rewrite (split_eq_plain name He), Hhl, Hvl, Hf.
    destruct (a_kind a); try contradiction; destruct (looks_like_option v); try reflexivity;
      rewrite (push_invalid a v out Hv); reflexivity.
Qed.

(* the unchanged tool: --features takes exactly its three documented values, --verbose exactly its six; every other spelling
   (another case, cut short, a blank, ..) is a usage error wherever it stands *)
Lemma cli_features_exact : forall v, vp_accepts (vp_of_field "features") v = true <-> In v ["stable-basic"; "stable-all"; "unstable-all"].
Proof.
  intro v. change (vp_of_field "features") with (VPossible ["stable-basic"; "stable-all"; "unstable-all"] false). split.
  - intro H. apply possible_exact_in in H. tauto.
  - intro H. cbn in H. repeat (destruct H as [H|H]; [subst v; reflexivity|]). destruct H.
Qed.
Lemma cli_verbose_exact : forall v, vp_accepts (vp_of_field "verbose") v = true <-> In v ["off"; "error"; "warn"; "info"; "debug"; "trace"].
Proof.
  intro v. change (vp_of_field "verbose") with (VPossible ["off"; "error"; "warn"; "info"; "debug"; "trace"] false). split.
  - intro H. apply possible_exact_in in H. tauto.
  - intro H. cbn in H. repeat (destruct H as [H|H]; [subst v; reflexivity|]). destruct H.
Qed.
Lemma cli_near_miss_rejected : forall items out v post, items_effect CLI [] items = Some out ->
  ~ In v ["stable-basic"; "stable-all"; "unstable-all"] ->
  parse CLI GROUP (render items ++ long_eq_form "features" v :: post) = PUsage /\
  parse CLI GROUP (render items ++ "--features" :: v :: post) = PUsage.
Proof.
  intros items out v post H Hn.
  assert (Hv : vp_accepts (vp_of_field "features") v = false).
  { destruct (vp_accepts (vp_of_field "features") v) eqn:E; [|reflexivity]. apply cli_features_exact in E. contradiction. }
  assert (Hf : exists a, find_long CLI "features" = Some a /\ a_kind a <> KFlag /\ a_vp a = vp_of_field "features")
    by (eexists; split; [reflexivity|split; [discriminate|reflexivity]]).
  destruct Hf as [a [Hf [Hk Ha]]]. rewrite <- Ha in Hv.
  exact (invalid_value_rejected CLI GROUP items out "features" a v post H eq_refl Hf Hk Hv).
Qed.

(* behind `--` every token is a positional word, whatever it looks like *)
Fixpoint words_effect (spec : list arg_spec) (acc : list (str * str)) (ws : list str) : option (list (str * str)) :=
  match ws with
  | [] => Some acc
  | w :: r => match next_positional spec acc with
              | Some a => match push a w acc with Some acc' => words_effect spec acc' r | None => None end
              | None => None
              end
  end.
Lemma scan_trailing : forall spec ws acc out, words_effect spec acc ws = Some out -> scan spec ws true acc = PParsed out.
Proof.
  induction ws as [|w r IH]; intros acc out H; cbn in H; [inversion H; reflexivity|].
  cbn [scan]. destruct (next_positional spec acc) as [a|]; [|discriminate].
  destruct (push a w acc) as [acc'|]; [|discriminate]. apply IH. exact H.
Qed.
Lemma after_dashdash_positional : forall spec group items acc ws out,
  items_effect spec [] items = Some acc -> words_effect spec acc ws = Some out ->
  (group_members_present group out <= 1)%nat -> required_present spec out = true ->
  parse spec group (render items ++ "--" :: ws) = PParsed out.
Proof.
  intros spec group items acc ws out H Hw Hg Hr. unfold parse. rewrite (scan_items spec items [] acc H).
  cbn [scan]. change (str_eqb "--" "--") with true. cbv iota. rewrite (scan_trailing spec ws acc out Hw).
  apply Nat.ltb_ge in Hg. rewrite Hg, Hr. reflexivity.
Qed.
