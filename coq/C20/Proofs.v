(* C20/Proofs.v — lemmas about the decision function and the effect order of main(). *)
From Coq Require Import Lia.
From RM Require Import C20.Model.
Open Scope Z_scope.

(* ------------------------------------------------------------------ vocabulary *)
Definition writer_of (f : flags) : writer :=
  match f_output_file f with Some p => File p | None => Stdout end.

(* the options the documentation promises: the preset named by --features, plus the explicit flag *)
Definition documented_opts (f : flags) : proc_opts :=
  {| po_base := f_features f; po_recover := preset_recover (f_features f) || f_recover f |}.

Definition is_render (ev : event) : bool :=
  match ev with Written _ _ | WriteFailed _ _ => true | _ => false end.
Definition is_diag (ev : event) : bool :=
  match ev with Diag _ => true | _ => false end.
Definition is_panic (ev : event) : bool :=
  match ev with PanicEv => true | _ => false end.

(* no operation of the environment fails *)
Definition clean (e : env) : Prop :=
  (forall p, e_create e p = IoOk) /\ (forall w r, e_write e w r = IoOk).
(* File::create never reports a broken pipe (only writes to a pipe do) *)
Definition creates_not_pipe (e : env) : Prop := forall p, e_create e p <> IoBrokenPipe.
(* some executed operation reported a broken pipe *)
Definition pipe_broke (e : env) : Prop :=
  (exists p, e_create e p = IoBrokenPipe) \/ (exists w r, e_write e w r = IoBrokenPipe).

Definition accepted (f : flags) : Prop := group_count f <= 1 /\ f_help_md f = false.

(* ------------------------------------------------------------------ decide: tables *)
Ltac flagcases f :=
  destruct f as [xh xj xc xd xhm xp xb xft xrc xo xlg xvo];
  destruct xh, xj, xc as [xcy|], xd, xhm, xp, xb;
  cbv [accepted group_count decide f_human f_json f_cyborg f_dump f_help_md f_pretty f_brief f_features
       f_recover f_output_file f_log_file f_verbose_off b2z is_some Z.add Z.ltb Z.leb Z.compare
       Pos.add Pos.succ Pos.compare Pos.compare_cont negb andb orb opt_list app writer_of] in *.

Lemma plan_table : forall f, accepted f ->
  (f_dump f = true -> f_pretty f = false ->
     exists p, decide f = Plan p /\ p_writer p = writer_of f /\
               p_primary p = [if f_brief f then DumpBrief else Dump] /\
               p_secondary p = None /\ p_process p = false /\
               p_creates p = opt_list (f_output_file f)) /\
  (f_json f = true -> f_brief f = false ->
     exists p, decide f = Plan p /\ p_writer p = writer_of f /\
               p_primary p = [Json (f_pretty f)] /\
               p_secondary p = None /\ p_process p = true /\
               p_creates p = opt_list (f_output_file f)) /\
  (forall c, f_cyborg f = Some c ->
     exists p, decide f = Plan p /\ p_writer p = writer_of f /\
               p_primary p = [if f_brief f then HumanBrief else Human] /\
               p_secondary p = Some (c, Json (f_pretty f)) /\ p_process p = true /\
               p_creates p = c :: opt_list (f_output_file f)) /\
  (f_json f = false -> f_dump f = false -> f_cyborg f = None -> f_pretty f = false ->
     exists p, decide f = Plan p /\ p_writer p = writer_of f /\
               p_primary p = [if f_brief f then HumanBrief else Human] /\
               p_secondary p = None /\ p_process p = true /\
               p_creates p = opt_list (f_output_file f)).
Proof.
  intros f [Hg Hh].
  flagcases f; try discriminate Hh; try (exfalso; apply Hg; reflexivity);
    (split; [|split; [|split]]); intros; try discriminate;
    try (match goal with H : Some _ = Some _ |- _ => inversion H; subst end);
    eexists; (split; [reflexivity|]); cbn; repeat split; reflexivity.
Qed.

(* every plan prints exactly one report on the primary output *)
Lemma single_primary : forall f p, decide f = Plan p ->
  exists r, p_primary p = [r] /\ r <> HelpDoc.
Proof.
  intros f p H.
  flagcases f; try discriminate H; inversion H; subst; cbn; eexists; split; try reflexivity; discriminate.
Qed.

Lemma plan_writer : forall f p, decide f = Plan p ->
  p_writer p = writer_of f /\
  p_creates p = opt_list (f_cyborg f) ++ opt_list (f_output_file f) /\
  (forall c r, p_secondary p = Some (c, r) -> f_cyborg f = Some c /\ r = Json (f_pretty f)) /\
  (f_cyborg f <> None -> p_secondary p <> None).
Proof.
  intros f p H.
  flagcases f; try discriminate H; inversion H; subst; cbn;
    (split; [reflexivity|split; [reflexivity|split]]); intros; try discriminate; try congruence;
    match goal with HH : Some _ = Some _ |- _ => inversion HH; subst; split; reflexivity end.
Qed.

Lemma plan_opts : forall f p, decide f = Plan p -> p_opts p = documented_opts f.
Proof.
  intros f p H.
  flagcases f; try discriminate H; inversion H; subst; reflexivity.
Qed.

(* the table of --features values and --recover-function-args *)
Lemma features_table : forall f p, decide f = Plan p ->
  po_base (p_opts p) = f_features f /\
  (po_recover (p_opts p) = true <-> f_features f = UnstableAll \/ f_recover f = true).
Proof.
  intros f p H. rewrite (plan_opts f p H). unfold documented_opts. cbn [po_base po_recover]. split; [reflexivity|].
  destruct (f_features f), (f_recover f); cbn; split; intros; auto; try discriminate;
    match goal with HH : _ \/ _ |- _ => destruct HH; discriminate end.
Qed.

Lemma rejections : forall f,
  (decide f = Rejected UsageConflict <-> 1 < group_count f) /\
  (decide f = Rejected PrettyWithoutJson <->
     group_count f <= 1 /\ f_help_md f = false /\ f_pretty f = true /\ f_json f = false /\ f_cyborg f = None) /\
  (decide f = Rejected BriefWithoutHuman <->
     group_count f <= 1 /\ f_help_md f = false /\ f_brief f = true /\ f_json f = true).
Proof.
  intros f.
  flagcases f; (split; [|split]); split; intros H; try discriminate H; try reflexivity;
    try (repeat match goal with HH : _ /\ _ |- _ => destruct HH end; try discriminate; exfalso; lia);
    try (repeat split; try reflexivity; intro HH; discriminate HH).
Qed.

Lemma total : forall f,
  (exists r, decide f = Rejected r) \/ (decide f = HelpMarkdown /\ f_help_md f = true) \/
  (exists p, decide f = Plan p /\ f_help_md f = false).
Proof.
  intros f.
  flagcases f;
    first [ left; eexists; reflexivity
          | right; left; split; reflexivity
          | right; right; eexists; split; reflexivity ].
Qed.

(* ------------------------------------------------------------------ effects *)
Lemma io_exit_code : forall r, snd (io_exit r) = 0 \/ snd (io_exit r) = 1.
Proof. destruct r; cbn; auto. Qed.

Section Effects.
  Variable e : env.

  Lemma do_creates_ok : forall ps k, (forall p, In p ps -> e_create e p = IoOk) ->
    do_creates e ps k = (map Create ps ++ fst k, snd k).
  Proof.
    induction ps as [|p ps IH]; intros k H; cbn.
    - destruct k; reflexivity.
    - rewrite (H p (or_introl eq_refl)). rewrite IH by (intros q Hq; apply H; right; exact Hq). reflexivity.
  Qed.

  (* creations either all succeed, or the first failing one ends the run *)
  Lemma do_creates_cases : forall ps k,
    (do_creates e ps k = (map Create ps ++ fst k, snd k) /\ forall p, In p ps -> e_create e p = IoOk) \/
    (exists pre p post, ps = pre ++ p :: post /\ e_create e p <> IoOk /\
       do_creates e ps k = (map Create pre ++ fst (io_exit (e_create e p)), snd (io_exit (e_create e p)))).
  Proof.
    induction ps as [|p ps IH]; intros k; cbn.
    - left. destruct k; split; [reflexivity|intros ? []].
    - destruct (e_create e p) eqn:E.
      + destruct (IH k) as [[H1 H2]|[pre [q [post [H1 [H2 H3]]]]]].
        * left. rewrite H1. split; [reflexivity|]. intros q [<-|Hq]; auto.
        * right. exists (p :: pre), q, post. rewrite H3. subst ps. split; [reflexivity|]. split; [exact H2|].
          reflexivity.
      + right. exists [], p, ps. rewrite E. repeat split; congruence.
      + right. exists [], p, ps. rewrite E. repeat split; congruence.
  Qed.

  Lemma do_writes_ok : forall ws, (forall w r, In (w, r) ws -> e_write e w r = IoOk) ->
    do_writes e ws = (map (fun wr => Written (fst wr) (snd wr)) ws, 0).
  Proof.
    induction ws as [|[w r] ws IH]; intros H; cbn; [reflexivity|].
    rewrite (H w r (or_introl eq_refl)). rewrite IH by (intros; apply H; right; assumption). reflexivity.
  Qed.

  Lemma do_writes_cases : forall ws,
    (do_writes e ws = (map (fun wr => Written (fst wr) (snd wr)) ws, 0) /\
       forall w r, In (w, r) ws -> e_write e w r = IoOk) \/
    (exists pre w r post, ws = pre ++ (w, r) :: post /\ e_write e w r <> IoOk /\
       (forall w' r', In (w', r') pre -> e_write e w' r' = IoOk) /\
       do_writes e ws = (map (fun wr => Written (fst wr) (snd wr)) pre ++
                           WriteFailed w r :: fst (io_exit (e_write e w r)), snd (io_exit (e_write e w r)))).
  Proof.
    induction ws as [|[w r] ws IH]; cbn.
    - left. split; [reflexivity|intros ? ? []].
    - destruct (e_write e w r) eqn:E.
      + destruct IH as [[H1 H2]|[pre [w' [r' [post [H1 [H2 [H3 H4]]]]]]]].
        * left. rewrite H1. split; [reflexivity|]. intros w' r' [Hq|Hq]; [inversion Hq; subst; exact E|auto].
        * right. exists ((w, r) :: pre), w', r', post. rewrite H4. subst ws. split; [reflexivity|]. split; [exact H2|].
          split; [|reflexivity]. intros w2 r2 [Hq|Hq]; [inversion Hq; subst; exact E|auto].
      + right. exists [], w, r, ws. rewrite E. repeat split; try congruence. intros ? ? [].
      + right. exists [], w, r, ws. rewrite E. repeat split; try congruence. intros ? ? [].
  Qed.

End Effects.

(* ------------------------------------------------------------------ exit status *)
Definition code_ok (k : list event * Z) : Prop := snd k = 0 \/ snd k = 1.

Lemma do_creates_code : forall e ps k, code_ok k -> code_ok (do_creates e ps k).
Proof.
  intros e ps k Hk. induction ps as [|p ps IH]; cbn; [exact Hk|].
  destruct (e_create e p); cbn; try (unfold code_ok; cbn; auto; fail).
  destruct (do_creates e ps k) as [tr c]. exact IH.
Qed.
Lemma do_writes_code : forall e ws, code_ok (do_writes e ws).
Proof.
  intros e ws. induction ws as [|[w r] ws IH]; cbn; [left; reflexivity|].
  destruct (e_write e w r); cbn; try (unfold code_ok; cbn; auto; fail).
  destruct (do_writes e ws) as [tr c]. exact IH.
Qed.
Lemma exec_code : forall p e, code_ok (exec p e).
Proof.
  intros p e. unfold exec. destruct (e_read e); cbn; [|right; reflexivity].
  apply do_creates_code. destruct (p_process p && negb (e_process e)); [right; reflexivity|apply do_writes_code].
Qed.

Lemma run_shape : forall f e,
  run f e = match decide f with
            | Rejected UsageConflict => ([Diag Stderr], 2)
            | Rejected _ => do_creates e (opt_list (f_log_file f)) ([Diag Logger], 1)
            | HelpMarkdown => do_creates e (opt_list (f_log_file f)) (do_writes e [(Stdout, HelpDoc)])
            | Plan p => do_creates e (opt_list (f_log_file f)) (exec p e)
            end.
Proof. intros f e. unfold run. destruct (decide f) as [[]| |]; reflexivity. Qed.

(* status is 0, 1 or 2 (2 exactly for clap's group conflict); never anything else *)
Lemma exit_codes : forall f e, f_help_md f = false ->
  (snd (run f e) = 0 \/ snd (run f e) = 1 \/ snd (run f e) = 2) /\
  (snd (run f e) = 2 <-> 1 < group_count f).
Proof.
  intros f e Hh. rewrite run_shape.
  destruct (rejections f) as [[Ru1 Ru2] _].
  destruct (total f) as [[r Hr]|[[Hm Hm']|[p [Hp _]]]].
  - rewrite Hr. destruct r.
    + cbn. split; [auto|]. split; intros _; [apply Ru1; exact Hr|reflexivity].
    + assert (C : code_ok (do_creates e (opt_list (f_log_file f)) ([Diag Logger], 1))) by (apply do_creates_code; right; reflexivity).
      split; [destruct C; auto|]. split; intros H; [destruct C as [C|C]; rewrite C in H; discriminate|].
      apply Ru2 in H. rewrite Hr in H. discriminate.
    + assert (C : code_ok (do_creates e (opt_list (f_log_file f)) ([Diag Logger], 1))) by (apply do_creates_code; right; reflexivity).
      split; [destruct C; auto|]. split; intros H; [destruct C as [C|C]; rewrite C in H; discriminate|].
      apply Ru2 in H. rewrite Hr in H. discriminate.
  - congruence.
  - rewrite Hp.
    assert (C : code_ok (do_creates e (opt_list (f_log_file f)) (exec p e))) by (apply do_creates_code, exec_code).
    split; [destruct C; auto|]. split; intros H; [destruct C as [C|C]; rewrite C in H; discriminate|].
    apply Ru2 in H. rewrite Hp in H. discriminate.
Qed.

(* the same for every flag record, --help-markdown included *)
Lemma exit_codes_all : forall f e,
  (snd (run f e) = 0 \/ snd (run f e) = 1 \/ snd (run f e) = 2) /\
  (snd (run f e) = 2 <-> 1 < group_count f).
Proof.
  intros f e. destruct (f_help_md f) eqn:Hh; [|exact (exit_codes f e Hh)].
  rewrite run_shape.
  destruct (rejections f) as [[Ru1 Ru2] _].
  destruct (total f) as [[r Hr]|[[Hm Hm']|[p [Hp Hp']]]]; [| |congruence].
  - rewrite Hr. destruct r.
    + cbn. split; [auto|]. split; intros _; [apply Ru1; exact Hr|reflexivity].
    + assert (C : code_ok (do_creates e (opt_list (f_log_file f)) ([Diag Logger], 1))) by (apply do_creates_code; right; reflexivity).
      split; [destruct C; auto|]. split; intros H; [destruct C as [C|C]; rewrite C in H; discriminate|].
      apply Ru2 in H. rewrite Hr in H. discriminate.
    + assert (C : code_ok (do_creates e (opt_list (f_log_file f)) ([Diag Logger], 1))) by (apply do_creates_code; right; reflexivity).
      split; [destruct C; auto|]. split; intros H; [destruct C as [C|C]; rewrite C in H; discriminate|].
      apply Ru2 in H. rewrite Hr in H. discriminate.
  - rewrite Hm.
    assert (C : code_ok (do_creates e (opt_list (f_log_file f)) (do_writes e [(Stdout, HelpDoc)]))) by (apply do_creates_code, do_writes_code).
    split; [destruct C; auto|]. split; intros H; [destruct C as [C|C]; rewrite C in H; discriminate|].
    apply Ru2 in H. rewrite Hm in H. discriminate.
Qed.

(* the hidden --help-markdown included (its write error is propagated with `?` since the fix of F-C20e; it was an
   expect(), status 101): 0, 1 or 2 for EVERY flag record and environment *)
Lemma exit_codes_help : forall f e,
  snd (run f e) = 0 \/ snd (run f e) = 1 \/ snd (run f e) = 2.
Proof.
  intros f e. destruct (f_help_md f) eqn:Hh.
  - rewrite run_shape. destruct (total f) as [[r Hr]|[[Hm _]|[p [Hp Hp']]]]; [| |congruence].
    + rewrite Hr. destruct r; cbn; auto;
        (assert (C : code_ok (do_creates e (opt_list (f_log_file f)) ([Diag Logger], 1))) by (apply do_creates_code; right; reflexivity));
        destruct C; auto.
    + rewrite Hm.
      assert (C : code_ok (do_creates e (opt_list (f_log_file f)) (do_writes e [(Stdout, HelpDoc)]))) by (apply do_creates_code, do_writes_code).
      destruct C; auto.
  - destruct (exit_codes f e Hh) as [[H|[H|H]] _]; auto.
Qed.

(* in an environment without io failures: status 0 exactly when a plan exists, the dump reads and
   (unless --dump) processes; the trace is then the file creations followed by every planned report *)
Lemma success_iff : forall f e, clean e -> f_help_md f = false ->
  (snd (run f e) = 0 <->
   exists p, decide f = Plan p /\ e_read e = true /\ (p_process p = true -> e_process e = true)) /\
  (forall p, decide f = Plan p -> e_read e = true -> (p_process p = true -> e_process e = true) ->
     run f e = (map Create (opt_list (f_log_file f)) ++ map Create (p_creates p) ++
                map (fun wr => Written (fst wr) (snd wr)) (steps p), 0)).
Proof.
  intros f e [Hc Hw] Hh.
  assert (R : forall p, decide f = Plan p -> e_read e = true -> (p_process p = true -> e_process e = true) ->
     run f e = (map Create (opt_list (f_log_file f)) ++ map Create (p_creates p) ++
                map (fun wr => Written (fst wr) (snd wr)) (steps p), 0)).
  { intros p Hp Hr Hpr. rewrite run_shape, Hp. rewrite do_creates_ok by (intros; apply Hc).
    unfold exec. rewrite Hr. cbn [negb]. rewrite do_creates_ok by (intros; apply Hc).
    assert (X : p_process p && negb (e_process e) = false).
    { destruct (p_process p); [rewrite Hpr by reflexivity|]; reflexivity. }
    rewrite X. rewrite do_writes_ok by (intros; apply Hw). reflexivity. }
  split; [|exact R]. split.
  - intros H0. rewrite run_shape in H0.
    destruct (total f) as [[r Hr]|[[Hm Hm']|[p [Hp _]]]]; [| congruence |].
    + rewrite Hr in H0. destruct r; [discriminate H0| |];
        rewrite do_creates_ok in H0 by (intros; apply Hc); discriminate H0.
    + exists p. split; [exact Hp|]. rewrite Hp in H0.
      rewrite do_creates_ok in H0 by (intros; apply Hc). unfold exec in H0.
      destruct (e_read e); [|discriminate H0]. split; [reflexivity|]. intros Hpr.
      cbn [negb] in H0. rewrite do_creates_ok in H0 by (intros; apply Hc). rewrite Hpr in H0.
      destruct (e_process e); [reflexivity|discriminate H0].
  - intros [p [Hp [Hr Hpr]]]. rewrite (R p Hp Hr Hpr). reflexivity.
Qed.

Lemma creates_no_render : forall l, existsb is_render (map Create l) = false.
Proof. induction l; [reflexivity|exact IHl]. Qed.

(* failure without io errors: status 1 or 2, a diagnostic, and no report event at all *)
Lemma failure_no_report : forall f e, clean e -> f_help_md f = false -> snd (run f e) <> 0 ->
  (snd (run f e) = 1 \/ snd (run f e) = 2) /\
  existsb is_diag (fst (run f e)) = true /\
  existsb is_render (fst (run f e)) = false.
Proof.
  intros f e [Hc Hw] Hh Hne.
  destruct (exit_codes f e Hh) as [[H|[H|H]] _]; [congruence| |]; (split; [auto|]);
  rewrite run_shape in *.
  - destruct (total f) as [[r Hr]|[[Hm Hm']|[p [Hp _]]]]; [| congruence |].
    + rewrite Hr in *. destruct r; [discriminate H| |];
        rewrite do_creates_ok by (intros; apply Hc); cbn [fst snd]; rewrite !existsb_app;
        (split; [apply orb_true_iff; right; reflexivity|]);
        apply orb_false_iff; (split; [|reflexivity]);
        destruct (f_log_file f); reflexivity.
    + rewrite Hp in *. rewrite do_creates_ok in * by (intros; apply Hc). unfold exec in *.
      destruct (e_read e).
      * cbn [negb] in *. rewrite do_creates_ok in * by (intros; apply Hc).
        destruct (p_process p && negb (e_process e)).
        -- cbn [fst snd]. rewrite !existsb_app. split.
           ++ apply orb_true_iff; right. apply orb_true_iff; right. reflexivity.
           ++ apply orb_false_iff. split; [destruct (f_log_file f); reflexivity|].
              apply orb_false_iff. split; [|reflexivity].
              apply creates_no_render.
        -- rewrite do_writes_ok in H by (intros; apply Hw). discriminate H.
      * cbn [negb fst snd]. rewrite !existsb_app. split.
        -- apply orb_true_iff; right. reflexivity.
        -- apply orb_false_iff. split; [destruct (f_log_file f); reflexivity|reflexivity].
  - destruct (total f) as [[r Hr]|[[Hm Hm']|[p [Hp _]]]]; [| congruence |].
    + rewrite Hr in *. destruct r; [split; reflexivity| |];
        rewrite do_creates_ok in H by (intros; apply Hc); discriminate H.
    + rewrite Hp in *.
      assert (C : code_ok (do_creates e (opt_list (f_log_file f)) (exec p e))) by (apply do_creates_code, exec_code).
      destruct C as [C|C]; rewrite C in H; discriminate H.
Qed.

(* rejected combinations: non-zero status and nothing is rendered or created (apart from the
   log file, which is opened before the checks); whatever the environment does *)
Lemma rejected_no_report : forall f e r, decide f = Rejected r -> creates_not_pipe e ->
  (snd (run f e) = 1 \/ snd (run f e) = 2) /\
  existsb is_diag (fst (run f e)) = true /\
  existsb is_render (fst (run f e)) = false /\
  (forall p, In (Create p) (fst (run f e)) -> f_log_file f = Some p).
Proof.
  intros f e r Hr Hnp. rewrite run_shape, Hr.
  destruct r; [cbn; repeat split; auto; intros p [H|[]]; discriminate H| |];
    (destruct (f_log_file f) as [lp|]; cbn;
     [ specialize (Hnp lp); destruct (e_create e lp); cbn; try congruence;
       (repeat split; auto; intros p [H|[H|[]]]; try discriminate H; inversion H; reflexivity)
       || (repeat split; auto; intros p [H|[]]; discriminate H)
     | repeat split; auto; intros p [H|[]]; discriminate H ]).
Qed.

(* every non-zero status comes with a diagnostic event; status 0 without all reports written
   is possible only through a broken pipe *)
Definition diag_if_failed (k : list event * Z) : Prop := snd k <> 0 -> existsb is_diag (fst k) = true.

Lemma do_creates_diag : forall e ps k, diag_if_failed k -> diag_if_failed (do_creates e ps k).
Proof.
  intros e ps k Hk. induction ps as [|p ps IH]; cbn; [exact Hk|].
  destruct (e_create e p); cbn; try (unfold diag_if_failed; cbn; congruence).
  destruct (do_creates e ps k) as [tr c]. exact IH.
Qed.
Lemma do_writes_diag : forall e ws, diag_if_failed (do_writes e ws).
Proof.
  intros e ws. induction ws as [|[w r] ws IH]; cbn; [unfold diag_if_failed; cbn; congruence|].
  destruct (e_write e w r); cbn; try (unfold diag_if_failed; cbn; congruence).
  destruct (do_writes e ws) as [tr c]. exact IH.
Qed.
Lemma failure_has_diag : forall f e, f_help_md f = false -> diag_if_failed (run f e).
Proof.
  intros f e Hh. rewrite run_shape.
  destruct (total f) as [[r Hr]|[[Hm Hm']|[p [Hp _]]]]; [| congruence |].
  - rewrite Hr. destruct r; [unfold diag_if_failed; reflexivity| |];
      apply do_creates_diag; unfold diag_if_failed; reflexivity.
  - rewrite Hp. apply do_creates_diag. unfold exec. destruct (e_read e); cbn [negb].
    + apply do_creates_diag. destruct (p_process p && negb (e_process e)); [unfold diag_if_failed; reflexivity|].
      apply do_writes_diag.
    + unfold diag_if_failed; reflexivity.
Qed.

(* an io error other than a broken pipe ends the run with status 1 and "Error: .." on stderr *)
Definition err_means_1 (k : list event * Z) : Prop :=
  forall w r, In (WriteFailed w r) (fst k) -> snd k = 0 \/ (snd k = 1 /\ In (Diag Stderr) (fst k)).

Lemma write_error_status : forall e ws w r,
  In (WriteFailed w r) (fst (do_writes e ws)) ->
  (e_write e w r = IoBrokenPipe /\ snd (do_writes e ws) = 0) \/
  (e_write e w r = IoErr /\ snd (do_writes e ws) = 1 /\ In (Diag Stderr) (fst (do_writes e ws))).
Proof.
  intros e ws w r. induction ws as [|[w' r'] ws IH]; cbn; [intros []|].
  destruct (e_write e w' r') eqn:E; cbn.
  - destruct (do_writes e ws) as [tr c]. cbn in *. intros [H|H]; [discriminate H|].
    destruct (IH H) as [[A B]|[A [B C]]]; [left|right]; auto.
  - intros [H|[H|[]]]; [|discriminate H]. inversion H; subst. right. repeat split; auto.
  - intros [H|[]]. inversion H; subst. left. auto.
Qed.

Lemma in_do_creates : forall e ps k ev, is_render ev = true ->
  In ev (fst (do_creates e ps k)) -> In ev (fst k) /\ do_creates e ps k = (map Create ps ++ fst k, snd k).
Proof.
  intros e ps k ev Hev. induction ps as [|p ps IH]; cbn.
  - intros H. split; [exact H|destruct k; reflexivity].
  - destruct (e_create e p); cbn.
    + destruct (do_creates e ps k) as [tr c] eqn:E. cbn in *. intros [H|H]; [subst; discriminate Hev|].
      destruct (IH H) as [A B]. split; [exact A|]. inversion B; subst. reflexivity.
    + intros [H|[]]. subst; discriminate Hev.
    + intros [].
Qed.

Lemma io_error_status : forall f e w r, f_help_md f = false ->
  In (WriteFailed w r) (fst (run f e)) ->
  (e_write e w r = IoBrokenPipe /\ snd (run f e) = 0) \/
  (e_write e w r = IoErr /\ snd (run f e) = 1 /\ In (Diag Stderr) (fst (run f e))).
Proof.
  intros f e w r Hh Hin. rewrite run_shape in *.
  destruct (total f) as [[rj Hr]|[[Hm Hm']|[p [Hp _]]]]; [| congruence |].
  - rewrite Hr in *. destruct rj; [destruct Hin as [H|[]]; discriminate H| |];
      (apply in_do_creates in Hin; [|reflexivity]; destruct Hin as [[H|[]] _]; discriminate H).
  - rewrite Hp in *. apply in_do_creates in Hin; [|reflexivity]. destruct Hin as [Hin E1]. rewrite E1. cbn [fst snd].
    unfold exec in *. destruct (e_read e); cbn [negb] in *; [|destruct Hin as [H|[]]; discriminate H].
    apply in_do_creates in Hin; [|reflexivity]. destruct Hin as [Hin E2]. rewrite E2. cbn [fst snd].
    destruct (p_process p && negb (e_process e)); [destruct Hin as [H|[]]; discriminate H|].
    destruct (write_error_status _ _ _ _ Hin) as [[A B]|[A [B C]]]; [left; auto|right].
    repeat split; auto. apply in_or_app; right. apply in_or_app; right. exact C.
Qed.

(* status 0 means: every planned report was written, or a broken pipe cut the run short *)
Lemma zero_means_done_or_pipe : forall f e, f_help_md f = false -> snd (run f e) = 0 ->
  (exists p, decide f = Plan p /\ e_read e = true /\
             fst (run f e) = map Create (opt_list (f_log_file f)) ++ map Create (p_creates p) ++
                             map (fun wr => Written (fst wr) (snd wr)) (steps p)) \/
  pipe_broke e.
Proof.
  intros f e Hh H0. rewrite run_shape in *.
  destruct (total f) as [[rj Hr]|[[Hm Hm']|[p [Hp _]]]]; [| congruence |].
  - rewrite Hr in *. destruct rj; [discriminate H0| |];
      (destruct (do_creates_cases e (opt_list (f_log_file f)) ([Diag Logger], 1)) as [[E _]|[pre [q [post [_ [Hq E]]]]]];
       rewrite E in H0; cbn in H0; [discriminate H0|];
       right; left; exists q; destruct (e_create e q); [congruence|discriminate H0|reflexivity]).
  - rewrite Hp in *.
    destruct (do_creates_cases e (opt_list (f_log_file f)) (exec p e)) as [[E _]|[pre [q [post [_ [Hq E]]]]]];
      rewrite E in *; cbn [fst snd] in *;
      [|right; left; exists q; destruct (e_create e q); [congruence|discriminate H0|reflexivity]].
    unfold exec in *. destruct (e_read e) eqn:Er; cbn [negb] in *; [|discriminate H0].
    destruct (do_creates_cases e (p_creates p) (if p_process p && negb (e_process e) then ([Diag Logger], 1) else do_writes e (steps p)))
      as [[E2 _]|[pre [q [post [_ [Hq E2]]]]]]; rewrite E2 in *; cbn [fst snd] in *;
      [|right; left; exists q; destruct (e_create e q); [congruence|discriminate H0|reflexivity]].
    destruct (p_process p && negb (e_process e)); [discriminate H0|].
    destruct (do_writes_cases e (steps p)) as [[E3 _]|[pre [w [r [post [_ [Hw [_ E3]]]]]]]]; rewrite E3 in *; cbn [fst snd] in *.
    + left. exists p. repeat split; reflexivity.
    + right. right. exists w, r. destruct (e_write e w r); [congruence|discriminate H0|reflexivity].
Qed.

(* where the diagnostic lands: "Error: .." always on standard error; error!(..) wherever the logger
   writes (standard error, or the --log-file), unless --verbose=off silences the logger *)
Definition diag_visible (f : flags) (tr : list event) : Prop :=
  In (Diag Stderr) tr \/ (In (Diag Logger) tr /\ f_verbose_off f = false).

Lemma failure_diag_visible : forall f e, f_verbose_off f = false -> f_help_md f = false ->
  snd (run f e) <> 0 -> diag_visible f (fst (run f e)).
Proof.
  intros f e Hv Hh Hne. pose proof (failure_has_diag f e Hh Hne) as H.
  apply existsb_exists in H. destruct H as [ev [Hin Hd]]. destruct ev; try discriminate Hd.
  destruct c; [right; split; assumption|left; assumption].
Qed.

(* the logger's diagnostics are written after the log file was opened successfully *)
Lemma do_creates_head : forall e p ps k ev, In ev (fst (do_creates e (p :: ps) k)) ->
  ev = Diag Stderr \/ In (Create p) (fst (do_creates e (p :: ps) k)).
Proof.
  intros e p ps k ev. cbn [do_creates]. destruct (e_create e p); cbn [io_exit fst].
  - destruct (do_creates e ps k) as [tr c]. intros _. right. left. reflexivity.
  - intros [H|[]]. left. symmetry. exact H.
  - intros [].
Qed.

Lemma logger_diag_after_log_open : forall f e lp, f_log_file f = Some lp ->
  In (Diag Logger) (fst (run f e)) -> In (Create lp) (fst (run f e)).
Proof.
  intros f e lp Hl Hin. rewrite run_shape in *. rewrite Hl in *. cbn [opt_list] in *.
  destruct (decide f) as [[]| |p];
    try (destruct (do_creates_head _ _ _ _ _ Hin) as [H|H]; [discriminate H|exact H]).
  destruct Hin as [H|[]]. discriminate H.
Qed.

Lemma silent_failure_witness : exists f e,
  f_verbose_off f = true /\ f_help_md f = false /\ snd (run f e) = 1 /\ ~ diag_visible f (fst (run f e)).
Proof.
  exists {| f_human := false; f_json := false; f_cyborg := None; f_dump := false; f_help_md := false;
            f_pretty := false; f_brief := false; f_features := StableBasic; f_recover := false;
            f_output_file := None; f_log_file := None; f_verbose_off := true |}.
  exists {| e_create := fun _ => IoOk; e_read := false; e_process := true; e_write := fun _ _ => IoOk; e_partial := fun _ _ => false |}.
  repeat split. intros [H|[_ H]]; [destruct H as [H|[]]; discriminate H|discriminate H].
Qed.

(* ------------------------------------------------------------------ io faults in the middle of a report *)
(* bytes are present on sink [w] after the run: a complete report, or the prefix a failing printer call left *)
Definition sink_dirty (e : env) (w : writer) (tr : list event) : Prop :=
  exists r, In (Written w r) tr \/ (In (WriteFailed w r) tr /\ e_partial e w r = true).

(* an io error (not a broken pipe) hit a printer call after report bytes had been streamed: either that
   very call had already written a prefix, or an earlier report was complete on the primary output *)
Definition midreport_io_error (f : flags) (e : env) : Prop :=
  exists w r, In (WriteFailed w r) (fst (run f e)) /\ e_write e w r = IoErr /\
              (e_partial e w r = true \/ exists r0, In (Written (writer_of f) r0) (fst (run f e))).

Lemma render_in_run : forall f e ev, f_help_md f = false -> is_render ev = true -> In ev (fst (run f e)) ->
  exists p, decide f = Plan p /\ In ev (fst (do_writes e (steps p))) /\ snd (run f e) = snd (do_writes e (steps p)) /\
            (forall ev', In ev' (fst (do_writes e (steps p))) -> In ev' (fst (run f e))).
Proof.
  intros f e ev Hh Hev Hin. rewrite run_shape in *.
  destruct (total f) as [[rj Hr]|[[Hm Hm']|[p [Hp _]]]]; [| congruence |].
  - rewrite Hr in *. destruct rj; [destruct Hin as [H|[]]; subst; discriminate Hev| |];
      (apply in_do_creates in Hin; [|exact Hev]; destruct Hin as [[H|[]] _]; subst; discriminate Hev).
  - rewrite Hp in *. exists p. split; [reflexivity|].
    apply in_do_creates in Hin; [|exact Hev]. destruct Hin as [Hin E1]. rewrite E1. cbn [fst snd].
    unfold exec in *. destruct (e_read e); cbn [negb] in *; [|destruct Hin as [H|[]]; subst; discriminate Hev].
    apply in_do_creates in Hin; [|exact Hev]. destruct Hin as [Hin E2]. rewrite E2. cbn [fst snd].
    destruct (p_process p && negb (e_process e)); [destruct Hin as [H|[]]; subst; discriminate Hev|].
    split; [exact Hin|]. split; [reflexivity|].
    intros ev' H'. apply in_or_app; right. apply in_or_app; right. exact H'.
Qed.

Lemma do_writes_failed_or_zero : forall e ws,
  snd (do_writes e ws) = 0 \/ exists w r, In (WriteFailed w r) (fst (do_writes e ws)) /\ e_write e w r = IoErr.
Proof.
  intros e ws. destruct (do_writes_cases e ws) as [[E _]|[pre [w [r [post [_ [Hw [_ E]]]]]]]]; rewrite E; cbn [fst snd].
  - left; reflexivity.
  - destruct (e_write e w r) eqn:Ew; [congruence| |left; reflexivity].
    right. exists w, r. split; [|exact Ew]. apply in_or_app; right. left. reflexivity.
Qed.

(* a failing run in which no printer call failed renders nothing anywhere — whatever else the
   environment does (creation failures, read errors, processing errors) *)
Lemma failure_no_partial_report_partial : forall f e, f_help_md f = false -> snd (run f e) <> 0 ->
  (forall w r, ~ In (WriteFailed w r) (fst (run f e))) ->
  existsb is_render (fst (run f e)) = false.
Proof.
  intros f e Hh Hne Hnf.
  destruct (existsb is_render (fst (run f e))) eqn:E; [|reflexivity]. exfalso.
  apply existsb_exists in E. destruct E as [ev [Hin Hev]].
  destruct (render_in_run f e ev Hh Hev Hin) as [p [Hp [Hin' [Hc Hsub]]]].
  destruct (do_writes_failed_or_zero e (steps p)) as [H0|[w [r [Hf _]]]].
  - apply Hne. rewrite Hc. exact H0.
  - exact (Hnf w r (Hsub _ Hf)).
Qed.

(* bytes on the primary output of a failing run: only through a mid-report io error *)
Lemma dirty_primary_only_midreport : forall f e, f_help_md f = false -> snd (run f e) <> 0 ->
  sink_dirty e (writer_of f) (fst (run f e)) -> midreport_io_error f e.
Proof.
  intros f e Hh Hne [r [Hw|[Hf Hp]]].
  - destruct (render_in_run f e (Written (writer_of f) r) Hh eq_refl Hw) as [p [Hp [_ [Hc Hsub]]]].
    destruct (do_writes_failed_or_zero e (steps p)) as [H0|[w' [r' [Hf' He']]]].
    + exfalso. apply Hne. rewrite Hc. exact H0.
    + exists w', r'. split; [exact (Hsub _ Hf')|]. split; [exact He'|]. right. exists r. exact Hw.
  - exists (writer_of f), r. split; [exact Hf|]. split; [|left; exact Hp].
    destruct (io_error_status f e _ _ Hh Hf) as [[_ H0]|[He _]]; [congruence|exact He].
Qed.

(* the unconditional claim "status 1 => nothing on the primary output" is false: two witnesses *)
Lemma failure_no_partial_report_refuted :
  (exists f e, accepted f /\ snd (run f e) = 1 /\ (forall w r, e_partial e w r = false) /\
               In (Written (writer_of f) Human) (fst (run f e))) /\
  (exists f e, accepted f /\ snd (run f e) = 1 /\ f_cyborg f = None /\
               sink_dirty e (writer_of f) (fst (run f e))).
Proof.
  split.
  - exists {| f_human := false; f_json := false; f_cyborg := Some 2; f_dump := false; f_help_md := false;
              f_pretty := false; f_brief := false; f_features := StableBasic; f_recover := false;
              f_output_file := None; f_log_file := None; f_verbose_off := false |}.
    exists {| e_create := fun _ => IoOk; e_read := true; e_process := true;
              e_write := fun w _ => match w with Stdout => IoOk | File _ => IoErr end;
              e_partial := fun _ _ => false |}.
    split; [split; [vm_compute; discriminate|reflexivity]|]. split; [reflexivity|]. split; [reflexivity|].
    vm_compute. right. left. reflexivity.
  - exists {| f_human := false; f_json := true; f_cyborg := None; f_dump := false; f_help_md := false;
              f_pretty := false; f_brief := false; f_features := StableBasic; f_recover := false;
              f_output_file := Some 1; f_log_file := None; f_verbose_off := false |}.
    exists {| e_create := fun _ => IoOk; e_read := true; e_process := true;
              e_write := fun _ _ => IoErr; e_partial := fun _ _ => true |}.
    split; [split; [vm_compute; discriminate|reflexivity]|]. split; [reflexivity|]. split; [reflexivity|].
    exists (Json false). right. split; [vm_compute; right; left; reflexivity|reflexivity].
Qed.

(* ------------------------------------------------------------------ --help-markdown included (since the fix of F-C20e the manual
   is written like a report: its io error takes main()'s ordinary route) *)
Lemma failure_has_diag_all : forall f e, diag_if_failed (run f e).
Proof.
  intros f e. destruct (f_help_md f) eqn:Hh; [|exact (failure_has_diag f e Hh)].
  rewrite run_shape.
  destruct (total f) as [[r Hr]|[[Hm Hm']|[p [Hp Hp']]]]; [| |congruence].
  - rewrite Hr. destruct r; [unfold diag_if_failed; reflexivity| |];
      apply do_creates_diag; unfold diag_if_failed; reflexivity.
  - rewrite Hm. apply do_creates_diag. apply do_writes_diag.
Qed.
Lemma io_error_status_all : forall f e w r,
  In (WriteFailed w r) (fst (run f e)) ->
  (e_write e w r = IoBrokenPipe /\ snd (run f e) = 0) \/
  (e_write e w r = IoErr /\ snd (run f e) = 1 /\ In (Diag Stderr) (fst (run f e))).
Proof.
  intros f e w r Hin. destruct (f_help_md f) eqn:Hh; [|exact (io_error_status f e w r Hh Hin)].
  rewrite run_shape in *.
  destruct (total f) as [[rj Hr]|[[Hm Hm']|[p [Hp Hp']]]]; [| |congruence].
  - rewrite Hr in *. destruct rj; [destruct Hin as [H|[]]; discriminate H| |];
      (apply in_do_creates in Hin; [|reflexivity]; destruct Hin as [[H|[]] _]; discriminate H).
  - rewrite Hm in *. apply in_do_creates in Hin; [|reflexivity]. destruct Hin as [Hin E1]. rewrite E1. cbn [fst snd].
    destruct (write_error_status _ _ _ _ Hin) as [[A B]|[A [B C]]]; [left; auto|right].
    repeat split; auto. apply in_or_app; right. exact C.
Qed.
