(* C20/Driver.v — entry point for the correspondence run: the model's prediction of what an
   observer of the process sees (exit status, content of every sink, diagnostics). *)
From RM Require Import C20.Model C20.Sinks C20.Wiring C20.ClapSpec C20.Clap C20.Known.
From RM Require Gen.C20Cli Gen.C20Wiring.
Open Scope Z_scope.

(* path identifiers used by the case format *)
Definition P_OUT : path := 1.
Definition P_CYBORG : path := 2.
Definition P_LOG : path := 3.

(* path / stdout classes: 0 fine, 1 File::create fails, 2 every write fails at once (ENOSPC),
   3 the reader of the pipe / FIFO goes away (broken pipe), 4 writes fail after some bytes (EFBIG) *)
Definition res_of_class (c : Z) : io_res :=
  if (c =? 2) || (c =? 4) then IoErr else if c =? 3 then IoBrokenPipe else IoOk.
Definition mk_env (cls : path -> Z) (stdout_cls : Z) (read process : bool) : env :=
  {| e_create := fun p => if cls p =? 1 then IoErr else IoOk;
     e_read := read;
     e_process := process;
     e_write := fun w _ => match w with
                           | Stdout => res_of_class stdout_cls
                           | File p => res_of_class (cls p)
                           end;
     e_partial := fun w _ => match w with
                             | Stdout => (stdout_cls =? 3) || (stdout_cls =? 4)
                             | File p => (cls p =? 3) || (cls p =? 4)
                             end |}.

(* renderer codes: 1 human, 2 brief human, 3 json, 4 pretty json, 5 dump, 6 brief dump, 7 help;
   99 = a failed write that left nothing, 100 + code = a failed write that left a prefix of that rendering *)
Definition renderer_code (r : renderer) : Z :=
  match r with
  | Human => 1 | HumanBrief => 2 | Json false => 3 | Json true => 4
  | Dump => 5 | DumpBrief => 6 | HelpDoc => 7
  end.

Fixpoint sink_content (e : env) (tr : list event) (w : writer) : list Z :=
  match tr with
  | [] => []
  | Written w' r :: tr' => if writer_eqb w w' then renderer_code r :: sink_content e tr' w else sink_content e tr' w
  | WriteFailed w' r :: tr' =>
      if writer_eqb w w'
      then (if e_partial e w' r then 100 + renderer_code r else 99) :: sink_content e tr' w
      else sink_content e tr' w
  | _ :: tr' => sink_content e tr' w
  end.
Definition created (tr : list event) (p : path) : bool :=
  existsb (fun ev => match ev with Create q => p =? q | _ => false end) tr.

(* the files: the state machine of Sinks.v run over the file system the run FOUND.  One token per rendering
   (its code; 100 + code for the prefix a failing call left, 99 for a failing call that left nothing); a file that
   exists before the run holds three tokens STALE, more than any single report.  The open mode is the one the
   source has now (Wiring.code_sink_modes, regenerated from main.rs). *)
Definition STALE : Z := -7.
Definition code_mode : open_mode := if code_truncates then file_create else no_truncate.
Definition driver_rendering (e : env) : rendering :=
  {| r_bytes := fun r => [renderer_code r];
     r_prefix := fun w r => [if e_partial e w r then 100 + renderer_code r else 99] |}.
Definition found_fs (pre : path -> bool) : fsys := fun p => if pre p then Some [STALE; STALE; STALE] else None.
(* [-1] = the file does not exist afterwards *)
Definition file_state (e : env) (pre : path -> bool) (tr : list event) (p : path) : list Z :=
  match fs_after code_mode (driver_rendering e) (found_fs pre) tr p with
  | None => [-1]
  | Some c => c
  end.

Definition has_diag (tr : list event) (c : channel) : bool :=
  existsb (fun ev => match ev, c with Diag Logger, Logger => true | Diag Stderr, Stderr => true | _, _ => false end) tr.

Record observation := {
  o_exit : Z;
  o_stdout : list Z;
  o_out : list Z;
  o_cyborg : list Z;
  o_log : list Z;          (* [-1] absent, [] exists *)
  o_stderr_diag : bool;    (* a diagnostic must be visible on standard error *)
  o_log_diag : bool;       (* a diagnostic must be visible in the log file *)
  o_recover : bool;        (* recover_function_args handed to the processor (false when no plan) *)
  o_known_b : bool;        (* the run is in the exact class of F-C20b (C20/Known.v, C20/Findings.v) *)
  o_known_d : bool;        (* ... of F-C20d *)
  o_diag_kind : Z          (* the one diagnostic of the run: 0 none | 1 main's own rejection (error!) | 2 "Error reading dump" |
                              3 "Error processing dump" | 4 main's "Error: <io error>" | 5 clap's usage error *)
}.

Definition diag_kind (f : flags) (e : env) : Z :=
  let '(tr, code) := run f e in
  if has_diag tr Logger then
    match decide f with Rejected _ => 1 | _ => if e_read e then 3 else 2 end
  else if has_diag tr Stderr then (if code =? 2 then 5 else 4)
  else 0.

Definition observe (f : flags) (e : env) (pre : path -> bool) : observation :=
  let '(tr, code) := run f e in
  let logger_visible := negb (f_verbose_off f) in
  {| o_exit := code;
     o_stdout := sink_content e tr Stdout;
     o_out := file_state e pre tr P_OUT;
     o_cyborg := file_state e pre tr P_CYBORG;
     o_log := match file_state e pre tr P_LOG with [-1] => [-1] | _ => [] end;
     o_stderr_diag := has_diag tr Stderr || (has_diag tr Logger && logger_visible && negb (is_some (f_log_file f)));
     o_log_diag := has_diag tr Logger && logger_visible && is_some (f_log_file f) && created tr P_LOG;
     o_recover := match decide f with Plan p => po_recover (p_opts p) | _ => false end;
     o_known_b := known_b f e;
     o_known_d := known_d f e;
     o_diag_kind := diag_kind f e |}.

Definition mk_feature (z : Z) : feature :=
  if z =? 1 then StableAll else if z =? 2 then UnstableAll else StableBasic.

(* one case: the flags, the classes of the three paths and of standard output; answers for
   the three library outcomes (read error, processing error, success) *)
Definition run_case (human json cyborg dump help_md pretty brief : bool) (feat : Z) (recover : bool)
           (out_file log_file verbose_off : bool) (c_out c_cyborg c_log c_stdout : Z)
           (pre_out pre_cyborg pre_log : bool)
  : observation * observation * observation :=
  let f := {| f_human := human; f_json := json;
              f_cyborg := if cyborg then Some P_CYBORG else None;
              f_dump := dump; f_help_md := help_md; f_pretty := pretty; f_brief := brief;
              f_features := mk_feature feat; f_recover := recover;
              f_output_file := if out_file then Some P_OUT else None;
              f_log_file := if log_file then Some P_LOG else None;
              f_verbose_off := verbose_off |} in
  let cls := fun p => if p =? P_OUT then c_out else if p =? P_CYBORG then c_cyborg else c_log in
  let pre := fun p => if p =? P_OUT then pre_out else if p =? P_CYBORG then pre_cyborg else if p =? P_LOG then pre_log else false in
  (observe f (mk_env cls c_stdout false false) pre,
   observe f (mk_env cls c_stdout true false) pre,
   observe f (mk_env cls c_stdout true true) pre).

(* ---- symbol sources.  One item per symbol argument in command-line order: k = positional root k, 100 + k =
   --symbols-path root k, 200 + d = --symbols-url d.  Roots 1 2 3 4 7 8 (alpha mid zeta file.sym testdata symargs)
   hold symbols for the module, 5 6 (empty, missing) do not.  Answer: the paths and URLs the supplier receives, in
   order, and the root the module's symbols are taken from (0 = none). *)
Definition item_of_code (c : Z) : argv_item :=
  if c <? 100 then APositional c else if c <? 200 then ASymbolsPath (c - 100) else ASymbolsUrl (c - 200).
Definition root_has (k : path) : bool := negb ((k =? 5) || (k =? 6)).
Definition sym_case (codes : list Z) : list Z * list Z * Z :=
  let argv := map item_of_code codes in
  let s := supplier_of (parse_sym argv None None 1000) in
  (supplier_paths s, supplier_urls s, match locate root_has (supplier_paths s) with Some k => k | None => 0 end).

Local Open Scope str_scope.
(* ---- raw command lines.  The case gives the argument vector itself (the sink paths as the placeholders @O @C @L);
   the model of clap's parser over the REGENERATED grammar (Gen/C20Cli.v) decides between usage error / help /
   version / the flag record, and main()'s model goes on from there.  A usage error: status 2, nothing opened,
   nothing written, a message on standard error; help / version: status 0, text on standard output, nothing opened. *)
Definition argv_pid (s : str) : path :=
  if str_eqb s "@O" then P_OUT else if str_eqb s "@C" then P_CYBORG else if str_eqb s "@L" then P_LOG else 9.
Definition main_events (tr : list cli_event) : list event :=
  flat_map (fun ev => match ev with MainEv x => [x] | _ => [] end) tr.
Definition to_stdout (tr : list cli_event) : bool :=
  existsb (fun ev => match ev with ClapMessage true => true | _ => false end) tr.
Definition observe_cli (o : cli_outcome) (e : env) (pre : path -> bool) : observation :=
  let generic :=
    let '(tr, code) := run_outcome o e in
    let mtr := main_events tr in
    {| o_exit := code;
       o_stdout := if to_stdout tr then [7] else sink_content e mtr Stdout;
       o_out := file_state e pre mtr P_OUT;
       o_cyborg := file_state e pre mtr P_CYBORG;
       o_log := match file_state e pre mtr P_LOG with [-1] => [-1] | _ => [] end;
       o_stderr_diag := negb (to_stdout tr);
       o_log_diag := false;
       o_recover := false;
       o_known_b := false;
       o_known_d := false;
       o_diag_kind := if to_stdout tr then 0 else if code =? 2 then 5 else 0 |} in
  match o with
  | CliFlags f => observe f e pre
  | CliPanicFeatures f => match decide f with Plan _ => generic | _ => observe f e pre end
  | _ => generic
  end.
Definition argv_case (argv : list str) (c_out c_cyborg c_log c_stdout : Z) (pre_out pre_cyborg pre_log : bool)
  : observation * observation * observation :=
  let o := interpret argv_pid RM.Gen.C20Cli.CLI_DEFAULTS RM.Gen.C20Cli.CLI_FEATURE_ARMS
                     (parse RM.Gen.C20Cli.CLI_ARGS RM.Gen.C20Cli.CLI_GROUP argv) in
  let cls := fun p => if p =? P_OUT then c_out else if p =? P_CYBORG then c_cyborg else if p =? P_LOG then c_log else 0 in
  let pre := fun p => if p =? P_OUT then pre_out else if p =? P_CYBORG then pre_cyborg else if p =? P_LOG then pre_log else false in
  (observe_cli o (mk_env cls c_stdout false false) pre,
   observe_cli o (mk_env cls c_stdout true false) pre,
   observe_cli o (mk_env cls c_stdout true true) pre).

(* what the harness's in-process reference can know about a raw command line: it reads the file @D without symbols.
   0 = the parser ends the run (usage error, help, version) | 1 = parsed, the minidump is @D and no symbol source is given |
   2 = parsed, the minidump is @D, symbol paths / URLs are given (the reports then differ from the reference's) |
   3 = parsed, the minidump is some other word (a file that does not exist) *)
Definition argv_info (argv : list str) : Z :=
  match parse RM.Gen.C20Cli.CLI_ARGS RM.Gen.C20Cli.CLI_GROUP argv with
  | PParsed acc =>
      match values_of acc "minidump" with
      | [d] => if str_eqb d "@D"
               then (match values_of acc "symbols_path", values_of acc "symbols_path_legacy", values_of acc "symbols_url" with
                     | [], [], [] => 1 | _, _, _ => 2 end)
               else 3
      | _ => 3
      end
  | _ => 0
  end.

(* ---- the --dump mode: which printers run, in which order, for a minidump whose streams answer as given
   (name, 0 = Ok | 1 = Err(StreamNotFound) | 2 = another error); over the program regenerated from main.rs (Gen/C20DumpProg.v).
   Answer: (0, "") the header | (1, T) T::print | (2, text) fixed text | (3, name) print_raw_stream *)
From RM Require Import C20.DumpSpec C20.DumpModel.
From RM Require Gen.C20DumpProg.
Definition view_of (l : list (str * Z)) : dump_view :=
  fun t => match find (fun kv => str_eqb (fst kv) t) l with
           | Some kv => if snd kv =? 0 then SPresent else if snd kv =? 2 then SBroken else SMissing
           | None => SMissing
           end.
Definition dump_case (l : list (str * Z)) : list (Z * str) :=
  map (fun s => match s with
                | SecHeader => (0, "") | SecStream t => (1, t) | SecLit t => (2, t) | SecRaw n => (3, n)
                end)
      (sections RM.Gen.C20DumpProg.DUMP_PROG (view_of l)).
