(* C20/ClapSinks.v — from the argument vector (C20/Clap.v, the regenerated grammar) to the arguments of the symbol suppliers
   (C20/Sinks.v part 2): a Vec field of struct Cli collects its occurrences in command-line order.  Until round 5 this was an
   assumption of Sinks.v ("clap: a Vec field collects its occurrences in command-line order"); it is now a theorem about the
   parser model. *)
From Coq Require Import Ascii List ZArith Bool Lia.
Import ListNotations.
From RM Require Import C20.Model C20.ClapSpec C20.Clap C20.Proofs C20.ClapProofs C20.Sinks C20.SinksProofs.
Local Open Scope str_scope.
(* ------------------------------------------------------------------ a Vec field collects its occurrences in command-line order *)
Lemma push_shape : forall a v acc acc', push a v acc = Some acc' -> acc' = (acc ++ [(a_field a, v)])%list.
Proof.
  intros a v acc acc' H. unfold push in H. destruct (negb (vp_accepts (a_vp a) v)); [discriminate|].
  destruct (single (a_kind a) && has_field acc (a_field a)); [discriminate|]. inversion H. reflexivity.
Qed.

Definition item_target (spec : list arg_spec) (acc : list (str * str)) (it : item) : option (arg_spec * str) :=
  match it with
  | IFlag n => match find_long spec n with Some a => Some (a, "") | None => None end
  | IOptEq n v | IOptSp n v => match find_long spec n with Some a => Some (a, v) | None => None end
  | IWord w => match next_positional spec acc with Some a => Some (a, w) | None => None end
  end.
Lemma item_effect_shape : forall spec acc it acc', item_effect spec acc it = Some acc' ->
  exists a v, item_target spec acc it = Some (a, v) /\ acc' = (acc ++ [(a_field a, v)])%list.
Proof.
  intros spec acc it acc' H. destruct it as [n|n v|n v|w]; cbn [item_effect item_target] in *.
  - destruct (plain_name n); [|discriminate]. destruct (find_long spec n) as [a|]; [|discriminate].
    destruct (a_kind a); try discriminate. exists a, "". split; [reflexivity|]. apply push_shape. exact H.
  - destruct (plain_name n); [|discriminate]. destruct (find_long spec n) as [a|]; [|discriminate].
    destruct (a_kind a); try discriminate; exists a, v; (split; [reflexivity|]); apply push_shape; exact H.
  - destruct (plain_name n && negb (looks_like_option v)); [|discriminate]. destruct (find_long spec n) as [a|]; [|discriminate].
    destruct (a_kind a); try discriminate; exists a, v; (split; [reflexivity|]); apply push_shape; exact H.
  - destruct (looks_like_option w); [discriminate|]. destruct (next_positional spec acc) as [a|]; [|discriminate].
    exists a, w. split; [reflexivity|]. apply push_shape. exact H.
Qed.

(* the values given to one option, and the positional words, in the order of the command line *)
Definition opt_values (name : str) (items : list item) : list str :=
  flat_map (fun it => match it with
                      | IOptEq n v | IOptSp n v => if str_eqb n name then [v] else []
                      | IFlag n => if str_eqb n name then [""] else []
                      | IWord _ => [] end) items.
Definition words (items : list item) : list str :=
  flat_map (fun it => match it with IWord v => [v] | _ => [] end) items.

Lemma has_field_app : forall acc f v g, has_field (acc ++ [(f, v)]) g = has_field acc g || str_eqb f g.
Proof. intros. unfold has_field. rewrite existsb_app. cbn. rewrite orb_false_r. reflexivity. Qed.

(* in the regenerated table: which long name fills which field *)
Lemma cli_long_field : forall name a, find_long CLI name = Some a ->
  (str_eqb (a_field a) "symbols_path" = str_eqb name "symbols-path") /\
  (str_eqb (a_field a) "symbols_url" = str_eqb name "symbols-url") /\
  str_eqb (a_field a) "minidump" = false /\ str_eqb (a_field a) "symbols_path_legacy" = false.
Proof.
  intros name a H. unfold find_long in H. apply find_some in H. destruct H as [Hin H].
  apply andb_true_iff in H. destruct H as [Hne H]. apply str_eqb_eq in H. subst name.
  unfold CLI, RM.Gen.C20Cli.CLI_ARGS in Hin. cbn in Hin.
  repeat (destruct Hin as [Hin|Hin]; [subst a; cbn in Hne |- *; try discriminate Hne; repeat split; reflexivity|]). destruct Hin.
Qed.
Lemma cli_next_positional : forall acc a, next_positional CLI acc = Some a ->
  a_field a = (if has_field acc "minidump" then "symbols_path_legacy" else "minidump").
Proof.
  intros acc a H. unfold next_positional, CLI, RM.Gen.C20Cli.CLI_ARGS in H. cbn in H.
  destruct (has_field acc "minidump"); cbn in H; inversion H; reflexivity.
Qed.

Lemma symbol_arguments_from : forall items acc out, items_effect CLI acc items = Some out ->
  values_of out "symbols_path" = (values_of acc "symbols_path" ++ opt_values "symbols-path" items)%list /\
  values_of out "symbols_url" = (values_of acc "symbols_url" ++ opt_values "symbols-url" items)%list /\
  values_of out "symbols_path_legacy" =
    (values_of acc "symbols_path_legacy" ++ (if has_field acc "minidump" then words items else tl (words items)))%list /\
  values_of out "minidump" =
    (values_of acc "minidump" ++ (if has_field acc "minidump" then [] else firstn 1 (words items)))%list.
Proof.
  induction items as [|it r IH]; intros acc out H; cbn [items_effect] in H.
  - inversion H; subst. cbn. rewrite !app_nil_r. destruct (has_field out "minidump"); cbn; rewrite ?app_nil_r; auto.
  - destruct (item_effect CLI acc it) as [acc'|] eqn:E; [|discriminate].
    destruct (item_effect_shape _ _ _ _ E) as [a [v [Ht Hacc']]]. subst acc'.
    specialize (IH _ _ H). destruct IH as [I1 [I2 [I3 I4]]].
    rewrite I1, I2, I3, I4. rewrite !values_of_app, has_field_app. clear I1 I2 I3 I4 H E.
    destruct it as [n|n v'|n v'|w]; cbn [item_target] in Ht.
    1-3: destruct (find_long CLI n) as [a0|] eqn:Ef; [|discriminate]; inversion Ht; subst a0 v;
         destruct (cli_long_field _ _ Ef) as [F1 [F2 [F3 F4]]]; rewrite F1, F2, F3, F4, orb_false_r;
         unfold opt_values, words; cbn [flat_map app]; fold (opt_values "symbols-path" r); fold (opt_values "symbols-url" r); fold (words r);
         rewrite !app_nil_r, <- !app_assoc; auto.
    destruct (next_positional CLI acc) as [a0|] eqn:En; [|discriminate]. inversion Ht; subst a0 v.
    rewrite (cli_next_positional _ _ En).
    unfold opt_values, words. cbn [flat_map app]. fold (opt_values "symbols-path" r). fold (opt_values "symbols-url" r). fold (words r).
    destruct (has_field acc "minidump"); cbn; rewrite ?app_nil_r, <- ?app_assoc; cbn; auto.
Qed.

(* a Vec field collects its occurrences in command-line order: what reaches main() as cli.symbols_path / cli.symbols_url /
   cli.minidump / cli.symbols_path_legacy, read off the command line item by item *)
Lemma symbol_arguments_in_order : forall items out, items_effect CLI [] items = Some out ->
  values_of out "symbols_path" = opt_values "symbols-path" items /\
  values_of out "symbols_url" = opt_values "symbols-url" items /\
  values_of out "minidump" = firstn 1 (words items) /\
  values_of out "symbols_path_legacy" = tl (words items).
Proof.
  intros items out H. destruct (symbol_arguments_from items [] out H) as [H1 [H2 [H3 H4]]]. cbn in *. auto.
Qed.

(* ... and on to the symbol supplier (C20/Sinks.v part 2): from the ARGUMENT VECTOR to the arguments of
   http_symbol_supplier / simple_symbol_supplier *)
Definition sym_cli_of (pid : str -> path) (out : list (str * str)) : sym_cli :=
  {| sc_symbols_path := map pid (values_of out "symbols_path");
     sc_symbols_path_legacy := map pid (values_of out "symbols_path_legacy");
     sc_symbols_url := map pid (values_of out "symbols_url");
     sc_symbols_cache := match values_of out "symbols_cache" with v :: _ => Some (pid v) | [] => None end;
     sc_symbols_tmp := match values_of out "symbols_tmp" with v :: _ => Some (pid v) | [] => None end;
     sc_timeout := match value_of DEFAULTS out "symbols_download_timeout_secs" with
                   | Some s => match parse_unsigned s with Some n => n | None => 0%Z end
                   | None => 0%Z
                   end |}.
Lemma argv_symbol_sources : forall pid items out, items_effect CLI [] items = Some out ->
  supplier_paths (supplier_of (sym_cli_of pid out)) =
    (map pid (opt_values "symbols-path" items) ++ map pid (tl (words items)))%list /\
  supplier_urls (supplier_of (sym_cli_of pid out)) = map pid (opt_values "symbols-url" items).
Proof.
  intros pid items out H. destruct (symbol_arguments_in_order items out H) as [H1 [H2 [_ H4]]].
  rewrite supplier_paths_of, supplier_urls_of. unfold merged_paths. cbn [sym_cli_of sc_symbols_path sc_symbols_path_legacy sc_symbols_url].
  rewrite H1, H2, H4. split; reflexivity.
Qed.

(* ------------------------------------------------------------------ from the items of a command line to main()'s flag record *)
(* field [fld] of struct Cli is filled by the long option [name] and by nothing else *)
Definition filled_by (fld name : str) : Prop :=
  (forall n a, find_long CLI n = Some a -> str_eqb (a_field a) fld = str_eqb n name) /\
  str_eqb "minidump" fld = false /\ str_eqb "symbols_path_legacy" fld = false.

Ltac filled :=
  split; [|split; reflexivity];
  let n := fresh "n" in let a := fresh "a" in let H := fresh "H" in
  intros n a H; unfold find_long in H; apply find_some in H; destruct H as [Hin H];
  apply andb_true_iff in H; destruct H as [Hne H]; apply str_eqb_eq in H; subst n;
  unfold CLI, RM.Gen.C20Cli.CLI_ARGS in Hin; cbn in Hin;
  repeat (destruct Hin as [Hin|Hin]; [subst a; cbn in Hne |- *; try discriminate Hne; reflexivity|]); destruct Hin.

Lemma filled_human : filled_by "human" "human". Proof. filled. Qed.
Lemma filled_json : filled_by "json" "json". Proof. filled. Qed.
Lemma filled_dump : filled_by "dump" "dump". Proof. filled. Qed.
Lemma filled_help_md : filled_by "help_markdown" "help-markdown". Proof. filled. Qed.
Lemma filled_pretty : filled_by "pretty" "pretty". Proof. filled. Qed.
Lemma filled_brief : filled_by "brief" "brief". Proof. filled. Qed.
Lemma filled_recover : filled_by "recover_function_args" "recover-function-args". Proof. filled. Qed.
Lemma filled_cyborg : filled_by "cyborg" "cyborg". Proof. filled. Qed.
Lemma filled_output : filled_by "output_file" "output-file". Proof. filled. Qed.
Lemma filled_log : filled_by "log_file" "log-file". Proof. filled. Qed.

Lemma values_from : forall fld name, filled_by fld name -> forall items acc out, items_effect CLI acc items = Some out ->
  values_of out fld = (values_of acc fld ++ opt_values name items)%list.
Proof.
  intros fld name [Hf [Hm Hl]]. induction items as [|it r IH]; intros acc out H; cbn [items_effect] in H.
  - inversion H; subst. cbn. rewrite app_nil_r. reflexivity.
  - destruct (item_effect CLI acc it) as [acc'|] eqn:E; [|discriminate].
    destruct (item_effect_shape _ _ _ _ E) as [a [v [Ht Hacc']]]. subst acc'.
    rewrite (IH _ _ H). rewrite values_of_app. clear IH H E.
    destruct it as [n|n v'|n v'|w]; cbn [item_target] in Ht.
    1-3: destruct (find_long CLI n) as [a0|] eqn:Ef; [|discriminate]; inversion Ht; subst a0 v;
         rewrite (Hf _ _ Ef); unfold opt_values; cbn [flat_map]; fold (opt_values name r);
         rewrite <- app_assoc; reflexivity.
    destruct (next_positional CLI acc) as [a0|] eqn:En; [|discriminate]. inversion Ht; subst a0 v.
    rewrite (cli_next_positional _ _ En). unfold opt_values. cbn [flat_map app]. fold (opt_values name r).
    destruct (has_field acc "minidump"); rewrite ?Hm, ?Hl, app_nil_r; reflexivity.
Qed.

Lemma has_field_values : forall acc fld, has_field acc fld = match values_of acc fld with [] => false | _ => true end.
Proof.
  induction acc as [|[f v] acc IH]; intro fld; [reflexivity|].
  unfold has_field, values_of in *. cbn. destruct (str_eqb f fld); cbn; [reflexivity|apply IH].
Qed.

Definition given (name : str) (items : list item) : bool :=
  match opt_values name items with [] => false | _ => true end.
Definition first_value (name : str) (items : list item) : option str := hd_error (opt_values name items).

(* main()'s flag record, read off the command line item by item *)
Lemma argv_flags : forall pid items out f, items_effect CLI [] items = Some out ->
  interpret pid DEFAULTS ARMS (PParsed out) = CliFlags f ->
  f_human f = given "human" items /\ f_json f = given "json" items /\ f_dump f = given "dump" items /\
  f_help_md f = given "help-markdown" items /\ f_pretty f = given "pretty" items /\ f_brief f = given "brief" items /\
  f_recover f = given "recover-function-args" items /\
  f_cyborg f = option_map pid (first_value "cyborg" items) /\
  f_output_file f = option_map pid (first_value "output-file" items) /\
  f_log_file f = option_map pid (first_value "log-file" items).
Proof.
  intros pid items out f H Hi. unfold interpret in Hi.
  destruct (value_of DEFAULTS out "verbose") as [vs|]; [|discriminate].
  destruct (level_from_str vs) as [level|]; [|discriminate].
  destruct (value_of DEFAULTS out "features") as [fs|]; [|discriminate].
  destruct (features_match ARMS fs) as [ft|]; [|discriminate].
  inversion Hi; subst f. cbn [flags_of f_human f_json f_dump f_help_md f_pretty f_brief f_recover f_cyborg f_output_file f_log_file].
  rewrite !has_field_values.
  rewrite (values_from _ _ filled_human items [] out H), (values_from _ _ filled_json items [] out H),
          (values_from _ _ filled_dump items [] out H), (values_from _ _ filled_help_md items [] out H),
          (values_from _ _ filled_pretty items [] out H), (values_from _ _ filled_brief items [] out H),
          (values_from _ _ filled_recover items [] out H), (values_from _ _ filled_cyborg items [] out H),
          (values_from _ _ filled_output items [] out H), (values_from _ _ filled_log items [] out H).
  cbn [values_of filter map app]. unfold given, first_value.
  repeat split; try reflexivity;
    match goal with |- context [opt_values ?n items] => destruct (opt_values n items); reflexivity end.
Qed.

(* end to end: a command line read item by item runs main() on exactly the flag record the manual's reading gives *)
Lemma argv_to_flags : forall pid items out e, items_effect CLI [] items = Some out ->
  parse CLI GROUP (render items) = PParsed out ->
  exists f, stackwalk pid (render items) e = lift (run f e) /\
    f_human f = given "human" items /\ f_json f = given "json" items /\ f_dump f = given "dump" items /\
    f_help_md f = given "help-markdown" items /\ f_pretty f = given "pretty" items /\ f_brief f = given "brief" items /\
    f_recover f = given "recover-function-args" items /\
    f_cyborg f = option_map pid (first_value "cyborg" items) /\
    f_output_file f = option_map pid (first_value "output-file" items) /\
    f_log_file f = option_map pid (first_value "log-file" items).
Proof.
  intros pid items out e H Hp.
  destruct (stackwalk_cases pid (render items) e) as [[Hu _]|[[[Hh|Hv] _]|[acc [f [Ha [Hi Hs]]]]]]; try congruence.
  rewrite Hp in Ha. inversion Ha; subst acc. exists f. split; [exact Hs|]. exact (argv_flags pid items out f H Hi).
Qed.
