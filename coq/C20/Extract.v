From Coq Require Extraction.
From Coq Require Import ExtrOcamlBasic.
From RM Require Import C20.Driver.
Extraction "c20_model.ml" run_case argv_case argv_info sym_case dump_case o_exit o_stdout o_out o_cyborg o_log o_stderr_diag o_log_diag o_recover o_diag_kind o_known_b o_known_d.
