(* C05/Proofs.v — lemmas about the parametric walker of C05/Model.v. *)
From Coq Require Import Lia ZArith List Bool.
From RM Require Import C05.Model.
Import ListNotations.
Open Scope Z_scope.

(* ------------------------------------------------------------------ statement vocabulary *)
Definition in_slot (a : arch) (x : Z) : Prop := 0 <= x < 2 ^ a_slot_bits a.
Definition regs_wf (a : arch) (r : regs) : Prop :=
  in_slot a (r_ip r) /\ in_slot a (r_sp r) /\ in_slot a (r_fp r) /\ in_slot a (r_lr r).
Definition frame_wf (a : arch) (f : frame) : Prop := regs_wf a (f_regs f).
Definition mem_wf (m : memory) : Prop :=
  0 <= m_base m /\ Forall (fun b => 0 <= b < 256) (m_bytes m).

(* what the constants of an [arch] must satisfy for the walker's guards to do their job;
   every instance of Model.v satisfies it (arch_ok_x86 ... below) *)
Definition arch_ok (a : arch) : Prop :=
  ((a_bits a = 32 /\ a_pw a = 4) \/ (a_bits a = 64 /\ a_pw a = 8)) /\
  a_bits a <= a_slot_bits a <= 64 /\
  (a_trunc a = true -> a_bits a = 32) /\
  (a_trunc a = false -> a_slot_bits a = a_bits a) /\
  (a_strip a = true -> a_slot_bits a = 64) /\
  2 <= a_fp_guard_words a <= 1000 /\
  0 <= a_scan_context a <= 100000 /\ 0 <= a_scan_default a <= 100000 /\
  0 <= a_scan_skip a /\
  0 < a_adj a <= a_cutoff a /\
  a_sp_stop_le a = true.

Definition trust_walked (t : trust) : Prop := t = TCfi \/ t = TFramePointer \/ t = TScan.

(* shape of a frame produced by the walker (every frame but the first) *)
Definition later_frame_ok (a : arch) (f : frame) : Prop :=
  a_cutoff a <= f_resume f /\ f_instr f = f_resume f - a_adj a /\ f_resume f = r_ip (f_regs f) /\
  trust_walked (f_trust f).

(* a scan frame's return address is the word just below its sp, inside the stack memory *)
Definition scan_word_ok (a : arch) (mem : memory) (f : frame) : Prop :=
  f_trust f = TScan -> read mem (a_pw a) (r_sp (f_regs f) - a_pw a) = Some (f_resume f).

(* sp strictly increases; it may repeat only between the context frame and its caller, on leaf architectures *)
Definition sp_step (a : arch) (callee f : frame) : Prop :=
  r_sp (f_regs callee) < r_sp (f_regs f) \/
  (a_leaf a = true /\ f_trust callee = TContext /\ r_sp (f_regs callee) = r_sp (f_regs f)).
Fixpoint sp_chain (a : arch) (prev : frame) (l : list frame) : Prop :=
  match l with
  | [] => True
  | f :: t => sp_step a prev f /\ sp_chain a f t
  end.

(* ------------------------------------------------------------------ arithmetic helpers *)
Lemma chk_ok : forall p w t x, 0 <= x < 2 ^ w -> chk p w t x = Ret x.
Proof.
  intros p w t x H. unfold chk.
  destruct (0 <=? x) eqn:E1; [|apply Z.leb_gt in E1; lia].
  destruct (x <? 2 ^ w) eqn:E2; [|apply Z.ltb_ge in E2; lia].
  reflexivity.
Qed.
Lemma chk_add_ok : forall p w t x y, 0 <= x + y < 2 ^ w -> chk_add p w t x y = Ret (x + y).
Proof. intros. apply chk_ok. assumption. Qed.
Lemma chk_sub_ok : forall p w t x y, 0 <= x - y < 2 ^ w -> chk_sub p w t x y = Ret (x - y).
Proof. intros. apply chk_ok. assumption. Qed.
Lemma chk_mul_ok : forall p w t x y, 0 <= x * y < 2 ^ w -> chk_mul p w t x y = Ret (x * y).
Proof. intros. apply chk_ok. assumption. Qed.

Lemma checked_add_some : forall w x y r, checked_add w x y = Some r -> r = x + y /\ x + y < 2 ^ w.
Proof.
  intros w x y r H. unfold checked_add in H.
  destruct (x + y <? 2 ^ w) eqn:E; inversion H; subst. apply Z.ltb_lt in E. lia.
Qed.
Lemma checked_sub_some : forall x y r, checked_sub x y = Some r -> r = x - y /\ 0 <= x - y.
Proof.
  intros x y r H. unfold checked_sub in H.
  destruct (0 <=? x - y) eqn:E; inversion H; subst. apply Z.leb_le in E. lia.
Qed.

Lemma le_value_range : forall l, Forall (fun b => 0 <= b < 256) l -> 0 <= le_value l < 256 ^ Z.of_nat (length l).
Proof.
  induction l as [|b t IH]; intros H; cbn [le_value length].
  - cbn. lia.
  - inversion H as [|? ? Hb Ht]; subst. specialize (IH Ht).
    rewrite Nat2Z.inj_succ, Z.pow_succ_r by lia. lia.
Qed.

Lemma Forall_firstn : forall {A} (P : A -> Prop) n l, Forall P l -> Forall P (firstn n l).
Proof.
  intros A P n. induction n as [|n IH]; intros l H; cbn; [constructor|].
  destruct l; [constructor|]. inversion H; subst. constructor; auto.
Qed.
Lemma Forall_skipn : forall {A} (P : A -> Prop) n l, Forall P l -> Forall P (skipn n l).
Proof.
  intros A P n. induction n as [|n IH]; intros l H; cbn; [assumption|].
  destruct l; [constructor|]. inversion H; subst. auto.
Qed.

Lemma read_some : forall m n addr v, read m n addr = Some v ->
  m_base m <= addr /\ addr - m_base m + n <= mem_len m.
Proof.
  intros m n addr v H. unfold read in H.
  destruct (checked_sub addr (m_base m)) as [s|] eqn:E; [|discriminate].
  apply checked_sub_some in E. destruct E as [-> E].
  destruct (addr - m_base m + n <=? mem_len m) eqn:E2; [|discriminate].
  apply Z.leb_le in E2. lia.
Qed.

Lemma read_range : forall m n addr v, mem_wf m -> 0 <= n -> read m n addr = Some v -> 0 <= v < 2 ^ (8 * n).
Proof.
  intros m n addr v [_ Hb] Hn H. unfold read in H.
  destruct (checked_sub addr (m_base m)) as [s|]; [|discriminate].
  destruct (s + n <=? mem_len m); [|discriminate]. inversion H; subst v; clear H.
  set (l := firstn (Z.to_nat n) (skipn (Z.to_nat s) (m_bytes m))).
  assert (Hl : Forall (fun b => 0 <= b < 256) l) by (apply Forall_firstn, Forall_skipn; assumption).
  pose proof (le_value_range l Hl) as R.
  assert (Hlen : Z.of_nat (length l) <= n).
  { unfold l. rewrite firstn_length. lia. }
  assert (256 ^ Z.of_nat (length l) <= 256 ^ n) by (apply Z.pow_le_mono_r; lia).
  replace (2 ^ (8 * n)) with (256 ^ n).
  - lia.
  - change 256 with (2 ^ 8). rewrite <- Z.pow_mul_r by lia. reflexivity.
Qed.

Lemma read_is_some_iff1 : forall m addr, (exists v, read m 1 addr = Some v) <->
  (m_base m <= addr /\ addr - m_base m + 1 <= mem_len m).
Proof.
  intros m addr. split.
  - intros [v H]. eapply read_some; eauto.
  - intros [H1 H2]. unfold read, checked_sub.
    destruct (0 <=? addr - m_base m) eqn:E; [|apply Z.leb_gt in E; lia].
    destruct (addr - m_base m + 1 <=? mem_len m) eqn:E2; [|apply Z.leb_gt in E2; lia].
    eexists; reflexivity.
Qed.

(* ------------------------------------------------------------------ the walker *)
Definition ores {A} (o : outcome (option A)) (P : A -> Prop) : Prop :=
  match o with Ret None => True | Ret (Some x) => P x | _ => False end.

Lemma ores_mono : forall {A} (o : outcome (option A)) (P Q : A -> Prop),
  (forall x, P x -> Q x) -> ores o P -> ores o Q.
Proof. intros A [[x|]| |t|] P Q H; cbn; auto. Qed.

Section WalkerProofs.
Variable fx : fixes.
Variable p : profile.
Variable a : arch.
Variable os : Z.
Variable mem : memory.
Variable module_at : Z -> option Z.
Variable max_module_addr : Z.
Variable cfi_walk : frame -> option frame -> list Z -> option (regs * list Z).
Variable instr_valid : Z -> bool.

Hypothesis Hfx : fx_checked_resolve fx = true.
Hypothesis Ha : arch_ok a.
Hypothesis Hmem : mem_wf mem.
(* contract of the CFI oracle: every register it wrote went through C::Register::try_from *)
Hypothesis Hcfi : forall callee gc fwd r v, cfi_walk callee gc fwd = Some (r, v) -> regs_wf a r.

Lemma W_cases : (W a = 32 /\ PW a = 4) \/ (W a = 64 /\ PW a = 8).
Proof. unfold W, PW. destruct Ha as [H _]. exact H. Qed.

Lemma slot_bounds : 2 ^ W a <= 2 ^ a_slot_bits a /\ 2 ^ a_slot_bits a <= 2 ^ 64 /\ 0 < 2 ^ W a.
Proof.
  destruct Ha as [H0 [H1 _]]. unfold W.
  assert (0 <= a_bits a) by (destruct H0 as [[-> _]|[-> _]]; lia).
  repeat split; try (apply Z.pow_le_mono_r; lia). apply Z.pow_pos_nonneg; lia.
Qed.

Lemma read_pw_range : forall addr v, read mem (PW a) addr = Some v -> 0 <= v < 2 ^ W a.
Proof.
  intros addr v H.
  assert (0 <= PW a /\ 8 * PW a = W a) as [H1 H2] by (destruct W_cases as [[-> ->]|[-> ->]]; lia).
  rewrite <- H2. eapply read_range; eauto.
Qed.

Lemma view_range : forall x, in_slot a x -> 0 <= view a x < 2 ^ W a.
Proof.
  intros x Hx. unfold view. destruct Ha as [_ [_ [Ht [Hf _]]]].
  destruct (a_trunc a) eqn:E.
  - unfold W. rewrite (Ht eq_refl). unfold wrap32, two32. change (2 ^ 32) with 4294967296.
    apply Z.mod_pos_bound. lia.
  - unfold in_slot in Hx. unfold W. rewrite <- (Hf eq_refl). exact Hx.
Qed.

Lemma strip_range : forall x, in_slot a x -> in_slot a (strip a max_module_addr x).
Proof.
  intros x Hx. unfold strip. destruct (a_strip a) eqn:E; [|exact Hx].
  destruct Ha as [_ [_ [_ [_ [Hs _]]]]]. unfold in_slot in *. rewrite (Hs E) in *.
  unfold ptr_auth_strip.
  set (hb := next_pow2 _).
  assert (0 < hb) by (unfold hb, next_pow2; apply Z.pow_pos_nonneg; [lia|apply Z.log2_up_nonneg]).
  destruct (hb <? two64) eqn:E2; [|exact Hx].
  apply Z.ltb_lt in E2. unfold two64 in E2. change (2 ^ 64) with 18446744073709551616.
  pose proof (Z.mod_pos_bound x hb H). lia.
Qed.

Ltac wcases :=
  let HW := fresh "HW" in let HP := fresh "HP" in
  destruct W_cases as [[HW HP]|[HW HP]];
  pose proof slot_bounds as Hsb; destruct Hsb as [Hsb1 [Hsb2 Hsb3]];
  rewrite ?HW, ?HP in *;
  [ change (2 ^ 32) with 4294967296 in * | change (2 ^ 64) with 18446744073709551616 in * ].

Lemma guard_words : 2 <= a_fp_guard_words a <= 1000.
Proof. destruct Ha as [_ [_ [_ [_ [_ [H _]]]]]]. exact H. Qed.

(* ---- frame pointer, x86 *)
Lemma fp_x86_spec : forall callee, frame_wf a callee ->
  ores (fp_x86 p a mem callee) (fun rv => regs_wf a (fst rv)).
Proof.
  intros callee [Hip [Hsp [Hfp Hlr]]]. unfold fp_x86.
  destruct (negb (reg_valid a (a_fp_name a) (f_valid callee))); [exact I|].
  destruct (r_fp (f_regs callee) >=? fp_limit a) eqn:G; [exact I|].
  rewrite Z.geb_leb in G. apply Z.leb_gt in G.
  pose proof guard_words as Hg. unfold fp_limit, MAXW in G. unfold in_slot in *.
  set (bp := r_fp (f_regs callee)) in *.
  wcases.
  - rewrite chk_add_ok by (change (2 ^ 64) with 18446744073709551616; nia). cbn [obind].
    destruct (read mem 4 (bp + 4)) eqn:R1; [|exact I].
    destruct (read mem 4 bp) eqn:R2; [|exact I].
    rewrite chk_add_ok by nia. cbn [obind ores fst].
    pose proof (read_pw_range _ _ ltac:(rewrite HP; exact R1)) as Q1.
    pose proof (read_pw_range _ _ ltac:(rewrite HP; exact R2)) as Q2.
    rewrite HW in Q1, Q2. change (2 ^ 32) with 4294967296 in Q1, Q2.
    unfold regs_wf, in_slot; cbn [r_ip r_sp r_fp r_lr]. repeat split; nia.
  - rewrite chk_add_ok by nia. cbn [obind].
    destruct (read mem 8 (bp + 8)) eqn:R1; [|exact I].
    destruct (read mem 8 bp) eqn:R2; [|exact I].
    rewrite chk_add_ok by nia. cbn [obind ores fst].
    pose proof (read_pw_range _ _ ltac:(rewrite HP; exact R1)) as Q1.
    pose proof (read_pw_range _ _ ltac:(rewrite HP; exact R2)) as Q2.
    rewrite HW in Q1, Q2. change (2 ^ 64) with 18446744073709551616 in Q1, Q2.
    unfold regs_wf, in_slot; cbn [r_ip r_sp r_fp r_lr]. repeat split; nia.
Qed.

(* ---- frame pointer, amd64 (code after de31bed: checked_add) *)
Lemma radd_eq : forall t x y, radd fx p a t x y = Ret (checked_add (W a) x y).
Proof. intros. unfold radd. rewrite Hfx. reflexivity. Qed.

Definition triple_in_w (t : Z * Z * Z) : Prop :=
  let '(ip, bp, sp) := t in 0 <= ip < 2 ^ W a /\ 0 <= bp < 2 ^ W a /\ 0 <= sp < 2 ^ W a.

Lemma resolve_spec : forall n idx step last_bp last_sp,
  0 <= idx -> 0 <= step -> (idx + Z.of_nat n) * step < 2 ^ 31 -> 0 <= last_bp ->
  ores (resolve fx p a mem n idx step last_bp last_sp) triple_in_w.
Proof.
  induction n as [|n IH]; intros idx step last_bp last_sp Hidx Hstep Hb Hbp; [exact I|].
  cbn [resolve].
  assert (Hsmall : 0 <= idx * step < 2 ^ W a).
  { rewrite Nat2Z.inj_succ in Hb. change (2 ^ 31) with 2147483648 in Hb. wcases; nia. }
  rewrite chk_mul_ok by exact Hsmall. cbn [obind].
  rewrite radd_eq. cbn [obind].
  destruct (checked_add (W a) last_bp (idx * step)) as [t1|] eqn:E1; [|exact I].
  apply checked_add_some in E1. destruct E1 as [-> E1].
  rewrite radd_eq. cbn [obind].
  destruct (checked_add (W a) (last_bp + idx * step) (PW a)) as [aip|] eqn:E2; [|exact I].
  destruct (read mem (PW a) aip) as [cip|] eqn:R1; [|exact I].
  destruct (read mem (PW a) (last_bp + idx * step)) as [cbp|] eqn:R2; [|exact I].
  rewrite radd_eq. cbn [obind].
  destruct (checked_add (W a) (last_bp + idx * step) (PW a * 2)) as [csp|] eqn:E3; [|exact I].
  apply checked_add_some in E3. destruct E3 as [-> E3].
  assert (IH' : ores (resolve fx p a mem n (idx + 1) step last_bp last_sp) triple_in_w).
  { apply IH; try lia. all: rewrite Nat2Z.inj_succ in Hb; replace (idx + 1 + Z.of_nat n) with (idx + Z.succ (Z.of_nat n)) by lia; exact Hb. }
  destruct ((last_bp + idx * step + PW a * 2 <=? last_bp) || (cbp <? last_bp + idx * step + PW a * 2)); [exact IH'|].
  destruct (read mem (PW a) cbp); [|exact I].
  destruct (negb (a_canon_fp a cip)); [exact IH'|].
  destruct (negb (stack_seems_valid a mem (last_bp + idx * step + PW a * 2) last_sp)); [exact IH'|].
  cbn [ores triple_in_w].
  pose proof (read_pw_range _ _ R1). pose proof (read_pw_range _ _ R2).
  repeat split; try lia. wcases; nia.
Qed.

Lemma fp_amd64_spec : forall callee, frame_wf a callee ->
  ores (fp_amd64 fx p a os mem callee) (fun rv => regs_wf a (fst rv)).
Proof.
  intros callee [Hip [Hsp [Hfp Hlr]]]. unfold fp_amd64.
  destruct (negb (reg_valid a (a_fp_name a) (f_valid callee))); [exact I|].
  destruct (negb (reg_valid a (a_sp_name a) (f_valid callee))); [exact I|].
  destruct (r_fp (f_regs callee) >=? fp_limit a); [exact I|].
  unfold in_slot in Hfp.
  assert (HR : forall n step, 0 <= step -> Z.of_nat n * step < 2 ^ 31 ->
             ores (resolve fx p a mem n 0 step (r_fp (f_regs callee)) (r_sp (f_regs callee))) triple_in_w).
  { intros n step H1 H2. apply resolve_spec; lia. }
  assert (HP : PW a = 4 \/ PW a = 8) by (destruct W_cases as [[_ ->]|[_ ->]]; auto).
  match goal with |- ores (obind ?r _) _ => assert (HR' : ores r triple_in_w) end.
  { destruct (os =? OS_WINDOWS).
    - apply HR.
      + unfold amd64_win_scan_step_words. lia.
      + unfold amd64_win_scan_max, amd64_win_scan_step_words. change (Z.of_nat (Z.to_nat (15 + 1))) with 16.
        change (2 ^ 31) with 2147483648. lia.
    - apply HR.
      + unfold amd64_other_scan_step. lia.
      + unfold amd64_other_scan_max, amd64_other_scan_step. change (Z.of_nat (Z.to_nat (0 + 1))) with 1.
        change (2 ^ 31) with 2147483648. lia. }
  match goal with |- ores (obind ?r _) _ => destruct r as [[[[cip cbp] csp]|]| |t|] end;
    cbn [obind ores] in *; try exact I; try contradiction.
  destruct HR' as [Q1 [Q2 Q3]]. pose proof slot_bounds as [S1 _].
  unfold regs_wf, in_slot; cbn [fst r_ip r_sp r_fp r_lr]. repeat split; lia.
Qed.

(* ---- frame pointer, arm / arm64 *)
Lemma fp_arm_spec : forall callee, frame_wf a callee ->
  ores (fp_arm p a os mem max_module_addr callee) (fun rv => regs_wf a (fst rv)).
Proof.
  intros callee [Hip [Hsp [Hfp Hlr]]]. unfold fp_arm.
  match goal with |- ores (if ?c then _ else _) _ => destruct c end; [exact I|].
  destruct (negb (reg_valid a (a_fp_name a) (f_valid callee))); [exact I|].
  destruct (negb (reg_valid a (a_sp_name a) (f_valid callee))); [exact I|].
  destruct (r_fp (f_regs callee) >=? fp_limit a) eqn:G; [exact I|].
  rewrite Z.geb_leb in G. apply Z.leb_gt in G.
  pose proof guard_words as Hg. unfold fp_limit, MAXW in G.
  set (bp := r_fp (f_regs callee)) in *.
  assert (Hz : in_slot a 0) by (unfold in_slot; pose proof slot_bounds; lia).
  assert (Hfin : forall cfp cpc csp, in_slot a cfp -> in_slot a cpc -> in_slot a csp ->
     ores (let cfp0 := strip a max_module_addr cfp in let cpc0 := strip a max_module_addr cpc in
           if negb (a_canon_fp a cpc0) then Ret None
           else Ret (Some ({| r_ip := cpc0; r_sp := csp; r_fp := cfp0; r_lr := 0; r_gp := [] |},
                           [a_ip_name a; a_fp_name a; a_sp_name a])))
          (fun rv => regs_wf a (fst rv))).
  { intros cfp cpc csp H1 H2 H3. cbv zeta.
    destruct (negb (a_canon_fp a (strip a max_module_addr cpc))); [exact I|].
    cbn [ores fst]. unfold regs_wf; cbn [r_ip r_sp r_fp r_lr].
    split; [|split; [|split]]; [apply strip_range; auto | exact H3 | apply strip_range; auto | exact Hz]. }
  destruct (bp =? 0).
  - cbn [obind]. apply Hfin; auto.
  - destruct (read mem (PW a) bp) as [cfp|] eqn:R1; [|exact I].
    unfold in_slot in Hfp. fold bp in Hfp.
    assert (E1 : chk_add p 64 521 bp (PW a) = Ret (bp + PW a)).
    { apply chk_add_ok. change (2 ^ 64) with 18446744073709551616. wcases; nia. }
    rewrite E1. cbn [obind].
    destruct (read mem (PW a) (bp + PW a)) as [cpc|] eqn:R2; [|exact I].
    assert (E2 : chk_add p (W a) 522 bp (PW a * 2) = Ret (bp + PW a * 2)).
    { apply chk_add_ok. wcases; nia. }
    rewrite E2. cbn [obind].
    pose proof (read_pw_range _ _ R1). pose proof (read_pw_range _ _ R2).
    pose proof slot_bounds as [S1 [S2 S3]].
    apply Hfin; unfold in_slot; try lia. wcases; nia.
Qed.

Lemma by_fp_spec : forall callee, frame_wf a callee ->
  ores (by_fp fx p a os mem max_module_addr callee) (fun rv => regs_wf a (fst rv)).
Proof.
  intros callee H. unfold by_fp. destruct (a_fp a).
  - apply fp_x86_spec; assumption.
  - apply fp_amd64_spec; assumption.
  - apply fp_arm_spec; assumption.
  - apply fp_arm_spec; assumption.
  - exact I.
Qed.

(* ---- scan *)
Lemma recover_bp_spec : forall i addr_ip caller_sp last_bp,
  0 <= i -> (0 < i -> PW a <= addr_ip) -> 0 <= addr_ip < 2 ^ W a ->
  (forall lb, last_bp = Some lb -> in_slot a lb) ->
  ores (recover_bp p a mem i addr_ip caller_sp last_bp) (fun obp => forall b, obp = Some b -> in_slot a b).
Proof.
  intros i addr_ip caller_sp last_bp Hi Hge Hr Hlb.
  pose proof slot_bounds as [S1 [S2 S3]].
  assert (Hlast : forall lb (c : bool) b, last_bp = Some lb -> (if c then Some lb else None) = Some b -> in_slot a b).
  { intros lb c b E H. destruct c; inversion H; subst. auto. }
  assert (Hpw : 0 < PW a) by (destruct W_cases as [[_ ->]|[_ ->]]; lia).
  unfold recover_bp. destruct (a_bp a).
  - (* x86 *)
    destruct (0 <? i) eqn:E0; [|cbn; intros b Hb; discriminate].
    apply Z.ltb_lt in E0. specialize (Hge E0).
    rewrite chk_sub_ok by lia. cbn [obind].
    destruct (read mem (PW a) (addr_ip - PW a)) as [bp|] eqn:R; [|exact I].
    pose proof (read_pw_range _ _ R) as Q.
    assert (Helse : ores (match last_bp with
                          | Some lb => Ret (Some (if (lb >=? caller_sp) && readable a mem lb then Some lb else None))
                          | None => Ret (Some None) end) (fun obp => forall b, obp = Some b -> in_slot a b)).
    { destruct last_bp as [lb|]; cbn; intros b Hb; [eapply Hlast; eauto | discriminate]. }
    destruct (bp >? addr_ip) eqn:E1; [|exact Helse].
    rewrite Z.gtb_ltb in E1. apply Z.ltb_lt in E1.
    rewrite chk_sub_ok by lia. cbn [obind].
    destruct (bp - (addr_ip - PW a) <=? a_max_gap a); [|exact Helse].
    cbn. intros b Hb. destruct (readable a mem bp); inversion Hb; subst. unfold in_slot. lia.
  - (* amd64 *)
    destruct last_bp as [lb|]; [|cbn; intros b Hb; discriminate].
    destruct (0 <? i) eqn:E0; [|cbn; intros b Hb; discriminate].
    apply Z.ltb_lt in E0. specialize (Hge E0).
    rewrite chk_sub_ok by lia. cbn [obind].
    destruct (read mem (PW a) (addr_ip - PW a)) as [bp|] eqn:R; [|exact I].
    pose proof (read_pw_range _ _ R) as Q.
    assert (Helse : ores (Ret (Some (if lb >=? caller_sp then Some lb else None)))
                         (fun obp => forall b, obp = Some b -> in_slot a b)).
    { cbn. intros b Hb. eapply Hlast; eauto. }
    destruct ((lb =? addr_ip - PW a) && (bp >? addr_ip)) eqn:E1; [|exact Helse].
    apply andb_true_iff in E1. destruct E1 as [_ E1].
    rewrite Z.gtb_ltb in E1. apply Z.ltb_lt in E1.
    rewrite chk_sub_ok by lia. cbn [obind].
    destruct (bp - (addr_ip - PW a) <=? a_max_gap a); [|exact Helse].
    cbn. intros b Hb. destruct (readable a mem bp); inversion Hb; subst. unfold in_slot. lia.
  - cbn. intros b Hb. discriminate.
Qed.

Definition scan_post (rv : regs * list Z) : Prop :=
  regs_wf a (fst rv) /\ read mem (PW a) (r_sp (fst rv) - PW a) = Some (r_ip (fst rv)).

Lemma scan_loop_spec : forall n i last_sp last_bp,
  0 <= i -> (i + Z.of_nat n) * PW a < 2 ^ 31 -> 0 <= last_sp ->
  (forall lb, last_bp = Some lb -> in_slot a lb) ->
  ores (scan_loop p a mem instr_valid n i last_sp last_bp) scan_post.
Proof.
  induction n as [|n IH]; intros i last_sp last_bp Hi Hb Hsp Hlb; [exact I|].
  cbn [scan_loop].
  pose proof slot_bounds as [S1 [S2 S3]].
  assert (Hpw : 0 < PW a) by (destruct W_cases as [[_ ->]|[_ ->]]; lia).
  assert (Hsmall : 0 <= i * PW a < 2 ^ W a).
  { rewrite Nat2Z.inj_succ in Hb. change (2 ^ 31) with 2147483648 in Hb. wcases; nia. }
  rewrite chk_mul_ok by exact Hsmall. cbn [obind].
  destruct (checked_add (W a) last_sp (i * PW a)) as [addr_ip|] eqn:E1; [|exact I].
  apply checked_add_some in E1. destruct E1 as [-> E1].
  destruct (read mem (PW a) (last_sp + i * PW a)) as [cip|] eqn:R1; [|exact I].
  destruct (instr_ok a instr_valid cip).
  - destruct (checked_add (W a) (last_sp + i * PW a) (PW a)) as [csp|] eqn:E2; [|exact I].
    apply checked_add_some in E2. destruct E2 as [-> E2].
    pose proof (recover_bp_spec i (last_sp + i * PW a) (last_sp + i * PW a + PW a) last_bp Hi) as HR.
    assert (HR' : ores (recover_bp p a mem i (last_sp + i * PW a) (last_sp + i * PW a + PW a) last_bp)
                       (fun obp => forall b, obp = Some b -> in_slot a b)).
    { apply HR; auto; try nia. }
    destruct (recover_bp p a mem i (last_sp + i * PW a) (last_sp + i * PW a + PW a) last_bp) as [[obp|]| |t|];
      cbn [obind ores] in *; try exact I; try contradiction.
    pose proof (read_pw_range _ _ R1) as Q.
    unfold scan_post; cbn [fst r_ip r_sp r_fp r_lr]. split.
    + unfold regs_wf; cbn [r_ip r_sp r_fp r_lr]. split; [|split; [|split]]; unfold in_slot; try nia.
      destruct obp as [b|]; [apply HR'; reflexivity | lia].
    + replace (last_sp + i * PW a + PW a - PW a) with (last_sp + i * PW a) by lia. exact R1.
  - apply IH; auto; try lia.
    all: rewrite Nat2Z.inj_succ in Hb; replace (i + 1 + Z.of_nat n) with (i + Z.succ (Z.of_nat n)) by lia; exact Hb.
Qed.

Lemma by_scan_spec : forall callee, frame_wf a callee ->
  ores (by_scan p a mem instr_valid callee) scan_post.
Proof.
  intros callee [Hip [Hsp [Hfp Hlr]]]. unfold by_scan.
  destruct (negb (reg_valid a (a_sp_name a) (f_valid callee))); [exact I|].
  set (last_bp := if reg_valid a (a_fp_name a) (f_valid callee) then Some (r_fp (f_regs callee)) else None).
  assert (Hlb : forall lb, last_bp = Some lb -> in_slot a lb).
  { intros lb H. unfold last_bp in H. destruct (reg_valid a (a_fp_name a) (f_valid callee)); inversion H; subst. exact Hfp. }
  pose proof (view_range _ Hsp) as Hv.
  destruct Ha as [_ [_ [_ [_ [_ [_ [Hc [Hd [Hs _]]]]]]]]].
  assert (Hpw : PW a = 4 \/ PW a = 8) by (destruct W_cases as [[_ ->]|[_ ->]]; auto).
  destruct (is_context (f_trust callee)).
  - apply scan_loop_spec; auto; try lia.
    all: try (rewrite Z2Nat.id by lia; change (2 ^ 31) with 2147483648; lia).
  - destruct (if a_scan_skip a =? 0 then Some (view a (r_sp (f_regs callee)))
              else checked_add (W a) (view a (r_sp (f_regs callee))) (a_scan_skip a)) as [sp1|] eqn:E; [|exact I].
    apply scan_loop_spec; auto; try lia.
    all: try (rewrite Z2Nat.id by lia; change (2 ^ 31) with 2147483648; lia).
    all: try (destruct (a_scan_skip a =? 0); [inversion E; subst; lia | apply checked_add_some in E; lia]).
Qed.

(* ---- cfi *)
Lemma by_cfi_spec : forall callee gc r v,
  by_cfi a module_at max_module_addr cfi_walk callee gc = Some (r, v) -> regs_wf a r.
Proof.
  intros callee gc r v H. unfold by_cfi in H.
  destruct (negb (reg_valid a (a_sp_name a) (f_valid callee))); [discriminate|].
  destruct (module_at (f_instr callee)); [|discriminate].
  destruct (cfi_walk callee gc (forwarded a (f_valid callee))) as [[r0 v0]|] eqn:E; [|discriminate].
  inversion H; subst; clear H. apply Hcfi in E. destruct E as [H1 [H2 [H3 H4]]].
  unfold cfi_post, regs_wf; cbn [r_ip r_sp r_fp r_lr].
  split; [|split; [|split]].
  - apply strip_range; assumption.
  - assumption.
  - destruct (reg_valid a (a_fp_name a) (VSome v)); [apply strip_range|]; assumption.
  - destruct (reg_valid a (a_lr_name a) (VSome v)); [apply strip_range|]; assumption.
Qed.

(* ---- cascade and get_caller_frame *)
Definition cascade_post (f : frame) : Prop :=
  frame_wf a f /\ f_instr f = r_ip (f_regs f) /\ f_resume f = r_ip (f_regs f) /\
  trust_walked (f_trust f) /\ scan_word_ok a mem f.

Lemma cascade_spec : forall callee gc, frame_wf a callee ->
  ores (cascade fx p a os mem module_at max_module_addr cfi_walk instr_valid callee gc) cascade_post.
Proof.
  intros callee gc Hc. unfold cascade.
  destruct (by_cfi a module_at max_module_addr cfi_walk callee gc) as [[r v]|] eqn:E.
  - apply by_cfi_spec in E. cbn [ores]. unfold cascade_post, frame_wf, scan_word_ok, trust_walked, from_context;
      cbn [f_instr f_resume f_trust f_regs f_valid].
    split; [exact E|]. split; [reflexivity|]. split; [reflexivity|].
    split; [left; reflexivity | intros H; discriminate H].
  - pose proof (by_fp_spec callee Hc) as HF.
    destruct (by_fp fx p a os mem max_module_addr callee) as [[[r v]|]| |t|]; cbn [obind ores] in *; try contradiction.
    + cbn [fst] in HF. unfold cascade_post, frame_wf, scan_word_ok, trust_walked, from_context;
        cbn [f_instr f_resume f_trust f_regs f_valid].
      split; [exact HF|]. split; [reflexivity|]. split; [reflexivity|].
      split; [right; left; reflexivity | intros H; discriminate H].
    + pose proof (by_scan_spec callee Hc) as HS.
      destruct (by_scan p a mem instr_valid callee) as [[[r v]|]| |t|]; cbn [obind ores] in *; try contradiction; try exact I.
      destruct HS as [HS1 HS2]. cbn [fst] in *.
      unfold cascade_post, frame_wf, scan_word_ok, trust_walked, from_context;
        cbn [f_instr f_resume f_trust f_regs f_valid].
      split; [exact HS1|]. split; [reflexivity|]. split; [reflexivity|].
      split; [right; right; reflexivity | intros _; exact HS2].
Qed.

Definition gcf_post (callee f : frame) : Prop :=
  frame_wf a f /\ later_frame_ok a f /\ sp_step a callee f /\ scan_word_ok a mem f.

Lemma is_context_true : forall t, is_context t = true -> t = TContext.
Proof. destruct t; cbn; intros; try discriminate; reflexivity. Qed.

Lemma gcf_spec : forall callee gc, frame_wf a callee ->
  ores (get_caller_frame fx p a os mem module_at max_module_addr cfi_walk instr_valid callee gc) (gcf_post callee).
Proof.
  intros callee gc Hc. unfold get_caller_frame.
  pose proof (cascade_spec callee gc Hc) as HC.
  destruct (cascade fx p a os mem module_at max_module_addr cfi_walk instr_valid callee gc) as [[f|]| |t|];
    cbn [obind ores] in *; try contradiction; try exact I.
  destruct HC as [Hwf [Hi [Hr [Ht Hs]]]].
  destruct (r_ip (f_regs f) <? a_cutoff a) eqn:E1; [exact I|]. apply Z.ltb_ge in E1.
  destruct (sp_progress a callee f) eqn:E2; [|exact I]. cbn [negb].
  destruct Ha as [_ [_ [_ [_ [_ [_ [_ [_ [_ [Hadj Hle]]]]]]]]]].
  pose proof slot_bounds as [S1 [S2 S3]].
  destruct Hwf as [Hip Hrest]. unfold in_slot in Hip.
  rewrite chk_sub_ok by lia. cbn [obind ores].
  unfold gcf_post, frame_wf, later_frame_ok, scan_word_ok; cbn [set_instr f_instr f_resume f_regs f_trust f_valid].
  split; [split; assumption|]. split; [rewrite Hr; split; [lia|]; split; [reflexivity|]; split; [reflexivity | exact Ht]|]. split; [|exact Hs].
  unfold sp_progress in E2. cbv zeta in E2. rewrite Hle in E2. unfold sp_step. cbn [set_instr f_instr f_resume f_regs f_trust f_valid].
  destruct (r_sp (f_regs f) <=? r_sp (f_regs callee)) eqn:E3.
  - apply andb_true_iff in E2. destruct E2 as [E2 E4]. apply andb_true_iff in E2. destruct E2 as [E2 E5].
    right. split; [assumption|]. split; [apply is_context_true; assumption|]. apply Z.eqb_eq in E4. lia.
  - apply Z.leb_gt in E3. left. lia.
Qed.

End WalkerProofs.

(* ------------------------------------------------------------------ the walk *)
Section WalkProofs.
Variable fx : fixes.
Variable p : profile.
Variable a : arch.
Variable os : Z.
Variable mem : memory.
Variable module_at : Z -> option Z.
Variable max_module_addr : Z.
Variable cfi_walk : frame -> option frame -> list Z -> option (regs * list Z).
Variable instr_valid : Z -> bool.

Hypothesis Hfx : fx_checked_resolve fx = true.
Hypothesis Ha : arch_ok a.
Hypothesis Hmem : mem_wf mem.
Hypothesis Hcfi : forall callee gc fwd r v, cfi_walk callee gc fwd = Some (r, v) -> regs_wf a r.

Notation gcf := (get_caller_frame fx p a os mem module_at max_module_addr cfi_walk instr_valid).
Notation walkf := (walk fx p a os mem module_at max_module_addr cfi_walk instr_valid).

Lemma gcf_ok : forall callee gc, frame_wf a callee -> ores (gcf callee gc) (gcf_post a mem callee).
Proof. intros. apply gcf_spec; auto. Qed.

Definition walked_ok (f : frame) : Prop := frame_wf a f /\ later_frame_ok a f /\ scan_word_ok a mem f.

Lemma walk_shape : forall fuel callee gc l, frame_wf a callee -> walkf fuel callee gc = Ret l ->
  Forall walked_ok l /\ sp_chain a callee l.
Proof.
  induction fuel as [|k IH]; intros callee gc l Hc H; cbn [walk] in H; [discriminate|].
  destruct (stop_here fx mem callee); [inversion H; subst; split; [constructor|exact I]|].
  pose proof (gcf_ok callee gc Hc) as HG.
  destruct (gcf callee gc) as [[f|]| |t|]; cbn [obind ores] in *; try contradiction; try discriminate.
  - destruct HG as [Hwf [Hl [Hs Hw]]].
    destruct (walkf k f (Some callee)) as [rest| |t|] eqn:E; cbn [obind] in H; try discriminate.
    inversion H; subst; clear H.
    destruct (IH f (Some callee) rest Hwf E) as [I1 I2].
    split; [constructor; [unfold walked_ok; split; [exact Hwf|split; [exact Hl|exact Hw]] | assumption] | cbn [sp_chain]; split; assumption].
  - inversion H; subst. split; [constructor|exact I].
Qed.

Lemma walk_total : forall fuel callee gc, frame_wf a callee ->
  (exists l, walkf fuel callee gc = Ret l) \/ walkf fuel callee gc = OutOfFuel.
Proof.
  induction fuel as [|k IH]; intros callee gc Hc; cbn [walk]; [right; reflexivity|].
  destruct (stop_here fx mem callee); [left; eexists; reflexivity|].
  pose proof (gcf_ok callee gc Hc) as HG.
  destruct (gcf callee gc) as [[f|]| |t|]; cbn [obind ores] in *; try contradiction.
  - destruct HG as [Hwf _].
    destruct (IH f (Some callee) Hwf) as [[rest E]|E]; rewrite E; cbn [obind]; [left; eexists; reflexivity | right; reflexivity].
  - left; eexists; reflexivity.
Qed.

(* ---- the frame bound (needs the repair of F-C03a) *)
Hypothesis Hguard : fx_sp_guard fx = true.

Definition room (f : frame) : Z :=
  if sp_in_stack mem f then m_base mem + mem_len mem - r_sp (f_regs f) else 0.

Lemma sp_in_stack_true : forall f, sp_in_stack mem f = true ->
  m_base mem <= r_sp (f_regs f) /\ r_sp (f_regs f) - m_base mem + 1 <= mem_len mem.
Proof.
  intros f H. unfold sp_in_stack in H.
  destruct (read mem 1 (r_sp (f_regs f))) eqn:E; [|discriminate]. eapply read_some; eauto.
Qed.

Lemma room_nonneg : forall f, 0 <= room f.
Proof.
  intros f. unfold room. destruct (sp_in_stack mem f) eqn:E; [|lia].
  apply sp_in_stack_true in E. lia.
Qed.

Lemma trust_walked_not_context : forall t, trust_walked t -> is_context t = false.
Proof. intros t [H|[H|H]]; subst; reflexivity. Qed.

Lemma walk_bound : forall fuel callee gc, frame_wf a callee -> is_context (f_trust callee) = false ->
  (Z.to_nat (room callee) < fuel)%nat ->
  exists l, walkf fuel callee gc = Ret l /\ Z.of_nat (length l) <= room callee.
Proof.
  induction fuel as [|k IH]; intros callee gc Hc Hctx Hfuel; [lia|].
  cbn [walk]. unfold stop_here. rewrite Hguard, Hctx. cbn [negb andb].
  destruct (sp_in_stack mem callee) eqn:Es; cbn [negb].
  - pose proof (sp_in_stack_true callee Es) as [B1 B2].
    assert (Hroom : room callee = m_base mem + mem_len mem - r_sp (f_regs callee)) by (unfold room; rewrite Es; reflexivity).
    pose proof (gcf_ok callee gc Hc) as HG.
    destruct (gcf callee gc) as [[f|]| |t|]; cbn [obind ores] in *; try contradiction.
    + destruct HG as [Hwf [Hl [Hs Hw]]].
      destruct Hl as [_ [_ [_ Ht]]]. apply trust_walked_not_context in Ht.
      assert (Hsp : r_sp (f_regs callee) < r_sp (f_regs f)).
      { destruct Hs as [Hs|[_ [Hs _]]]; [exact Hs|]. rewrite Hs in Hctx. discriminate. }
      assert (Hrf : room f <= room callee - 1).
      { unfold room at 1. destruct (sp_in_stack mem f) eqn:Ef; [|lia]. lia. }
      pose proof (room_nonneg f) as Hn.
      destruct (IH f (Some callee) Hwf Ht) as [rest [E Hlen]]; [lia|].
      rewrite E. cbn [obind]. eexists; split; [reflexivity|]. cbn [length]. lia.
    + eexists; split; [reflexivity|]. cbn [length]. lia.
  - eexists; split; [reflexivity|]. cbn [length]. pose proof (room_nonneg callee). lia.
Qed.

End WalkProofs.

(* ------------------------------------------------------------------ statements about walk_stack *)
Definition wellformed_walk (a : arch) (mem : memory) (r : regs) (v : validity) (fs : list frame) : Prop :=
  exists rest, fs = from_context r v TContext :: rest /\
    Forall (later_frame_ok a) rest /\ sp_chain a (from_context r v TContext) rest /\
    Forall (scan_word_ok a mem) rest.

Section StackProofs.
Variable p : profile.
Variable a : arch.
Variable os : Z.
Variable mem : memory.
Variable module_at : Z -> option Z.
Variable max_module_addr : Z.
Variable cfi_walk : frame -> option frame -> list Z -> option (regs * list Z).
Variable instr_valid : Z -> bool.
Variable fx : fixes.
Hypothesis Hfx : fx_checked_resolve fx = true.
Hypothesis Ha : arch_ok a.
Hypothesis Hmem : mem_wf mem.
Hypothesis Hcfi : forall callee gc fwd r v, cfi_walk callee gc fwd = Some (r, v) -> regs_wf a r.

Notation ws := (walk_stack fx p a os mem module_at max_module_addr cfi_walk instr_valid).

Lemma first_frame : forall fuel r v fs, ws fuel r v = Ret fs ->
  exists rest, fs = from_context r v TContext :: rest.
Proof.
  intros fuel r v fs H. unfold walk_stack in H. destruct (mem_ok mem).
  - destruct (walk fx p a os mem module_at max_module_addr cfi_walk instr_valid fuel (from_context r v TContext) None);
      cbn [obind] in H; try discriminate. inversion H; subst. eexists; reflexivity.
  - inversion H; subst. eexists; reflexivity.
Qed.

Lemma stack_wellformed : forall fuel r v fs, regs_wf a r -> ws fuel r v = Ret fs -> wellformed_walk a mem r v fs.
Proof.
  intros fuel r v fs Hr H. unfold walk_stack in H. unfold wellformed_walk. destruct (mem_ok mem).
  - destruct (walk fx p a os mem module_at max_module_addr cfi_walk instr_valid fuel (from_context r v TContext) None) as [rest| |t|] eqn:E;
      cbn [obind] in H; try discriminate. inversion H; subst; clear H.
    assert (Hc : frame_wf a (from_context r v TContext)) by exact Hr.
    destruct (walk_shape fx p a os mem module_at max_module_addr cfi_walk instr_valid Hfx Ha Hmem Hcfi _ _ _ _ Hc E) as [H1 H2].
    exists rest. split; [reflexivity|]. split; [|split; [exact H2|]].
    + eapply Forall_impl; [|exact H1]. intros f [_ [Hl _]]. exact Hl.
    + eapply Forall_impl; [|exact H1]. intros f [_ [_ Hs]]. exact Hs.
  - inversion H; subst. exists []. repeat split; constructor.
Qed.

Lemma stack_no_panic : forall fuel r v, regs_wf a r ->
  (exists fs, ws fuel r v = Ret fs) \/ ws fuel r v = OutOfFuel.
Proof.
  intros fuel r v Hr. unfold walk_stack. destruct (mem_ok mem); [|left; eexists; reflexivity].
  assert (Hc : frame_wf a (from_context r v TContext)) by exact Hr.
  destruct (walk_total fx p a os mem module_at max_module_addr cfi_walk instr_valid Hfx Ha Hmem Hcfi fuel _ None Hc) as [[l E]|E];
    rewrite E; cbn [obind]; [left; eexists; reflexivity | right; reflexivity].
Qed.

Hypothesis Hguard : fx_sp_guard fx = true.

Lemma frame_bound : forall r v, regs_wf a r ->
  exists fs, ws (fuel_for mem) r v = Ret fs /\ (length fs <= length (m_bytes mem) + 2)%nat.
Proof.
  intros r v Hr. unfold walk_stack. destruct (mem_ok mem); [|eexists; split; [reflexivity|cbn [length]; lia]].
  set (f0 := from_context r v TContext).
  assert (Hc : frame_wf a f0) by exact Hr.
  unfold fuel_for. replace (length (m_bytes mem) + 3)%nat with (S (length (m_bytes mem) + 2)) by lia.
  cbn [walk]. unfold stop_here. replace (is_context (f_trust f0)) with true by reflexivity.
  rewrite andb_false_r. cbn [andb].
  pose proof (gcf_ok fx p a os mem module_at max_module_addr cfi_walk instr_valid Hfx Ha Hmem Hcfi f0 None Hc) as HG.
  destruct (get_caller_frame fx p a os mem module_at max_module_addr cfi_walk instr_valid f0 None) as [[f|]| |t|];
    cbn [obind ores] in *; try contradiction.
  - destruct HG as [Hwf [Hl _]]. destruct Hl as [_ [_ [_ Ht]]].
    pose proof (trust_walked_not_context _ Ht) as Hnc.
    assert (Hroom : room mem f <= mem_len mem).
    { unfold room. destruct (sp_in_stack mem f) eqn:Ef; [|unfold mem_len; lia].
      apply sp_in_stack_true in Ef. lia. }
    pose proof (room_nonneg mem f) as Hn.
    destruct (walk_bound fx p a os mem module_at max_module_addr cfi_walk instr_valid Hfx Ha Hmem Hcfi Hguard
                (length (m_bytes mem) + 2)%nat f (Some f0) Hwf Hnc) as [rest [E Hlen]].
    { unfold mem_len in Hroom. lia. }
    rewrite E. cbn [obind]. eexists; split; [reflexivity|]. cbn [length]. unfold mem_len in Hroom. lia.
  - eexists; split; [reflexivity|]. cbn [length]. lia.
Qed.

End StackProofs.

(* ------------------------------------------------------------------ the instances satisfy arch_ok *)
Ltac arch_ok_tac := unfold arch_ok; cbn; repeat split; try lia; try discriminate; auto.
Lemma arch_ok_x86 : arch_ok x86. Proof. arch_ok_tac. Qed.
Lemma arch_ok_amd64 : arch_ok amd64. Proof. arch_ok_tac. Qed.
Lemma arch_ok_arm : arch_ok arm. Proof. arch_ok_tac. Qed.
Lemma arch_ok_arm64 : arch_ok arm64. Proof. arch_ok_tac. Qed.
Lemma arch_ok_mips32 : arch_ok mips32. Proof. arch_ok_tac. Qed.
Lemma arch_ok_mips64 : arch_ok mips64. Proof. arch_ok_tac. Qed.

(* ------------------------------------------------------------------ all walker facts of one architecture *)
Definition walker_facts (a : arch) : Prop :=
  forall p os mem module_at max_module_addr cfi_walk instr_valid,
    mem_wf mem ->
    (forall callee gc fwd r v, cfi_walk callee gc fwd = Some (r, v) -> regs_wf a r) ->
    forall r v, regs_wf a r ->
      (forall fuel fs, walk_stack current_code p a os mem module_at max_module_addr cfi_walk instr_valid fuel r v = Ret fs ->
                       wellformed_walk a mem r v fs) /\
      (forall fuel, (exists fs, walk_stack current_code p a os mem module_at max_module_addr cfi_walk instr_valid fuel r v = Ret fs) \/
                    walk_stack current_code p a os mem module_at max_module_addr cfi_walk instr_valid fuel r v = OutOfFuel) /\
      (exists fs, walk_stack current_code p a os mem module_at max_module_addr cfi_walk instr_valid (fuel_for mem) r v = Ret fs /\
                  (length fs <= length (m_bytes mem) + 2)%nat).

Lemma walker_facts_of_ok : forall a, arch_ok a -> walker_facts a.
Proof.
  intros a Ha p os mem ma mm cw iv Hm Hc r v Hr. split; [|split].
  - intros fuel fs H. exact (stack_wellformed p a os mem ma mm cw iv current_code eq_refl Ha Hm Hc fuel r v fs Hr H).
  - intros fuel. exact (stack_no_panic p a os mem ma mm cw iv current_code eq_refl Ha Hm Hc fuel r v Hr).
  - exact (frame_bound p a os mem ma mm cw iv current_code eq_refl Ha Hm Hc eq_refl r v Hr).
Qed.

