(* C05/Driver.v — entry point of the correspondence run (extracted to OCaml).
   Instantiates the oracles of C05/Model.v for the inputs the harness can build:
     * modules: MinidumpModuleList::from_modules = C08's build_indexed / rm_get;
     * symbols: per module either none, or a symbol file of the family
           MODULE Linux <cpu> 0 m<i>
           FUNC <func_lo> <func_size> 0 f                         (omitted when func_size = 0)
           STACK CFI INIT <cfi_lo> <cfi_size> .cfa: <SP> <cfa_off> + .ra: <RA> [<FP>: .cfa <fp_off> - ^]
       with <RA> = `.cfa <ra_arg> - ^` (ra_kind 0) or the constant `<ra_arg>` (ra_kind 1),
       <SP> = $esp / $rsp / sp, <FP> = $ebp / $rbp / r11 / x29 / fp.
     [cfi_family] below is the tiny evaluator of exactly this family against CfiStackWalker
     (breakpad-symbols walker.rs eval_cfi_expr: u64 wrapping arithmetic, `^` = read of one
     C::Register, set_cfa/set_ra/set_caller_register = C::Register::try_from). *)
From RM Require Import C08.Model C05.Model C05.ModelTail.
From RM Require C06.Model C07.Model C07.Text C09.Grammar.
Open Scope Z_scope.

(* A module's symbol file: FUNC record + one STACK CFI INIT record, whose rules are either the small
   family above (evaluated by [cfi_family]) or arbitrary rule text with optional `STACK CFI <addr>` delta
   lines ([s_text]; evaluated by C06's model of walk_with_stack_cfi over the real CfiStackWalker, see
   [cfi_text]). *)
Record symrule := { s_func_lo : Z; s_func_size : Z; s_cfi_lo : Z; s_cfi_size : Z;
                    s_cfa_off : Z; s_ra_kind : Z; s_ra_arg : Z; s_fp_off : option Z;
                    s_text : option (list Z * list (Z * list Z));
                    s_table : option C09.Grammar.table }.   (* the whole symbol file, parsed by C09's grammar *)

(* `T|line|line|...`: the lines of a symbol file (FUNC / STACK WIN / STACK CFI INIT / STACK CFI records; the driver
   puts the MODULE line in front).  SymbolFile::from_bytes = C09's line grammar + SymbolParser::finish. *)
Definition parse_symfile (lines : list (list Z)) : option C09.Grammar.table :=
  match C07.Text.parse_lines C09.Grammar.init_pst (map C09.Grammar.to_rle lines) with
  | Some ps => match C09.Grammar.finish ps with Ret t => Some t | _ => None end
  | None => None
  end.
(* SymbolFile::fill_symbol (no PUBLIC records in these files): Some (parameter size) when a FUNC covers the address *)
Definition table_fill (t : C09.Grammar.table) (addr : Z) : option Z :=
  match rm_get (C09.Grammar.t_funcs t) addr with
  | None => None
  | Some f =>
      Some (match rm_get (C09.Grammar.t_win_fd t) addr with
            | Some w => C09.Grammar.wi_params w
            | None => match rm_get (C09.Grammar.t_win_fpo t) addr with
                      | Some w => C09.Grammar.wi_params w
                      | None => C09.Grammar.sf_psize f
                      end
            end)
  end.

(* register names <-> the byte strings of C06 *)
Fixpoint bytes_of_name_aux (fuel : nat) (n : Z) (acc : list Z) : list Z :=
  match fuel with
  | O => acc
  | S k => if n <=? 0 then acc else bytes_of_name_aux k (n / 256) (n mod 256 :: acc)
  end.
Definition bytes_of_name (n : Z) : list Z := bytes_of_name_aux 32 n [].
Definition name_of_bytes (b : list Z) : Z := fold_left (fun acc c => acc * 256 + c) b 0.

Definition modspec := (Z * Z * option symrule)%type.     (* base, size, symbols *)

Section Case.
Variable a : arch.
Variable mem : memory.
Variable mods : list modspec.

Definition mod_table : list (range * Z) :=
  match build_indexed (map (fun m => mk_range (fst (fst m)) (snd (fst m))) mods) with
  | Ret t => t
  | _ => []
  end.
Definition d_module_at (x : Z) : option Z := rm_get mod_table x.
(* modules.by_addr().next_back(): the module with the highest base address, as (base_address, size) *)
Definition d_last_module : option (Z * Z) :=
  match rev mod_table with
  | (_, idx) :: _ =>
      match nth_error mods (Z.to_nat idx) with
      | Some (b, s, _) => Some (b, s)
      | None => None
      end
  | [] => None
  end.
(* arm64.rs ptr_auth_strip: `max_module_addr`, the expression regenerated from the Rust text (Gen/UnwindTail.v) *)
Definition d_max_module_addr : Z := arm64_max_module_addr d_last_module.

Definition mod_of (x : Z) : option modspec :=
  match d_module_at x with Some i => nth_error mods (Z.to_nat i) | None => None end.

(* symbol_provider.fill_symbol(module, frame) as instruction_seems_valid_by_symbols sees it (see Gen/UnwindTail.v,
   lib_isv_by_symbols): None = Err (no symbol file for the module), Some None = Ok without set_function,
   Some (Some e) = Ok after set_function(name, ..) with name.is_empty() = e (a `FUNC addr size psize` line may have an
   empty name; the single FUNC record of the S: / Y| files is called `f`) *)
Definition rle_empty (n : C09.Grammar.rle) : bool := forallb (fun pr => snd pr <=? 0) n.
Definition d_fill (m : modspec) (i : Z) : option (option bool) :=
  match m with
  | (b, _, None) => None
  | (b, _, Some s) =>
      let addr := i - b in
      Some (match s_table s with
            | Some t => match rm_get (C09.Grammar.t_funcs t) addr with
                        | Some fn => Some (rle_empty (C09.Grammar.sf_name fn))
                        | None => None
                        end
            | None => if (0 <? s_func_size s) && (s_func_lo s <=? addr) && (addr <? s_func_lo s + s_func_size s)
                      then Some false else None
            end)
  end.
(* lib.rs instruction_seems_valid_by_symbols: the function body regenerated from the Rust text (Gen/UnwindTail.v) over
   this driver's module lookup and symbol files; C05/ProofsValid.v, d_instr_valid_spec, spells it out *)
Definition d_instr_valid (x : Z) : bool := lib_isv_by_symbols mod_of d_fill x.

Definition memoize (n : Z) : Z :=
  match filter (fun pr => fst pr =? n) (a_aliases a) with (_, c) :: _ => c | [] => n end.
Definition add_name (n : Z) (l : list Z) : list Z := if memb n l then l else l ++ [n].
Definition fits (x : Z) : bool := x <? 2 ^ a_bits a.

Definition cfi_family (callee : frame) (gc : option frame) (fwd : list Z) : option (regs * list Z) :=
  match mod_of (f_instr callee) with
  | Some (b, _, Some s) =>
      if f_instr callee <? b then None else
      let addr := f_instr callee - b in
      if negb ((0 <? s_cfi_size s) && (s_cfi_lo s <=? addr) && (addr <? s_cfi_lo s + s_cfi_size s)) then None else
      if negb (reg_valid a (a_cfi_sp_name a) (f_valid callee)) then None else
      let sp := view a (r_sp (f_regs callee)) in
      let cfa := wrap64 (sp + s_cfa_off s) in
      match (if s_ra_kind s =? 0 then read mem (a_pw a) (wrap64 (cfa - s_ra_arg s)) else Some (wrap64 (s_ra_arg s))) with
      | None => None
      | Some ra =>
          if negb (fits cfa) then None else
          if negb (fits ra) then None else
          let v := add_name (a_cfi_ip_name a) (add_name (a_cfi_sp_name a) fwd) in
          let r := f_regs callee in
          match s_fp_off s with
          | None => Some ({| r_ip := ra; r_sp := cfa; r_fp := r_fp r; r_lr := r_lr r; r_gp := r_gp r |}, v)
          | Some off =>
              match read mem (a_pw a) (wrap64 (cfa - off)) with
              | Some fpv => Some ({| r_ip := ra; r_sp := cfa; r_fp := fpv; r_lr := r_lr r; r_gp := r_gp r |},
                                  add_name (memoize (a_fp_name a)) v)
              | None => Some ({| r_ip := ra; r_sp := cfa; r_fp := r_fp r; r_lr := r_lr r; r_gp := r_gp r |},
                              filter (fun n => negb (n =? memoize (a_fp_name a))) v)
              end
          end
      end
  | _ => None
  end.

(* ---- arbitrary STACK CFI text: C06's walk_frame_cfi over the real CfiStackWalker ---------------
   [regnames] = CpuContext::REGISTERS of the context type, [lrname] = the canonical name of the link
   register slot of this model's [regs] (none on x86/amd64).  The registers other than ip/sp/fp/lr live
   in [r_gp], in REGISTERS order. *)
Variable regnames : list Z.
Variable lrname : option Z.

Definition fp_canon : Z := memoize (a_fp_name a).
Definition special_names : list Z :=
  [a_cfi_ip_name a; a_cfi_sp_name a; fp_canon] ++ match lrname with Some l => [l] | None => [] end.
Definition gp_names : list Z := filter (fun n => negb (memb n special_names)) regnames.

Fixpoint index_of (n : Z) (l : list Z) (i : nat) : option nat :=
  match l with [] => None | x :: t => if x =? n then Some i else index_of n t (S i) end.
Definition slot_value (r : regs) (n : Z) : Z :=
  if n =? a_cfi_ip_name a then r_ip r
  else if n =? a_cfi_sp_name a then r_sp r
  else if n =? fp_canon then r_fp r
  else if (match lrname with Some l => n =? l | None => false end) then r_lr r
  else match index_of n gp_names 0 with Some i => nth i (r_gp r) 0 | None => 0 end.

Definition arch6 : C06.Model.arch :=
  C06.Model.mkArch (a_pw a) (map bytes_of_name regnames)
    (map (fun pr => (bytes_of_name (fst pr), bytes_of_name (snd pr))) (a_aliases a))
    (bytes_of_name (a_cfi_sp_name a)) (bytes_of_name (a_cfi_ip_name a)) [].

Definition cfi_text (callee : frame) (gc : option frame) (fwd : list Z) : option (regs * list Z) :=
  match mod_of (f_instr callee) with
  | Some (b, _, Some s) =>
      match s_text s with
      | None => None
      | Some (init, deltas) =>
          if f_instr callee <? b then None else
          let addr := f_instr callee - b in
          let r := f_regs callee in
          let E := C06.Model.mkEnv
                     (fun nb => match C06.Model.memoize arch6 nb with
                                | None => None
                                | Some cb => if reg_valid a (name_of_bytes nb) (f_valid callee)
                                             then Some (view a (slot_value r (name_of_bytes cb))) else None
                                end)
                     (fun ptr => read mem (a_pw a) ptr)
                     (f_instr callee) (match gc with Some _ => true | None => false end) 0 in
          let st0 := C06.Model.mkR (fun nb => slot_value r (name_of_bytes nb)) (fun nb => memb (name_of_bytes nb) fwd) in
          match C06.Model.walk_frame_cfi (C06.Model.real_ops arch6) Debug E
                  (C06.Model.mkCfi (s_cfi_lo s, init) (s_cfi_size s) deltas) addr st0 with
          | Ret (Some st) =>
              let get := fun n => C06.Model.r_ctx st (bytes_of_name n) in
              Some ({| r_ip := get (a_cfi_ip_name a); r_sp := get (a_cfi_sp_name a); r_fp := get fp_canon;
                       r_lr := match lrname with Some l => get l | None => r_lr r end;
                       r_gp := map get gp_names |},
                    filter (fun n => C06.Model.r_valid st (bytes_of_name n)) regnames)
          | _ => None
          end
      end
  | _ => None
  end.

(* StackFrame::parameter_size of a frame = what fill_symbol set when the frame was symbolicated *)
Definition frame_param_size (f : frame) : Z :=
  match mod_of (f_instr f) with
  | Some (b, _, Some s) =>
      match s_table s with
      | Some t => if f_instr f <? b then 0 else match table_fill t (f_instr f - b) with Some ps => ps | None => 0 end
      | None => 0
      end
  | _ => 0
  end.

(* whole symbol files: SymbolFile::walk_frame (STACK WIN frame data > FPO > STACK CFI) as C07/Text.v models it *)
Definition cfi_table (callee : frame) (gc : option frame) (fwd : list Z) : option (regs * list Z) :=
  match mod_of (f_instr callee) with
  | Some (b, _, Some s) =>
      match s_table s with
      | None => None
      | Some t =>
          if f_instr callee <? b then None else
          let r := f_regs callee in
          let E := C06.Model.mkEnv
                     (fun nb => match C06.Model.memoize arch6 nb with
                                | None => None
                                | Some cb => if reg_valid a (name_of_bytes nb) (f_valid callee)
                                             then Some (view a (slot_value r (name_of_bytes cb))) else None
                                end)
                     (fun ptr => read mem (a_pw a) ptr)
                     (f_instr callee - b) (match gc with Some _ => true | None => false end)
                     (match gc with Some g => frame_param_size g | None => 0 end) in
          let st0 := C06.Model.mkR (fun nb => slot_value r (name_of_bytes nb)) (fun nb => memb (name_of_bytes nb) fwd) in
          match C07.Text.walk_frame_table (C06.Model.real_ops arch6) Debug E t st0 with
          | Ret (Some st) =>
              let get := fun n => C06.Model.r_ctx st (bytes_of_name n) in
              Some ({| r_ip := get (a_cfi_ip_name a); r_sp := get (a_cfi_sp_name a); r_fp := get fp_canon;
                       r_lr := match lrname with Some l => get l | None => r_lr r end;
                       r_gp := map get gp_names |},
                    filter (fun n => C06.Model.r_valid st (bytes_of_name n)) regnames)
          | _ => None
          end
      end
  | _ => None
  end.

Definition cfi_any (callee : frame) (gc : option frame) (fwd : list Z) : option (regs * list Z) :=
  match mod_of (f_instr callee) with
  | Some (_, _, Some s) =>
      match s_table s with
      | Some _ => cfi_table callee gc fwd
      | None => match s_text s with Some _ => cfi_text callee gc fwd | None => cfi_family callee gc fwd end
      end
  | _ => None
  end.

Definition run_profile (fx : fixes) (p : profile) (os : Z) (fuel : nat) (r : regs) (v : validity) : outcome (list frame) :=
  walk_stack fx p a os mem d_module_at d_max_module_addr cfi_any d_instr_valid fuel r v.
(* the code as it is now: the walker whose end-of-get_caller_frame checks, stop guard and resolve() flavour are the
   ones regenerated from the Rust text (Gen/UnwindTail.v); c05_generated_walk_is_model: = run_profile current_code *)
Definition run_profile_gen (tail : tail_fn) (p : profile) (os : Z) (fuel : nat) (r : regs) (v : validity) : outcome (list frame) :=
  walk_stack_gen p a tail os mem d_module_at d_max_module_addr cfi_any d_instr_valid fuel r v.
End Case.

Definition arch_of (id : Z) : arch :=
  if id =? 0 then x86 else if id =? 1 then amd64 else if id =? 2 then arm
  else if id =? 3 then arm64 else if id =? 4 then mips32 else if id =? 5 then mips64
  else arm64.   (* 6 = arm64_old: same walker, other context struct in the harness *)

Definition registers_of (id : Z) : list Z :=
  if id =? 0 then x86_registers else if id =? 1 then amd64_registers else if id =? 2 then arm_registers
  else if (id =? 4) || (id =? 5) then mips_registers else arm64_registers.
Definition lrname_of (id : Z) : option Z :=
  if (id =? 0) || (id =? 1) then None
  else if (id =? 4) || (id =? 5) then Some 29281 (* ra *) else Some 27762 (* lr *).

Definition trust_code (t : trust) : Z :=
  match t with TNone => 0 | TScan => 1 | TCfiScan => 2 | TFramePointer => 3 | TCfi => 4 | TPreWalked => 5 | TContext => 6 end.

(* result: 0 = frames, 1 = panic, 2 = out of fuel *)
Definition run_case (fixed : bool) (debug : bool) (archid os : Z) (r : regs) (all_valid : bool) (names : list Z)
           (base : Z) (bytes : list Z) (mods : list modspec) (extra_fuel : Z) : Z * list frame :=
  let mem := {| m_base := base; m_bytes := bytes |} in
  let p := if debug then Debug else Release in
  let fuel := (fuel_for mem + Z.to_nat extra_fuel)%nat in
  let v := if all_valid then VAll else VSome names in
  match (if fixed
         then run_profile_gen (arch_of archid) mem mods (registers_of archid) (lrname_of archid) (tail_of archid) p os fuel r v
         else run_profile (arch_of archid) mem mods (registers_of archid) (lrname_of archid) code_before_fixes p os fuel r v) with
  | Ret fs => (0, fs)
  | Panic t => (1, [])
  | _ => (2, [])
  end.

Definition frame_module (mods : list modspec) (f : frame) : option Z := d_module_at mods (f_instr f).

(* StackFrame::function_base / function_name as fill_source_line_info leaves them (SymbolFile::fill_symbol:
   `self.functions.get(addr)` -> set_function(name, func.address + module.base_address, ..); the symbol files of the
   driver have no PUBLIC records): Some (absolute base, name).  T| files: C09's function table; S: / Y| files: their
   single `FUNC lo size 0 f` record. *)
Definition frame_function (mods : list modspec) (f : frame) : option (Z * C09.Grammar.rle) :=
  match mod_of mods (f_instr f) with
  | Some (b, _, Some s) =>
      if f_instr f <? b then None else
      let addr := f_instr f - b in
      match s_table s with
      | Some t =>
          match rm_get (C09.Grammar.t_funcs t) addr with
          | Some fn => Some (b + C09.Grammar.sf_addr fn, C09.Grammar.sf_name fn)
          | None => None
          end
      | None =>
          if (0 <? s_func_size s) && (s_func_lo s <=? addr) && (addr <? s_func_lo s + s_func_size s)
          then Some (b + s_func_lo s, [(102, 1)]) else None
      end
  | _ => None
  end.
