(* C05/Driver.v — entry point of the correspondence run (extracted to OCaml).
   Instantiates the oracles of C05/Model.v for the inputs the harness can build:
     * modules: MinidumpModuleList::from_modules = C08's build_indexed / rm_get;
     * symbols: per module either none, or a symbol file of the family
           MODULE Linux <cpu> 0 m<i>
           FUNC <func_lo> <func_size> 0 f                         (omitted when func_size = 0)
           STACK CFI INIT <cfi_lo> <cfi_size> .cfa: <SP> <cfa_off> + .ra: <RA> [<FP>: .cfa <fp_off> - ^]
       with <RA> = `.cfa <ra_arg> - ^` (ra_kind 0) or the constant `<ra_arg>` (ra_kind 1),
       <SP> = $esp / $rsp / sp, <FP> = $ebp / $rbp / r11 / x29 / fp.
     [cfi_family] below is the tiny evaluator of exactly this family against CfiStackWalker
     (breakpad-symbols walker.rs eval_cfi_expr: u64 wrapping arithmetic, `^` = read of one
     C::Register, set_cfa/set_ra/set_caller_register = C::Register::try_from). *)
From RM Require Import C08.Model C05.Model.
Open Scope Z_scope.

Record symrule := { s_func_lo : Z; s_func_size : Z; s_cfi_lo : Z; s_cfi_size : Z;
                    s_cfa_off : Z; s_ra_kind : Z; s_ra_arg : Z; s_fp_off : option Z }.

Definition modspec := (Z * Z * option symrule)%type.     (* base, size, symbols *)

Section Case.
Variable a : arch.
Variable mem : memory.
Variable mods : list modspec.

Definition mod_table : list (range * Z) :=
  match build_indexed (map (fun m => mk_range (fst (fst m)) (snd (fst m))) mods) with
  | Ret t => t
  | _ => []
  end.
Definition d_module_at (x : Z) : option Z := rm_get mod_table x.
Definition d_max_module_addr : Z :=
  match rev mod_table with
  | (_, idx) :: _ =>
      match nth_error mods (Z.to_nat idx) with
      | Some (b, s, _) => sat_add 64 b s
      | None => 0
      end
  | [] => 0
  end.

Definition mod_of (x : Z) : option modspec :=
  match d_module_at x with Some i => nth_error mods (Z.to_nat i) | None => None end.

(* lib.rs instruction_seems_valid_by_symbols *)
Definition d_instr_valid (x : Z) : bool :=
  let i := sat_sub x 1 in
  if i =? 0 then false
  else match mod_of i with
       | None => false
       | Some (b, _, None) => true
       | Some (b, _, Some s) =>
           let addr := i - b in
           (0 <? s_func_size s) && (s_func_lo s <=? addr) && (addr <? s_func_lo s + s_func_size s)
       end.

Definition memoize (n : Z) : Z :=
  match filter (fun pr => fst pr =? n) (a_aliases a) with (_, c) :: _ => c | [] => n end.
Definition add_name (n : Z) (l : list Z) : list Z := if memb n l then l else l ++ [n].
Definition fits (x : Z) : bool := x <? 2 ^ a_bits a.

Definition cfi_family (callee : frame) (gc : option frame) (fwd : list Z) : option (regs * list Z) :=
  match mod_of (f_instr callee) with
  | Some (b, _, Some s) =>
      if f_instr callee <? b then None else
      let addr := f_instr callee - b in
      if negb ((0 <? s_cfi_size s) && (s_cfi_lo s <=? addr) && (addr <? s_cfi_lo s + s_cfi_size s)) then None else
      if negb (reg_valid a (a_cfi_sp_name a) (f_valid callee)) then None else
      let sp := view a (r_sp (f_regs callee)) in
      let cfa := wrap64 (sp + s_cfa_off s) in
      match (if s_ra_kind s =? 0 then read mem (a_pw a) (wrap64 (cfa - s_ra_arg s)) else Some (wrap64 (s_ra_arg s))) with
      | None => None
      | Some ra =>
          if negb (fits cfa) then None else
          if negb (fits ra) then None else
          let v := add_name (a_cfi_ip_name a) (add_name (a_cfi_sp_name a) fwd) in
          let r := f_regs callee in
          match s_fp_off s with
          | None => Some ({| r_ip := ra; r_sp := cfa; r_fp := r_fp r; r_lr := r_lr r; r_gp := r_gp r |}, v)
          | Some off =>
              match read mem (a_pw a) (wrap64 (cfa - off)) with
              | Some fpv => Some ({| r_ip := ra; r_sp := cfa; r_fp := fpv; r_lr := r_lr r; r_gp := r_gp r |},
                                  add_name (memoize (a_fp_name a)) v)
              | None => Some ({| r_ip := ra; r_sp := cfa; r_fp := r_fp r; r_lr := r_lr r; r_gp := r_gp r |},
                              filter (fun n => negb (n =? memoize (a_fp_name a))) v)
              end
          end
      end
  | _ => None
  end.

Definition run_profile (fx : fixes) (p : profile) (os : Z) (fuel : nat) (r : regs) (v : validity) : outcome (list frame) :=
  walk_stack fx p a os mem d_module_at d_max_module_addr cfi_family d_instr_valid fuel r v.
End Case.

Definition arch_of (id : Z) : arch :=
  if id =? 0 then x86 else if id =? 1 then amd64 else if id =? 2 then arm
  else if id =? 3 then arm64 else if id =? 4 then mips32 else if id =? 5 then mips64
  else arm64.   (* 6 = arm64_old: same walker, other context struct in the harness *)

Definition trust_code (t : trust) : Z :=
  match t with TNone => 0 | TScan => 1 | TCfiScan => 2 | TFramePointer => 3 | TCfi => 4 | TPreWalked => 5 | TContext => 6 end.

(* result: 0 = frames, 1 = panic, 2 = out of fuel *)
Definition run_case (fixed : bool) (debug : bool) (archid os : Z) (r : regs) (all_valid : bool) (names : list Z)
           (base : Z) (bytes : list Z) (mods : list modspec) (extra_fuel : Z) : Z * list frame :=
  let mem := {| m_base := base; m_bytes := bytes |} in
  let fx := if fixed then current_code else code_before_fixes in
  match run_profile (arch_of archid) mem mods fx (if debug then Debug else Release) os
                    (fuel_for mem + Z.to_nat extra_fuel)%nat r (if all_valid then VAll else VSome names) with
  | Ret fs => (0, fs)
  | Panic t => (1, [])
  | _ => (2, [])
  end.

Definition frame_module (mods : list modspec) (f : frame) : option Z := d_module_at mods (f_instr f).
