(* C05/ProofsModules.v — the module lookup the driver uses (C08's range map over the module list)
   meets the contract of the [module_at] oracle: a frame's module covers its instruction. *)
From Coq Require Import Lia ZArith List Bool.
From RM Require Import C08.Model C08.Proofs C05.Model C05.Driver.
Import ListNotations.
Open Scope Z_scope.

Lemma enumerate_in : forall {A} (l : list A) (i0 : Z) x i, In (x, i) (enumerate_from i0 l) ->
  i0 <= i /\ nth_error l (Z.to_nat (i - i0)) = Some x.
Proof.
  intros A l. induction l as [|a t IH]; intros i0 x i H; cbn [enumerate_from] in H; [contradiction|].
  destruct H as [H|H].
  - inversion H; subst. split; [lia|]. replace (i - i) with 0 by lia. reflexivity.
  - apply IH in H. destruct H as [H1 H2]. split; [lia|].
    replace (Z.to_nat (i - i0)) with (S (Z.to_nat (i - (i0 + 1)))) by lia. exact H2.
Qed.

Definition mods_wf (mods : list modspec) : Prop :=
  Forall (fun m => 0 <= fst (fst m) /\ 0 <= snd (fst m)) mods.

Lemma ranges_wf : forall mods i0, mods_wf mods ->
  wf_entries (enumerate_from i0 (map (fun m : modspec => mk_range (fst (fst m)) (snd (fst m))) mods)).
Proof.
  induction mods as [|m t IH]; intros i0 H; cbn [map enumerate_from]; [constructor|].
  inversion H as [|? ? [Hb Hs] Ht]; subst. constructor; [|apply IH; assumption].
  cbn [fst]. destruct (mk_range (fst (fst m)) (snd (fst m))) eqn:E; [|exact I].
  eapply mk_range_wf; [exact Hb | exact Hs | exact E].
Qed.

Lemma module_at_covers : forall mods x i, mods_wf mods ->
  d_module_at mods x = Some i ->
  exists b s y, nth_error mods (Z.to_nat i) = Some (b, s, y) /\ b <= x < b + s.
Proof.
  intros mods x i Hwf H. unfold d_module_at, mod_table, build_indexed in H.
  pose proof (ranges_wf mods 0 Hwf) as Hr. unfold modspec in *.
  rewrite (build_total Z.eqb _ Hr) in H.
  destruct (lookup_sound Z.eqb Z.eqb_eq _ x i Hr H) as [r [Hin Hc]].
  apply enumerate_in in Hin. destruct Hin as [Hi Hn]. rewrite Z.sub_0_r in Hn.
  rewrite nth_error_map in Hn.
  destruct (nth_error mods (Z.to_nat i)) as [[[b s] y]|] eqn:E; [|discriminate].
  cbn [option_map fst snd] in Hn. inversion Hn as [Hm]; clear Hn.
  exists b, s, y. split; [reflexivity|].
  unfold mk_range in Hm. destruct (s =? 0); [discriminate|].
  destruct (checked_add 64 b s) as [e|] eqn:Ec; [|discriminate]. inversion Hm; subst r; clear Hm.
  unfold checked_add in Ec. destruct (b + s <? 2 ^ 64); inversion Ec; subst e.
  unfold contains in Hc. cbn [fst snd] in Hc. apply andb_prop in Hc. destruct Hc as [H1 H2].
  apply Z.leb_le in H1. apply Z.leb_le in H2. lia.
Qed.
